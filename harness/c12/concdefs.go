package main

// Part "conc" – per-container definitions: op generators, executors and the sequential
// porcupine models (the same abstract models the sequential part uses, written as step
// functions). Only containers that take their own lock in every exported method are here:
// ShrinkingMap, RandomMap, Queue, RingBuffer, thread-safe Stack, PriorityQueue,
// timed.PriorityQueue, BytesFilter, TimeHeap, IndexedStorage, SubscriptionManager, and
// OnChangeMap without its (unsynchronised) CallbacksEnabled switch. Walker and the simple
// stack have no internal synchronisation and are never driven concurrently.

import (
	"fmt"
	"math"
	"runtime"
	"sort"
	"strconv"
	"strings"
	"sync"
	"sync/atomic"
	"time"

	"github.com/anishathalye/porcupine"

	"github.com/iotaledger/hive.go/core/memstorage"
	"github.com/iotaledger/hive.go/ds/bytesfilter"
	"github.com/iotaledger/hive.go/ds/onchangemap"
	"github.com/iotaledger/hive.go/ds/priorityqueue"
	"github.com/iotaledger/hive.go/ds/queue"
	"github.com/iotaledger/hive.go/ds/randommap"
	"github.com/iotaledger/hive.go/ds/ringbuffer"
	"github.com/iotaledger/hive.go/ds/shrinkingmap"
	"github.com/iotaledger/hive.go/ds/stack"
	"github.com/iotaledger/hive.go/ds/timeheap"
	"github.com/iotaledger/hive.go/runtime/options"
	"github.com/iotaledger/hive.go/runtime/timed"
	"github.com/iotaledger/hive.go/web/subscriptionmanager"
)

// cop is one recorded operation: inputs (Op,K,A,B), outputs (OK,Out,Seen,SeenOK,Outs) and the
// call/return stamps taken at the client boundary.
type cop struct {
	C      int    `json:"c"`
	Op     string `json:"op"`
	K      int    `json:"k"`
	A      int    `json:"a,omitempty"`
	B      int    `json:"b,omitempty"`
	OK     bool   `json:"ok,omitempty"`
	Out    int    `json:"out,omitempty"`
	Seen   int    `json:"seen,omitempty"`
	SeenOK bool   `json:"seen_ok,omitempty"`
	Outs   []int  `json:"outs,omitempty"`
	Y      bool   `json:"y,omitempty"`   // the operation's callback (if it has one) yields the processor once, typically while the container's lock is held
	Bad    string `json:"bad,omitempty"` // a malformed result detected while executing (duplicates in a snapshot, ...)
	Call   int64  `json:"call"`
	Ret    int64  `json:"ret"`
}

func (o cop) String() string {
	s := fmt.Sprintf("c%d %s(k=%d,a=%d,b=%d)", o.C, o.Op, o.K, o.A, o.B)
	s += fmt.Sprintf(" -> ok=%v out=%d", o.OK, o.Out)
	if o.Outs != nil {
		s += fmt.Sprintf(" outs=%v", o.Outs)
	}
	return s + fmt.Sprintf(" [%d,%d]", o.Call, o.Ret)
}

type concInst interface {
	gen(r *rng, uniq int) cop      // draw one operation; uniq is a history-unique value in 1..999
	do(o *cop)                     // execute (called concurrently)
	final() []cop                  // operations the driver runs sequentially after quiescence (part of the history)
	extra() (symptom, what string) // further quiescent checks (callback/event folds, untouched entries)
}

type concDef struct {
	name       string // "<container>" or "<container>/<flavour>"
	configs    []string
	gmin, gmax int // goroutines
	nmin, nmax int // operations per goroutine
	setup      int // up to this many sequential operations before the goroutines start
	mk         func(cfg string) concInst
	model      func(cfg string) porcupine.Model
}

var concDefs []*concDef

type wop struct {
	n string
	w int
}

func pickOp(r *rng, t []wop) string {
	tot := 0
	for _, e := range t {
		tot += e.w
	}
	k := r.n(tot)
	for _, e := range t {
		if k < e.w {
			return e.n
		}
		k -= e.w
	}
	return t[0].n
}

func cfgInt(cfg, key string, def int) int {
	for _, kv := range strings.Split(cfg, ",") {
		if strings.HasPrefix(kv, key+"=") {
			n, err := strconv.Atoi(kv[len(key)+1:])
			if err == nil {
				return n
			}
		}
	}
	return def
}

func cfgFloat(cfg, key string, def float64) float64 {
	for _, kv := range strings.Split(cfg, ",") {
		if strings.HasPrefix(kv, key+"=") {
			f, err := strconv.ParseFloat(kv[len(key)+1:], 32)
			if err == nil {
				return f
			}
		}
	}
	return def
}

func partitionByK(history []porcupine.Operation) [][]porcupine.Operation {
	m := map[int][]porcupine.Operation{}
	var keys []int
	for _, o := range history {
		k := o.Input.(cop).K
		if _, ok := m[k]; !ok {
			keys = append(keys, k)
		}
		m[k] = append(m[k], o)
	}
	sort.Ints(keys)
	out := make([][]porcupine.Operation, 0, len(keys))
	for _, k := range keys {
		out = append(out, m[k])
	}
	return out
}

func describeCop(in, _ any) string { return in.(cop).String() }

func yield(y bool) {
	if y {
		runtime.Gosched()
	}
}

// ------------------------------------------------------------------ keyed stores (ShrinkingMap, RandomMap, OnChangeMap)

const kvKeys = 6

// kvState: value per key, 0 = absent (all written values are positive and unique per history).
type kvState [kvKeys]int

func (s kvState) size() (n int) {
	for _, v := range s {
		if v != 0 {
			n++
		}
	}
	return
}

func (s kvState) flat() []int {
	out := []int{}
	for k, v := range s {
		if v != 0 {
			out = append(out, k, v)
		}
	}
	return out
}

func (s kvState) keys() []int {
	out := []int{}
	for k, v := range s {
		if v != 0 {
			out = append(out, k)
		}
	}
	return out
}

func (s kvState) vals() []int {
	out := []int{}
	for _, v := range s {
		if v != 0 {
			out = append(out, v)
		}
	}
	sort.Ints(out)
	return out
}

func flatMap(m map[int]int) []int {
	ks := make([]int, 0, len(m))
	for k := range m {
		ks = append(ks, k)
	}
	sort.Ints(ks)
	out := make([]int, 0, 2*len(ks))
	for _, k := range ks {
		out = append(out, k, m[k])
	}
	return out
}

// kvStep is the plain-map model shared by the keyed stores. Every operation is one atomic step.
func kvStep(st, in, _ any) (bool, any) {
	s, o := st.(kvState), in.(cop)
	if o.Bad != "" {
		return false, s
	}
	k := o.K
	cur := 0
	if k >= 0 && k < kvKeys {
		cur = s[k]
	}
	has := cur != 0
	switch o.Op {
	case "Set": // ShrinkingMap: OK = created
		s[k] = o.A
		return o.OK == !has, s
	case "Put": // RandomMap.Set: no result
		s[k] = o.A
		return true, s
	case "Get":
		return o.OK == has && (!has || o.Out == cur), s
	case "Has":
		return o.OK == has, s
	case "GetOrCreate":
		if has {
			return !o.OK && o.Out == cur, s
		}
		s[k] = o.A
		return o.OK && o.Out == o.A, s
	case "Compute":
		s[k] = o.A
		return o.SeenOK == has && (!has || o.Seen == cur) && o.Out == o.A, s
	case "Delete":
		s[k] = 0
		return o.OK == has, s
	case "DeleteCond":
		want := has && o.B == 1
		if want {
			s[k] = 0
		}
		return o.OK == want, s
	case "DeleteAndReturn", "Remove": // Remove = RandomMap.Delete
		s[k] = 0
		return o.OK == has && (!has || o.Out == cur), s
	case "Shrink":
		return true, s
	case "Pop": // K is an output here
		if !o.OK {
			return s.size() == 0, s
		}
		if k < 0 || k >= kvKeys || !has || o.Out != cur {
			return false, s
		}
		s[k] = 0
		return true, s
	case "Clear":
		return true, kvState{}
	case "Size":
		return o.Out == s.size(), s
	case "IsEmpty":
		return o.OK == (s.size() == 0), s
	case "Keys", "ForEachKey":
		return eqInts(sortedInts(o.Outs), s.keys()), s
	case "Values":
		return eqInts(sortedInts(o.Outs), s.vals()), s
	case "AsMap", "ForEach", "All":
		return eqInts(o.Outs, s.flat()), s
	case "ForEachAbort": // A = callbacks allowed; Outs = visited entries (flat)
		want := o.A
		if n := s.size(); n < want {
			want = n
		}
		if len(o.Outs) != 2*want {
			return false, s
		}
		for i := 0; i+1 < len(o.Outs); i += 2 {
			kk, vv := o.Outs[i], o.Outs[i+1]
			if kk < 0 || kk >= kvKeys || s[kk] != vv || vv == 0 {
				return false, s
			}
		}
		return true, s
	case "RandomKey":
		if !o.OK {
			return s.size() == 0, s
		}
		return o.Out >= 0 && o.Out < kvKeys && s[o.Out] != 0, s
	case "RandomEntry":
		if !o.OK {
			return s.size() == 0, s
		}
		for _, v := range s {
			if v == o.Out {
				return true, s
			}
		}
		return false, s
	case "RandomUnique": // A = n; Outs = values
		want := o.A
		if n := s.size(); n < want {
			want = n
		}
		if want < 0 {
			want = 0
		}
		if len(o.Outs) != want {
			return false, s
		}
		seen := map[int]bool{}
		for _, v := range o.Outs {
			if seen[v] || v == 0 {
				return false, s
			}
			seen[v] = true
			in := false
			for _, sv := range s {
				in = in || sv == v
			}
			if !in {
				return false, s
			}
		}
		return true, s
	// ---- OnChangeMap
	case "Add":
		if !has {
			s[k] = o.A
		}
		return o.OK == !has, s
	case "Modify": // A = new value, B = 1 when the callback accepts; Seen = value the callback saw; Out = value of the returned copy
		if !has {
			return !o.OK, s
		}
		if !o.OK || !o.SeenOK || o.Seen != cur {
			return false, s
		}
		if o.B == 1 {
			s[k] = o.A
			return o.Out == o.A, s
		}
		return o.Out == cur, s
	case "Erase": // OnChangeMap.Delete
		s[k] = 0
		return o.OK == has, s
	}
	return false, s
}

func kvModel(partition bool) porcupine.Model {
	m := porcupine.Model{Init: func() any { return kvState{} }, Step: kvStep, DescribeOperation: describeCop}
	if partition {
		m.Partition = partitionByK
	}
	return m
}

// ---- ShrinkingMap

const smBallastBase = 1000

type smConc struct {
	m       *shrinkingmap.ShrinkingMap[int, int]
	whole   bool
	ballast int
	keys    int
}

var smKeyedOps = []wop{{"Set", 10}, {"Get", 4}, {"Has", 2}, {"GetOrCreate", 4}, {"Compute", 4}, {"Delete", 6}, {"DeleteCond", 3}, {"DeleteAndReturn", 4}, {"Shrink", 5}}
var smWholeOps = []wop{{"Set", 9}, {"Get", 2}, {"GetOrCreate", 3}, {"Compute", 3}, {"Delete", 4}, {"DeleteAndReturn", 3}, {"Shrink", 3},
	{"Pop", 3}, {"Clear", 1}, {"Size", 2}, {"IsEmpty", 1}, {"Keys", 2}, {"Values", 1}, {"AsMap", 2}, {"ForEach", 2}, {"ForEachKey", 1}, {"ForEachAbort", 1}}

func (x *smConc) gen(r *rng, u int) cop {
	o := cop{K: r.n(x.keys), A: u}
	if x.whole {
		o.Op = pickOp(r, smWholeOps)
	} else {
		o.Op = pickOp(r, smKeyedOps)
	}
	switch o.Op {
	case "DeleteCond":
		o.B = r.n(2)
	case "ForEachAbort":
		o.K, o.A = -1, 1+r.n(3)
	case "Shrink", "Pop", "Clear", "Size", "IsEmpty", "Keys", "Values", "AsMap", "ForEach", "ForEachKey":
		o.K = -1
	}
	return o
}

func (x *smConc) do(o *cop) {
	m := x.m
	switch o.Op {
	case "Set":
		o.OK = m.Set(o.K, o.A)
	case "Get":
		o.Out, o.OK = m.Get(o.K)
	case "Has":
		o.OK = m.Has(o.K)
	case "GetOrCreate":
		a, y := o.A, o.Y
		o.Out, o.OK = m.GetOrCreate(o.K, func() int { yield(y); return a })
	case "Compute":
		a, y := o.A, o.Y
		seen, seenOK := 0, false
		o.Out = m.Compute(o.K, func(c int, exists bool) int { seen, seenOK = c, exists; yield(y); return a })
		o.Seen, o.SeenOK = seen, seenOK
	case "Delete":
		o.OK = m.Delete(o.K)
	case "DeleteCond":
		b, y := o.B == 1, o.Y
		o.OK = m.Delete(o.K, func() bool { yield(y); return b })
	case "DeleteAndReturn":
		o.Out, o.OK = m.DeleteAndReturn(o.K)
	case "Shrink":
		m.Shrink()
	case "Pop":
		o.K, o.Out, o.OK = m.Pop()
		if !o.OK {
			o.K = -1
		}
	case "Clear":
		m.Clear()
	case "Size":
		o.Out = m.Size()
	case "IsEmpty":
		o.OK = m.IsEmpty()
	case "Keys":
		o.Outs = append([]int{}, m.Keys()...)
	case "Values":
		o.Outs = append([]int{}, m.Values()...)
	case "AsMap":
		o.Outs = flatMap(m.AsMap())
	case "ForEach":
		got := map[int]int{}
		n := 0
		m.ForEach(func(k, v int) bool { got[k] = v; n++; return true })
		if n != len(got) {
			o.Bad = "ForEach visited a key twice"
		}
		o.Outs = flatMap(got)
	case "ForEachKey":
		o.Outs = []int{}
		m.ForEachKey(func(k int) bool { o.Outs = append(o.Outs, k); return true })
	case "ForEachAbort":
		lim, n := o.A, 0
		o.Outs = []int{}
		m.ForEach(func(k, v int) bool { o.Outs = append(o.Outs, k, v); n++; return n < lim })
	}
}

func (x *smConc) final() []cop {
	if x.whole {
		return []cop{{Op: "Size", K: -1}, {Op: "AsMap", K: -1}, {Op: "Keys", K: -1}}
	}
	out := []cop{}
	for k := 0; k < x.keys; k++ {
		out = append(out, cop{Op: "Get", K: k})
	}
	return out
}

func (x *smConc) extra() (string, string) {
	am := x.m.AsMap()
	nb := 0
	for k, v := range am {
		switch {
		case k >= smBallastBase && k < smBallastBase+x.ballast:
			nb++
			if v != k+7 {
				return "untouched-entry-changed", fmt.Sprintf("entry %d that no operation touched has value %d instead of %d", k, v, k+7)
			}
		case k < 0 || k >= x.keys:
			return "unknown-key", fmt.Sprintf("at quiescence the map holds key %d that nobody wrote", k)
		}
	}
	if nb != x.ballast {
		return "untouched-entry-lost", fmt.Sprintf("%d of %d entries that no operation touched are missing at quiescence", x.ballast-nb, x.ballast)
	}
	if !x.whole { // the final Get()s (judged by the model) and the snapshot describe the same quiescent state
		for k := 0; k < x.keys; k++ {
			g, ok := x.m.Get(k)
			v, in := am[k]
			if ok != in || g != v {
				return "quiescent-readers-disagree", fmt.Sprintf("at quiescence Get(%d) = (%d,%v) but AsMap has (%d,%v)", k, g, ok, v, in)
			}
		}
		if s := x.m.Size(); s != len(am) {
			return "quiescent-readers-disagree", fmt.Sprintf("at quiescence Size() = %d but AsMap has %d entries", s, len(am))
		}
	}
	return "", ""
}

func smConfigs(ballast bool) []string {
	var cfgs []string
	for _, r := range []string{"0", "0.5", "10"} {
		for _, n := range []string{"0", "1", "3"} {
			cfgs = append(cfgs, "ratio="+r+",count="+n)
			if ballast {
				cfgs = append(cfgs, "ratio="+r+",count="+n+",ballast=3000")
			}
		}
	}
	return cfgs
}

func mkSM(whole bool) func(cfg string) concInst {
	return func(cfg string) concInst {
		x := &smConc{whole: whole, ballast: cfgInt(cfg, "ballast", 0), keys: kvKeys}
		if whole {
			x.keys = 4
		}
		x.m = shrinkingmap.New[int, int](shrinkingmap.WithShrinkingThresholdRatio(float32(cfgFloat(cfg, "ratio", 0))), shrinkingmap.WithShrinkingThresholdCount(cfgInt(cfg, "count", 0)))
		for i := 0; i < x.ballast; i++ {
			x.m.Set(smBallastBase+i, smBallastBase+i+7)
		}
		return x
	}
}

// ---- RandomMap

type rmConc struct {
	m     *randommap.RandomMap[int, int]
	whole bool
	keys  int
}

var rmKeyedOps = []wop{{"Put", 10}, {"Get", 4}, {"Has", 2}, {"Remove", 7}}
var rmWholeOps = []wop{{"Put", 9}, {"Get", 1}, {"Remove", 5}, {"Size", 2}, {"ForEach", 2}, {"Keys", 2}, {"Values", 2}, {"RandomKey", 3}, {"RandomEntry", 3}, {"RandomUnique", 3}}

func (x *rmConc) gen(r *rng, u int) cop {
	o := cop{K: r.n(x.keys), A: u}
	if x.whole {
		o.Op = pickOp(r, rmWholeOps)
	} else {
		o.Op = pickOp(r, rmKeyedOps)
	}
	switch o.Op {
	case "RandomUnique":
		o.K, o.A = -1, r.n(5)
	case "Size", "ForEach", "Keys", "Values", "RandomKey", "RandomEntry":
		o.K = -1
	}
	return o
}

func (x *rmConc) do(o *cop) {
	m := x.m
	switch o.Op {
	case "Put":
		m.Set(o.K, o.A)
	case "Get":
		o.Out, o.OK = m.Get(o.K)
	case "Has":
		o.OK = m.Has(o.K)
	case "Remove":
		o.Out, o.OK = m.Delete(o.K)
	case "Size":
		o.Out = m.Size()
	case "ForEach":
		got := map[int]int{}
		n, y := 0, o.Y
		m.ForEach(func(k, v int) bool { got[k] = v; n++; yield(y); return true })
		if n != len(got) {
			o.Bad = "ForEach visited a key twice"
		}
		o.Outs = flatMap(got)
	case "Keys":
		o.Outs = append([]int{}, m.Keys()...)
	case "Values":
		o.Outs = append([]int{}, m.Values()...)
	case "RandomKey":
		o.Out, o.OK = m.RandomKey()
	case "RandomEntry":
		o.Out, o.OK = m.RandomEntry()
	case "RandomUnique":
		o.Outs = append([]int{}, m.RandomUniqueEntries(o.A)...)
	}
}

func (x *rmConc) final() []cop {
	if x.whole {
		return []cop{{Op: "Size", K: -1}, {Op: "ForEach", K: -1}, {Op: "Keys", K: -1}, {Op: "Values", K: -1}, {Op: "RandomUnique", K: -1, A: 9}}
	}
	out := []cop{}
	for k := 0; k < x.keys; k++ {
		out = append(out, cop{Op: "Get", K: k})
	}
	return out
}

func (x *rmConc) extra() (string, string) {
	// the key slice and the map describe the same set at quiescence
	ks := sortedInts(x.m.Keys())
	got := map[int]int{}
	x.m.ForEach(func(k, v int) bool { got[k] = v; return true })
	if !eqInts(ks, mapKeys(got)) {
		return "keys-and-entries-disagree", fmt.Sprintf("at quiescence Keys() = %v but ForEach visits %v", ks, mapKeys(got))
	}
	if s := x.m.Size(); s != len(ks) {
		return "keys-and-entries-disagree", fmt.Sprintf("at quiescence Size() = %d but Keys() = %v", s, ks)
	}
	for _, k := range ks {
		if k < 0 || k >= x.keys {
			return "unknown-key", fmt.Sprintf("at quiescence the map holds key %d that nobody wrote", k)
		}
	}
	for i := 0; i < 2*len(ks); i++ { // random picks at quiescence are members
		if k, ok := x.m.RandomKey(); !ok || !x.m.Has(k) {
			return "random-pick-non-member", fmt.Sprintf("at quiescence RandomKey() = (%d,%v), keys %v", k, ok, ks)
		}
	}
	return "", ""
}

// ---- OnChangeMap (CallbacksEnabled is an unsynchronised setter: it is called once before the goroutines start)

type ocConc struct {
	m                                *onchangemap.OnChangeMap[int, ocID, *ocItem]
	enabled                          bool
	added, modified, deleted, change atomic.Int64
	okAdd, okMod, okDel              atomic.Int64
	wrongItem                        atomic.Int64
}

var ocOps = []wop{{"Add", 8}, {"Modify", 7}, {"Erase", 5}, {"Get", 3}, {"All", 2}}

func (x *ocConc) gen(r *rng, u int) cop {
	o := cop{K: r.n(4), A: u, Op: pickOp(r, ocOps)}
	switch o.Op {
	case "Modify":
		o.B = 1
		if r.n(4) == 0 {
			o.B = 0
		}
	case "All":
		o.K = -1
	}
	return o
}

func (x *ocConc) do(o *cop) {
	switch o.Op {
	case "Add":
		o.OK = x.m.Add(&ocItem{id: ocID(o.K), val: o.A}) == nil
		if o.OK {
			x.okAdd.Add(1)
		}
	case "Modify":
		a, accept, y := o.A, o.B == 1, o.Y
		seen, seenOK := 0, false
		it, err := x.m.Modify(ocID(o.K), func(item *ocItem) bool {
			seen, seenOK = item.val, true
			yield(y)
			if accept {
				item.val = a
			}
			return accept
		})
		o.OK, o.Seen, o.SeenOK = err == nil, seen, seenOK
		if err == nil && it != nil {
			o.Out = it.val
			if int(it.id) != o.K {
				o.Bad = "Modify returned another item"
			}
		}
		if o.OK && accept {
			x.okMod.Add(1)
		}
	case "Erase":
		o.OK = x.m.Delete(ocID(o.K)) == nil
		if o.OK {
			x.okDel.Add(1)
		}
	case "Get":
		it, err := x.m.Get(ocID(o.K))
		o.OK = err == nil
		if err == nil && it != nil {
			o.Out = it.val
		}
	case "All":
		all := x.m.All()
		got := map[int]int{}
		for k, it := range all {
			got[k] = it.val
			if int(it.id) != k {
				o.Bad = "All() maps a key to another item"
			}
		}
		o.Outs = flatMap(got)
	}
}

func (x *ocConc) final() []cop {
	return []cop{{Op: "All", K: -1}, {Op: "Get", K: 0}, {Op: "Get", K: 1}, {Op: "Get", K: 2}, {Op: "Get", K: 3}}
}

func (x *ocConc) extra() (string, string) {
	wa, wm, wd := x.okAdd.Load(), x.okMod.Load(), x.okDel.Load()
	if !x.enabled {
		wa, wm, wd = 0, 0, 0
	}
	if a, m, d := x.added.Load(), x.modified.Load(), x.deleted.Load(); a != wa || m != wm || d != wd {
		return "callbacks-do-not-mirror-changes", fmt.Sprintf("item callbacks added/modified/deleted = %d/%d/%d, successful changes = %d/%d/%d (callbacks enabled: %v)", a, m, d, wa, wm, wd, x.enabled)
	}
	if ch := x.change.Load(); ch != wa+wm+wd {
		return "changed-callback-does-not-mirror-changes", fmt.Sprintf("changed callback ran %d times for %d successful changes (callbacks enabled: %v)", ch, wa+wm+wd, x.enabled)
	}
	if x.wrongItem.Load() != 0 {
		return "callback-wrong-item", "an item callback received a nil item"
	}
	return "", ""
}

func mkOC(cfg string) concInst {
	x := &ocConc{enabled: strings.Contains(cfg, "cb=on")}
	type opt = options.Option[onchangemap.OnChangeMap[int, ocID, *ocItem]]
	count := func(ctr *atomic.Int64) func(*ocItem) error {
		return func(it *ocItem) error {
			if it == nil {
				x.wrongItem.Add(1)
			}
			ctr.Add(1)
			return nil
		}
	}
	opts := []opt{
		onchangemap.WithChangedCallback[int, ocID](func([]*ocItem) error { x.change.Add(1); return nil }),
		onchangemap.WithItemAddedCallback[int, ocID](count(&x.added)),
		onchangemap.WithItemModifiedCallback[int, ocID](count(&x.modified)),
		onchangemap.WithItemDeletedCallback[int, ocID](count(&x.deleted)),
	}
	x.m = onchangemap.NewOnChangeMap[int, ocID, *ocItem](opts...)
	if x.enabled {
		x.m.CallbacksEnabled(true)
	}
	return x
}

// ------------------------------------------------------------------ sequences (Queue, RingBuffer, Stack, BytesFilter)

const seqCap = 80

// seqState: n elements, e[0] = oldest.
type seqState struct {
	n int
	e [seqCap]int
}

func (s seqState) list() []int { return append([]int{}, s.e[:s.n]...) }
func (s seqState) push(v int) seqState {
	if s.n < seqCap {
		s.e[s.n] = v
		s.n++
	}
	return s
}
func (s seqState) dropOldest() seqState {
	copy(s.e[:], s.e[1:s.n])
	s.n--
	s.e[s.n] = 0
	return s
}
func (s seqState) has(v int) bool {
	for _, e := range s.e[:s.n] {
		if e == v {
			return true
		}
	}
	return false
}

func seqModel(capacity int) porcupine.Model {
	return porcupine.Model{
		Init:              func() any { return seqState{} },
		DescribeOperation: describeCop,
		Step: func(st, in, _ any) (bool, any) {
			s, o := st.(seqState), in.(cop)
			if o.Bad != "" {
				return false, s
			}
			switch o.Op {
			// ---- Queue
			case "Offer":
				if s.n == capacity {
					return !o.OK, s
				}
				return o.OK, s.push(o.A)
			case "ForceOffer": // OK = an element was evicted, Out = that element
				if s.n == capacity {
					old := s.e[0]
					return o.OK && o.Out == old, s.dropOldest().push(o.A)
				}
				return !o.OK, s.push(o.A)
			case "Poll":
				if s.n == 0 {
					return !o.OK, s
				}
				return o.OK && o.Out == s.e[0], s.dropOldest()
			case "Size":
				return o.Out == s.n, s
			case "Capacity":
				return o.Out == capacity, s
			// ---- RingBuffer
			case "RAdd":
				if s.n == capacity {
					s = s.dropOldest()
				}
				return o.OK, s.push(o.A)
			case "ToSlice": // newest first
				l := s.list()
				for i, j := 0, len(l)-1; i < j; i, j = i+1, j-1 {
					l[i], l[j] = l[j], l[i]
				}
				return eqInts(o.Outs, l), s
			// ---- Stack
			case "Push":
				return true, s.push(o.A)
			case "Pop":
				if s.n == 0 {
					return !o.OK, s
				}
				top := s.e[s.n-1]
				s.n--
				s.e[s.n] = 0
				return o.OK && o.Out == top, s
			case "Peek":
				if s.n == 0 {
					return !o.OK, s
				}
				return o.OK && o.Out == s.e[s.n-1], s
			case "Clear":
				return true, seqState{}
			case "IsEmpty":
				return o.OK == (s.n == 0), s
			// ---- BytesFilter (FIFO of the last `capacity` distinct identifiers)
			case "BFAdd", "BFAddIdentifier":
				if s.has(o.K) {
					return !o.OK, s
				}
				if s.n == capacity {
					s = s.dropOldest()
				}
				return o.OK, s.push(o.K)
			case "BFContains", "BFContainsIdentifier":
				return o.OK == s.has(o.K), s
			}
			return false, s
		},
	}
}

type seqConc struct {
	kind string
	cap  int
	q    *queue.Queue[int]
	rb   *ringbuffer.RingBuffer[int]
	st   stack.Stack[int]
	bf   *bytesfilter.BytesFilter[bfID]
}

var seqOps = map[string][]wop{
	"queue":       {{"Offer", 8}, {"ForceOffer", 6}, {"Poll", 8}, {"Size", 2}, {"Capacity", 1}},
	"ringbuffer":  {{"RAdd", 6}, {"ToSlice", 3}},
	"stack":       {{"Push", 9}, {"Pop", 7}, {"Peek", 3}, {"Clear", 1}, {"Size", 2}, {"IsEmpty", 1}},
	"bytesfilter": {{"BFAdd", 6}, {"BFAddIdentifier", 5}, {"BFContains", 2}, {"BFContainsIdentifier", 2}},
}

func (x *seqConc) gen(r *rng, u int) cop {
	o := cop{K: -1, A: u, Op: pickOp(r, seqOps[x.kind])}
	if x.kind == "bytesfilter" {
		o.K = r.n(x.cap + 3)
	}
	return o
}

func (x *seqConc) do(o *cop) {
	switch o.Op {
	case "Offer":
		o.OK = x.q.Offer(o.A)
	case "ForceOffer":
		o.Out, o.OK = x.q.ForceOffer(o.A)
	case "Poll":
		o.Out, o.OK = x.q.Poll()
	case "Capacity":
		o.Out = x.q.Capacity()
	case "Size":
		if x.kind == "queue" {
			o.Out = x.q.Size()
		} else {
			o.Out = x.st.Size()
		}
	case "RAdd":
		o.OK = x.rb.Add(o.A)
	case "ToSlice":
		o.Outs = append([]int{}, x.rb.ToSlice()...)
	case "Push":
		x.st.Push(o.A)
	case "Pop":
		o.Out, o.OK = x.st.Pop()
	case "Peek":
		o.Out, o.OK = x.st.Peek()
	case "Clear":
		x.st.Clear()
	case "IsEmpty":
		o.OK = x.st.IsEmpty()
	case "BFAdd":
		id, added := x.bf.Add(bfBytes(o.K))
		o.OK = added
		if id != bfIdent(bfBytes(o.K)) {
			o.Bad = "Add returned another identifier"
		}
	case "BFAddIdentifier":
		o.OK = x.bf.AddIdentifier(bfIdent(bfBytes(o.K)))
	case "BFContains":
		o.OK = x.bf.Contains(bfBytes(o.K))
	case "BFContainsIdentifier":
		o.OK = x.bf.ContainsIdentifier(bfIdent(bfBytes(o.K)))
	}
}

func (x *seqConc) final() []cop {
	out := []cop{}
	switch x.kind {
	case "queue":
		out = append(out, cop{Op: "Size", K: -1})
		for i := 0; i <= x.cap; i++ {
			out = append(out, cop{Op: "Poll", K: -1})
		}
	case "ringbuffer":
		out = append(out, cop{Op: "ToSlice", K: -1})
	case "stack":
		out = append(out, cop{Op: "Size", K: -1}, cop{Op: "Peek", K: -1})
		for i := 0; i < seqCap; i++ { // the driver stops after the first empty Pop
			out = append(out, cop{Op: "Pop", K: -1})
		}
	case "bytesfilter":
		for k := 0; k < x.cap+3; k++ {
			out = append(out, cop{Op: "BFContainsIdentifier", K: k})
		}
	}
	return out
}

func (x *seqConc) extra() (string, string) { return "", "" }

func mkSeq(kind string) func(cfg string) concInst {
	return func(cfg string) concInst {
		x := &seqConc{kind: kind, cap: cfgInt(cfg, "cap", 3)}
		switch kind {
		case "queue":
			x.q = queue.New[int](x.cap)
		case "ringbuffer":
			x.rb = ringbuffer.NewRingBuffer[int](x.cap)
		case "stack":
			x.st = stack.New[int](true)
		case "bytesfilter":
			x.bf = bytesfilter.New(bfIdent, x.cap)
		}
		return x
	}
}

// ------------------------------------------------------------------ priority queues

// element = prio*1000 + uniq; the state is the sorted list of elements, so e[0] has minimal priority.
func pqModel() porcupine.Model {
	prio := func(e int) int { return e / 1000 }
	remove := func(s seqState, v int) (seqState, bool) {
		for i := 0; i < s.n; i++ {
			if s.e[i] == v {
				copy(s.e[i:], s.e[i+1:s.n])
				s.n--
				s.e[s.n] = 0
				return s, true
			}
		}
		return s, false
	}
	insert := func(s seqState, v int) seqState {
		if s.n >= seqCap {
			return s
		}
		i := sort.SearchInts(s.e[:s.n], v)
		copy(s.e[i+1:s.n+1], s.e[i:s.n])
		s.e[i] = v
		s.n++
		return s
	}
	popList := func(s seqState, outs []int, limit int) (bool, seqState) { // outs must be exactly the elements with prio <= limit, in priority order
		want := 0
		for want < s.n && prio(s.e[want]) <= limit {
			want++
		}
		if len(outs) != want {
			return false, s
		}
		for i, v := range outs {
			if i > 0 && prio(outs[i-1]) > prio(v) {
				return false, s
			}
			if prio(v) > limit {
				return false, s
			}
			var ok bool
			if s, ok = remove(s, v); !ok {
				return false, s
			}
		}
		return true, s
	}
	return porcupine.Model{
		Init:              func() any { return seqState{} },
		DescribeOperation: describeCop,
		Step: func(st, in, _ any) (bool, any) {
			s, o := st.(seqState), in.(cop)
			switch o.Op {
			case "Push":
				return true, insert(s, o.A)
			case "Remove": // removal handle: idempotent
				s, _ = remove(s, o.A)
				return true, s
			case "Peek":
				if s.n == 0 {
					return !o.OK, s
				}
				return o.OK && s.has(o.Out) && prio(o.Out) == prio(s.e[0]), s
			case "Pop":
				if s.n == 0 {
					return !o.OK, s
				}
				if !o.OK || prio(o.Out) != prio(s.e[0]) {
					return false, s
				}
				s, ok := remove(s, o.Out)
				return ok, s
			case "PopUntil":
				return popList(s, o.Outs, o.A)
			case "PopAll":
				return popList(s, o.Outs, math.MaxInt32)
			case "Size":
				return o.Out == s.n, s
			case "IsEmpty":
				return o.OK == (s.n == 0), s
			}
			return false, s
		},
	}
}

type pqConc struct {
	timedKind string // "" plain, "asc", "desc"
	q         *priorityqueue.PriorityQueue[int, prioAsc]
	tq        timed.PriorityQueue[int]
	base      time.Time
	mine      [8][]int    // elements pushed per client (client-local, no sharing between goroutines)
	handles   [8][]func() // their removal handles
}

var pqOps = []wop{{"Push", 10}, {"Remove", 4}, {"Peek", 3}, {"Pop", 6}, {"PopUntil", 3}, {"PopAll", 1}, {"Size", 2}, {"IsEmpty", 1}}
var tpqOps = []wop{{"Push", 10}, {"Peek", 3}, {"Pop", 6}, {"PopUntil", 3}, {"PopAll", 1}, {"Size", 2}, {"IsEmpty", 1}}

func (x *pqConc) gen(r *rng, u int) cop {
	o := cop{K: -1}
	if x.timedKind == "" {
		o.Op = pickOp(r, pqOps)
	} else {
		o.Op = pickOp(r, tpqOps)
	}
	switch o.Op {
	case "Push":
		o.A = r.n(4)*1000 + u
	case "PopUntil":
		o.A = r.n(4)
	case "Remove":
		o.B = r.n(1 << 16) // which of the client's own earlier pushes
	}
	return o
}

func (x *pqConc) at(p int) time.Time {
	if x.timedKind == "desc" {
		return x.base.Add(-time.Duration(p) * time.Second)
	}
	return x.base.Add(time.Duration(p) * time.Second)
}

func (x *pqConc) do(o *cop) {
	switch o.Op {
	case "Push":
		if x.timedKind != "" {
			x.tq.Push(o.A, x.at(o.A/1000))
			return
		}
		h := x.q.Push(o.A, prioAsc(o.A/1000))
		if o.C >= 0 && o.C < len(x.mine) {
			x.mine[o.C] = append(x.mine[o.C], o.A)
			x.handles[o.C] = append(x.handles[o.C], h)
		}
	case "Remove":
		o.A = 0
		if o.C >= 0 && o.C < len(x.mine) && len(x.mine[o.C]) > 0 {
			i := o.B % len(x.mine[o.C])
			o.A = x.mine[o.C][i]
			x.handles[o.C][i]()
		}
	case "Peek":
		if x.timedKind != "" {
			o.Out, o.OK = x.tq.Peek()
		} else {
			o.Out, o.OK = x.q.Peek()
		}
	case "Pop":
		if x.timedKind != "" {
			o.Out, o.OK = x.tq.Pop()
		} else {
			o.Out, o.OK = x.q.Pop()
		}
	case "PopUntil":
		if x.timedKind != "" {
			o.Outs = append([]int{}, x.tq.PopUntil(x.at(o.A))...)
		} else {
			o.Outs = append([]int{}, x.q.PopUntil(prioAsc(o.A))...)
		}
	case "PopAll":
		if x.timedKind != "" {
			o.Outs = append([]int{}, x.tq.PopAll()...)
		} else {
			o.Outs = append([]int{}, x.q.PopAll()...)
		}
	case "Size":
		if x.timedKind != "" {
			o.Out = x.tq.Size()
		} else {
			o.Out = x.q.Size()
		}
	case "IsEmpty":
		if x.timedKind != "" {
			o.OK = x.tq.IsEmpty()
		} else {
			o.OK = x.q.IsEmpty()
		}
	}
}

func (x *pqConc) final() []cop {
	return []cop{{Op: "Size", K: -1}, {Op: "Peek", K: -1}, {Op: "Pop", K: -1}, {Op: "PopUntil", K: -1, A: 1}, {Op: "PopAll", K: -1}, {Op: "IsEmpty", K: -1}}
}

func (x *pqConc) extra() (string, string) { return "", "" }

func mkPQ(cfg string) concInst {
	x := &pqConc{base: time.Unix(1_700_000_000, 0)}
	switch {
	case strings.Contains(cfg, "timed=asc"):
		x.timedKind, x.tq = "asc", timed.NewPriorityQueue[int](true)
	case strings.Contains(cfg, "timed=desc"):
		x.timedKind, x.tq = "desc", timed.NewPriorityQueue[int]()
	default:
		x.q = priorityqueue.New[int, prioAsc]()
	}
	return x
}

// ------------------------------------------------------------------ TimeHeap (window 1 h: nothing expires)

type thConc struct{ h *timeheap.TimeHeap }

var thOps = []wop{{"Add", 10}, {"Sum", 5}, {"Clear", 2}}

func (x *thConc) gen(r *rng, u int) cop {
	return cop{K: -1, Op: pickOp(r, thOps), A: 1 + r.n(9)}
}

func (x *thConc) do(o *cop) {
	switch o.Op {
	case "Add":
		x.h.Add(uint64(o.A))
	case "Clear":
		x.h.Clear()
	case "Sum":
		o.Out = int(math.Round(float64(x.h.AveragePerSecond(time.Hour)) * 3600))
	}
}

func (x *thConc) final() []cop            { return []cop{{Op: "Sum", K: -1}} }
func (x *thConc) extra() (string, string) { return "", "" }

func thModel() porcupine.Model {
	return porcupine.Model{
		Init:              func() any { return 0 },
		DescribeOperation: describeCop,
		Step: func(st, in, _ any) (bool, any) {
			s, o := st.(int), in.(cop)
			switch o.Op {
			case "Add":
				return true, s + o.A
			case "Clear":
				return true, 0
			case "Sum":
				return o.Out == s, s
			}
			return false, s
		},
	}
}

// ------------------------------------------------------------------ IndexedStorage

const isConcIdx = 3

type isConc struct {
	m    *memstorage.IndexedStorage[isIndex, int, int]
	mu   sync.Mutex // harness-side interning of storage identities, taken after the library call returned
	ids  map[*shrinkingmap.ShrinkingMap[int, int]]int
	next int
}

func (x *isConc) id(p *shrinkingmap.ShrinkingMap[int, int]) int {
	if p == nil {
		return 0
	}
	x.mu.Lock()
	defer x.mu.Unlock()
	if i, ok := x.ids[p]; ok {
		return i
	}
	x.next++
	x.ids[p] = x.next
	return x.next
}

var isOps = []wop{{"GetCreate", 8}, {"GetNoCreate", 4}, {"Evict", 5}, {"ForEach", 2}, {"Clear", 1}}

func (x *isConc) gen(r *rng, u int) cop {
	o := cop{K: r.n(isConcIdx), Op: pickOp(r, isOps)}
	if o.Op == "ForEach" || o.Op == "Clear" {
		o.K = -1
	}
	return o
}

func (x *isConc) do(o *cop) {
	switch o.Op {
	case "GetCreate":
		o.Out = x.id(x.m.Get(isIndex(o.K), true))
	case "GetNoCreate":
		if o.C%2 == 0 {
			o.Out = x.id(x.m.Get(isIndex(o.K)))
		} else {
			o.Out = x.id(x.m.Get(isIndex(o.K), false))
		}
	case "Evict":
		o.Out = x.id(x.m.Evict(isIndex(o.K)))
	case "ForEach":
		got := map[int]int{}
		type pair struct {
			i isIndex
			p *shrinkingmap.ShrinkingMap[int, int]
		}
		var ps []pair
		y := o.Y
		x.m.ForEach(func(i isIndex, s *shrinkingmap.ShrinkingMap[int, int]) { ps = append(ps, pair{i, s}); yield(y) })
		for _, p := range ps {
			if _, dup := got[int(p.i)]; dup {
				o.Bad = "ForEach visited an index twice"
			}
			got[int(p.i)] = x.id(p.p)
		}
		o.Outs = flatMap(got)
	case "Clear":
		ks, ss := x.m.Clear()
		got := map[int]int{}
		if len(ks) != len(ss) {
			o.Bad = "Clear returned lists of different length"
		} else {
			for i := range ks {
				if _, dup := got[int(ks[i])]; dup {
					o.Bad = "Clear returned an index twice"
				}
				got[int(ks[i])] = x.id(ss[i])
			}
		}
		o.Outs = flatMap(got)
	}
}

func (x *isConc) final() []cop {
	return []cop{{Op: "ForEach", K: -1}, {Op: "GetNoCreate", K: 0}, {Op: "GetNoCreate", K: 1}, {Op: "GetNoCreate", K: 2}, {Op: "Clear", K: -1}, {Op: "ForEach", K: -1}}
}
func (x *isConc) extra() (string, string) { return "", "" }

type isState [isConcIdx]int

func isModel() porcupine.Model {
	flat := func(s isState) []int {
		out := []int{}
		for k, v := range s {
			if v != 0 {
				out = append(out, k, v)
			}
		}
		return out
	}
	return porcupine.Model{
		Init:              func() any { return isState{} },
		DescribeOperation: describeCop,
		Step: func(st, in, _ any) (bool, any) {
			s, o := st.(isState), in.(cop)
			if o.Bad != "" {
				return false, s
			}
			switch o.Op {
			case "GetCreate":
				if s[o.K] != 0 {
					return o.Out == s[o.K], s
				}
				if o.Out == 0 {
					return false, s
				}
				for _, v := range s { // a fresh storage, not one that is registered under another index
					if v == o.Out {
						return false, s
					}
				}
				s[o.K] = o.Out
				return true, s
			case "GetNoCreate":
				return o.Out == s[o.K], s
			case "Evict":
				ok := o.Out == s[o.K]
				s[o.K] = 0
				return ok, s
			case "ForEach":
				return eqInts(o.Outs, flat(s)), s
			case "Clear":
				return eqInts(o.Outs, flat(s)), isState{}
			}
			return false, s
		},
	}
}

// ------------------------------------------------------------------ SubscriptionManager

const (
	smgrClients = 3 // used by the porcupine histories
	smgrTopics  = 3
	smgrMaxC    = 4 // array sizes (the conservation scenario uses all of them)
	smgrMaxT    = 4
)

type smgrState struct {
	conn [smgrMaxC]bool
	cnt  [smgrMaxC][smgrMaxT]int8
}

func (s smgrState) distinct(c int) (n int) {
	for _, v := range s.cnt[c] {
		if v > 0 {
			n++
		}
	}
	return
}

func (s smgrState) sum(t int) (n int) {
	for c := 0; c < smgrMaxC; c++ {
		n += int(s.cnt[c][t])
	}
	return
}

// smgrApply is the sequential model (same rules as the sequential part: the limit is taken as
// implemented – adding the limit-th distinct topic drops the client).
func smgrApply(s smgrState, limit int, op string, c, t int) (smgrState, bool) {
	switch op {
	case "Connect":
		s.cnt[c] = [smgrMaxT]int8{}
		s.conn[c] = true
		return s, true
	case "Disconnect":
		was := s.conn[c]
		s.cnt[c] = [smgrMaxT]int8{}
		s.conn[c] = false
		return s, was
	case "Subscribe":
		switch {
		case !s.conn[c]:
			return s, false
		case s.cnt[c][t] > 0:
			s.cnt[c][t]++
			return s, true
		case limit != 0 && s.distinct(c)+1 >= limit:
			s.cnt[c] = [smgrMaxT]int8{}
			s.conn[c] = false
			return s, false
		default:
			s.cnt[c][t] = 1
			return s, true
		}
	case "Unsubscribe":
		if !s.conn[c] || s.cnt[c][t] == 0 {
			return s, false
		}
		s.cnt[c][t]--
		return s, true
	}
	return s, false
}

func smgrModel(limit int) porcupine.Model {
	return porcupine.Model{
		Init:              func() any { return smgrState{} },
		DescribeOperation: describeCop,
		Step: func(st, in, _ any) (bool, any) {
			s, o := st.(smgrState), in.(cop)
			c, t := o.K, o.A
			switch o.Op {
			case "Connect":
				s, _ = smgrApply(s, limit, o.Op, c, t)
				return true, s
			case "Disconnect", "Subscribe", "Unsubscribe":
				s2, want := smgrApply(s, limit, o.Op, c, t)
				return o.OK == want, s2
			case "TopicHasSubscribers":
				return o.OK == (s.sum(t) > 0), s
			case "ClientSubscribedToTopic":
				return o.OK == (s.conn[c] && s.cnt[c][t] > 0), s
			case "SubscribersSize":
				n := 0
				for _, b := range s.conn {
					if b {
						n++
					}
				}
				return o.Out == n, s
			case "TopicsSize":
				n := 0
				for tt := 0; tt < smgrMaxT; tt++ {
					if s.sum(tt) > 0 {
						n++
					}
				}
				return o.Out == n, s
			case "TopicsSizeAll":
				n := 0
				for cc := 0; cc < smgrMaxC; cc++ {
					n += s.distinct(cc)
				}
				return o.Out == n, s
			}
			return false, s
		},
	}
}

// smgrEvents counts the emitted events (handlers run in the triggering goroutine, outside the
// manager's lock, so only order-free folds are demanded).
type smgrEvents struct {
	connected, disconnected, drops [16]atomic.Int64
	sub, unsub                     [16][8]atomic.Int64
	added, removed                 [8]atomic.Int64
	bad                            atomic.Int64
}

func hookSmgr(m *subscriptionmanager.SubscriptionManager[int, int], e *smgrEvents) {
	okc := func(c int) bool { return c >= 0 && c < 16 }
	okt := func(t int) bool { return t >= 0 && t < 8 }
	ev := m.Events()
	ev.ClientConnected.Hook(func(x *subscriptionmanager.ClientEvent[int]) {
		if x == nil || !okc(x.ClientID) {
			e.bad.Add(1)
			return
		}
		e.connected[x.ClientID].Add(1)
	})
	ev.ClientDisconnected.Hook(func(x *subscriptionmanager.ClientEvent[int]) {
		if x == nil || !okc(x.ClientID) {
			e.bad.Add(1)
			return
		}
		e.disconnected[x.ClientID].Add(1)
	})
	ev.DropClient.Hook(func(x *subscriptionmanager.DropClientEvent[int]) {
		if x == nil || !okc(x.ClientID) || x.Reason == nil {
			e.bad.Add(1)
			return
		}
		e.drops[x.ClientID].Add(1)
	})
	ev.TopicSubscribed.Hook(func(x *subscriptionmanager.ClientTopicEvent[int, int]) {
		if x == nil || !okc(x.ClientID) || !okt(x.Topic) {
			e.bad.Add(1)
			return
		}
		e.sub[x.ClientID][x.Topic].Add(1)
	})
	ev.TopicUnsubscribed.Hook(func(x *subscriptionmanager.ClientTopicEvent[int, int]) {
		if x == nil || !okc(x.ClientID) || !okt(x.Topic) {
			e.bad.Add(1)
			return
		}
		e.unsub[x.ClientID][x.Topic].Add(1)
	})
	ev.TopicAdded.Hook(func(x *subscriptionmanager.TopicEvent[int]) {
		if x == nil || !okt(x.Topic) {
			e.bad.Add(1)
			return
		}
		e.added[x.Topic].Add(1)
	})
	ev.TopicRemoved.Hook(func(x *subscriptionmanager.TopicEvent[int]) {
		if x == nil || !okt(x.Topic) {
			e.bad.Add(1)
			return
		}
		e.removed[x.Topic].Add(1)
	})
}

// foldSmgr compares the event counters with the manager's own quiescent state.
func foldSmgr(m *subscriptionmanager.SubscriptionManager[int, int], e *smgrEvents, clients, topics int) (string, string) {
	if e.bad.Load() != 0 {
		return "malformed-event", "an event carried a nil payload, an unknown client/topic or a DropClient without reason"
	}
	conn, all := 0, 0
	for t := 0; t < topics; t++ {
		holders := 0
		for c := 0; c < clients; c++ {
			held := m.ClientSubscribedToTopic(c, t)
			net := e.sub[c][t].Load() - e.unsub[c][t].Load()
			if net < 0 || held != (net > 0) {
				return "events-do-not-mirror-subscriptions", fmt.Sprintf("client %d topic %d: TopicSubscribed-TopicUnsubscribed events = %d, ClientSubscribedToTopic = %v", c, t, net, held)
			}
			if held {
				holders++
				all++
			}
		}
		has := m.TopicHasSubscribers(t)
		if has != (holders > 0) {
			return "topic-count-not-sum-of-clients", fmt.Sprintf("topic %d: TopicHasSubscribers = %v but %d clients hold it at quiescence", t, has, holders)
		}
		if net := e.added[t].Load() - e.removed[t].Load(); net < 0 || net > 1 || (net == 1) != has {
			return "events-do-not-mirror-topics", fmt.Sprintf("topic %d: TopicAdded-TopicRemoved events = %d, TopicHasSubscribers = %v", t, net, has)
		}
	}
	for c := 0; c < clients; c++ {
		net := e.connected[c].Load() - e.disconnected[c].Load()
		if net < 0 || net > 1 {
			return "events-do-not-mirror-connections", fmt.Sprintf("client %d: ClientConnected-ClientDisconnected events = %d", c, net)
		}
		conn += int(net)
	}
	if s := m.SubscribersSize(); s != conn {
		return "events-do-not-mirror-connections", fmt.Sprintf("SubscribersSize() = %d but the connection events leave %d clients connected", s, conn)
	}
	if s := m.TopicsSizeAll(); s != all {
		return "topic-count-not-sum-of-clients", fmt.Sprintf("TopicsSizeAll() = %d, sum over clients of held topics = %d", s, all)
	}
	return "", ""
}

type smgrConc struct {
	m     *subscriptionmanager.SubscriptionManager[int, int]
	limit int
	ev    smgrEvents
}

var smgrOps = []wop{{"Connect", 5}, {"Disconnect", 2}, {"Subscribe", 12}, {"Unsubscribe", 7}, {"TopicHasSubscribers", 3}, {"ClientSubscribedToTopic", 2}, {"SubscribersSize", 1}, {"TopicsSize", 2}, {"TopicsSizeAll", 2}}

func (x *smgrConc) gen(r *rng, u int) cop {
	return cop{Op: pickOp(r, smgrOps), K: r.n(smgrClients), A: r.n(smgrTopics)}
}

func (x *smgrConc) do(o *cop) {
	c, t := o.K, o.A
	switch o.Op {
	case "Connect":
		x.m.Connect(c)
	case "Disconnect":
		o.OK = x.m.Disconnect(c)
	case "Subscribe":
		o.OK = x.m.Subscribe(c, t)
	case "Unsubscribe":
		o.OK = x.m.Unsubscribe(c, t)
	case "TopicHasSubscribers":
		o.OK = x.m.TopicHasSubscribers(t)
	case "ClientSubscribedToTopic":
		o.OK = x.m.ClientSubscribedToTopic(c, t)
	case "SubscribersSize":
		o.Out = x.m.SubscribersSize()
	case "TopicsSize":
		o.Out = x.m.TopicsSize()
	case "TopicsSizeAll":
		o.Out = x.m.TopicsSizeAll()
	}
}

func (x *smgrConc) final() []cop {
	out := []cop{{Op: "SubscribersSize"}, {Op: "TopicsSize"}, {Op: "TopicsSizeAll"}}
	for t := 0; t < smgrTopics; t++ {
		out = append(out, cop{Op: "TopicHasSubscribers", A: t})
		for c := 0; c < smgrClients; c++ {
			out = append(out, cop{Op: "ClientSubscribedToTopic", K: c, A: t})
		}
	}
	// repeated unsubscribing reveals the per-client counts, disconnecting the rest
	for c := 0; c < smgrClients; c++ {
		for t := 0; t < smgrTopics; t++ {
			out = append(out, cop{Op: "Unsubscribe", K: c, A: t}, cop{Op: "Unsubscribe", K: c, A: t}, cop{Op: "TopicHasSubscribers", A: t})
		}
	}
	for c := 0; c < smgrClients; c++ {
		out = append(out, cop{Op: "Disconnect", K: c}, cop{Op: "TopicsSizeAll"})
	}
	out = append(out, cop{Op: "TopicsSize"}, cop{Op: "SubscribersSize"})
	return out
}

func (x *smgrConc) extra() (string, string) { return foldSmgr(x.m, &x.ev, smgrClients, smgrTopics) }

func mkSmgr(cfg string) concInst {
	x := &smgrConc{limit: cfgInt(cfg, "limit", 0)}
	if strings.Contains(cfg, "cleanup=tiny") {
		x.m = subscriptionmanager.New(
			subscriptionmanager.WithMaxTopicSubscriptionsPerClient[int, int](x.limit),
			subscriptionmanager.WithCleanupThresholdCount[int, int](1),
			subscriptionmanager.WithCleanupThresholdRatio[int, int](0.5),
		)
	} else {
		x.m = subscriptionmanager.New(subscriptionmanager.WithMaxTopicSubscriptionsPerClient[int, int](x.limit))
	}
	hookSmgr(x.m, &x.ev)
	return x
}

// ------------------------------------------------------------------ registration

func init() {
	caps := []string{"cap=1", "cap=2", "cap=3", "cap=4"}
	concDefs = []*concDef{
		{name: "shrinkingmap/keyed", configs: smConfigs(true), gmin: 3, gmax: 6, nmin: 4, nmax: 10, setup: 4, mk: mkSM(false), model: func(string) porcupine.Model { return kvModel(true) }},
		{name: "shrinkingmap/whole", configs: smConfigs(false), gmin: 3, gmax: 4, nmin: 4, nmax: 6, setup: 3, mk: mkSM(true), model: func(string) porcupine.Model { return kvModel(false) }},
		{name: "randommap/keyed", configs: []string{"-"}, gmin: 3, gmax: 6, nmin: 4, nmax: 10, setup: 4,
			mk:    func(string) concInst { return &rmConc{m: randommap.New[int, int](), keys: kvKeys} },
			model: func(string) porcupine.Model { return kvModel(true) }},
		{name: "randommap/whole", configs: []string{"-", "ratio=0,count=1"}, gmin: 3, gmax: 4, nmin: 4, nmax: 6, setup: 3,
			mk: func(cfg string) concInst {
				if cfg == "-" {
					return &rmConc{m: randommap.New[int, int](), whole: true, keys: 4}
				}
				return &rmConc{m: randommap.New[int, int](shrinkingmap.WithShrinkingThresholdRatio(0), shrinkingmap.WithShrinkingThresholdCount(1)), whole: true, keys: 4}
			},
			model: func(string) porcupine.Model { return kvModel(false) }},
		{name: "onchangemap", configs: []string{"cb=on", "cb=off"}, gmin: 3, gmax: 4, nmin: 4, nmax: 7, setup: 3, mk: mkOC, model: func(string) porcupine.Model { return kvModel(false) }},
		{name: "queue", configs: caps, gmin: 3, gmax: 5, nmin: 4, nmax: 8, setup: 2, mk: mkSeq("queue"), model: func(cfg string) porcupine.Model { return seqModel(cfgInt(cfg, "cap", 3)) }},
		{name: "ringbuffer", configs: caps, gmin: 3, gmax: 4, nmin: 4, nmax: 6, setup: 2, mk: mkSeq("ringbuffer"), model: func(cfg string) porcupine.Model { return seqModel(cfgInt(cfg, "cap", 3)) }},
		{name: "stack", configs: []string{"threadsafe"}, gmin: 3, gmax: 5, nmin: 4, nmax: 8, setup: 2, mk: mkSeq("stack"), model: func(string) porcupine.Model { return seqModel(seqCap) }},
		{name: "bytesfilter", configs: caps, gmin: 3, gmax: 5, nmin: 4, nmax: 8, setup: 2, mk: mkSeq("bytesfilter"), model: func(cfg string) porcupine.Model { return seqModel(cfgInt(cfg, "cap", 3)) }},
		{name: "priorityqueue", configs: []string{"plain"}, gmin: 3, gmax: 5, nmin: 4, nmax: 8, setup: 3, mk: mkPQ, model: func(string) porcupine.Model { return pqModel() }},
		{name: "timedpriorityqueue", configs: []string{"timed=asc", "timed=desc"}, gmin: 3, gmax: 5, nmin: 4, nmax: 8, setup: 3, mk: mkPQ, model: func(string) porcupine.Model { return pqModel() }},
		{name: "timeheap", configs: []string{"-"}, gmin: 3, gmax: 5, nmin: 4, nmax: 8, setup: 2, mk: func(string) concInst { return &thConc{h: timeheap.NewTimeHeap()} }, model: func(string) porcupine.Model { return thModel() }},
		{name: "indexedstorage", configs: []string{"-"}, gmin: 3, gmax: 5, nmin: 4, nmax: 8, setup: 2,
			mk: func(string) concInst {
				return &isConc{m: memstorage.NewIndexedStorage[isIndex, int, int](), ids: map[*shrinkingmap.ShrinkingMap[int, int]]int{}}
			},
			model: func(string) porcupine.Model { return isModel() }},
		{name: "submgr", configs: []string{"limit=0", "limit=2", "limit=3", "limit=3,cleanup=tiny", "limit=0,cleanup=tiny"}, gmin: 3, gmax: 4, nmin: 4, nmax: 8, setup: 3, mk: mkSmgr,
			model: func(cfg string) porcupine.Model { return smgrModel(cfgInt(cfg, "limit", 0)) }},
	}
}
