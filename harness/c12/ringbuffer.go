package main

import (
	"strconv"

	"github.com/iotaledger/hive.go/ds/ringbuffer"
)

// RingBuffer vs "the last cap items, newest first".

type ringMachine struct {
	real  *ringbuffer.RingBuffer[int]
	cap   int
	model []int // oldest .. newest, at most cap
	next  int
	adds  int
}

func init() {
	register(&def{
		name:    "ringbuffer",
		configs: []string{"cap=1", "cap=2", "cap=3", "cap=4"},
		table: func(string) []opSpec {
			return []opSpec{{N: "Add", W: 5}, {N: "ToSlice", W: 1}}
		},
		mk: func(cfg string) machine {
			n, _ := strconv.Atoi(cfg[4:])
			return &ringMachine{real: ringbuffer.NewRingBuffer[int](n), cap: n, next: 1}
		},
		require: map[string]int{"wraparounds": 10000, "histories_with_3_wraps": 900},
	})
}

func (m *ringMachine) step(x *hx, o op) {
	if o.N == "Add" {
		v := m.next
		m.next++
		if ok := m.real.Add(v); !ok {
			x.failOp("wrong-return", "Add(%d) = false", v)
		}
		m.model = append(m.model, v)
		if len(m.model) > m.cap {
			m.model = append([]int(nil), m.model[1:]...)
		}
		m.adds++
		if m.adds%m.cap == 0 {
			x.note("wraparounds")
			if m.adds/m.cap == 3 {
				x.note("histories_with_3_wraps")
			}
		}
	}
	if !x.ok() {
		return
	}
	want := make([]int, 0, len(m.model))
	for i := len(m.model) - 1; i >= 0; i-- {
		want = append(want, m.model[i])
	}
	got := m.real.ToSlice()
	if !eqInts(got, want) {
		x.failOp("wrong-ToSlice", "ToSlice() = %v, model (newest first) %v, cap %d after %d adds", got, want, m.cap, m.adds)
	} else {
		holdSlice(x, "ToSlice", got, heldGarbage)
	}
}

func (m *ringMachine) drain(*hx) {}

func (m *ringMachine) state() uint64 {
	return newHasher().i(len(m.model)).i(m.adds % m.cap).h
}
