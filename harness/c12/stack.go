package main

import (
	"github.com/iotaledger/hive.go/ds/stack"
)

// Stack (simple and thread-safe flavour) vs a LIFO slice.

type stackMachine struct {
	real  stack.Stack[int]
	model []int
	next  int
}

func init() {
	register(&def{
		name:    "stack",
		configs: []string{"simple", "simple-explicit-false", "threadsafe"},
		table: func(string) []opSpec {
			return []opSpec{
				{N: "Push", W: 8},
				{N: "Pop", W: 6},
				{N: "Peek", W: 2},
				{N: "Clear", W: 1},
			}
		},
		mk: func(cfg string) machine {
			m := &stackMachine{next: 1}
			switch cfg {
			case "threadsafe":
				m.real = stack.New[int](true)
			case "simple-explicit-false":
				m.real = stack.New[int](false)
			default:
				m.real = stack.New[int]()
			}
			return m
		},
		replica: true,
		require: map[string]int{"pop_nonempty": 5000, "push_after_clear": 300},
	})
}

func (m *stackMachine) top() (int, bool) {
	if len(m.model) == 0 {
		return 0, false
	}
	return m.model[len(m.model)-1], true
}

func (m *stackMachine) step(x *hx, o op) {
	switch o.N {
	case "Push":
		if m.next < 0 {
			x.note("push_after_clear")
			m.next = -m.next
		}
		m.real.Push(m.next)
		m.model = append(m.model, m.next)
		m.next++
	case "Pop":
		t, has := m.top()
		g, ok := m.real.Pop()
		if ok != has || g != t {
			x.failOp("wrong-return", "Pop() = (%d,%v), model %v", g, ok, m.model)
		}
		if has {
			x.note("pop_nonempty")
			m.model = m.model[:len(m.model)-1]
		}
	case "Peek":
		t, has := m.top()
		if g, ok := m.real.Peek(); ok != has || g != t {
			x.failOp("wrong-return", "Peek() = (%d,%v), model %v", g, ok, m.model)
		}
	case "Clear":
		m.real.Clear()
		if len(m.model) > 0 && m.next > 0 {
			m.next = -m.next // marks "cleared a non-empty stack" until the next push
		}
		m.model = nil
	}
	if !x.ok() {
		return
	}
	if s := m.real.Size(); s != len(m.model) {
		x.failOp("wrong-Size", "Size() = %d, model %v", s, m.model)
	}
	if e := m.real.IsEmpty(); e != (len(m.model) == 0) {
		x.failOp("wrong-IsEmpty", "IsEmpty() = %v, model %v", e, m.model)
	}
	t, has := m.top()
	if g, ok := m.real.Peek(); ok != has || g != t {
		x.failOp("wrong-Peek", "afterwards Peek() = (%d,%v), model %v", g, ok, m.model)
	}
}

func (m *stackMachine) drain(x *hx) {
	var got []int
	for i := 0; i <= len(m.model); i++ {
		g, ok := m.real.Pop()
		if !ok {
			break
		}
		got = append(got, g)
	}
	want := make([]int, 0, len(m.model))
	for i := len(m.model) - 1; i >= 0; i-- {
		want = append(want, m.model[i])
	}
	if !eqInts(got, want) {
		x.failOp("wrong-content", "popping everything yields %v, model (top first) %v", got, want)
	}
}

func (m *stackMachine) state() uint64 {
	// depth and the age pattern of the entries (differences between neighbours)
	h := newHasher().i(len(m.model))
	for i := 1; i < len(m.model); i++ {
		d := m.model[i] - m.model[i-1]
		if d > 3 {
			d = 3
		}
		h.i(d)
	}
	return h.h
}
