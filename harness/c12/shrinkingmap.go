package main

import (
	"fmt"
	"strconv"
	"strings"

	"github.com/iotaledger/hive.go/ds/shrinkingmap"
)

// ShrinkingMap vs a plain Go map; shrinking must be unobservable.

type smMachine struct {
	real  *shrinkingmap.ShrinkingMap[int, int]
	model map[int]int
	// mirror of the documented shrink rule, only to count how many rebuilds the history provoked (evidence)
	ratio   float32
	count   int
	deleted int
}

const smKeys = 6

func parseSMConfig(cfg string) (ratio float32, count int) {
	for _, kv := range strings.Split(cfg, ",") {
		p := strings.SplitN(kv, "=", 2)
		if len(p) != 2 {
			continue
		}
		switch p[0] {
		case "ratio":
			f, _ := strconv.ParseFloat(p[1], 32)
			ratio = float32(f)
		case "count":
			count, _ = strconv.Atoi(p[1])
		}
	}
	return
}

func init() {
	var cfgs []string
	for _, r := range []string{"0", "0.5", "10"} {
		for _, n := range []string{"0", "1", "3"} {
			cfgs = append(cfgs, "ratio="+r+",count="+n)
		}
	}
	register(&def{
		name:    "shrinkingmap",
		configs: cfgs,
		table: func(string) []opSpec {
			return []opSpec{
				{N: "Set", W: 10, Args: []int{smKeys, 50}},
				{N: "Get", W: 3, Args: []int{smKeys}},
				{N: "Has", W: 2, Args: []int{smKeys}},
				{N: "GetOrCreate", W: 4, Args: []int{smKeys, 50}},
				{N: "Compute", W: 4, Args: []int{smKeys, 9}},
				{N: "Delete", W: 8, Args: []int{smKeys}},
				{N: "DeleteCond", W: 4, Args: []int{smKeys, 2}},
				{N: "DeleteAndReturn", W: 5, Args: []int{smKeys}},
				{N: "Pop", W: 4},
				{N: "Clear", W: 1},
				{N: "Shrink", W: 1},
				{N: "ForEachAbort", W: 2, Args: []int{4}},
			}
		},
		mk: func(cfg string) machine {
			ratio, count := parseSMConfig(cfg)
			return &smMachine{
				real:  shrinkingmap.New[int, int](shrinkingmap.WithShrinkingThresholdRatio(ratio), shrinkingmap.WithShrinkingThresholdCount(count)),
				model: map[int]int{}, ratio: ratio, count: count,
			}
		},
		require: map[string]int{"rebuilds_expected": 500, "delete_existing": 3000},
	})
}

// noteDelete mirrors shouldShrink() for the evidence counter only.
func (m *smMachine) noteDelete(x *hx) {
	x.note("delete_existing")
	m.deleted++
	size := len(m.model)
	if m.ratio == 0 && m.count == 0 {
		return
	}
	if m.ratio != 0 && (size == 0 || float32(m.deleted)/float32(size) < m.ratio) {
		return
	}
	if m.count != 0 && m.deleted < m.count {
		return
	}
	m.deleted = 0
	x.note("rebuilds_expected")
}

func (m *smMachine) step(x *hx, o op) {
	k, v := o.arg(0), o.arg(1)
	cur, has := m.model[k]
	switch o.N {
	case "Set":
		if created := m.real.Set(k, v); created != !has {
			x.failOp("wrong-return", "Set(%d,%d) created=%v, model has key: %v", k, v, created, has)
		}
		m.model[k] = v
	case "Get":
		if g, ok := m.real.Get(k); ok != has || g != cur {
			x.failOp("wrong-return", "Get(%d) = (%d,%v), model (%d,%v)", k, g, ok, cur, has)
		}
	case "Has":
		if ok := m.real.Has(k); ok != has {
			x.failOp("wrong-return", "Has(%d) = %v, model %v", k, ok, has)
		}
	case "GetOrCreate":
		called := 0
		g, created := m.real.GetOrCreate(k, func() int { called++; return v })
		want := cur
		if !has {
			want = v
			m.model[k] = v
		}
		if g != want || created != !has {
			x.failOp("wrong-return", "GetOrCreate(%d,%d) = (%d,%v), model (%d,%v)", k, v, g, created, want, !has)
		}
		if (called != 0) != !has {
			x.failOp("factory-calls", "GetOrCreate(%d): factory called %d times, key existed: %v", k, called, has)
		}
	case "Compute":
		sawOK := true
		g := m.real.Compute(k, func(c int, exists bool) int {
			if c != cur || exists != has {
				sawOK = false
			}
			return c + v + 1
		})
		if !sawOK {
			x.failOp("callback-args", "Compute(%d): update function did not see (%d,%v)", k, cur, has)
		}
		m.model[k] = cur + v + 1
		if g != cur+v+1 {
			x.failOp("wrong-return", "Compute(%d) = %d, model %d", k, g, cur+v+1)
		}
	case "Delete":
		if del := m.real.Delete(k); del != has {
			x.failOp("wrong-return", "Delete(%d) = %v, model %v", k, del, has)
		}
		if has {
			delete(m.model, k)
			m.noteDelete(x)
		}
	case "DeleteCond":
		cond := v == 1
		del := m.real.Delete(k, func() bool { return cond })
		if del != (has && cond) {
			x.failOp("wrong-return", "Delete(%d, cond=%v) = %v, model %v", k, cond, del, has && cond)
		}
		if has && cond {
			delete(m.model, k)
			m.noteDelete(x)
		}
	case "DeleteAndReturn":
		g, del := m.real.DeleteAndReturn(k)
		if del != has || g != cur {
			x.failOp("wrong-return", "DeleteAndReturn(%d) = (%d,%v), model (%d,%v)", k, g, del, cur, has)
		}
		if has {
			delete(m.model, k)
			m.noteDelete(x)
		}
	case "Pop":
		pk, pv, ok := m.real.Pop()
		if ok != (len(m.model) > 0) {
			x.failOp("wrong-return", "Pop() exists=%v, model size %d", ok, len(m.model))
		} else if ok {
			if mv, in := m.model[pk]; !in || mv != pv {
				x.failOp("non-member", "Pop() = (%d,%d) which is not an entry of the model %v", pk, pv, m.model)
			}
			delete(m.model, pk)
			m.noteDelete(x)
		}
	case "Clear":
		m.real.Clear()
		m.model = map[int]int{}
		m.deleted = 0
	case "Shrink":
		m.real.Shrink()
		m.deleted = 0
	case "ForEachAbort":
		seen := 0
		m.real.ForEach(func(int, int) bool { seen++; return seen < v+1 })
		want := v + 1
		if len(m.model) < want {
			want = len(m.model)
		}
		if seen != want {
			x.failOp("wrong-iteration", "ForEach aborted after %d callbacks visited %d entries, model size %d", v+1, seen, len(m.model))
		}
	}
	if !x.ok() {
		return
	}
	// observers
	if s := m.real.Size(); s != len(m.model) {
		x.failOp("wrong-Size", "Size() = %d, model %d", s, len(m.model))
	}
	if e := m.real.IsEmpty(); e != (len(m.model) == 0) {
		x.failOp("wrong-IsEmpty", "IsEmpty() = %v, model size %d", e, len(m.model))
	}
	am := m.real.AsMap()
	if !eqMap(am, m.model) {
		x.failOp("wrong-AsMap", "AsMap() = %v, model %v", am, m.model)
	}
	ks := m.real.Keys()
	if !permOf(ks, mapKeys(m.model)) {
		x.failOp("wrong-Keys", "Keys() = %v, model %v", ks, mapKeys(m.model))
	}
	vs := m.real.Values()
	if !permOf(vs, mapVals(m.model)) {
		x.failOp("wrong-Values", "Values() = %v, model %v", vs, mapVals(m.model))
	}
	if x.ok() { // returned aggregates are caller-owned (held.go)
		holdMap(x, "AsMap", am, heldGarbage, heldGarbage)
		holdSlice(x, "Keys", ks, heldGarbage)
		holdSlice(x, "Values", vs, heldGarbage)
	}
	fe := map[int]int{}
	n := 0
	m.real.ForEach(func(k, v int) bool { fe[k] = v; n++; return true })
	if n != len(m.model) || !eqMap(fe, m.model) {
		x.failOp("wrong-ForEach", "ForEach visited %v (%d callbacks), model %v", fe, n, m.model)
	}
	var fk []int
	m.real.ForEachKey(func(k int) bool { fk = append(fk, k); return true })
	if !permOf(fk, mapKeys(m.model)) {
		x.failOp("wrong-ForEachKey", "ForEachKey visited %v, model %v", fk, mapKeys(m.model))
	}
	for k := 0; k < smKeys; k++ {
		g, ok := m.real.Get(k)
		mv, in := m.model[k]
		if ok != in || g != mv {
			x.failOp("wrong-Get", "afterwards Get(%d) = (%d,%v), model (%d,%v)", k, g, ok, mv, in)
		}
	}
}

func (m *smMachine) drain(x *hx) {
	// pop everything: every entry exactly once
	left := map[int]int{}
	for k, v := range m.model {
		left[k] = v
	}
	for i := 0; i <= smKeys; i++ {
		k, v, ok := m.real.Pop()
		if !ok {
			break
		}
		if mv, in := left[k]; !in || mv != v {
			x.fail("drain-Pop-non-member", "final Pop() = (%d,%d), remaining model %v", k, v, left)
			return
		}
		delete(left, k)
	}
	if len(left) != 0 || m.real.Size() != 0 {
		x.fail("drain-Pop-incomplete", "after popping everything model entries %v were never returned, Size()=%d", left, m.real.Size())
	}
}

func (m *smMachine) state() uint64 { return newHasher().imap(m.model).h }

var _ = fmt.Sprint
