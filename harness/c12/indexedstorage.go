package main

import (
	"github.com/iotaledger/hive.go/core/memstorage"
	"github.com/iotaledger/hive.go/ds/shrinkingmap"
)

// IndexedStorage vs map index -> (storage identity, content).

type isIndex uint32

type isSlot struct {
	ptr     *shrinkingmap.ShrinkingMap[int, int]
	content map[int]int
}

type isMachine struct {
	real  *memstorage.IndexedStorage[isIndex, int, int]
	model map[isIndex]*isSlot
	gone  map[isIndex]bool
}

const isIndexes = 5

func init() {
	register(&def{
		name:    "indexedstorage",
		configs: []string{"-"},
		table: func(string) []opSpec {
			return []opSpec{
				{N: "GetCreate", W: 6, Args: []int{isIndexes}},
				{N: "Get", W: 2, Args: []int{isIndexes}},
				{N: "GetNoCreate", W: 2, Args: []int{isIndexes}},
				{N: "Put", W: 6, Args: []int{isIndexes, 4, 50}},
				{N: "Evict", W: 4, Args: []int{isIndexes}},
				{N: "ForEach", W: 1},
				{N: "Clear", W: 1},
			}
		},
		mk: func(string) machine {
			return &isMachine{real: memstorage.NewIndexedStorage[isIndex, int, int](), model: map[isIndex]*isSlot{}, gone: map[isIndex]bool{}}
		},
		require: map[string]int{"evict_existing": 1500, "clear_nonempty": 400, "recreate_after_evict": 500},
	})
}

func (m *isMachine) step(x *hx, o op) {
	i := isIndex(o.arg(0))
	slot := m.model[i]
	switch o.N {
	case "GetCreate":
		g := m.real.Get(i, true)
		switch {
		case g == nil:
			x.failOp("nil-storage", "Get(%d,true) = nil", i)
		case slot != nil && g != slot.ptr:
			x.failOp("different-storage", "Get(%d,true) returned another storage than the one created earlier", i)
		case slot == nil:
			for j, s := range m.model {
				if s.ptr == g {
					x.failOp("shared-storage", "Get(%d,true) returned the storage of index %d", i, j)
				}
			}
			if g.Size() != 0 {
				x.failOp("new-storage-not-empty", "Get(%d,true) created a storage of size %d", i, g.Size())
			}
			if m.gone[i] {
				x.note("recreate_after_evict")
			}
			m.model[i] = &isSlot{ptr: g, content: map[int]int{}}
		}
	case "Get", "GetNoCreate":
		var g *shrinkingmap.ShrinkingMap[int, int]
		if o.N == "Get" {
			g = m.real.Get(i)
		} else {
			g = m.real.Get(i, false)
		}
		if slot == nil && g != nil {
			x.failOp("created-unasked", "%s(%d) returned a storage for a missing index", o.N, i)
		} else if slot != nil && g != slot.ptr {
			x.failOp("different-storage", "%s(%d) did not return the storage created earlier", o.N, i)
		}
	case "Put":
		if slot != nil {
			m.real.Get(i).Set(o.arg(1), o.arg(2))
			slot.content[o.arg(1)] = o.arg(2)
		}
	case "Evict":
		g := m.real.Evict(i)
		if slot == nil && g != nil {
			x.failOp("wrong-return", "Evict(%d) returned a storage for a missing index", i)
		} else if slot != nil {
			x.note("evict_existing")
			if g != slot.ptr {
				x.failOp("wrong-return", "Evict(%d) did not return the storage of the index", i)
			} else if !eqMap(g.AsMap(), slot.content) {
				x.failOp("wrong-content", "Evict(%d) returned content %v, model %v", i, g.AsMap(), slot.content)
			}
			delete(m.model, i)
			m.gone[i] = true
		}
	case "Clear":
		if len(m.model) > 0 {
			x.note("clear_nonempty")
		}
		ks, ss := m.real.Clear()
		if len(ks) != len(ss) || len(ks) != len(m.model) {
			x.failOp("wrong-return", "Clear() returned %d keys and %d storages, model has %d", len(ks), len(ss), len(m.model))
			break
		}
		seen := map[isIndex]bool{}
		for n, k := range ks {
			s := m.model[k]
			if s == nil || seen[k] || ss[n] != s.ptr {
				x.failOp("wrong-return", "Clear() returned key %d (position %d) with a storage that is not the model's (known index: %v, repeated: %v)", k, n, s != nil, seen[k])
				break
			}
			seen[k] = true
		}
		m.model = map[isIndex]*isSlot{}
		holdSlice(x, "Clear-keys", ks, isIndex(1<<30))
		holdSlice(x, "Clear-storages", ss, nil)
	case "ForEach":
	}
	if o.N == "GetCreate" && slot == nil && x.ok() {
		x.note("create")
	}
	if !x.ok() {
		return
	}
	visited := map[isIndex]bool{}
	m.real.ForEach(func(k isIndex, s *shrinkingmap.ShrinkingMap[int, int]) {
		ms := m.model[k]
		if ms == nil || visited[k] || s != ms.ptr {
			x.failOp("wrong-ForEach", "ForEach visited index %d (in model: %v, repeated: %v, same storage: %v)", k, ms != nil, visited[k], ms != nil && s == ms.ptr)
		}
		visited[k] = true
	})
	if len(visited) != len(m.model) {
		x.failOp("wrong-ForEach", "ForEach visited %d indexes, model has %d", len(visited), len(m.model))
	}
	for j := isIndex(0); j < isIndexes; j++ {
		g := m.real.Get(j)
		ms := m.model[j]
		switch {
		case ms == nil && g != nil:
			x.failOp("index-still-present", "afterwards Get(%d) returns a storage, the model has none", j)
		case ms != nil && g != ms.ptr:
			x.failOp("index-lost", "afterwards Get(%d) does not return the storage of the model (nil: %v)", j, g == nil)
		case ms != nil && !eqMap(g.AsMap(), ms.content):
			x.failOp("wrong-content", "afterwards storage %d holds %v, model %v", j, g.AsMap(), ms.content)
		}
	}
}

func (m *isMachine) drain(x *hx) {
	ks, _ := m.real.Clear()
	if len(ks) != len(m.model) {
		x.fail("drain-Clear-wrong-count", "final Clear() returned %d keys, model has %d", len(ks), len(m.model))
	}
	n := 0
	m.real.ForEach(func(isIndex, *shrinkingmap.ShrinkingMap[int, int]) { n++ })
	if n != 0 {
		x.fail("drain-not-empty", "ForEach after Clear visited %d indexes", n)
	}
}

func (m *isMachine) state() uint64 {
	h := newHasher()
	for j := isIndex(0); j < isIndexes; j++ {
		if s := m.model[j]; s != nil {
			h.i(1).i(len(s.content))
		} else {
			h.i(0)
		}
	}
	return h.h
}
