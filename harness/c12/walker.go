package main

import (
	"github.com/iotaledger/hive.go/ds/walker"
)

// Walker vs a queue plus a "pushed" set: every pushed element is yielded once in queue
// order (Push/PushAll at the back, PushFront element by element at the front), or every
// time with revisit enabled. The queue content after each step is observed on a replica.

const wkUniverse = 8

type walkerMachine struct {
	real    *walker.Walker[int]
	revisit bool
	queue   []int
	pushed  map[int]bool
	stopped bool
	// set by a PushFront step: a new element followed an already seen one in the argument list
	afterSeen bool
}

func init() {
	register(&def{
		name:    "walker",
		configs: []string{"revisit=off", "revisit=off-explicit", "revisit=on"},
		table: func(string) []opSpec {
			return []opSpec{
				{N: "Push", W: 6, Args: []int{wkUniverse}},
				{N: "PushAll", W: 3, Args: []int{wkUniverse}, Var: 4},
				{N: "PushFront", W: 2, Args: []int{wkUniverse}, Var: 4},
				{N: "Next", W: 7},
				{N: "Pushed", W: 1, Args: []int{wkUniverse}},
				{N: "StopWalk", W: 1},
				{N: "Reset", W: 1},
			}
		},
		mk: func(cfg string) machine {
			m := &walkerMachine{pushed: map[int]bool{}}
			switch cfg {
			case "revisit=on":
				m.revisit = true
				m.real = walker.New[int](true)
			case "revisit=off-explicit":
				m.real = walker.New[int](false)
			default:
				m.real = walker.New[int]()
			}
			return m
		},
		replica: true,
		require: map[string]int{"pushfront_seen_then_new": 200, "push_seen": 3000, "next": 5000, "reset_nonempty": 200},
	})
}

func (m *walkerMachine) push(x *hx, e int, front bool) {
	seen := m.pushed[e]
	m.pushed[e] = true
	if seen {
		x.note("push_seen")
		if !m.revisit {
			return
		}
	}
	if front {
		m.queue = append([]int{e}, m.queue...)
	} else {
		m.queue = append(m.queue, e)
	}
}

// class maps a symptom to the fingerprint class of the current step.
func (m *walkerMachine) class(x *hx, symptom string) string {
	if x.cur.N == "PushFront" && m.afterSeen && !m.revisit && (symptom == "drops" || symptom == "not-marked-pushed") {
		return "PushFront-drops-after-seen"
	}
	return x.cur.N + "-" + symptom
}

func (m *walkerMachine) step(x *hx, o op) {
	m.afterSeen = false
	switch o.N {
	case "Push":
		if r := m.real.Push(o.arg(0)); r != m.real {
			x.failOp("wrong-return", "Push did not return the walker")
		}
		m.push(x, o.arg(0), false)
	case "PushAll":
		args := append(make([]int, 0, len(o.A)+2), o.A...)
		if r := m.real.PushAll(args...); r != m.real {
			x.failOp("wrong-return", "PushAll did not return the walker")
		}
		scribbleInts(args) // the argument slice stays the caller's
		for _, e := range o.A {
			m.push(x, e, false)
		}
	case "PushFront":
		sawSeen := false
		for _, e := range o.A {
			if m.pushed[e] {
				sawSeen = true
			} else if sawSeen {
				m.afterSeen = true
			}
			m.push(x, e, true)
		}
		if m.afterSeen && !m.revisit {
			x.note("pushfront_seen_then_new")
		}
		args := append(make([]int, 0, len(o.A)+2), o.A...)
		if r := m.real.PushFront(args...); r != m.real {
			x.failOp("wrong-return", "PushFront did not return the walker")
		}
		scribbleInts(args) // the argument slice stays the caller's
	case "Next":
		if len(m.queue) == 0 {
			break // Next on an empty walker is outside the model
		}
		x.note("next")
		if g := m.real.Next(); g != m.queue[0] {
			x.failOp("wrong-element", "Next() = %d, model queue %v", g, m.queue)
		}
		m.queue = append([]int(nil), m.queue[1:]...)
	case "Pushed":
		if g := m.real.Pushed(o.arg(0)); g != m.pushed[o.arg(0)] {
			x.failOp("wrong-return", "Pushed(%d) = %v, model %v", o.arg(0), g, m.pushed[o.arg(0)])
		}
	case "StopWalk":
		m.real.StopWalk()
		m.stopped = true
	case "Reset":
		if len(m.queue) > 0 {
			x.note("reset_nonempty")
		}
		m.real.Reset()
		m.queue, m.pushed, m.stopped = nil, map[int]bool{}, false
	}
	if !x.ok() {
		return
	}
	if g, want := m.real.HasNext(), len(m.queue) > 0 && !m.stopped; g != want {
		sym := "HasNext-true-on-empty"
		if want {
			sym = "drops"
		}
		x.fail(m.class(x, sym), "HasNext() = %v, model queue %v stopped=%v", g, m.queue, m.stopped)
	}
	if g := m.real.WalkStopped(); g != m.stopped {
		x.failOp("wrong-WalkStopped", "WalkStopped() = %v, model %v", g, m.stopped)
	}
	for e := 0; e < wkUniverse; e++ {
		if g := m.real.Pushed(e); g != m.pushed[e] {
			if !g {
				x.fail(m.class(x, "not-marked-pushed"), "afterwards Pushed(%d) = false although it was pushed (model queue %v)", e, m.queue)
			} else {
				x.fail(m.class(x, "marked-pushed-spuriously"), "afterwards Pushed(%d) = true, never pushed since the last Reset", e)
			}
		}
	}
}

// drain walks the rest. With a stopped walk HasNext is false by definition, so Next is
// called exactly as often as the model holds elements.
func (m *walkerMachine) drain(x *hx) {
	var got []int
	if m.stopped {
		func() {
			defer func() { _ = recover() }() // Next on an empty list dereferences nil: fewer elements than the model
			for range m.queue {
				got = append(got, m.real.Next())
			}
		}()
	} else {
		for i := 0; i <= len(m.queue)+4 && m.real.HasNext(); i++ {
			got = append(got, m.real.Next())
		}
	}
	if eqInts(got, m.queue) {
		return
	}
	sym := "wrong-queue"
	if len(got) < len(m.queue) && isSubsequence(got, m.queue) {
		sym = "drops"
	}
	x.fail(m.class(x, sym), "walking the rest yields %v, model queue %v (revisit=%v)", got, m.queue, m.revisit)
}

func (m *walkerMachine) state() uint64 {
	h := newHasher().ints(m.queue).b(m.stopped)
	for e := 0; e < wkUniverse; e++ {
		h.b(m.pushed[e])
	}
	return h.h
}
