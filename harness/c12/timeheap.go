package main

import (
	"math"
	"time"

	"github.com/iotaledger/hive.go/ds/timeheap"
)

// TimeHeap vs "sum of what was added and neither cleared nor expired".
//   * AveragePerSecond(1h)*3600 = sum (nothing expires within an hour);
//   * after Sleep(2ms), AveragePerSecond(1ms) = 0 and everything has expired (the sleep
//     is a lower bound, so this does not depend on load).

type thMachine struct {
	real *timeheap.TimeHeap
	sum  uint64
	n    int // entries in the window
	clr  bool
}

func init() {
	register(&def{
		name:    "timeheap",
		configs: []string{"-"},
		table: func(string) []opSpec {
			return []opSpec{
				{N: "Add", W: 40, Args: []int{9}},
				{N: "Average1h", W: 6},
				{N: "Clear", W: 3},
				{N: "SleepExpire", W: 1},
			}
		},
		mk:      func(string) machine { return &thMachine{real: timeheap.NewTimeHeap()} },
		nops:    40,
		require: map[string]int{"clear_nonempty": 300, "expire_nonempty": 200, "add_after_clear": 100},
	})
}

func (m *thMachine) hourSum() float64 {
	return float64(m.real.AveragePerSecond(time.Hour)) * 3600
}

func (m *thMachine) step(x *hx, o op) {
	before := m.sum
	switch o.N {
	case "Add":
		if m.clr {
			x.note("add_after_clear")
			m.clr = false
		}
		m.real.Add(uint64(o.arg(0) + 1))
		m.sum += uint64(o.arg(0) + 1)
		m.n++
	case "Clear":
		if m.n > 0 {
			x.note("clear_nonempty")
		}
		m.real.Clear()
		m.sum, m.n, m.clr = 0, 0, true
	case "SleepExpire":
		if m.n > 0 {
			x.note("expire_nonempty")
		}
		time.Sleep(2 * time.Millisecond)
		if g := m.real.AveragePerSecond(time.Millisecond); g != 0 {
			x.failOp("window-not-empty", "after Sleep(2ms) AveragePerSecond(1ms) = %v, every entry is older than the window (sum before %d)", g, before)
		}
		m.sum, m.n = 0, 0
	case "Average1h":
	}
	if !x.ok() {
		return
	}
	got := m.hourSum()
	if math.Abs(got-float64(m.sum)) > 0.01 {
		switch {
		case o.N == "Clear" && before != 0 && math.Abs(got-float64(before)) <= 0.01:
			x.fail("Clear-keeps-total", "after Clear() AveragePerSecond(1h)*3600 = %.3f = the sum before the Clear, expected 0", got)
		default:
			x.failOp("wrong-sum", "AveragePerSecond(1h)*3600 = %.3f, sum of the entries added since the last Clear/expiry = %d", got, m.sum)
		}
	}
}

func (m *thMachine) drain(x *hx) {
	time.Sleep(2 * time.Millisecond)
	if g := m.real.AveragePerSecond(time.Millisecond); g != 0 {
		x.fail("drain-window-not-empty", "final: after Sleep(2ms) AveragePerSecond(1ms) = %v", g)
	} else if g := m.hourSum(); math.Abs(g) > 0.01 {
		x.fail("drain-expired-still-counted", "final: everything expired but AveragePerSecond(1h)*3600 = %.3f", g)
	}
}

func (m *thMachine) state() uint64 { return newHasher().i(int(m.sum)).i(m.n).h }
