package main

import (
	"fmt"
	"sort"
	"strings"

	"github.com/iotaledger/hive.go/ds/onchangemap"
	"github.com/iotaledger/hive.go/runtime/options"
)

// OnChangeMap vs a Go map plus a callback log. Every subset of the four callback options
// is a configuration. While callbacks are enabled, every successful add/modify/delete is
// mirrored by one "changed" callback carrying the new content (if that one is configured,
// independent of which item callbacks exist) and by the item callback of its kind (if that
// one is configured); nothing is called while callbacks are disabled, for failed operations,
// or when Modify's callback returns false. The order of the two callbacks of one operation
// is not demanded.

type ocID int

func (i ocID) Key() int       { return int(i) }
func (i ocID) String() string { return fmt.Sprintf("item-%d", int(i)) }

type ocItem struct {
	id  ocID
	val int
}

func (i *ocItem) ID() ocID { return i.id }
func (i *ocItem) Clone() onchangemap.Item[int, ocID] {
	return &ocItem{id: i.id, val: i.val}
}

const ocIDs = 5

type ocMachine struct {
	real    *onchangemap.OnChangeMap[int, ocID, *ocItem]
	model   map[int]int
	mask    string // which callbacks are configured: c(hanged) a(dded) m(odified) d(eleted), '-' = not configured
	enabled bool
	log     []string
	// discipline 1: callback arguments are held by the consumer (checked after the call returned and over the following steps)
	cbHeld  []ocHeldArg
	watches []*ocWatch // item pointers handed to item callbacks, with the value they must show
}

// ocHeldArg is one callback argument kept by the consumer.
type ocHeldArg struct {
	name     string
	same     func() string
	scribble func(kind int) // nil: the object is shared with the map by design (stored item), it is only watched
}

// ocWatch: an item pointer a callback received. The stored item is handed out by design, so its value follows the writes the
// harness itself makes through the very same pointer (Modify's callback); nothing else may change it.
type ocWatch struct {
	p       *ocItem
	id, val int
}

// wrote is called by the harness's Modify callback after it changed the item it was handed.
func (m *ocMachine) wrote(p *ocItem) {
	for _, w := range m.watches {
		if w.p == p {
			w.val = p.val
		}
	}
}

func (m *ocMachine) holdItemArg(kind string, it *ocItem) {
	w := &ocWatch{p: it, id: int(it.id), val: it.val}
	m.watches = append(m.watches, w)
	if len(m.watches) > 24 {
		m.watches = m.watches[len(m.watches)-24:]
	}
	h := ocHeldArg{name: kind + "-callback-item", same: func() string {
		if int(w.p.id) != w.id || w.p.val != w.val {
			return fmt.Sprintf("item %d=%d handed to the %s callback reads %d=%d now", w.id, w.val, kind, w.p.id, w.p.val)
		}
		return ""
	}}
	if kind == "deleted" { // the map gave the item up: the consumer may do with it what it likes
		h.scribble = func(k int) { w.p.val = heldGarbage - k; m.wrote(w.p) }
	}
	m.cbHeld = append(m.cbHeld, h)
}

func (m *ocMachine) holdSliceArg(items []*ocItem) {
	cp := append([]*ocItem(nil), items...)
	m.cbHeld = append(m.cbHeld, ocHeldArg{name: "changed-callback-slice", same: func() string {
		if len(items) != len(cp) {
			return fmt.Sprintf("the slice handed to the changed callback had %d items, has %d now", len(cp), len(items))
		}
		for i := range cp {
			if items[i] != cp[i] {
				return fmt.Sprintf("element %d of the slice handed to the changed callback is another item now", i)
			}
		}
		return ""
	}, scribble: func(k int) {
		switch k {
		case 0:
			for i, j := 0, len(items)-1; i < j; i, j = i+1, j-1 {
				items[i], items[j] = items[j], items[i]
			}
		case 1:
			for i := range items {
				items[i] = nil
			}
		default:
			if len(items) > 0 {
				items[0] = &ocItem{id: heldGarbage, val: heldGarbage}
			}
		}
		ext := items[:cap(items)]
		for i := len(items); i < len(ext); i++ {
			ext[i] = &ocItem{id: heldGarbage, val: heldGarbage}
		}
		cp = append(cp[:0], items...)
	}})
}

func (m *ocMachine) has(kind byte) bool { return strings.IndexByte(m.mask, kind) >= 0 }

func ocSnapshot(items []*ocItem) string {
	s := make([]string, 0, len(items))
	for _, it := range items {
		s = append(s, fmt.Sprintf("%d=%d", it.id, it.val))
	}
	sort.Strings(s)
	return strings.Join(s, ",")
}

func (m *ocMachine) modelSnapshot() string {
	s := make([]string, 0, len(m.model))
	for k, v := range m.model {
		s = append(s, fmt.Sprintf("%d=%d", k, v))
	}
	sort.Strings(s)
	return strings.Join(s, ",")
}

func init() {
	register(&def{
		name:    "onchangemap",
		configs: ocConfigs(),
		table: func(string) []opSpec {
			return []opSpec{
				{N: "Add", W: 8, Args: []int{ocIDs, 50}},
				{N: "Modify", W: 6, Args: []int{ocIDs, 9, 4}},
				{N: "Delete", W: 5, Args: []int{ocIDs}},
				{N: "Get", W: 2, Args: []int{ocIDs}},
				{N: "CallbacksEnabled", W: 2, Args: []int{2}},
				{N: "ExecuteChangedCallback", W: 1},
			}
		},
		mk: func(cfg string) machine {
			// cfg = "cb=<mask>,start=on|off"
			m := &ocMachine{model: map[int]int{}, mask: cfg[3:7]}
			type opt = options.Option[onchangemap.OnChangeMap[int, ocID, *ocItem]]
			var opts []opt
			if m.has('c') {
				opts = append(opts, onchangemap.WithChangedCallback[int, ocID](func(items []*ocItem) error {
					m.log = append(m.log, "changed:"+ocSnapshot(items))
					m.holdSliceArg(items)
					return nil
				}))
			}
			if m.has('a') {
				opts = append(opts, onchangemap.WithItemAddedCallback[int, ocID](func(it *ocItem) error {
					m.log = append(m.log, fmt.Sprintf("added:%d=%d", it.id, it.val))
					m.holdItemArg("added", it)
					return nil
				}))
			}
			if m.has('m') {
				opts = append(opts, onchangemap.WithItemModifiedCallback[int, ocID](func(it *ocItem) error {
					m.log = append(m.log, fmt.Sprintf("modified:%d=%d", it.id, it.val))
					m.holdItemArg("modified", it)
					return nil
				}))
			}
			if m.has('d') {
				opts = append(opts, onchangemap.WithItemDeletedCallback[int, ocID](func(it *ocItem) error {
					m.log = append(m.log, fmt.Sprintf("deleted:%d=%d", it.id, it.val))
					m.holdItemArg("deleted", it)
					return nil
				}))
			}
			m.real = onchangemap.NewOnChangeMap[int, ocID, *ocItem](opts...)
			if strings.HasSuffix(cfg, "start=on") {
				m.real.CallbacksEnabled(true)
				m.enabled = true
			}
			return m
		},
		require: map[string]int{"mirrored_changes": 5000, "silent_changes": 3000, "modify_declined": 500, "changed_without_item_callback": 1500, "item_without_changed_callback": 1500, "toggled_during_history": 500, "\x00onchangemap_masks": 16},
	})
}

// ocConfigs enumerates every subset of the four callbacks x callbacks initially enabled/disabled
// (CallbacksEnabled operations toggle it during the history in both cases).
func ocConfigs() []string {
	var out []string
	for bits := 0; bits < 16; bits++ {
		mask := []byte("----")
		for i, ch := range []byte("camd") {
			if bits&(1<<i) != 0 {
				mask[i] = ch
			}
		}
		out = append(out, "cb="+string(mask)+",start=on", "cb="+string(mask)+",start=off")
	}
	return out
}

var ocKindLetter = map[string]byte{"added": 'a', "modified": 'm', "deleted": 'd'}

// expectLog returns the callbacks an effective add/modify/delete must produce (model already updated).
func (m *ocMachine) expectLog(x *hx, kind string, id, val int) []string {
	x.mark("onchangemap_masks", m.mask)
	if !m.enabled {
		x.note("silent_changes")
		return nil
	}
	var want []string
	item := m.has(ocKindLetter[kind])
	if m.has('c') {
		want = append(want, "changed:"+m.modelSnapshot())
		if !item {
			x.note("changed_without_item_callback")
		}
	}
	if item {
		want = append(want, fmt.Sprintf("%s:%d=%d", kind, id, val))
		if !m.has('c') {
			x.note("item_without_changed_callback")
		}
	}
	if len(want) == 0 {
		x.note("silent_changes")
	} else {
		x.note("mirrored_changes")
	}
	return want
}

func (m *ocMachine) step(x *hx, o op) {
	id := o.arg(0)
	cur, has := m.model[id]
	m.log = m.log[:0]
	m.cbHeld = m.cbHeld[:0]
	var want []string
	switch o.N {
	case "Add":
		err := m.real.Add(&ocItem{id: ocID(id), val: o.arg(1)})
		if (err != nil) != has {
			x.failOp("wrong-error", "Add(%d) error %v, model has the id: %v", id, err, has)
		}
		if !has {
			m.model[id] = o.arg(1)
			want = m.expectLog(x, "added", id, o.arg(1))
		}
	case "Modify":
		accept := o.arg(2) != 0
		delta := o.arg(1) + 1
		sawOK := true
		res, err := m.real.Modify(ocID(id), func(it *ocItem) bool {
			if int(it.id) != id || it.val != cur {
				sawOK = false
			}
			if accept {
				it.val += delta
				m.wrote(it)
			}
			return accept
		})
		if (err != nil) != !has {
			x.failOp("wrong-error", "Modify(%d) error %v, model has the id: %v", id, err, has)
		}
		if has {
			if !sawOK {
				x.failOp("callback-args", "Modify(%d): callback did not receive the stored item (value %d)", id, cur)
			}
			nv := cur
			if accept {
				nv = cur + delta
				m.model[id] = nv
				want = m.expectLog(x, "modified", id, nv)
			} else {
				x.note("modify_declined")
			}
			if res == nil || int(res.id) != id || res.val != nv {
				x.failOp("wrong-return", "Modify(%d) returned %+v, model value %d", id, res, nv)
			} else {
				res.val = -7 // must be a copy
				holdOcItem(x, "Modify", res, id, -7)
			}
		} else if res != nil {
			x.failOp("wrong-return", "Modify(%d) on a missing id returned an item", id)
		}
	case "Delete":
		err := m.real.Delete(ocID(id))
		if (err != nil) != !has {
			x.failOp("wrong-error", "Delete(%d) error %v, model has the id: %v", id, err, has)
		}
		if has {
			delete(m.model, id)
			want = m.expectLog(x, "deleted", id, cur)
		}
	case "Get":
		res, err := m.real.Get(ocID(id))
		if (err != nil) != !has {
			x.failOp("wrong-error", "Get(%d) error %v, model has the id: %v", id, err, has)
		} else if has && (res == nil || res.val != cur) {
			x.failOp("wrong-return", "Get(%d) = %+v, model %d", id, res, cur)
		} else if has {
			res.val = -7 // must be a copy
			holdOcItem(x, "Get", res, id, -7)
		}
	case "CallbacksEnabled":
		if m.enabled != (o.arg(0) == 1) {
			x.note("toggled_during_history")
		}
		m.enabled = o.arg(0) == 1
		m.real.CallbacksEnabled(m.enabled)
	case "ExecuteChangedCallback":
		if err := m.real.ExecuteChangedCallback(); err != nil {
			x.failOp("wrong-error", "ExecuteChangedCallback() = %v", err)
		}
		if m.enabled && m.has('c') {
			want = []string{"changed:" + m.modelSnapshot()}
		}
	}
	if !x.ok() {
		return
	}
	got := append([]string(nil), m.log...)
	sort.Strings(got)
	sort.Strings(want)
	if strings.Join(got, " | ") != strings.Join(want, " | ") {
		sym := "wrong-callbacks"
		switch {
		case len(want) == 0:
			sym = "spurious-callbacks"
		case len(got) == 0:
			sym = "missing-callbacks"
		}
		x.failOp(sym, "callbacks [%s], expected [%s] (enabled=%v configured callbacks=%s)", strings.Join(got, " | "), strings.Join(want, " | "), m.enabled, m.mask)
		return
	}
	m.log = m.log[:0]
	// the callback arguments are held by their consumer: unchanged after the call returned, then held over the following steps
	for _, h := range m.cbHeld {
		if msg := h.same(); msg != "" {
			x.fail(h.name+"-held-argument-changed", "an argument kept by a callback changed before %s returned: %s", o.N, msg)
			return
		}
		h := h
		x.note("held_callback_arguments")
		holdCustom(x, h.name, h.same, func(k int) {
			if h.scribble != nil {
				h.scribble(k)
			}
		})
	}
	m.cbHeld = m.cbHeld[:0]
	all := m.real.All()
	am := map[int]int{}
	for k, it := range all {
		if it == nil || int(it.id) != k {
			x.failOp("wrong-All", "All() maps %d to %+v", k, it)
			return
		}
		am[k] = it.val
		it.val = -9 // copies: must not show up below
	}
	if !eqMap(am, m.model) {
		x.failOp("wrong-All", "All() = %v, model %v", am, m.model)
	} else {
		for k, it := range all {
			holdOcItem(x, "All-item", it, k, -9)
			break // one clone per step is enough, the map itself is held below
		}
		holdMap(x, "All", all, heldGarbage, (*ocItem)(nil))
	}
	for k := 0; k < ocIDs; k++ {
		res, err := m.real.Get(ocID(k))
		mv, in := m.model[k]
		if (err == nil) != in || (in && res.val != mv) {
			x.failOp("wrong-Get", "afterwards Get(%d) = (%+v,%v), model (%d,%v)", k, res, err, mv, in)
		}
	}
	if len(m.log) != 0 {
		x.failOp("readers-trigger-callbacks", "All/Get triggered callbacks %v", m.log)
	}
}

// holdOcItem keeps a clone the map handed out (already scribbled to val): later operations on
// the map must not touch it.
func holdOcItem(x *hx, name string, it *ocItem, id, val int) {
	holdCustom(x, name, func() string {
		if int(it.id) != id || it.val != val {
			return fmt.Sprintf("the copy of item %d (value set to %d by the caller) is now %+v", id, val, *it)
		}
		return ""
	}, func(kind int) {
		val = heldGarbage - kind
		it.val = val
	})
}

func (m *ocMachine) drain(x *hx) {
	m.real.CallbacksEnabled(true)
	m.enabled = true
	for _, k := range mapKeys(m.model) {
		m.log = m.log[:0]
		v := m.model[k]
		if err := m.real.Delete(ocID(k)); err != nil {
			x.fail("drain-Delete-error", "final Delete(%d) = %v", k, err)
			return
		}
		delete(m.model, k)
		{
			var want []string
			if m.has('c') {
				want = append(want, "changed:"+m.modelSnapshot())
			}
			if m.has('d') {
				want = append(want, fmt.Sprintf("deleted:%d=%d", k, v))
			}
			got := append([]string(nil), m.log...)
			sort.Strings(got)
			sort.Strings(want)
			if strings.Join(got, "|") != strings.Join(want, "|") {
				x.fail("drain-Delete-wrong-callbacks", "final Delete(%d): callbacks %v, expected %v", k, got, want)
				return
			}
		}
	}
	if n := len(m.real.All()); n != 0 {
		x.fail("drain-not-empty", "after deleting every model item All() has %d entries", n)
	}
}

func (m *ocMachine) state() uint64 { return newHasher().imap(m.model).b(m.enabled).h }
