package main

import (
	"fmt"
	"sort"
	"strings"

	"github.com/iotaledger/hive.go/ds/onchangemap"
)

// OnChangeMap vs a Go map plus a callback log: every successful add/modify/delete is
// mirrored by one "changed" callback (carrying the new content) and one item callback;
// nothing is called while callbacks are disabled, for failed operations, or when Modify's
// callback returns false. The order of the two callbacks of one operation is not demanded.

type ocID int

func (i ocID) Key() int       { return int(i) }
func (i ocID) String() string { return fmt.Sprintf("item-%d", int(i)) }

type ocItem struct {
	id  ocID
	val int
}

func (i *ocItem) ID() ocID { return i.id }
func (i *ocItem) Clone() onchangemap.Item[int, ocID] {
	return &ocItem{id: i.id, val: i.val}
}

const ocIDs = 5

type ocMachine struct {
	real       *onchangemap.OnChangeMap[int, ocID, *ocItem]
	model      map[int]int
	registered bool
	enabled    bool
	log        []string
}

func ocSnapshot(items []*ocItem) string {
	s := make([]string, 0, len(items))
	for _, it := range items {
		s = append(s, fmt.Sprintf("%d=%d", it.id, it.val))
	}
	sort.Strings(s)
	return strings.Join(s, ",")
}

func (m *ocMachine) modelSnapshot() string {
	s := make([]string, 0, len(m.model))
	for k, v := range m.model {
		s = append(s, fmt.Sprintf("%d=%d", k, v))
	}
	sort.Strings(s)
	return strings.Join(s, ",")
}

func init() {
	register(&def{
		name:    "onchangemap",
		configs: []string{"callbacks=on", "callbacks=initially-off", "callbacks=none-registered"},
		table: func(string) []opSpec {
			return []opSpec{
				{N: "Add", W: 8, Args: []int{ocIDs, 50}},
				{N: "Modify", W: 6, Args: []int{ocIDs, 9, 4}},
				{N: "Delete", W: 5, Args: []int{ocIDs}},
				{N: "Get", W: 2, Args: []int{ocIDs}},
				{N: "CallbacksEnabled", W: 2, Args: []int{2}},
				{N: "ExecuteChangedCallback", W: 1},
			}
		},
		mk: func(cfg string) machine {
			m := &ocMachine{model: map[int]int{}}
			if cfg == "callbacks=none-registered" {
				m.real = onchangemap.NewOnChangeMap[int, ocID, *ocItem]()
			} else {
				m.registered = true
				m.real = onchangemap.NewOnChangeMap(
					onchangemap.WithChangedCallback[int, ocID](func(items []*ocItem) error {
						m.log = append(m.log, "changed:"+ocSnapshot(items))
						return nil
					}),
					onchangemap.WithItemAddedCallback[int, ocID](func(it *ocItem) error {
						m.log = append(m.log, fmt.Sprintf("added:%d=%d", it.id, it.val))
						return nil
					}),
					onchangemap.WithItemModifiedCallback[int, ocID](func(it *ocItem) error {
						m.log = append(m.log, fmt.Sprintf("modified:%d=%d", it.id, it.val))
						return nil
					}),
					onchangemap.WithItemDeletedCallback[int, ocID](func(it *ocItem) error {
						m.log = append(m.log, fmt.Sprintf("deleted:%d=%d", it.id, it.val))
						return nil
					}),
				)
			}
			if cfg == "callbacks=on" {
				m.real.CallbacksEnabled(true)
				m.enabled = true
			}
			return m
		},
		require: map[string]int{"mirrored_changes": 5000, "silent_changes": 3000, "modify_declined": 500},
	})
}

func (m *ocMachine) expectLog(x *hx, kind string, id, val int) []string {
	if !m.enabled {
		x.note("silent_changes")
		return nil
	}
	if !m.registered {
		x.note("silent_changes")
		return nil
	}
	x.note("mirrored_changes")
	return []string{"changed:" + m.modelSnapshot(), fmt.Sprintf("%s:%d=%d", kind, id, val)}
}

func (m *ocMachine) step(x *hx, o op) {
	id := o.arg(0)
	cur, has := m.model[id]
	m.log = m.log[:0]
	var want []string
	switch o.N {
	case "Add":
		err := m.real.Add(&ocItem{id: ocID(id), val: o.arg(1)})
		if (err != nil) != has {
			x.failOp("wrong-error", "Add(%d) error %v, model has the id: %v", id, err, has)
		}
		if !has {
			m.model[id] = o.arg(1)
			want = m.expectLog(x, "added", id, o.arg(1))
		}
	case "Modify":
		accept := o.arg(2) != 0
		delta := o.arg(1) + 1
		sawOK := true
		res, err := m.real.Modify(ocID(id), func(it *ocItem) bool {
			if int(it.id) != id || it.val != cur {
				sawOK = false
			}
			if accept {
				it.val += delta
			}
			return accept
		})
		if (err != nil) != !has {
			x.failOp("wrong-error", "Modify(%d) error %v, model has the id: %v", id, err, has)
		}
		if has {
			if !sawOK {
				x.failOp("callback-args", "Modify(%d): callback did not receive the stored item (value %d)", id, cur)
			}
			nv := cur
			if accept {
				nv = cur + delta
				m.model[id] = nv
				want = m.expectLog(x, "modified", id, nv)
			} else {
				x.note("modify_declined")
			}
			if res == nil || int(res.id) != id || res.val != nv {
				x.failOp("wrong-return", "Modify(%d) returned %+v, model value %d", id, res, nv)
			} else {
				res.val = -7 // must be a copy
			}
		} else if res != nil {
			x.failOp("wrong-return", "Modify(%d) on a missing id returned an item", id)
		}
	case "Delete":
		err := m.real.Delete(ocID(id))
		if (err != nil) != !has {
			x.failOp("wrong-error", "Delete(%d) error %v, model has the id: %v", id, err, has)
		}
		if has {
			delete(m.model, id)
			want = m.expectLog(x, "deleted", id, cur)
		}
	case "Get":
		res, err := m.real.Get(ocID(id))
		if (err != nil) != !has {
			x.failOp("wrong-error", "Get(%d) error %v, model has the id: %v", id, err, has)
		} else if has && (res == nil || res.val != cur) {
			x.failOp("wrong-return", "Get(%d) = %+v, model %d", id, res, cur)
		} else if has {
			res.val = -7 // must be a copy
		}
	case "CallbacksEnabled":
		m.enabled = o.arg(0) == 1
		m.real.CallbacksEnabled(m.enabled)
	case "ExecuteChangedCallback":
		if err := m.real.ExecuteChangedCallback(); err != nil {
			x.failOp("wrong-error", "ExecuteChangedCallback() = %v", err)
		}
		if m.enabled && m.registered {
			want = []string{"changed:" + m.modelSnapshot()}
		}
	}
	if !x.ok() {
		return
	}
	got := append([]string(nil), m.log...)
	sort.Strings(got)
	sort.Strings(want)
	if strings.Join(got, " | ") != strings.Join(want, " | ") {
		sym := "wrong-callbacks"
		switch {
		case len(want) == 0:
			sym = "spurious-callbacks"
		case len(got) == 0:
			sym = "missing-callbacks"
		}
		x.failOp(sym, "callbacks [%s], expected [%s] (enabled=%v registered=%v)", strings.Join(got, " | "), strings.Join(want, " | "), m.enabled, m.registered)
		return
	}
	m.log = m.log[:0]
	all := m.real.All()
	am := map[int]int{}
	for k, it := range all {
		if it == nil || int(it.id) != k {
			x.failOp("wrong-All", "All() maps %d to %+v", k, it)
			return
		}
		am[k] = it.val
		it.val = -9 // copies: must not show up below
	}
	if !eqMap(am, m.model) {
		x.failOp("wrong-All", "All() = %v, model %v", am, m.model)
	}
	for k := 0; k < ocIDs; k++ {
		res, err := m.real.Get(ocID(k))
		mv, in := m.model[k]
		if (err == nil) != in || (in && res.val != mv) {
			x.failOp("wrong-Get", "afterwards Get(%d) = (%+v,%v), model (%d,%v)", k, res, err, mv, in)
		}
	}
	if len(m.log) != 0 {
		x.failOp("readers-trigger-callbacks", "All/Get triggered callbacks %v", m.log)
	}
}

func (m *ocMachine) drain(x *hx) {
	m.real.CallbacksEnabled(true)
	m.enabled = true
	for _, k := range mapKeys(m.model) {
		m.log = m.log[:0]
		v := m.model[k]
		if err := m.real.Delete(ocID(k)); err != nil {
			x.fail("drain-Delete-error", "final Delete(%d) = %v", k, err)
			return
		}
		delete(m.model, k)
		if m.registered {
			want := []string{"changed:" + m.modelSnapshot(), fmt.Sprintf("deleted:%d=%d", k, v)}
			got := append([]string(nil), m.log...)
			sort.Strings(got)
			sort.Strings(want)
			if strings.Join(got, "|") != strings.Join(want, "|") {
				x.fail("drain-Delete-wrong-callbacks", "final Delete(%d): callbacks %v, expected %v", k, got, want)
				return
			}
		}
	}
	if n := len(m.real.All()); n != 0 {
		x.fail("drain-not-empty", "after deleting every model item All() has %d entries", n)
	}
}

func (m *ocMachine) state() uint64 { return newHasher().imap(m.model).b(m.enabled).h }
