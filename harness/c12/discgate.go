package main

// Part "disc", gate windows: SLOW user code.
//
// One call whose user function parks at a harness gate (a condition, an update function, a factory, an
// iteration consumer, a Modify callback, a notification callback, an event hook) while 2-4 other goroutines
// each make one call on the same container. gdump decides for every one of them whether it returned or is
// parked (that is only counted: which calls wait for the user function is the implementation's business);
// then the gate opens, everything must return (a call that stays parked with nothing runnable is a
// violation), and the recorded history – call/return stamps from one atomic counter, quiescent reads at the
// end – must be linearizable against the sequential model.
//
// For Delete-with-condition, Compute (ShrinkingMap) and Modify (OnChangeMap) the user function is part of the
// operation's atomic step ("evaluate the condition and remove", "read, compute, store"): every such user
// function reads and overwrites a harness-side register of its key when it is entered (last invocation
// counts, so an implementation that re-evaluates after a failed validation is not flagged), and the model
// demands that the operations of a key take effect in the order of that register chain. The unchanged tree
// runs these functions under the container's write lock, so the chain is the lock order. NOT part of the
// chain: GetOrCreate's factory (an optimistic factory whose value is discarded is allowed), iteration
// consumers and notification callbacks (a snapshot iteration / callbacks fired after the lock was released
// are allowed), event hooks of SubscriptionManager (fired outside the lock on the unchanged tree).

import (
	"fmt"
	"sort"
	"strings"
	"sync"
	"sync/atomic"
	"time"

	"github.com/anishathalye/porcupine"

	"verif/harness/internal/gdump"
	"verif/harness/internal/vf"

	"github.com/iotaledger/hive.go/core/memstorage"
	"github.com/iotaledger/hive.go/ds/onchangemap"
	"github.com/iotaledger/hive.go/ds/randommap"
	"github.com/iotaledger/hive.go/ds/shrinkingmap"
	"github.com/iotaledger/hive.go/runtime/options"
	"github.com/iotaledger/hive.go/web/subscriptionmanager"
)

const gKeys = 3

// gop is one recorded operation of a gate history.
type gop struct {
	A  int    `json:"actor"`
	Op string `json:"op"`
	K  int    `json:"k"`
	V  int    `json:"v,omitempty"` // value / delta / topic
	D  bool   `json:"d,omitempty"` // decision of the condition / Modify callback accepts
	// results
	OK   bool  `json:"ok,omitempty"`
	Out  int   `json:"out,omitempty"`
	Snap []int `json:"snap,omitempty"` // iteration result: sorted k,v pairs
	// what the user function observed at its last invocation
	UserCalls int    `json:"user_calls,omitempty"`
	SeenV     int    `json:"seen_v,omitempty"`
	SeenOK    bool   `json:"seen_ok,omitempty"`
	RegSeen   int    `json:"reg_seen,omitempty"`
	RegSet    int    `json:"reg_set,omitempty"`
	Park      bool   `json:"parks,omitempty"`  // this operation's user function parks at the gate (invocation/visit ParkAt)
	Parked    bool   `json:"parked,omitempty"` // it really reached the gate
	Status    string `json:"status,omitempty"` // returned | blocked (while the gate was closed)
	Call      int64  `json:"call"`
	Ret       int64  `json:"ret"`
}

func (o gop) String() string {
	s := fmt.Sprintf("actor %d %s(k=%d,v=%d,d=%v) -> ok=%v out=%d", o.A, o.Op, o.K, o.V, o.D, o.OK, o.Out)
	if o.Snap != nil {
		s += fmt.Sprintf(" snapshot=%v", o.Snap)
	}
	if o.UserCalls > 0 {
		s += fmt.Sprintf(" [user function: %d call(s), saw (%d,%v), register %d->%d]", o.UserCalls, o.SeenV, o.SeenOK, o.RegSeen, o.RegSet)
	}
	if o.Parked {
		s += " [user function parked at the gate]"
	}
	if o.Status != "" {
		s += " [" + o.Status + " while the gate was closed]"
	}
	return s + fmt.Sprintf(" [%d,%d]", o.Call, o.Ret)
}

type gcell struct {
	has bool
	v   int
	reg int
}

type gstate [gKeys]gcell

func (s gstate) flat() []int {
	out := []int{}
	for k, c := range s {
		if c.has {
			out = append(out, k, c.v)
		}
	}
	return out
}

// gateModel is the sequential model of the keyed containers; chain=false ignores the register chain (blame step).
func gateModel(chain bool) porcupine.Model {
	return porcupine.Model{
		Init:              func() any { return gstate{} },
		DescribeOperation: func(in, _ any) string { return in.(gop).String() },
		Step: func(st, in, _ any) (bool, any) {
			s, o := st.(gstate), in.(gop)
			k := o.K
			if k < 0 || k >= gKeys {
				k = 0
			}
			c := s[k]
			if chain && o.RegSet != 0 {
				if c.reg != o.RegSeen {
					return false, s
				}
				c.reg = o.RegSet
				s[k] = c
			}
			switch o.Op {
			case "Set": // ShrinkingMap.Set
				ok := o.OK == !c.has
				c.has, c.v = true, o.V
				s[k] = c
				return ok, s
			case "Put": // RandomMap.Set (no result)
				c.has, c.v = true, o.V
				s[k] = c
				return true, s
			case "Get":
				return o.OK == c.has && (!c.has || o.Out == c.v), s
			case "Has":
				return o.OK == c.has, s
			case "Del":
				ok := o.OK == c.has
				c.has, c.v = false, 0
				s[k] = c
				return ok, s
			case "DelRet":
				ok := o.OK == c.has && (!c.has || o.Out == c.v)
				c.has, c.v = false, 0
				s[k] = c
				return ok, s
			case "DelCond":
				if o.UserCalls == 0 { // condition not consulted: only acceptable when there was nothing to delete
					return !o.OK && !c.has, s
				}
				if !o.D {
					return !o.OK, s
				}
				ok := o.OK == c.has
				c.has, c.v = false, 0
				s[k] = c
				return ok, s
			case "Compute":
				cur := 0
				if c.has {
					cur = c.v
				}
				ok := o.UserCalls > 0 && o.SeenOK == c.has && o.SeenV == cur && o.Out == cur+o.V
				c.has, c.v = true, cur+o.V
				s[k] = c
				return ok, s
			case "GetOrCreate":
				if c.has {
					return !o.OK && o.Out == c.v, s
				}
				c.has, c.v = true, o.V
				s[k] = c
				return o.OK && o.Out == o.V, s
			case "Add": // OnChangeMap.Add
				if c.has {
					return !o.OK, s
				}
				c.has, c.v = true, o.V
				s[k] = c
				return o.OK, s
			case "Modify":
				if !c.has {
					return !o.OK && o.UserCalls == 0, s
				}
				ok := o.OK && o.UserCalls > 0 && o.SeenV == c.v
				if o.D {
					c.v += o.V
				}
				s[k] = c
				return ok && o.Out == c.v, s
			case "GetCreate": // IndexedStorage.Get(i, true): the value is the identity of the storage
				if c.has {
					return o.Out == c.v, s
				}
				c.has, c.v = true, o.Out
				s[k] = c
				return o.Out != 0, s
			case "Snap":
				return eqInts(o.Snap, s.flat()), s
			}
			return false, s
		},
	}
}

// gateInst is one container under a gate history.
type gateInst interface {
	// exec performs o; user is called by the operation's user function at every invocation/visit (it maintains the
	// register, records what was seen and parks when the operation is the parking one).
	exec(o *gop, user func(o *gop, seenV int, seenOK bool, chain bool))
}

type gateDef struct {
	name    string
	parkOps []string // operations whose user function can park
	others  []wop    // operations of the other goroutines
	setup   []wop
	mk      func() gateInst
	chain   map[string]bool // operations whose user function is part of the atomic step
}

// ---- ShrinkingMap

type gateSM struct {
	m *shrinkingmap.ShrinkingMap[int, int]
}

func (x *gateSM) exec(o *gop, user func(*gop, int, bool, bool)) {
	switch o.Op {
	case "Set":
		o.OK = x.m.Set(o.K, o.V)
	case "Get":
		o.Out, o.OK = x.m.Get(o.K)
	case "Has":
		o.OK = x.m.Has(o.K)
	case "Del":
		o.OK = x.m.Delete(o.K)
	case "DelRet":
		o.Out, o.OK = x.m.DeleteAndReturn(o.K)
	case "DelCond":
		o.OK = x.m.Delete(o.K, func() bool { user(o, 0, false, true); return o.D })
	case "Compute":
		o.Out = x.m.Compute(o.K, func(c int, ex bool) int { user(o, c, ex, true); return c + o.V })
	case "GetOrCreate":
		o.Out, o.OK = x.m.GetOrCreate(o.K, func() int { user(o, 0, false, false); return o.V })
	case "Snap":
		got := map[int]int{}
		dup := false
		x.m.ForEach(func(k, v int) bool {
			if _, in := got[k]; in {
				dup = true
			}
			got[k] = v
			user(o, v, true, false)
			return true
		})
		o.Snap = flatMap(got)
		if dup {
			o.Snap = append(o.Snap, -1)
		}
	}
}

// ---- RandomMap

type gateRM struct {
	m *randommap.RandomMap[int, int]
}

func (x *gateRM) exec(o *gop, user func(*gop, int, bool, bool)) {
	switch o.Op {
	case "Put":
		x.m.Set(o.K, o.V)
	case "Get":
		o.Out, o.OK = x.m.Get(o.K)
	case "Has":
		o.OK = x.m.Has(o.K)
	case "DelRet":
		o.Out, o.OK = x.m.Delete(o.K)
	case "Snap":
		got := map[int]int{}
		x.m.ForEach(func(k, v int) bool {
			got[k] = v
			user(o, v, true, false)
			return true
		})
		o.Snap = flatMap(got)
	}
}

// ---- IndexedStorage (value = identity of the storage)

type gateIS struct {
	m   *memstorage.IndexedStorage[isIndex, int, int]
	mu  sync.Mutex
	ids map[*shrinkingmap.ShrinkingMap[int, int]]int
}

func (x *gateIS) id(p *shrinkingmap.ShrinkingMap[int, int]) int {
	if p == nil {
		return 0
	}
	x.mu.Lock()
	defer x.mu.Unlock()
	if _, ok := x.ids[p]; !ok {
		x.ids[p] = len(x.ids) + 1
	}
	return x.ids[p]
}

func (x *gateIS) exec(o *gop, user func(*gop, int, bool, bool)) {
	switch o.Op {
	case "GetCreate":
		o.Out = x.id(x.m.Get(isIndex(o.K), true))
	case "Get":
		o.Out = x.id(x.m.Get(isIndex(o.K)))
		o.OK = o.Out != 0
	case "DelRet":
		o.Out = x.id(x.m.Evict(isIndex(o.K)))
		o.OK = o.Out != 0
	case "Snap":
		got := map[int]int{}
		x.m.ForEach(func(k isIndex, s *shrinkingmap.ShrinkingMap[int, int]) {
			got[int(k)] = x.id(s)
			user(o, 0, true, false)
		})
		o.Snap = flatMap(got)
	}
}

// ---- OnChangeMap: the Modify callback and the notification callbacks can park

type gateOC struct {
	m *onchangemap.OnChangeMap[int, ocID, *ocItem]
	// the operation whose notification callback parks (set before the goroutines start)
	notify atomic.Pointer[func()]
}

func (x *gateOC) exec(o *gop, user func(*gop, int, bool, bool)) {
	switch o.Op {
	case "Add", "AddSlowCallback":
		if o.Op == "AddSlowCallback" {
			f := func() { user(o, 0, false, false) }
			x.notify.Store(&f)
		}
		o.OK = x.m.Add(&ocItem{id: ocID(o.K), val: o.V}) == nil
		if o.Op == "AddSlowCallback" {
			x.notify.Store(nil) // nothing was added: no callback, nobody parks
		}
	case "Modify":
		res, err := x.m.Modify(ocID(o.K), func(it *ocItem) bool {
			user(o, it.val, true, true)
			if o.D {
				it.val += o.V
			}
			return o.D
		})
		o.OK = err == nil
		if res != nil {
			o.Out = res.val
		}
	case "Del":
		o.OK = x.m.Delete(ocID(o.K)) == nil
	case "Get":
		res, err := x.m.Get(ocID(o.K))
		o.OK = err == nil
		if res != nil {
			o.Out = res.val
		}
	case "Snap":
		got := map[int]int{}
		for k, it := range x.m.All() {
			got[k] = it.val
		}
		o.Snap = flatMap(got)
	}
}

func mkGateOC() gateInst {
	x := &gateOC{}
	type opt = options.Option[onchangemap.OnChangeMap[int, ocID, *ocItem]]
	x.m = onchangemap.NewOnChangeMap[int, ocID, *ocItem](opt(onchangemap.WithItemAddedCallback[int, ocID](func(*ocItem) error {
		if f := x.notify.Swap(nil); f != nil {
			(*f)()
		}
		return nil
	})))
	x.m.CallbacksEnabled(true)
	return x
}

var gateDefs = []*gateDef{
	{
		name:    "shrinkingmap",
		parkOps: []string{"DelCond", "DelCond", "Compute", "Compute", "GetOrCreate", "Snap"},
		others:  []wop{{"Compute", 5}, {"DelCond", 4}, {"Set", 3}, {"Get", 2}, {"Has", 1}, {"Del", 2}, {"DelRet", 2}, {"GetOrCreate", 3}, {"Snap", 1}},
		setup:   []wop{{"Set", 3}, {"Compute", 1}},
		mk: func() gateInst {
			return &gateSM{m: shrinkingmap.New[int, int](shrinkingmap.WithShrinkingThresholdRatio(0.5), shrinkingmap.WithShrinkingThresholdCount(1))}
		},
		chain: map[string]bool{"DelCond": true, "Compute": true},
	},
	{
		name:    "randommap",
		parkOps: []string{"Snap"},
		others:  []wop{{"Put", 4}, {"Get", 2}, {"Has", 1}, {"DelRet", 3}, {"Snap", 1}},
		setup:   []wop{{"Put", 1}},
		mk:      func() gateInst { return &gateRM{m: randommap.New[int, int]()} },
	},
	{
		name:    "indexedstorage",
		parkOps: []string{"Snap"},
		others:  []wop{{"GetCreate", 4}, {"Get", 2}, {"DelRet", 3}, {"Snap", 1}},
		setup:   []wop{{"GetCreate", 1}},
		mk: func() gateInst {
			return &gateIS{m: memstorage.NewIndexedStorage[isIndex, int, int](), ids: map[*shrinkingmap.ShrinkingMap[int, int]]int{}}
		},
	},
	{
		name:    "onchangemap",
		parkOps: []string{"Modify", "Modify", "AddSlowCallback"},
		others:  []wop{{"Modify", 5}, {"Add", 3}, {"Del", 3}, {"Get", 2}, {"Snap", 1}},
		setup:   []wop{{"Add", 1}},
		mk:      mkGateOC,
		chain:   map[string]bool{"Modify": true},
	},
}

type gateRun struct {
	ops      []gop
	parked   bool
	blocked  int
	returned int
	stuck    string
	panicked string
	events   []string
}

var gclock atomic.Int64

// runGate executes one gate history.
func runGate(def *gateDef, seed uint64) *gateRun {
	r := &rng{s: seed}
	inst := def.mk()
	res := &gateRun{}
	uniq := 0
	gen := func(table []wop, actor int) gop {
		uniq++
		op := pickOp(r, table)
		return gop{A: actor, Op: op, K: r.n(gKeys), V: uniq, D: r.n(3) != 0}
	}
	var regMu sync.Mutex
	var regs [gKeys]int
	regUniq := 0
	reached := make(chan struct{}, 1)
	gate := make(chan struct{})
	parkAt := 0
	user := func(o *gop, seenV int, seenOK bool, chain bool) {
		o.UserCalls++
		o.SeenV, o.SeenOK = seenV, seenOK
		if chain {
			regMu.Lock()
			regUniq++
			o.RegSeen, o.RegSet = regs[o.K], regUniq
			regs[o.K] = regUniq
			regMu.Unlock()
		}
		if o.Park && !o.Parked && o.UserCalls == parkAt+1 {
			o.Parked = true
			reached <- struct{}{}
			<-gate
		}
	}
	var mu sync.Mutex
	do := func(o *gop) {
		o.Call = gclock.Add(1)
		inst.exec(o, user)
		o.Ret = gclock.Add(1)
		if o.Op == "AddSlowCallback" {
			o.Op = "Add"
		}
		mu.Lock()
		res.ops = append(res.ops, *o)
		mu.Unlock()
	}
	// sequential setup
	for i, n := 0, r.n(4); i < n; i++ {
		o := gen(def.setup, 0)
		do(&o)
	}
	// the parking operation
	p := gen([]wop{{def.parkOps[r.n(len(def.parkOps))], 1}}, 1)
	p.Park = true
	if p.Op == "Snap" {
		parkAt = r.n(2)
	}
	if p.Op == "DelCond" && r.n(4) != 0 {
		p.D = true
	}
	nOthers := 2 + r.n(3)
	plans := make([]gop, nOthers)
	for i := range plans {
		plans[i] = gen(def.others, 2+i)
		if r.n(3) != 0 {
			plans[i].K = p.K // mostly the key of the parked operation
		}
	}
	parker := gdump.NewActor("parker")
	done := make(chan struct{})
	parker.Start(func() { defer close(done); do(&p) })
	select {
	case <-reached:
		res.parked = true
		res.events = append(res.events, fmt.Sprintf("user function of %s(k=%d) parked at the gate", p.Op, p.K))
	case <-done:
		res.events = append(res.events, fmt.Sprintf("%s(k=%d) returned without invoking its user function", p.Op, p.K))
	}
	actors := make([]*gdump.Actor, nOthers)
	for i := range plans {
		i := i
		actors[i] = gdump.NewActor("other")
		st := actors[i].Do(func() { do(&plans[i]) })
		if st == gdump.Blocked {
			res.blocked++
			plans[i].Status = "blocked"
		} else {
			res.returned++
			plans[i].Status = "returned"
		}
		res.events = append(res.events, fmt.Sprintf("actor %d %s(k=%d): %s while the gate was closed", 2+i, plans[i].Op, plans[i].K, plans[i].Status))
	}
	close(gate)
	settle := func(a *gdump.Actor, what string) {
		for try := 0; try < 3; try++ { // a parked verdict must be stable
			if a.Settle() == gdump.Returned {
				if p := a.TakePanic(); p != "" && res.panicked == "" {
					res.panicked = what + ": " + p
				}
				return
			}
		}
		if res.stuck == "" {
			res.stuck = what
		}
	}
	settle(parker, p.Op)
	for i, a := range actors {
		settle(a, plans[i].Op)
	}
	if res.stuck != "" {
		return res // goroutines are leaked, the container must not be touched any more
	}
	parker.Close()
	for _, a := range actors {
		a.Close()
	}
	// statuses were assigned after the operations were recorded: copy them over
	for i := range res.ops {
		for _, pl := range plans {
			if res.ops[i].A == pl.A {
				res.ops[i].Status = pl.Status
			}
		}
	}
	// quiescent reads
	for k := 0; k < gKeys; k++ {
		o := gop{A: 0, Op: "Get", K: k}
		do(&o)
	}
	o := gop{A: 0, Op: "Snap"}
	do(&o)
	return res
}

func gateToPorc(ops []gop) []porcupine.Operation {
	out := make([]porcupine.Operation, 0, len(ops))
	for _, o := range ops {
		out = append(out, porcupine.Operation{ClientId: o.A, Input: o, Call: o.Call, Output: nil, Return: o.Ret})
	}
	return out
}

func judgeGate(c *vf.Ctx, def *gateDef, seed uint64, res *gateRun) {
	var parkOp string
	for _, o := range res.ops {
		if o.Park {
			parkOp = o.Op
		}
	}
	c.Count("disc:gate_histories", 1)
	c.Count("disc:gate_histories:"+def.name, 1)
	if res.parked {
		c.Count("disc:gate_user_function_parked", 1)
		c.Count("disc:gate_user_function_parked:"+def.name, 1)
		c.Count("disc:gate_calls_blocked_while_parked", res.blocked)
		c.Count("disc:gate_calls_returned_while_parked", res.returned)
		c.Distinct("disc_gate_shapes", fmt.Sprintf("%s/%s/%d/%d", def.name, parkOp, res.blocked, res.returned))
	}
	trace := append([]string(nil), res.events...)
	sorted := append([]gop(nil), res.ops...)
	sort.Slice(sorted, func(i, j int) bool { return sorted[i].Call < sorted[j].Call })
	for _, o := range sorted {
		trace = append(trace, o.String())
	}
	report := func(sym, what string) {
		c.Violation("disc/"+def.name+"/gate-"+parkOp+"-"+sym, fmt.Sprintf("slow user code, %s: %s; %s", def.name, what, strings.Join(trace, " | ")), discRec("gate", def.name, seed, trace, what))
	}
	if res.stuck != "" {
		report("stuck-after-release", fmt.Sprintf("after the gate was opened %s stays parked although no goroutine is runnable", res.stuck))
		return
	}
	if res.panicked != "" {
		report("panic", "a call panicked: "+res.panicked)
		return
	}
	if res.parked {
		for _, o := range res.ops {
			if def.chain[o.Op] && o.UserCalls > 0 && !o.Park {
				c.Count("disc:gate_chained_calls_during_window", 1)
			}
		}
	}
	switch porcupine.CheckOperationsTimeout(gateModel(true), gateToPorc(res.ops), 20*time.Second) {
	case porcupine.Ok:
		c.Count("disc:gate_porcupine_ok", 1)
	case porcupine.Unknown:
		c.Count("disc:gate_porcupine_unknown", 1)
	default:
		if porcupine.CheckOperationsTimeout(gateModel(false), gateToPorc(res.ops), 20*time.Second) == porcupine.Ok {
			report("user-function-not-atomic", "the history is linearizable only if the user functions (condition / update function / Modify callback) are NOT part of their operations' atomic steps: another operation on the same key took effect between the evaluation of a user function and the effect of its operation")
		} else {
			report("nonlinearizable", "no sequential order of the calls explains their results")
		}
	}
}

func discGateN(c *vf.Ctx) int { return c.Pick(250, 4000) }

func discGateChild(c *vf.Ctx, only string, onlySeed uint64) {
	n := discGateN(c)
	for _, def := range gateDefs {
		if only != "" && only != def.name {
			continue
		}
		c.Mark("disc-gate:" + def.name)
		base := c.Rand("c12/disc-gate/" + def.name).Uint64()
		bad := 0
		for i := 0; i < n && bad < 12; i++ {
			seed := mix(base, uint64(i))
			if only != "" {
				if i > 0 {
					break
				}
				seed = onlySeed
			}
			before := c.Violations()
			res := runGate(def, seed)
			judgeGate(c, def, seed, res)
			if c.Violations() > before {
				bad++
			}
			if res.stuck != "" {
				break // leaked goroutines: this container is not driven any further
			}
		}
		c.FlushStats()
	}
	if only == "" || only == "submgr" {
		c.Mark("disc-gate:submgr")
		discGateSMgr(c, n, onlySeed)
		c.FlushStats()
	}
}

// ---- SubscriptionManager: a hook parks (events are fired outside the manager's lock) while other goroutines use the manager

func discGateSMgr(c *vf.Ctx, n int, onlySeed uint64) {
	base := c.Rand("c12/disc-gate/submgr").Uint64()
	bad := 0
	for i := 0; i < n && bad < 12; i++ {
		seed := mix(base, uint64(i))
		if onlySeed != 0 {
			if i > 0 {
				break
			}
			seed = onlySeed
		}
		r := &rng{s: seed}
		limit := []int{0, 0, 2, 3}[r.n(4)]
		m := subscriptionmanager.New(subscriptionmanager.WithMaxTopicSubscriptionsPerClient[int, int](limit))
		var ev smgrEvents
		hookSmgr(m, &ev)
		// a second set of hooks holds the event objects and parks once
		var hmu sync.Mutex
		var held []func() string
		var armed atomic.Bool
		reached := make(chan struct{}, 1)
		gate := make(chan struct{})
		park := func() {
			if armed.CompareAndSwap(true, false) {
				reached <- struct{}{}
				<-gate
			}
		}
		keepT := func(e *subscriptionmanager.TopicEvent[int]) {
			cp := *e
			hmu.Lock()
			held = append(held, func() string { return diffStr(*e != cp, cp, *e) })
			hmu.Unlock()
			park()
		}
		keepCT := func(e *subscriptionmanager.ClientTopicEvent[int, int]) {
			cp := *e
			hmu.Lock()
			held = append(held, func() string { return diffStr(*e != cp, cp, *e) })
			hmu.Unlock()
			park()
		}
		keepC := func(e *subscriptionmanager.ClientEvent[int]) {
			cp := *e
			hmu.Lock()
			held = append(held, func() string { return diffStr(*e != cp, cp, *e) })
			hmu.Unlock()
			park()
		}
		m.Events().TopicAdded.Hook(keepT)
		m.Events().TopicRemoved.Hook(keepT)
		m.Events().TopicSubscribed.Hook(keepCT)
		m.Events().TopicUnsubscribed.Hook(keepCT)
		m.Events().ClientConnected.Hook(keepC)
		m.Events().ClientDisconnected.Hook(keepC)
		var mu sync.Mutex
		var ops []cop
		do := func(o cop) {
			o.Call = gclock.Add(1)
			switch o.Op {
			case "Connect":
				m.Connect(o.K)
			case "Disconnect":
				o.OK = m.Disconnect(o.K)
			case "Subscribe":
				o.OK = m.Subscribe(o.K, o.A)
			case "Unsubscribe":
				o.OK = m.Unsubscribe(o.K, o.A)
			case "TopicHasSubscribers":
				o.OK = m.TopicHasSubscribers(o.A)
			case "ClientSubscribedToTopic":
				o.OK = m.ClientSubscribedToTopic(o.K, o.A)
			case "SubscribersSize":
				o.Out = m.SubscribersSize()
			case "TopicsSize":
				o.Out = m.TopicsSize()
			case "TopicsSizeAll":
				o.Out = m.TopicsSizeAll()
			}
			o.Ret = gclock.Add(1)
			mu.Lock()
			ops = append(ops, o)
			mu.Unlock()
		}
		table := []wop{{"Connect", 2}, {"Disconnect", 2}, {"Subscribe", 6}, {"Unsubscribe", 3}, {"TopicHasSubscribers", 1}, {"TopicsSize", 1}}
		gen := func(cl int) cop {
			return cop{C: cl, Op: pickOp(r, table), K: r.n(smgrClients), A: r.n(smgrTopics)}
		}
		for cl := 0; cl < smgrClients; cl++ {
			do(cop{C: 9, Op: "Connect", K: cl})
		}
		for j, k := 0, 2+r.n(5); j < k; j++ {
			o := gen(9)
			do(o)
		}
		p := gen(0)
		if r.n(2) == 0 {
			p.Op = "Disconnect" // a cleanup fires several events
		}
		armed.Store(true)
		parker := gdump.NewActor("parker")
		done := make(chan struct{})
		parker.Start(func() { defer close(done); do(p) })
		parked := false
		select {
		case <-reached:
			parked = true
		case <-done:
			armed.Store(false)
		}
		nOthers := 2 + r.n(3)
		actors := make([]*gdump.Actor, nOthers)
		blocked, returned := 0, 0
		for j := range actors {
			o := gen(1 + j)
			actors[j] = gdump.NewActor("other")
			if actors[j].Do(func() { do(o) }) == gdump.Blocked {
				blocked++
			} else {
				returned++
			}
		}
		close(gate)
		stuck := ""
		for j, a := range append([]*gdump.Actor{parker}, actors...) {
			st := gdump.Blocked
			for try := 0; try < 3 && st == gdump.Blocked; try++ {
				st = a.Settle()
			}
			if st == gdump.Blocked && stuck == "" {
				stuck = fmt.Sprintf("actor %d", j)
			}
		}
		c.Count("disc:gate_histories", 1)
		c.Count("disc:gate_histories:submgr", 1)
		if parked {
			c.Count("disc:gate_user_function_parked", 1)
			c.Count("disc:gate_user_function_parked:submgr", 1)
			c.Count("disc:gate_calls_blocked_while_parked", blocked)
			c.Count("disc:gate_calls_returned_while_parked", returned)
			c.Distinct("disc_gate_shapes", fmt.Sprintf("submgr/%s/%d/%d", p.Op, blocked, returned))
		}
		report := func(sym, what string) {
			bad++
			var trace []string
			sort.Slice(ops, func(a, b int) bool { return ops[a].Call < ops[b].Call })
			for _, o := range ops {
				trace = append(trace, o.String())
			}
			c.Violation("disc/submgr/gate-hook-"+sym, fmt.Sprintf("slow user code, submgr (limit %d): %s; %s", limit, what, strings.Join(trace, " | ")), discRec("gate", "submgr", seed, trace, what))
		}
		if stuck != "" {
			report("stuck-after-release", "after the gate in the event hook was opened "+stuck+" stays parked although no goroutine is runnable")
			return
		}
		parker.Close()
		for _, a := range actors {
			a.Close()
		}
		for cl := 0; cl < smgrClients; cl++ {
			for t := 0; t < smgrTopics; t++ {
				do(cop{C: 9, Op: "ClientSubscribedToTopic", K: cl, A: t})
			}
		}
		for t := 0; t < smgrTopics; t++ {
			do(cop{C: 9, Op: "TopicHasSubscribers", A: t})
		}
		do(cop{C: 9, Op: "SubscribersSize"})
		do(cop{C: 9, Op: "TopicsSize"})
		do(cop{C: 9, Op: "TopicsSizeAll"})
		for _, same := range held {
			if msg := same(); msg != "" {
				report("held-event-changed", "an event object kept by its hook changed: "+msg)
				break
			}
		}
		switch porcupine.CheckOperationsTimeout(smgrModel(limit), toPorc(ops, -1), 20*time.Second) {
		case porcupine.Ok:
			c.Count("disc:gate_porcupine_ok", 1)
		case porcupine.Unknown:
			c.Count("disc:gate_porcupine_unknown", 1)
		default:
			report("nonlinearizable", "no sequential order of the calls explains their results")
		}
		if sym, what := foldSmgr(m, &ev, smgrClients, smgrTopics); sym != "" {
			report(sym, what)
		}
	}
}

func discGatePart(c *vf.Ctx) {
	res := c.RunChild(vf.ChildOpts{Name: "disc-gate", Timeout: time.Duration(c.Pick(4, 20)) * time.Minute})
	container := strings.TrimPrefix(res.LastMark, "disc-gate:")
	switch {
	case res.TimedOut:
		c.Inconclusive(fmt.Sprintf("disc-gate child: watchdog fired while running %q (stderr %s)", res.LastMark, res.StderrPath))
	case res.Deadlock || res.ExitCode != 0:
		what := fmt.Sprintf("slow user code: the child died (exit %d, %s) while the gate histories of %q ran", res.ExitCode, res.Fatal, container)
		c.Violation("disc/"+container+"/gate-process-died", what, discRec("gate", container, 0, nil, what))
	}
	n := discGateN(c)
	c.Require("disc:gate_histories", n*(len(gateDefs)+1))
	c.Require("disc:gate_user_function_parked", n*(len(gateDefs)+1)*2/5)
	c.Require("disc:gate_porcupine_ok", n*(len(gateDefs)+1)*9/10)
	c.Require("disc:gate_chained_calls_during_window", n/4)
	c.Require("disc_gate_shapes", 12)
}
