// C12 – remaining containers vs abstract models.
//
// One file per container: a seeded sequential history generator (op table), a
// reference model and a step-by-step comparison of every return value, iteration
// result, callback and event. Options are enumerated per container ("configs").
//
// A history stops at its first divergence; the fingerprint is
// "<container>/<operation class>-<symptom>", so that every defect is tracked on its
// own. For the deterministic containers with destructive readers (Walker, priority
// queues, Queue, Stack) the state after *every* step is additionally observed on a
// replica (fresh instance, same prefix of operations, then drained), which pins a
// divergence on the operation that caused it instead of on the read that shows it.
package main

import (
	"fmt"
	"os"
	"runtime"
	"sort"
	"strings"
	"sync"

	"verif/harness/internal/vf"
)

// ---------------------------------------------------------------- histories

type op struct {
	N string `json:"n"`
	A []int  `json:"a,omitempty"`
}

func (o op) String() string { return fmt.Sprintf("%s%v", o.N, o.A) }

// arg returns the i-th argument (0 when missing, so that shrunk histories stay valid).
func (o op) arg(i int) int {
	if i < len(o.A) {
		return o.A[i]
	}
	return 0
}

type histRec struct {
	Container string `json:"container"`
	Config    string `json:"config"`
	Ops       []op   `json:"ops"`
	Step      int    `json:"failing_step"`
	What      string `json:"what"`
	// Conc is set for violations of the concurrent part (conc.go); Container is "conc" then.
	Conc *concReplay `json:"conc,omitempty"`
	// Disc is set for violations of the discipline part (disc.go, discgate.go); Container is "disc" then.
	Disc *discReplay `json:"disc,omitempty"`
}

// opSpec describes one operation class of a generator table.
type opSpec struct {
	N    string
	W    int   // weight
	Args []int // exclusive upper bound per argument
	Var  int   // >0: 1..Var arguments, each below Args[0]
}

type rng struct{ s uint64 }

func (r *rng) next() uint64 {
	r.s += 0x9e3779b97f4a7c15
	z := r.s
	z = (z ^ (z >> 30)) * 0xbf58476d1ce4e5b9
	z = (z ^ (z >> 27)) * 0x94d049bb133111eb
	return z ^ (z >> 31)
}
func (r *rng) n(k int) int {
	if k <= 1 {
		return 0
	}
	return int(r.next() % uint64(k))
}

func genOps(r *rng, n int, table []opSpec) []op {
	total := 0
	for _, s := range table {
		total += s.W
	}
	out := make([]op, 0, n)
	for len(out) < n {
		k := r.n(total)
		var s opSpec
		for _, s = range table {
			if k < s.W {
				break
			}
			k -= s.W
		}
		o := op{N: s.N}
		if s.Var > 0 {
			m := 1 + r.n(s.Var)
			for i := 0; i < m; i++ {
				o.A = append(o.A, r.n(s.Args[0]))
			}
		} else {
			for _, hi := range s.Args {
				o.A = append(o.A, r.n(hi))
			}
		}
		out = append(out, o)
	}
	return out
}

// ---------------------------------------------------------------- execution context

type div struct {
	fp, what string
	step     int
}

// hx is the per-history execution context handed to the machines.
type hx struct {
	quiet     bool // replica replays: prefix was already checked
	d         *div
	step      int
	base      int // first operation of the current segment
	cur       op
	notes     map[string]int
	held      []*heldRes // returned aggregates kept by the "caller" (held.go)
	scribbles int        // held results scribbled on in the current segment
}

func (x *hx) ok() bool { return x.d == nil }

// fail records the first divergence of the history. class = "<Op>-<symptom>".
func (x *hx) fail(class, format string, a ...any) {
	if x.quiet || x.d != nil {
		return
	}
	x.d = &div{fp: class, what: fmt.Sprintf("step %d %s: ", x.step-x.base, x.cur) + fmt.Sprintf(format, a...), step: x.step}
	if x.scribbles > 0 {
		x.d.what += fmt.Sprintf(" [the caller had scribbled on %d result(s) the container returned earlier in this history: reordered, overwritten, filled spare capacity]", x.scribbles)
	}
}

// failOp is fail with the current operation name as the class prefix.
func (x *hx) failOp(symptom, format string, a ...any) { x.fail(x.cur.N+"-"+symptom, format, a...) }

// mark records key in a distinct-set evidence class.
func (x *hx) mark(class, key string) {
	if !x.quiet {
		x.notes["\x00"+class+"\x00"+key]++
	}
}

// note counts a situation of interest (evidence counters).
func (x *hx) note(name string) {
	if !x.quiet {
		x.notes[name]++
	}
}

type machine interface {
	// step applies o to the implementation and the model, compares every result and runs the non-destructive observers.
	step(x *hx, o op)
	// drain is a destructive observation of the whole remaining content (run at the end, and on replicas after each step).
	drain(x *hx)
	// state hashes the abstract (model) state.
	state() uint64
}

type def struct {
	name    string
	configs []string
	table   func(cfg string) []opSpec
	mk      func(cfg string) machine
	replica bool // deterministic + destructive readers: observe each intermediate state on a replica
	nops    int  // operations per history (default 60)
	scale   int  // divide the number of histories (containers that sleep); default 1
	// required minimum of the notes (evidence) in the quick tier
	require map[string]int
}

var defs []*def

func register(d *def) { defs = append(defs, d) }

func safeStep(m machine, x *hx, o op) {
	defer func() {
		if p := recover(); p != nil {
			x.failOp("panic", "panic: %v", p)
		}
	}()
	m.step(x, o)
}

func safeDrain(m machine, x *hx) {
	defer func() {
		if p := recover(); p != nil {
			x.failOp("drain-panic", "panic while draining: %v", p)
		}
	}()
	m.drain(x)
}

type divAt struct {
	d     *div
	start int // first operation of the segment (the machine was created fresh before it)
}

type histResult struct {
	d      *div // first divergence
	divs   []divAt
	steps  int
	states []uint64
	notes  map[string]int
}

// runHistory executes ops. A divergence ends the current segment; with restart the
// remaining operations are run as a new segment on a fresh implementation/model pair
// (so that one frequent defect does not hide the rest of the history).
func runHistory(d *def, cfg string, ops []op, wantStates, restart bool) histResult {
	x := &hx{notes: map[string]int{}}
	m := d.mk(cfg)
	res := histResult{notes: x.notes}
	start := 0
	diverged := func() bool {
		if x.ok() {
			return false
		}
		dd := *x.d
		dd.step -= start
		res.divs = append(res.divs, divAt{d: &dd, start: start})
		if res.d == nil {
			res.d = x.d
		}
		x.d = nil
		return true
	}
	for i, o := range ops {
		x.step, x.cur = i, o
		safeStep(m, x, o)
		x.afterStep() // re-compare the results held from earlier steps, scribble on some of them
		res.steps++
		bad := diverged()
		if !bad && wantStates {
			res.states = append(res.states, m.state())
		}
		if !bad && d.replica {
			r := d.mk(cfg)
			q := &hx{quiet: true, notes: x.notes}
			for j := start; j <= i; j++ {
				q.step, q.cur = j, ops[j]
				safeStep(r, q, ops[j])
			}
			safeDrain(r, x)
			bad = diverged()
		}
		if bad {
			if !restart {
				return res
			}
			m = d.mk(cfg)
			start = i + 1
			x.base = start
			x.held, x.scribbles = nil, 0
		}
	}
	if len(ops) > start && !d.replica { // replica containers were drained after the last step already
		x.step, x.cur = len(ops)-1, op{N: "final"}
		safeDrain(m, x)
		diverged()
	}
	return res
}

// shrink removes operations greedily while the same fingerprint is still produced.
func shrink(d *def, cfg string, ops []op, fp string) ([]op, *div) {
	cur := append([]op(nil), ops...)
	best := runHistory(d, cfg, cur, false, false).d
	if best == nil || best.fp != fp { // not reproducible (time / map-order dependent): keep as is
		return ops, best
	}
	cur = cur[:best.step+1]
	for changed := true; changed; {
		changed = false
		for i := len(cur) - 1; i >= 0; i-- {
			cand := append(append([]op(nil), cur[:i]...), cur[i+1:]...)
			if r := runHistory(d, cfg, cand, false, false).d; r != nil && r.fp == fp {
				cur, best, changed = cand[:r.step+1], r, true
				if i > len(cur) {
					i = len(cur)
				}
			}
		}
	}
	return cur, best
}

// ---------------------------------------------------------------- driver

func mix(a, b uint64) uint64 {
	r := rng{s: a ^ (b * 0x9e3779b97f4a7c15)}
	r.next()
	return r.next()
}

func runDef(c *vf.Ctx, d *def, histories, workers int) {
	if d.scale > 1 {
		histories /= d.scale
	}
	nops := d.nops
	if nops == 0 {
		nops = 60
	}
	base := c.Rand("c12/" + d.name).Uint64()
	const chunk = 100
	nchunks := (histories + chunk - 1) / chunk
	var mu sync.Mutex
	type viol struct {
		fp, what string
		rec      any
	}
	seen := map[string]int{} // divergences per fingerprint so far
	var later []viol         // not minimised: reported after the minimised ones
	tables := map[string][]opSpec{}
	for _, cfg := range d.configs {
		tables[cfg] = d.table(cfg)
	}
	vf.Parallel(nchunks, workers, func(ci int) {
		states := map[uint64]struct{}{}
		notes := map[string]int{}
		opc := map[string]int{}
		nsteps, nhist, nseg := 0, 0, 0
		var mine []viol
		for i := ci * chunk; i < (ci+1)*chunk && i < histories; i++ {
			cfg := d.configs[i%len(d.configs)]
			r := &rng{s: mix(base, uint64(i))}
			ops := genOps(r, nops, tables[cfg])
			res := runHistory(d, cfg, ops, true, true)
			nhist++
			nsteps += res.steps
			nseg += 1 + len(res.divs)
			ch := mix(0, uint64(len(cfg)))
			for _, b := range []byte(cfg) {
				ch = mix(ch, uint64(b))
			}
			for _, s := range res.states {
				states[mix(ch, s)] = struct{}{}
			}
			for k, n := range res.notes {
				notes[k] += n
			}
			for _, o := range ops[:res.steps] {
				opc[o.N]++
			}
			for _, da := range res.divs {
				fp := d.name + "/" + da.d.fp
				seg := ops[da.start : da.start+da.d.step+1]
				mu.Lock()
				seen[fp]++
				nth := seen[fp]
				mu.Unlock()
				if nth <= 3 {
					rec := histRec{Container: d.name, Config: cfg, Ops: seg, Step: da.d.step, What: da.d.what}
					if small, dd := shrink(d, cfg, seg, da.d.fp); dd != nil && dd.fp == da.d.fp {
						rec = histRec{Container: d.name, Config: cfg, Ops: small, Step: dd.step, What: dd.what}
					}
					c.Violation(fp, fmt.Sprintf("%s [%s] %s", d.name, cfg, rec.What), rec)
				} else if nth <= 12 {
					mine = append(mine, viol{fp, fmt.Sprintf("%s [%s] %s", d.name, cfg, da.d.what), histRec{Container: d.name, Config: cfg, Ops: seg, Step: da.d.step, What: da.d.what}})
				} else {
					mine = append(mine, viol{fp, da.d.what, nil})
				}
			}
			if len(res.divs) == 0 && i == 0 {
				c.Sample(map[string]any{"container": d.name, "config": cfg, "ops": ops[:10], "result": "model and implementation agree on all steps"})
			}
		}
		mu.Lock()
		defer mu.Unlock()
		c.Count("evaluations", nsteps)
		c.Count("histories:"+d.name, nhist)
		c.Count("segments:"+d.name, nseg)
		c.Count("ops:"+d.name, nsteps)
		for s := range states {
			c.DistinctHash("nontrivial", mix(s, uint64(len(d.name))+uint64(d.name[0])<<8))
			c.DistinctHash("states:"+d.name, s)
		}
		for k, n := range notes {
			if strings.HasPrefix(k, "\x00") {
				p := strings.SplitN(k[1:], "\x00", 2)
				c.Distinct(p[0], p[1])
				continue
			}
			c.Count(d.name+":"+k, n)
		}
		for k := range opc {
			c.Distinct("opclasses", d.name+"/"+k)
		}
		later = append(later, mine...)
	})
	for _, vv := range later {
		c.Violation(vv.fp, vv.what, vv.rec)
	}
	for _, cfg := range d.configs {
		c.Distinct("configs", d.name+"/"+cfg)
	}
	for k, n := range d.require {
		if strings.HasPrefix(k, "\x00") { // a distinct-set class filled by hx.mark
			c.Require(k[1:], n)
			continue
		}
		c.Require(d.name+":"+k, n)
	}
	c.Require("histories:"+d.name, histories)
}

func replay(c *vf.Ctx) {
	var r histRec
	if err := c.LoadReplay(&r); err != nil {
		fmt.Fprintln(os.Stderr, err)
		os.Exit(3)
	}
	if r.Container == "disc" {
		if r.Disc == nil {
			r.Disc = &discReplay{}
		}
		discReplayRun(c, r.Disc)
		return
	}
	if r.Container == "conc" {
		if r.Conc == nil {
			r.Conc = &concReplay{}
		}
		concReplayRun(c, r.Conc)
		return
	}
	for _, d := range defs {
		if d.name != r.Container {
			continue
		}
		res := runHistory(d, r.Config, r.Ops, false, false)
		c.Count("evaluations", res.steps)
		if res.d != nil {
			c.Violation(d.name+"/"+res.d.fp, fmt.Sprintf("%s [%s] %s", d.name, r.Config, res.d.what), r)
		}
		return
	}
	fmt.Fprintln(os.Stderr, "unknown container", r.Container)
	os.Exit(3)
}

func run(c *vf.Ctx) {
	sort.SliceStable(defs, func(i, j int) bool { return defs[i].name < defs[j].name })
	if c.Replay != "" {
		replay(c)
		return
	}
	c.SetRule("per container, history i uses configuration i mod #configs and an operation list drawn from a weighted op table by a PRNG derived from (seed, container, i); one evaluation = one operation applied to implementation and model with all observers compared afterwards; distinct_nontrivial = distinct (container, configuration, abstract model state) triples reached; distinct_states:<container> the same per container; <container>:<note> counters count the situations the expected defects and the mutations need (wrap-arounds, rebuilds, seen-then-new PushFront, limit drops on foreign topics, ...); every slice/map/copy a container returns is kept by the caller together with a deep copy, re-compared after each of the following steps (<container>:held_rechecks) and, for two thirds of them, reordered/overwritten/extended within capacity on the caller's side (<container>:held_scribbles); argument slices are overwritten after the call. Part conc (self-synchronising containers only: ShrinkingMap, RandomMap, Queue, RingBuffer, thread-safe Stack, PriorityQueue, timed.PriorityQueue, BytesFilter, TimeHeap, IndexedStorage, OnChangeMap, SubscriptionManager): history i of a definition uses configuration i mod #configs, 3-6 goroutines released by a spin barrier x 4-10 operations drawn by a PRNG derived from (seed, definition, i), unique values, seeded Gosched jitter (also inside callbacks), call/return stamps from one atomic counter, a sequential setup prefix and a quiescent tail of reads/drains; conc:evaluations = recorded operations handed to porcupine; conc:overlapping_pairs = pairs of operations of different goroutines whose [call,return] windows intersect; distinct_conc_shapes = distinct stamp-ordered call/return sequences of histories with at least one such pair; conservation scenarios (single-writer keys, determined final state) run a fixed number of rounds per variant; the same workloads run in a -race child, every second history/round without the stamping counter. Part disc (disc.go, discgate.go; every entry point that runs user code): history i of a container derives from (seed, container, i); sequential single-goroutine histories in a timer-free child in which user code re-enters the container where the unchanged tree lets it return (disc:reentrant_calls, distinct_disc_reentrant_call_kinds = distinct (container, entry point > nested call) pairs) or panics / returns an error and the object is used again (disc:failing_user_code, disc:followups_after_failure); gate histories in which one user function parks at a harness gate while 2-4 other goroutines make one call each (disc:gate_user_function_parked; blocked/returned only counted), decided by porcupine with the user functions of Delete-with-condition, Compute and Modify inside the atomic step (disc:gate_chained_calls_during_window = such calls by the other goroutines while the gate was closed)")
	histories := c.Pick(1000, 50000)
	workers := runtime.NumCPU()
	if only := os.Getenv("C12_ONLY"); only != "" { // development aid: restrict to one container (or to the concurrent part)
		if only == "conc" {
			concPart(c)
			return
		}
		if only == "disc" {
			discPart(c)
			return
		}
		for _, d := range defs {
			if d.name == only {
				runDef(c, d, histories, workers)
			}
		}
		return
	}
	for _, d := range defs {
		runDef(c, d, histories, workers)
	}
	// returned aggregates are caller-owned (held.go): the containers that hand out slices/maps/copies must have been held and scribbled
	for _, n := range []string{"shrinkingmap", "randommap", "ringbuffer", "priorityqueue", "timedpriorityqueue", "indexedstorage", "onchangemap", "submgr"} {
		c.Require(n+":held_rechecks", histories*20)
		c.Require(n+":held_scribbles", histories)
	}
	// callback/event arguments are held results too: event objects of SubscriptionManager (several events of one kind in one call
	// are the situation a reused event object shows in), slice and item arguments of OnChangeMap's callbacks
	c.Require("submgr:held_events_of_one_kind_in_one_call", histories)
	c.Require("onchangemap:held_callback_arguments", histories*4)
	concPart(c)
	discPart(c)
	c.SetExhaustive(false)
	c.Require("evaluations", 13*histories*30)
	c.Require("configs", 40)
	c.Assume("the reference models (Go maps, slices, sorted multisets) are correct; they were validated by the listed mutations")
	c.Assume("TimeHeap: the test process is not suspended for an hour inside one history (window 1h never expires an entry)")
}

func main() { vf.Main("C12", "exploration", run, child) }

// ---------------------------------------------------------------- small helpers

type hasher struct{ h uint64 }

func newHasher() *hasher { return &hasher{h: 0xcbf29ce484222325} }
func (s *hasher) i(v int) *hasher {
	s.h = mix(s.h, uint64(int64(v)))
	return s
}
func (s *hasher) b(v bool) *hasher {
	if v {
		return s.i(1)
	}
	return s.i(0)
}
func (s *hasher) ints(v []int) *hasher {
	s.i(len(v))
	for _, e := range v {
		s.i(e)
	}
	return s
}

// imap hashes a map independent of iteration order.
func (s *hasher) imap(m map[int]int) *hasher {
	var acc uint64
	for k, v := range m {
		acc += mix(uint64(int64(k))+1, uint64(int64(v))+7)
	}
	s.h = mix(s.h, acc)
	return s.i(len(m))
}

func sortedInts(a []int) []int {
	b := append([]int(nil), a...)
	sort.Ints(b)
	return b
}

func eqInts(a, b []int) bool {
	if len(a) != len(b) {
		return false
	}
	for i := range a {
		if a[i] != b[i] {
			return false
		}
	}
	return true
}

// permOf reports whether a is a permutation of b.
func permOf(a, b []int) bool { return eqInts(sortedInts(a), sortedInts(b)) }

func mapKeys(m map[int]int) []int {
	out := make([]int, 0, len(m))
	for k := range m {
		out = append(out, k)
	}
	sort.Ints(out)
	return out
}

func mapVals(m map[int]int) []int {
	out := make([]int, 0, len(m))
	for _, v := range m {
		out = append(out, v)
	}
	sort.Ints(out)
	return out
}

func eqMap(a, b map[int]int) bool {
	if len(a) != len(b) {
		return false
	}
	for k, v := range a {
		if w, ok := b[k]; !ok || w != v {
			return false
		}
	}
	return true
}

// isSubsequence reports whether a is a (not necessarily contiguous) subsequence of b.
func isSubsequence(a, b []int) bool {
	i := 0
	for _, e := range b {
		if i < len(a) && a[i] == e {
			i++
		}
	}
	return i == len(a)
}
