package main

// Part "disc" – the three workload disciplines of harness/DISCIPLINES.md applied to every exported entry
// point of the C12 containers that runs USER CODE (conditions, update functions, factories, iteration
// consumers, notification callbacks, event hooks, identifier functions, comparators).
//
//  1. Held results: callback/event ARGUMENTS are held results too. The sequential machines keep the event
//     pointers of SubscriptionManager and the slice/item arguments of OnChangeMap's callbacks (submgr.go,
//     onchangemap.go, via held.go); the histories of this part keep them as well while user code re-enters.
//  2. Re-entrant user code (this file, child "disc-seq"): what the unchanged tree lets return must keep
//     returning – decided by the Go runtime's dead-lock detector in a single-goroutine, timer-free plain
//     child – and must obey the model "the callback's own operations take effect immediately". What
//     self-dead-locks on the unchanged tree (user code that runs under the container's exclusive lock) is
//     never generated and nothing is demanded for it.
//  3. Failing user code (this file): the user function panics (the caller recovers) or returns an error at
//     a chosen invocation; afterwards the SAME object is used again: the next call returns (no lock left,
//     structurally decided), and the observations equal the model in which the failed operation did nothing
//     or – where the unchanged tree does so – took effect completely; never something in between.
//  +  Slow user code (discgate.go, child "disc-gate"): the user function parks at a harness gate while other
//     goroutines operate on the same container; the recorded history must be linearizable with the user
//     function INSIDE the atomic step for the entry points where that is the meaning of the operation
//     (Delete with condition, Compute, OnChangeMap.Modify).
//
// Per entry point, what the unchanged tree does (established by reading and by the probes of this part):
//   ShrinkingMap  GetOrCreate factory / Compute update / Delete condition: under the write lock -> re-entry
//                 self-dead-locks (not generated); panic -> lock released, nothing changed.
//                 ForEach / ForEachKey consumers: on a snapshot, no lock -> every re-entrant call returns.
//   RandomMap     ForEach consumer: under the read lock -> re-entrant READS return, writes self-dead-lock.
//   IndexedStorage ForEach consumer: under the mutex -> re-entry into the IndexedStorage self-dead-locks; the
//                 storages handed to the consumer are ordinary ShrinkingMaps and may be used freely.
//   OnChangeMap   Modify callback and the changed/item callbacks of Add/Modify/Delete: under the write lock;
//                 the changed callback of ExecuteChangedCallback: under the read lock -> Get/All return.
//                 A callback error is returned AFTER the change took effect (item callback skipped when the
//                 changed callback failed).
//   BytesFilter   identifier function of Add: before the lock -> everything returns; of Contains: under the
//                 read lock -> reads return.
//   SubscriptionManager hooks: events are fired after the manager's lock was released -> everything returns;
//                 a panicking hook loses the remaining events of that call, the state change is complete.
//   PriorityQueue CompareTo of the priority type: under the lock; a panic leaves the heap in an unspecified
//                 order (robustness only: noted, nothing demanded except that no lock stays behind).
//   Walker, Queue, RingBuffer, Stack, TimeHeap, timed.PriorityQueue: no user code is ever invoked.

import (
	"fmt"
	"sort"
	"strconv"
	"strings"
	"time"

	"verif/harness/internal/vf"

	"github.com/iotaledger/hive.go/core/memstorage"
	"github.com/iotaledger/hive.go/ds/bytesfilter"
	"github.com/iotaledger/hive.go/ds/onchangemap"
	"github.com/iotaledger/hive.go/ds/priorityqueue"
	"github.com/iotaledger/hive.go/ds/randommap"
	"github.com/iotaledger/hive.go/ds/shrinkingmap"
	"github.com/iotaledger/hive.go/runtime/options"
	"github.com/iotaledger/hive.go/web/subscriptionmanager"
)

// discReplay identifies one history of this part: everything derives from (kind, container, seed).
type discReplay struct {
	Kind      string   `json:"kind"` // seq | gate
	Container string   `json:"container"`
	Seed      uint64   `json:"seed"`
	Trace     []string `json:"trace,omitempty"`
	What      string   `json:"what,omitempty"`
}

func discRec(kind, container string, seed uint64, trace []string, what string) histRec {
	return histRec{Container: "disc", Config: kind + " " + container, What: what, Disc: &discReplay{Kind: kind, Container: container, Seed: seed, Trace: trace, What: what}}
}

// discPanic is the value user code panics with; anything else that escapes is the library's own panic.
type discPanic struct{ where string }

// try runs f; ours reports a recovered discPanic, foreign any other recovered value.
func try(f func()) (ours bool, foreign any) {
	defer func() {
		if p := recover(); p != nil {
			if _, ok := p.(discPanic); ok {
				ours = true
			} else {
				foreign = p
			}
		}
	}()
	f()
	return
}

// dctx is the context of one sequential discipline history.
type dctx struct {
	c      *vf.Ctx
	r      *rng
	name   string
	seed   uint64
	trace  []string
	fp     string
	what   string
	counts map[string]int
	kinds  map[string]bool
	skip   map[string]bool
}

func (d *dctx) ok() bool { return d.fp == "" }

func (d *dctx) logf(format string, a ...any) {
	if len(d.trace) < 200 {
		d.trace = append(d.trace, fmt.Sprintf(format, a...))
	}
}

func (d *dctx) fail(fp, format string, a ...any) {
	if d.fp == "" {
		d.fp, d.what = fp, fmt.Sprintf(format, a...)
	}
}

func (d *dctx) note(n string) { d.counts[n]++ }

// reent counts one re-entrant call of kind "<entry point> > <nested call>".
func (d *dctx) reent(entry, nested string) {
	d.counts["reentrant_calls"]++
	d.counts["reentrant_calls:"+d.name]++
	d.kinds[d.name+"/"+entry+">"+nested] = true
}

// risky announces a step whose user code re-enters the container or fails: if the process dies or dead-locks
// in it, the parent attributes the death to class ("<EntryPoint>-reentrant", "<EntryPoint>-after-panic", ...).
// It returns false when this class already killed an earlier child of this run (it is not run again).
func (d *dctx) risky(class, detail string) bool {
	if d.skip[d.name+"/"+class] {
		return false
	}
	d.c.Mark("disc:" + d.name + "/" + class + "|" + detail)
	return true
}

// ------------------------------------------------------------------ ShrinkingMap

const dKeys = 5

type dsm struct {
	d     *dctx
	m     *shrinkingmap.ShrinkingMap[int, int]
	model map[int]int
	uniq  int
	after func() // called after every applied operation (iteration bookkeeping)
}

var dsmOps = []string{"Set", "Set", "Get", "Has", "Delete", "DeleteAndReturn", "DeleteCond", "Compute", "GetOrCreate", "Pop", "Clear", "Shrink", "Size", "Keys", "Values", "AsMap", "ForEach", "ForEachKey"}

// apply executes one plain operation on implementation and model and compares the result.
func (s *dsm) apply(op string, k int, where string) {
	d := s.d
	s.uniq++
	v := s.uniq
	cur, has := s.model[k]
	bad := func(format string, a ...any) {
		d.fail(where+op+"-wrong-result", "%s%s(%d): %s (model %v)", where, op, k, fmt.Sprintf(format, a...), s.model)
	}
	switch op {
	case "Set":
		if created := s.m.Set(k, v); created != !has {
			bad("created=%v", created)
		}
		s.model[k] = v
	case "Get":
		if g, ok := s.m.Get(k); ok != has || g != cur {
			bad("= (%d,%v)", g, ok)
		}
	case "Has":
		if ok := s.m.Has(k); ok != has {
			bad("= %v", ok)
		}
	case "Delete":
		if del := s.m.Delete(k); del != has {
			bad("= %v", del)
		}
		delete(s.model, k)
	case "DeleteAndReturn":
		if g, del := s.m.DeleteAndReturn(k); del != has || g != cur {
			bad("= (%d,%v)", g, del)
		}
		delete(s.model, k)
	case "DeleteCond":
		cond := v%2 == 0
		if del := s.m.Delete(k, func() bool { return cond }); del != (has && cond) {
			bad("cond=%v -> %v", cond, del)
		}
		if cond {
			delete(s.model, k)
		}
	case "Compute":
		var sv int
		var sok bool
		g := s.m.Compute(k, func(c int, ex bool) int { sv, sok = c, ex; return v })
		if sv != cur || sok != has || g != v {
			bad("update function saw (%d,%v), returned %d", sv, sok, g)
		}
		s.model[k] = v
	case "GetOrCreate":
		g, created := s.m.GetOrCreate(k, func() int { return v })
		if created != !has || (has && g != cur) || (!has && g != v) {
			bad("= (%d,%v)", g, created)
		}
		if !has {
			s.model[k] = v
		}
	case "Pop":
		pk, pv, ok := s.m.Pop()
		if ok != (len(s.model) > 0) {
			bad("exists=%v", ok)
		} else if ok {
			if mv, in := s.model[pk]; !in || mv != pv {
				bad("= (%d,%d), not an entry", pk, pv)
			}
			delete(s.model, pk)
		}
	case "Clear":
		s.m.Clear()
		s.model = map[int]int{}
	case "Shrink":
		s.m.Shrink()
	case "Size":
		if n := s.m.Size(); n != len(s.model) {
			bad("= %d", n)
		}
	case "Keys":
		if ks := s.m.Keys(); !permOf(ks, mapKeys(s.model)) {
			bad("= %v", ks)
		}
	case "Values":
		if vs := s.m.Values(); !permOf(vs, mapVals(s.model)) {
			bad("= %v", vs)
		}
	case "AsMap":
		if am := s.m.AsMap(); !eqMap(am, s.model) {
			bad("= %v", am)
		}
	case "ForEach":
		got := map[int]int{}
		n := 0
		s.m.ForEach(func(k, v int) bool { got[k] = v; n++; return true })
		if n != len(s.model) || !eqMap(got, s.model) {
			bad("visited %v in %d callbacks", got, n)
		}
	case "ForEachKey":
		var got []int
		s.m.ForEachKey(func(k int) bool { got = append(got, k); return true })
		if !permOf(got, mapKeys(s.model)) {
			bad("visited %v", got)
		}
	}
	if s.after != nil {
		s.after()
	}
}

func (s *dsm) observe(where string) {
	if !s.d.ok() {
		return
	}
	if n := s.m.Size(); n != len(s.model) {
		s.d.fail(where+"-wrong-Size", "%s: Size() = %d, model %v", where, n, s.model)
	}
	if am := s.m.AsMap(); !eqMap(am, s.model) {
		s.d.fail(where+"-wrong-content", "%s: AsMap() = %v, model %v", where, am, s.model)
	}
}

// iterate runs ForEach / ForEachKey with a consumer that re-enters the map at some visits (script: visit -> nested
// operations), may panic at visit failAt (-1: never) and aborts at visit abortAt (-1: never).
// Model: the consumer's own operations take effect immediately; every key is visited at most once; a key present
// from the call to the end of the iteration is visited (unless the iteration was cut short); a visited entry was
// present at some moment between the call and its visit, with one of the values it had in that period.
func (s *dsm) iterate(entry string, script map[int][][2]string, failAt, abortAt int) {
	d := s.d
	present := map[int]bool{}      // present at some moment since the call
	stable := map[int]bool{}       // present at every moment since the call
	vals := map[int]map[int]bool{} // values the key had since the call
	track := func() {
		for k := 0; k < dKeys; k++ {
			if v, in := s.model[k]; in {
				present[k] = true
				if vals[k] == nil {
					vals[k] = map[int]bool{}
				}
				vals[k][v] = true
			} else {
				stable[k] = false
			}
		}
	}
	for k := range s.model {
		stable[k] = true
	}
	track()
	s.after = track
	defer func() { s.after = nil }()
	visited := map[int]bool{}
	visit := 0
	cut := false
	consumer := func(k, v int, hasV bool) bool {
		i := visit
		visit++
		switch {
		case visited[k]:
			d.fail(entry+"-visits-key-twice", "%s visited key %d twice (visit %d)", entry, k, i)
		case !present[k]:
			d.fail(entry+"-visits-absent-key", "%s visited key %d which was never in the map since the call (model %v)", entry, k, s.model)
		case hasV && !vals[k][v]:
			d.fail(entry+"-visits-unknown-value", "%s visited %d=%d, a value the key never had since the call", entry, k, v)
		}
		visited[k] = true
		for _, no := range script[i] {
			kk, _ := strconv.Atoi(no[1])
			d.reent(entry, no[0])
			d.logf("  visit %d (key %d): consumer calls %s(%d)", i, k, no[0], kk)
			s.apply(no[0], kk, entry+">")
		}
		if i == failAt {
			d.logf("  visit %d: consumer panics", i)
			panic(discPanic{entry})
		}
		if i == abortAt {
			cut = true
			return false
		}
		return true
	}
	ours, foreign := try(func() {
		if entry == "ForEach" {
			s.m.ForEach(func(k, v int) bool { return consumer(k, v, true) })
		} else {
			s.m.ForEachKey(func(k int) bool { return consumer(k, 0, false) })
		}
	})
	if foreign != nil {
		d.fail(entry+"-panic", "%s with a re-entrant consumer panicked: %v", entry, foreign)
		return
	}
	if ours {
		cut = true
	}
	if !cut {
		for k, st := range stable {
			if st && !visited[k] {
				d.fail(entry+"-misses-key", "%s never visited key %d although it was in the map during the whole call (visited %v)", entry, k, visited)
			}
		}
	}
}

func discSM(d *dctx) {
	ratios := []float32{0, 0.5, 10}
	cnts := []int{0, 1, 3}
	s := &dsm{d: d, model: map[int]int{}}
	s.m = shrinkingmap.New[int, int](shrinkingmap.WithShrinkingThresholdRatio(ratios[d.r.n(3)]), shrinkingmap.WithShrinkingThresholdCount(cnts[d.r.n(3)]))
	for step := 0; step < 14 && d.ok(); step++ {
		k := d.r.n(dKeys)
		switch c := d.r.n(10); {
		case c < 4: // plain operations move the state
			op := dsmOps[d.r.n(len(dsmOps))]
			d.logf("%s(%d)", op, k)
			s.apply(op, k, "")
		case c < 7: // re-entrant iteration consumers
			entry := []string{"ForEach", "ForEachKey"}[d.r.n(2)]
			script := map[int][][2]string{}
			for i, n := 0, 1+d.r.n(3); i < n; i++ {
				at := d.r.n(3)
				script[at] = append(script[at], [2]string{dsmOps[d.r.n(len(dsmOps))], strconv.Itoa(d.r.n(dKeys))})
			}
			abortAt := -1
			if d.r.n(4) == 0 {
				abortAt = d.r.n(3)
			}
			if !d.risky(entry+"-reentrant", fmt.Sprintf("script %v", script)) {
				continue
			}
			d.logf("%s with a re-entrant consumer (abort at visit %d)", entry, abortAt)
			s.iterate(entry, script, -1, abortAt)
		default: // failing user code, then the map is used again
			entry := []string{"GetOrCreate", "Compute", "DeleteCond", "ForEach", "ForEachKey"}[d.r.n(5)]
			if !d.risky(entry+"-user-code-panics", "") {
				continue
			}
			d.logf("%s(%d): the user function panics", entry, k)
			invoked := false
			var ours bool
			var foreign any
			switch entry {
			case "GetOrCreate":
				ours, foreign = try(func() { s.m.GetOrCreate(k, func() int { invoked = true; panic(discPanic{entry}) }) })
			case "Compute":
				ours, foreign = try(func() { s.m.Compute(k, func(int, bool) int { invoked = true; panic(discPanic{entry}) }) })
			case "DeleteCond":
				ours, foreign = try(func() { s.m.Delete(k, func() bool { invoked = true; panic(discPanic{entry}) }) })
			default:
				at := d.r.n(2)
				if len(s.model) <= at {
					at = 0
				}
				invoked = len(s.model) > 0
				ours = invoked
				s.iterate(entry, nil, at, -1)
			}
			if foreign != nil {
				d.fail(entry+"-panic", "%s whose user function panics: another panic escaped: %v", entry, foreign)
				break
			}
			if !invoked && !ours {
				continue // the user function was legitimately not needed (GetOrCreate on a present key)
			}
			d.note("failing_user_code")
			d.note("failing_user_code:" + d.name)
			if !d.risky(entry+"-after-panic", "next call after the user function of "+entry+" panicked") {
				return
			}
			// the failed operation did nothing, and no lock stays behind: a WRITING call must return
			s.observe(entry + "-after-panic")
			s.apply("Set", k, entry+"-after-panic>")
			s.apply("Delete", (k+1)%dKeys, entry+"-after-panic>")
			d.note("followups_after_failure")
		}
		s.observe("step")
	}
}

// ------------------------------------------------------------------ RandomMap

func discRM(d *dctx) {
	m := randommap.New[int, int]()
	model := map[int]int{}
	uniq := 0
	read := func(op string, k int, where string) {
		cur, has := model[k]
		bad := func(format string, a ...any) {
			d.fail(where+op+"-wrong-result", "%s%s(%d): %s (model %v)", where, op, k, fmt.Sprintf(format, a...), model)
		}
		switch op {
		case "Get":
			if g, ok := m.Get(k); ok != has || g != cur {
				bad("= (%d,%v)", g, ok)
			}
		case "Has":
			if ok := m.Has(k); ok != has {
				bad("= %v", ok)
			}
		case "Size":
			if n := m.Size(); n != len(model) {
				bad("= %d", n)
			}
		case "Keys":
			if ks := m.Keys(); !permOf(ks, mapKeys(model)) {
				bad("= %v", ks)
			}
		case "Values":
			if vs := m.Values(); !permOf(vs, mapVals(model)) {
				bad("= %v", vs)
			}
		case "RandomKey":
			rk, ok := m.RandomKey()
			if _, in := model[rk]; ok != (len(model) > 0) || (ok && !in) {
				bad("= (%d,%v)", rk, ok)
			}
		case "RandomEntry":
			rv, ok := m.RandomEntry()
			in := false
			for _, v := range model {
				in = in || v == rv
			}
			if ok != (len(model) > 0) || (ok && !in) {
				bad("= (%d,%v)", rv, ok)
			}
		case "RandomUniqueEntries":
			n := k + 1
			es := m.RandomUniqueEntries(n)
			want := n
			if len(model) < want {
				want = len(model)
			}
			if len(es) != want || !isSubMultiset(es, mapVals(model)) {
				bad("(%d) = %v", n, es)
			}
		case "ForEach":
			got := map[int]int{}
			cnt := 0
			m.ForEach(func(k, v int) bool { got[k] = v; cnt++; return true })
			if cnt != len(model) || !eqMap(got, model) {
				bad("visited %v in %d callbacks", got, cnt)
			}
		}
	}
	reads := []string{"Get", "Has", "Size", "Keys", "Values", "RandomKey", "RandomEntry", "RandomUniqueEntries", "ForEach"}
	for step := 0; step < 12 && d.ok(); step++ {
		k := d.r.n(dKeys)
		switch c := d.r.n(10); {
		case c < 3:
			uniq++
			d.logf("Set(%d,%d)", k, uniq)
			m.Set(k, uniq)
			model[k] = uniq
		case c < 4:
			d.logf("Delete(%d)", k)
			cur, has := model[k]
			if g, del := m.Delete(k); del != has || g != cur {
				d.fail("Delete-wrong-result", "Delete(%d) = (%d,%v), model %v", k, g, del, model)
			}
			delete(model, k)
		case c < 8: // consumer re-enters with reads (it runs under the read lock on the unchanged tree)
			script := map[int][][2]string{}
			for i, n := 0, 1+d.r.n(3); i < n; i++ {
				at := d.r.n(3)
				script[at] = append(script[at], [2]string{reads[d.r.n(len(reads))], strconv.Itoa(d.r.n(dKeys))})
			}
			if !d.risky("ForEach-reentrant", fmt.Sprintf("script %v", script)) {
				continue
			}
			d.logf("ForEach with a consumer that reads the map")
			got := map[int]int{}
			visit := 0
			_, foreign := try(func() {
				m.ForEach(func(kk, vv int) bool {
					if _, dup := got[kk]; dup {
						d.fail("ForEach-visits-key-twice", "ForEach visited key %d twice", kk)
					}
					got[kk] = vv
					for _, no := range script[visit] {
						a, _ := strconv.Atoi(no[1])
						d.reent("ForEach", no[0])
						d.logf("  visit %d: consumer calls %s(%d)", visit, no[0], a)
						read(no[0], a, "ForEach>")
					}
					visit++
					return true
				})
			})
			if foreign != nil {
				d.fail("ForEach-panic", "ForEach with a reading consumer panicked: %v", foreign)
			} else if !eqMap(got, model) {
				d.fail("ForEach-wrong-iteration", "ForEach with a reading consumer visited %v, model %v", got, model)
			}
		default:
			if len(model) == 0 || !d.risky("ForEach-user-code-panics", "") {
				continue
			}
			at := d.r.n(len(model))
			d.logf("ForEach: the consumer panics at visit %d", at)
			visit := 0
			ours, foreign := try(func() {
				m.ForEach(func(int, int) bool {
					if visit == at {
						panic(discPanic{"ForEach"})
					}
					visit++
					return true
				})
			})
			if foreign != nil || !ours {
				d.fail("ForEach-panic", "ForEach whose consumer panics at visit %d: ours=%v, other panic %v", at, ours, foreign)
				continue
			}
			d.note("failing_user_code")
			d.note("failing_user_code:" + d.name)
			if !d.risky("ForEach-after-panic", "next writing call after the consumer of ForEach panicked") {
				return
			}
			uniq++
			m.Set(k, uniq) // a writer must get the lock
			model[k] = uniq
			d.note("followups_after_failure")
		}
		for _, op := range []string{"Size", "Keys", "ForEach"} {
			read(op, 0, "step>")
		}
	}
}

// isSubMultiset reports whether every element of a occurs in b at least as often.
func isSubMultiset(a, b []int) bool {
	cnt := map[int]int{}
	for _, e := range b {
		cnt[e]++
	}
	for _, e := range a {
		if cnt[e]--; cnt[e] < 0 {
			return false
		}
	}
	return true
}

// ------------------------------------------------------------------ IndexedStorage

func discIS(d *dctx) {
	type slot struct {
		ptr     *shrinkingmap.ShrinkingMap[int, int]
		content map[int]int
	}
	m := memstorage.NewIndexedStorage[isIndex, int, int]()
	model := map[isIndex]*slot{}
	var evicted []*slot // storages the caller still holds
	uniq := 0
	observe := func(where string) {
		if !d.ok() {
			return
		}
		for j := isIndex(0); j < isIndexes; j++ {
			g := m.Get(j)
			ms := model[j]
			switch {
			case ms == nil && g != nil:
				d.fail(where+"-index-still-present", "%s: Get(%d) returns a storage, the model has none", where, j)
			case ms != nil && g != ms.ptr:
				d.fail(where+"-index-lost", "%s: Get(%d) does not return the storage of the model (nil: %v)", where, j, g == nil)
			case ms != nil && !eqMap(g.AsMap(), ms.content):
				d.fail(where+"-wrong-content", "%s: storage %d holds %v, model %v", where, j, g.AsMap(), ms.content)
			}
		}
	}
	for step := 0; step < 12 && d.ok(); step++ {
		i := isIndex(d.r.n(isIndexes))
		switch c := d.r.n(10); {
		case c < 3:
			d.logf("Get(%d,true)", i)
			g := m.Get(i, true)
			if ms := model[i]; ms == nil {
				model[i] = &slot{ptr: g, content: map[int]int{}}
			} else if g != ms.ptr {
				d.fail("Get-different-storage", "Get(%d,true) returned another storage than before", i)
			}
		case c < 4:
			d.logf("Evict(%d)", i)
			g := m.Evict(i)
			if ms := model[i]; (ms == nil) != (g == nil) || (ms != nil && g != ms.ptr) {
				d.fail("Evict-wrong-result", "Evict(%d) returned nil=%v, model has the index: %v", i, g == nil, ms != nil)
			} else if ms != nil {
				evicted = append(evicted, ms)
				delete(model, i)
			}
		case c < 8: // the consumer uses the storages it is handed (and storages evicted earlier)
			if !d.risky("ForEach-reentrant", "consumer uses the storages") {
				continue
			}
			d.logf("ForEach with a consumer that writes into the storages")
			visited := map[isIndex]bool{}
			_, foreign := try(func() {
				m.ForEach(func(k isIndex, s *shrinkingmap.ShrinkingMap[int, int]) {
					ms := model[k]
					if ms == nil || visited[k] || s != ms.ptr {
						d.fail("ForEach-wrong-iteration", "ForEach visited index %d (in model: %v, repeated: %v)", k, ms != nil, visited[k])
						return
					}
					visited[k] = true
					uniq++
					kk := d.r.n(4)
					switch d.r.n(4) {
					case 0:
						d.reent("ForEach", "storage.Set")
						s.Set(kk, uniq)
						ms.content[kk] = uniq
					case 1:
						d.reent("ForEach", "storage.Delete")
						s.Delete(kk)
						delete(ms.content, kk)
					case 2:
						d.reent("ForEach", "storage.Size")
						if n := s.Size(); n != len(ms.content) {
							d.fail("ForEach>storage.Size-wrong-result", "storage %d: Size() = %d inside the consumer, model %v", k, n, ms.content)
						}
					default:
						if len(evicted) > 0 {
							d.reent("ForEach", "evictedStorage.Set")
							e := evicted[d.r.n(len(evicted))]
							e.ptr.Set(kk, uniq)
							e.content[kk] = uniq
						}
					}
				})
			})
			if foreign != nil {
				d.fail("ForEach-panic", "ForEach with a consumer that uses the storages panicked: %v", foreign)
			} else if len(visited) != len(model) {
				d.fail("ForEach-wrong-iteration", "ForEach visited %d indexes, model has %d", len(visited), len(model))
			}
		default:
			if len(model) == 0 || !d.risky("ForEach-user-code-panics", "") {
				continue
			}
			at := d.r.n(len(model))
			d.logf("ForEach: the consumer panics at visit %d", at)
			visit := 0
			ours, foreign := try(func() {
				m.ForEach(func(isIndex, *shrinkingmap.ShrinkingMap[int, int]) {
					if visit == at {
						panic(discPanic{"ForEach"})
					}
					visit++
				})
			})
			if foreign != nil || !ours {
				d.fail("ForEach-panic", "ForEach whose consumer panics at visit %d: ours=%v, other panic %v", at, ours, foreign)
				continue
			}
			d.note("failing_user_code")
			d.note("failing_user_code:" + d.name)
			if !d.risky("ForEach-after-panic", "next call after the consumer of ForEach panicked") {
				return
			}
			g := m.Get(i, true) // needs the mutex
			if ms := model[i]; ms == nil {
				model[i] = &slot{ptr: g, content: map[int]int{}}
			}
			d.note("followups_after_failure")
		}
		observe("step")
		for _, e := range evicted {
			if !eqMap(e.ptr.AsMap(), e.content) {
				d.fail("evicted-storage-changed", "a storage evicted earlier holds %v, the caller put %v there", e.ptr.AsMap(), e.content)
			}
		}
	}
}

// ------------------------------------------------------------------ OnChangeMap

func discOC(d *dctx) {
	model := map[int]int{}
	var log []string
	var m *onchangemap.OnChangeMap[int, ocID, *ocItem]
	// script of the current step
	failKind, failMode := byte(0), "" // which callback fails ('c' changed, 'a' 'm' 'd' item callbacks), "error" | "panic"
	var nested []string               // re-entrant reads of the changed callback (only armed for ExecuteChangedCallback)
	sentinel := fmt.Errorf("user callback failed")
	fired := false
	failIf := func(kind byte) error {
		if kind != failKind || fired {
			return nil
		}
		fired = true
		if failMode == "panic" {
			panic(discPanic{"callback " + string(kind)})
		}
		return sentinel
	}
	snapshotOf := func() string {
		s := make([]string, 0, len(model))
		for k, v := range model {
			s = append(s, fmt.Sprintf("%d=%d", k, v))
		}
		sort.Strings(s)
		return strings.Join(s, ",")
	}
	readAll := func(where string) map[int]int {
		am := map[int]int{}
		for k, it := range m.All() {
			if it == nil || int(it.id) != k {
				d.fail(where+"-wrong-All", "%s: All() maps %d to %+v", where, k, it)
				continue
			}
			am[k] = it.val
		}
		return am
	}
	type opt = options.Option[onchangemap.OnChangeMap[int, ocID, *ocItem]]
	item := func(kind string, letter byte) func(*ocItem) error {
		return func(it *ocItem) error {
			log = append(log, fmt.Sprintf("%s:%d=%d", kind, it.id, it.val))
			return failIf(letter)
		}
	}
	m = onchangemap.NewOnChangeMap[int, ocID, *ocItem](
		opt(onchangemap.WithChangedCallback[int, ocID](func(items []*ocItem) error {
			log = append(log, "changed:"+ocSnapshot(items))
			for _, n := range nested {
				k := d.r.n(ocIDs)
				d.reent("ExecuteChangedCallback", n)
				d.logf("  changed callback calls %s", n)
				if n == "Get" {
					res, err := m.Get(ocID(k))
					mv, in := model[k]
					if (err == nil) != in || (in && res.val != mv) {
						d.fail("ExecuteChangedCallback>Get-wrong-result", "Get(%d) inside the changed callback = (%+v,%v), model %v", k, res, err, model)
					}
				} else if am := readAll("ExecuteChangedCallback>All"); !eqMap(am, model) {
					d.fail("ExecuteChangedCallback>All-wrong-result", "All() inside the changed callback = %v, model %v", am, model)
				}
			}
			return failIf('c')
		})),
		opt(onchangemap.WithItemAddedCallback[int, ocID](item("added", 'a'))),
		opt(onchangemap.WithItemModifiedCallback[int, ocID](item("modified", 'm'))),
		opt(onchangemap.WithItemDeletedCallback[int, ocID](item("deleted", 'd'))),
	)
	m.CallbacksEnabled(true)
	uniq := 0
	for step := 0; step < 14 && d.ok(); step++ {
		id := d.r.n(ocIDs)
		cur, has := model[id]
		log, failKind, failMode, nested, fired = log[:0], 0, "", nil, false
		opn := []string{"Add", "Add", "Modify", "Modify", "Delete", "ExecuteChangedCallback"}[d.r.n(6)]
		uniq++
		modifyPanics := false
		class := opn
		switch c := d.r.n(10); {
		case c < 3: // polite step
		case c < 5 && opn == "ExecuteChangedCallback":
			for i, n := 0, 1+d.r.n(2); i < n; i++ {
				nested = append(nested, []string{"Get", "All"}[d.r.n(2)])
			}
			class = "ExecuteChangedCallback-reentrant"
		case c < 5:
		default:
			failMode = []string{"error", "panic"}[d.r.n(2)]
			switch opn {
			case "Add":
				failKind = "ca"[d.r.n(2)]
			case "Modify":
				if d.r.n(3) == 0 {
					modifyPanics = true
					failMode = "panic"
				} else {
					failKind = "cm"[d.r.n(2)]
				}
			case "Delete":
				failKind = "cd"[d.r.n(2)]
			default:
				failKind = 'c'
			}
			class = opn + "-callback-" + failMode
		}
		if class != opn && !d.risky(class, fmt.Sprintf("failing callback %q", string(failKind))) {
			continue
		}
		d.logf("%s(%d) [failing callback %q %s, Modify callback panics: %v, nested reads %v]", opn, id, string(failKind), failMode, modifyPanics, nested)
		before := map[int]int{}
		for k, v := range model {
			before[k] = v
		}
		after := before // model in which the operation took effect completely
		var err error
		ours, foreign := try(func() {
			switch opn {
			case "Add":
				if !has {
					after = cloneMap(before)
					after[id] = uniq
				}
				err = m.Add(&ocItem{id: ocID(id), val: uniq})
			case "Modify":
				if has && !modifyPanics {
					after = cloneMap(before)
					after[id] = cur + 1
				}
				_, err = m.Modify(ocID(id), func(it *ocItem) bool {
					if it.val != cur {
						d.fail("Modify-callback-args", "Modify(%d): the callback received value %d, model %d", id, it.val, cur)
					}
					if modifyPanics {
						fired = true
						panic(discPanic{"Modify callback"}) // before it touches the item
					}
					it.val++
					return true
				})
			case "Delete":
				if has {
					after = cloneMap(before)
					delete(after, id)
				}
				err = m.Delete(ocID(id))
			default:
				err = m.ExecuteChangedCallback()
			}
		})
		if foreign != nil {
			d.fail(opn+"-panic", "%s(%d) panicked: %v", opn, id, foreign)
			break
		}
		if ours != (fired && failMode == "panic") {
			d.fail(opn+"-panic-swallowed", "%s(%d): the user callback panicked: %v, a panic reached the caller: %v", opn, id, fired && failMode == "panic", ours)
		}
		if fired {
			d.note("failing_user_code")
			d.note("failing_user_code:" + d.name)
			if failMode == "error" && err == nil {
				d.note("callback_error_not_returned") // the statement does not speak about error propagation: counted only
			}
			if !d.risky(opn+"-after-callback-"+failMode, "next call after a user callback of "+opn+" failed") {
				return
			}
		}
		// the state is the one before or the one after the complete operation (a writer must get the lock to tell)
		am := readAll(opn)
		switch {
		case !fired && !eqMap(am, after):
			d.fail(opn+"-wrong-content", "after %s(%d): All() = %v, model %v", opn, id, am, after)
		case fired && eqMap(am, after):
			model = after
		case fired && eqMap(am, before):
			model = before
			d.note("failed_operation_rolled_back")
		case fired:
			d.fail(opn+"-half-applied-after-failing-callback", "after %s(%d) whose callback %q failed (%s): All() = %v is neither the state before %v nor the completed operation %v", opn, id, string(failKind), failMode, am, before, after)
		}
		if !fired {
			model = after
			// polite steps: the callbacks mirror the change
			changedWant := 0
			if !eqMap(before, after) || opn == "ExecuteChangedCallback" || (opn == "Modify" && has) {
				changedWant = 1
			}
			nch := 0
			for _, l := range log {
				if strings.HasPrefix(l, "changed:") {
					nch++
					if l != "changed:"+snapshotOf() {
						d.fail(opn+"-wrong-changed-callback", "after %s(%d) the changed callback carried %q, model %q", opn, id, l, snapshotOf())
					}
				}
			}
			if nch != changedWant {
				d.fail(opn+"-wrong-callbacks", "%s(%d): %d changed callbacks, expected %d (log %v)", opn, id, nch, changedWant, log)
			}
		} else {
			// the map must be usable for writers: add and delete a fresh id (callbacks polite again)
			failKind = 0
			log = log[:0]
			if e := m.Add(&ocItem{id: ocID(ocIDs + 1), val: 1}); e != nil {
				d.fail(opn+"-after-failure-Add-error", "Add of a fresh id after the failed %s returned %v", opn, e)
			}
			if e := m.Delete(ocID(ocIDs + 1)); e != nil {
				d.fail(opn+"-after-failure-Delete-error", "Delete of the fresh id after the failed %s returned %v", opn, e)
			}
			if len(log) != 4 {
				d.fail(opn+"-after-failure-wrong-callbacks", "Add+Delete after the failed %s produced callbacks %v, expected changed+added+changed+deleted", opn, log)
			}
			if am := readAll(opn + "-after-failure"); !eqMap(am, model) {
				d.fail(opn+"-after-failure-wrong-content", "after the follow-up Add+Delete: All() = %v, model %v", am, model)
			}
			d.note("followups_after_failure")
		}
	}
}

func cloneMap(m map[int]int) map[int]int {
	c := make(map[int]int, len(m))
	for k, v := range m {
		c[k] = v
	}
	return c
}

// ------------------------------------------------------------------ BytesFilter

func discBF(d *dctx) {
	n := 1 + d.r.n(3)
	var model []int // oldest .. newest
	has := func(i int) bool {
		for _, e := range model {
			if e == i {
				return true
			}
		}
		return false
	}
	add := func(i int) bool {
		if has(i) {
			return false
		}
		model = append(model, i)
		if len(model) > n {
			model = append([]int(nil), model[1:]...)
		}
		return true
	}
	var f *bytesfilter.BytesFilter[bfID]
	var script []func() // consumed by the identifier function, one entry per invocation
	f = bytesfilter.New(func(b []byte) bfID {
		if len(script) > 0 {
			s := script[0]
			script = script[1:]
			s()
		}
		return bfIdent(b)
	}, n)
	nestedOps := func(entry string, writes bool) func() {
		i := d.r.n(bfUniverse)
		ops := []string{"ContainsIdentifier", "Contains"}
		if writes {
			ops = append(ops, "AddIdentifier", "Add")
		}
		op := ops[d.r.n(len(ops))]
		return func() {
			d.reent(entry, op)
			d.logf("  identifier function calls %s(#%d)", op, i)
			var g, want bool
			switch op {
			case "ContainsIdentifier":
				want = has(i)
				g = f.ContainsIdentifier(bfIdent(bfBytes(i)))
			case "Contains":
				want = has(i)
				g = f.Contains(bfBytes(i))
			case "AddIdentifier":
				want = add(i)
				g = f.AddIdentifier(bfIdent(bfBytes(i)))
			default:
				want = add(i)
				_, g = f.Add(bfBytes(i))
			}
			if g != want {
				d.fail(entry+">"+op+"-wrong-result", "%s(#%d) inside the identifier function of %s = %v, model %v (N=%d)", op, i, entry, g, model, n)
			}
		}
	}
	for step := 0; step < 14 && d.ok(); step++ {
		i := d.r.n(bfUniverse)
		entry := []string{"Add", "Add", "Contains"}[d.r.n(3)]
		script = nil
		mode := ""
		switch c := d.r.n(10); {
		case c < 3:
		case c < 7:
			mode = "reentrant"
			script = []func(){nestedOps(entry, entry == "Add")}
		default:
			mode = "user-code-panics"
			script = []func(){func() { panic(discPanic{entry}) }}
		}
		if mode != "" && !d.risky(entry+"-"+mode, "") {
			continue
		}
		d.logf("%s(#%d) [%s]", entry, i, mode)
		arg := append(make([]byte, 0, 8), bfBytes(i)...)
		var g, want bool
		ours, foreign := try(func() {
			if entry == "Add" {
				_, g = f.Add(arg)
			} else {
				g = f.Contains(arg)
			}
		})
		for j := range arg[:cap(arg)] { // the argument stays the caller's
			arg[:cap(arg)][j] = 0xEE
		}
		if foreign != nil {
			d.fail(entry+"-panic", "%s(#%d) panicked: %v", entry, i, foreign)
			break
		}
		if ours != (mode == "user-code-panics") {
			d.fail(entry+"-panic-swallowed", "%s(#%d): identifier function panicked: %v, panic reached the caller: %v", entry, i, mode == "user-code-panics", ours)
			break
		}
		if ours {
			d.note("failing_user_code")
			d.note("failing_user_code:" + d.name)
			if !d.risky(entry+"-after-panic", "next writing call after the identifier function of "+entry+" panicked") {
				return
			}
			j := d.r.n(bfUniverse)
			if a, w := f.AddIdentifier(bfIdent(bfBytes(j))), add(j); a != w { // a writer must get the lock
				d.fail(entry+"-after-panic-wrong-result", "AddIdentifier(#%d) after the failed %s = %v, model %v", j, entry, a, model)
			}
			d.note("followups_after_failure")
		} else {
			if entry == "Add" {
				want = add(i) // nested operations of the identifier function took effect first
			} else {
				want = has(i)
			}
			if g != want {
				d.fail(entry+"-wrong-result", "%s(#%d) [%s] = %v, model %v (N=%d)", entry, i, mode, g, model, n)
			}
		}
		for u := 0; u < bfUniverse && d.ok(); u++ {
			if g := f.ContainsIdentifier(bfIdent(bfBytes(u))); g != has(u) {
				d.fail(entry+"-wrong-content", "after %s(#%d) [%s]: ContainsIdentifier(#%d) = %v, model (oldest..newest) %v, N=%d", entry, i, mode, u, g, model, n)
			}
		}
	}
}

// ------------------------------------------------------------------ PriorityQueue (comparator is user code)

type dprio struct {
	p   int
	ctl *dprioCtl
}

type dprioCtl struct{ armed bool }

func (a dprio) CompareTo(b dprio) int {
	if a.ctl != nil && a.ctl.armed {
		a.ctl.armed = false
		panic(discPanic{"CompareTo"})
	}
	return a.p - b.p
}

func discPQ(d *dctx) {
	q := priorityqueue.New[int, dprio]()
	ctl := &dprioCtl{}
	var model []int
	for step := 0; step < 10 && d.ok(); step++ {
		p := d.r.n(8)
		if d.r.n(3) != 0 || len(model) == 0 {
			d.logf("Push(%d)", p)
			q.Push(p, dprio{p: p, ctl: ctl})
			model = append(model, p)
			sort.Ints(model)
			continue
		}
		d.logf("Pop()")
		if e, ok := q.Pop(); !ok || e != model[0] {
			d.fail("Pop-wrong-result", "Pop() = (%d,%v), model %v", e, ok, model)
		}
		model = model[1:]
	}
	if !d.ok() || len(model) < 2 {
		return
	}
	entry := []string{"Push", "Pop", "PopUntil"}[d.r.n(3)]
	if !d.risky(entry+"-user-code-panics", "comparator panics") {
		return
	}
	d.logf("%s: the comparator of the priority type panics", entry)
	ctl.armed = true
	ours, foreign := try(func() {
		switch entry {
		case "Push":
			q.Push(99, dprio{p: -1, ctl: ctl})
		case "Pop":
			q.Pop()
		default:
			q.PopUntil(dprio{p: 100, ctl: ctl})
		}
	})
	if foreign != nil {
		d.fail(entry+"-panic", "%s whose comparator panics: another panic escaped: %v", entry, foreign)
		return
	}
	if !ours {
		return // no comparison was needed
	}
	d.note("failing_user_code")
	d.note("failing_user_code:" + d.name)
	if !d.risky(entry+"-after-panic", "next call after the comparator panicked in "+entry) {
		return
	}
	// the heap order after a panicking comparator is not specified; no lock may stay behind
	size := q.Size()
	q.Push(1, dprio{p: 1, ctl: ctl})
	got := q.PopAll()
	if len(got) != size+1 {
		d.fail(entry+"-after-panic-wrong-count", "after the comparator panicked in %s: Size() = %d, Push, PopAll() returned %d elements", entry, size, len(got))
	}
	if size != len(model) {
		d.note("pq_size_changed_by_call_whose_comparator_panicked") // robustness only: the statement does not cover panicking comparators
	}
	d.note("followups_after_failure")
}

// ------------------------------------------------------------------ SubscriptionManager

const (
	dsmgrClients = 3
	dsmgrTopics  = 3
)

type dsmgr struct {
	d     *dctx
	m     *subscriptionmanager.SubscriptionManager[int, int]
	limit int
	st    smgrState
	// per step
	script   []func() // consumed by the hooks, one entry per hook invocation
	subs     [smgrMaxC][smgrMaxT]int
	unsubs   [smgrMaxC][smgrMaxT]int
	added    [smgrMaxT]int
	removed  [smgrMaxT]int
	conn     [smgrMaxC]int
	disc     [smgrMaxC]int
	drops    [smgrMaxC]int
	wantConn [smgrMaxC]int
	wantDisc [smgrMaxC]int
	wantDrop [smgrMaxC]int
	held     []func() string // event objects kept by the hooks
	depth    int
	lastTop  [smgrMaxT]int // last topic event delivered in this step: 1 TopicAdded, 2 TopicRemoved
}

func (s *dsmgr) hookRan(name string) {
	if len(s.script) > 0 {
		f := s.script[0]
		s.script = s.script[1:]
		s.depth++
		f()
		s.depth--
	}
}

// call executes one manager call on implementation and model (outer step or nested in a hook).
func (s *dsmgr) call(op string, c, t int, where string) {
	d := s.d
	was := s.st
	st2, want := smgrApply(s.st, s.limit, op, c, t)
	s.st = st2 // the state change is complete before the events are fired
	switch op {
	case "Connect":
		s.wantConn[c]++
		if was.conn[c] {
			s.wantDisc[c]++
		}
	case "Disconnect":
		if was.conn[c] {
			s.wantDisc[c]++
		}
	case "Subscribe":
		if was.conn[c] && !st2.conn[c] {
			s.wantDisc[c]++
			s.wantDrop[c]++
		}
	}
	var g bool
	switch op {
	case "Connect":
		s.m.Connect(c)
		g = true
	case "Disconnect":
		g = s.m.Disconnect(c)
	case "Subscribe":
		g = s.m.Subscribe(c, t)
	case "Unsubscribe":
		g = s.m.Unsubscribe(c, t)
	case "TopicHasSubscribers":
		g, want = s.m.TopicHasSubscribers(t), s.st.sum(t) > 0
	case "ClientSubscribedToTopic":
		g, want = s.m.ClientSubscribedToTopic(c, t), s.st.conn[c] && s.st.cnt[c][t] > 0
	case "TopicsSize":
		n := 0
		for tt := 0; tt < smgrMaxT; tt++ {
			if s.st.sum(tt) > 0 {
				n++
			}
		}
		g, want = s.m.TopicsSize() == n, true
	}
	if g != want {
		d.fail(where+op+"-wrong-result", "%s%s(c%d,t%d) = %v, model says %v", where, op, c, t, g, want)
	}
}

func (s *dsmgr) observe(where string) {
	d := s.d
	for t := 0; t < dsmgrTopics; t++ {
		if g := s.m.TopicHasSubscribers(t); g != (s.st.sum(t) > 0) {
			d.fail(where+"-wrong-TopicHasSubscribers", "%s: TopicHasSubscribers(%d) = %v, model sum %d", where, t, g, s.st.sum(t))
		}
		for c := 0; c < dsmgrClients; c++ {
			if g := s.m.ClientSubscribedToTopic(c, t); g != (s.st.conn[c] && s.st.cnt[c][t] > 0) {
				d.fail(where+"-wrong-ClientSubscribedToTopic", "%s: ClientSubscribedToTopic(%d,%d) = %v, model count %d", where, c, t, g, s.st.cnt[c][t])
			}
		}
	}
	nconn, all := 0, 0
	for c := 0; c < dsmgrClients; c++ {
		if s.st.conn[c] {
			nconn++
		}
		all += s.st.distinct(c)
	}
	if g := s.m.SubscribersSize(); g != nconn {
		d.fail(where+"-wrong-SubscribersSize", "%s: SubscribersSize() = %d, model %d", where, g, nconn)
	}
	if g := s.m.TopicsSizeAll(); g != all {
		d.fail(where+"-wrong-TopicsSizeAll", "%s: TopicsSizeAll() = %d, model %d", where, g, all)
	}
}

func discSMgr(d *dctx) {
	s := &dsmgr{d: d, limit: []int{0, 0, 2, 3}[d.r.n(4)]}
	s.m = subscriptionmanager.New(subscriptionmanager.WithMaxTopicSubscriptionsPerClient[int, int](s.limit))
	ev := s.m.Events()
	okC := func(c int) bool { return c >= 0 && c < dsmgrClients }
	okT := func(t int) bool { return t >= 0 && t < dsmgrTopics }
	badID := func(e any) { d.fail("event-for-unknown-id", "event %+v", e) }
	ev.ClientConnected.Hook(func(e *subscriptionmanager.ClientEvent[int]) {
		cp := *e
		s.held = append(s.held, func() string { return diffStr(*e != cp, cp, *e) })
		if !okC(e.ClientID) {
			badID(*e)
			return
		}
		s.conn[e.ClientID]++
		s.hookRan("ClientConnected")
	})
	ev.ClientDisconnected.Hook(func(e *subscriptionmanager.ClientEvent[int]) {
		cp := *e
		s.held = append(s.held, func() string { return diffStr(*e != cp, cp, *e) })
		if !okC(e.ClientID) {
			badID(*e)
			return
		}
		s.disc[e.ClientID]++
		s.hookRan("ClientDisconnected")
	})
	ev.TopicSubscribed.Hook(func(e *subscriptionmanager.ClientTopicEvent[int, int]) {
		cp := *e
		s.held = append(s.held, func() string { return diffStr(*e != cp, cp, *e) })
		if !okC(e.ClientID) || !okT(e.Topic) {
			badID(*e)
			return
		}
		s.subs[e.ClientID][e.Topic]++
		s.hookRan("TopicSubscribed")
	})
	ev.TopicUnsubscribed.Hook(func(e *subscriptionmanager.ClientTopicEvent[int, int]) {
		cp := *e
		s.held = append(s.held, func() string { return diffStr(*e != cp, cp, *e) })
		if !okC(e.ClientID) || !okT(e.Topic) {
			badID(*e)
			return
		}
		s.unsubs[e.ClientID][e.Topic]++
		s.hookRan("TopicUnsubscribed")
	})
	ev.TopicAdded.Hook(func(e *subscriptionmanager.TopicEvent[int]) {
		cp := *e
		s.held = append(s.held, func() string { return diffStr(*e != cp, cp, *e) })
		if !okT(e.Topic) {
			badID(*e)
			return
		}
		s.added[e.Topic]++
		s.lastTop[e.Topic] = 1
		s.hookRan("TopicAdded")
	})
	ev.TopicRemoved.Hook(func(e *subscriptionmanager.TopicEvent[int]) {
		cp := *e
		s.held = append(s.held, func() string { return diffStr(*e != cp, cp, *e) })
		if !okT(e.Topic) {
			badID(*e)
			return
		}
		s.removed[e.Topic]++
		s.lastTop[e.Topic] = 2
		s.hookRan("TopicRemoved")
	})
	ev.DropClient.Hook(func(e *subscriptionmanager.DropClientEvent[int]) {
		cp := *e
		s.held = append(s.held, func() string { return diffStr(e.ClientID != cp.ClientID || e.Reason != cp.Reason, cp, *e) })
		if !okC(e.ClientID) {
			badID(*e)
			return
		}
		s.drops[e.ClientID]++
		s.hookRan("DropClient")
	})
	ops := []string{"Connect", "Disconnect", "Subscribe", "Subscribe", "Subscribe", "Unsubscribe"}
	nestedOps := []string{"Connect", "Disconnect", "Subscribe", "Subscribe", "Unsubscribe", "TopicHasSubscribers", "ClientSubscribedToTopic", "TopicsSize"}
	for c := 0; c < dsmgrClients; c++ {
		s.call("Connect", c, 0, "setup>")
	}
	for step := 0; step < 16 && d.ok(); step++ {
		op, c, t := ops[d.r.n(len(ops))], d.r.n(dsmgrClients), d.r.n(dsmgrTopics)
		s.subs, s.unsubs, s.added, s.removed = [smgrMaxC][smgrMaxT]int{}, [smgrMaxC][smgrMaxT]int{}, [smgrMaxT]int{}, [smgrMaxT]int{}
		s.conn, s.disc, s.drops = [smgrMaxC]int{}, [smgrMaxC]int{}, [smgrMaxC]int{}
		s.wantConn, s.wantDisc, s.wantDrop = [smgrMaxC]int{}, [smgrMaxC]int{}, [smgrMaxC]int{}
		s.lastTop = [smgrMaxT]int{}
		s.script = nil
		mode := ""
		switch k := d.r.n(10); {
		case k < 2:
		case k < 7:
			mode = "reentrant"
			for i, n := 0, 1+d.r.n(3); i < n; i++ {
				no, nc, nt := nestedOps[d.r.n(len(nestedOps))], d.r.n(dsmgrClients), d.r.n(dsmgrTopics)
				if d.r.n(3) == 0 {
					nc = c // itself
				}
				if d.r.n(3) == 0 {
					nt = t
				}
				skip := d.r.n(2) // let some hook invocations pass before
				for j := 0; j < skip; j++ {
					s.script = append(s.script, func() {})
				}
				s.script = append(s.script, func() {
					d.reent("hook", no)
					d.logf("  a hook calls %s(c%d,t%d)", no, nc, nt)
					s.call(no, nc, nt, "hook>")
				})
			}
		default:
			mode = "user-code-panics"
			for j, skip := 0, d.r.n(3); j < skip; j++ {
				s.script = append(s.script, func() {})
			}
			s.script = append(s.script, func() { panic(discPanic{"hook"}) })
		}
		if mode != "" && !d.risky(op+"-hook-"+mode, "") {
			continue
		}
		before := s.st
		d.logf("%s(c%d,t%d) [%s]", op, c, t, mode)
		ours, foreign := try(func() { s.call(op, c, t, "") })
		if foreign != nil {
			d.fail(op+"-panic", "%s(c%d,t%d) with %s hooks panicked: %v", op, c, t, mode, foreign)
			break
		}
		if ours {
			d.note("failing_user_code")
			d.note("failing_user_code:" + d.name)
			if !d.risky(op+"-after-hook-panic", "next call after a hook panicked during "+op) {
				return
			}
		}
		// every event object a hook kept still reads as delivered (also after the later events of this and the next steps)
		for _, same := range s.held {
			if msg := same(); msg != "" {
				d.fail("held-event-changed", "an event object kept by its hook changed: %s", msg)
			}
		}
		if len(s.held) > 24 {
			s.held = append([]func() string(nil), s.held[len(s.held)-24:]...)
		}
		s.observe(op)
		if ours {
			// the remaining events of the call are lost with the panic (as on the unchanged tree); the state change is complete
			// and the manager keeps working: a polite call must produce its events again
			s.subs, s.unsubs = [smgrMaxC][smgrMaxT]int{}, [smgrMaxC][smgrMaxT]int{}
			s.script = nil
			fc := (c + 1) % dsmgrClients
			s.call("Connect", fc, 0, "after-hook-panic>")
			s.call("Subscribe", fc, t, "after-hook-panic>")
			if s.st.conn[fc] && s.subs[fc][t] != 1 {
				d.fail(op+"-after-hook-panic-missing-events", "Subscribe(c%d,t%d) after a hook had panicked produced %d TopicSubscribed events", fc, t, s.subs[fc][t])
			}
			s.observe(op + "-after-hook-panic")
			d.note("followups_after_failure")
			continue
		}
		// order-free event fold over the whole step (outer call and the calls made by hooks)
		for cc := 0; cc < dsmgrClients; cc++ {
			for tt := 0; tt < dsmgrTopics; tt++ {
				// a client cleanup releases all its subscriptions: count them through the model transitions
				if got := s.subs[cc][tt] - s.unsubs[cc][tt]; got != int(s.st.cnt[cc][tt])-int(before.cnt[cc][tt]) {
					d.fail(op+"-wrong-subscription-events", "%s(c%d,t%d): TopicSubscribed-TopicUnsubscribed for (c%d,t%d) = %d, the count went %d -> %d", op, c, t, cc, tt, got, before.cnt[cc][tt], s.st.cnt[cc][tt])
				}
			}
			if s.conn[cc] != s.wantConn[cc] || s.disc[cc] != s.wantDisc[cc] || s.drops[cc] != s.wantDrop[cc] {
				d.fail(op+"-wrong-connection-events", "%s(c%d,t%d) [%s]: client %d got %d connected / %d disconnected / %d drop events, expected %d / %d / %d", op, c, t, mode, cc, s.conn[cc], s.disc[cc], s.drops[cc], s.wantConn[cc], s.wantDisc[cc], s.wantDrop[cc])
			}
		}
		for tt := 0; tt < dsmgrTopics; tt++ {
			w := 0
			if s.st.sum(tt) > 0 {
				w++
			}
			if before.sum(tt) > 0 {
				w--
			}
			if (s.lastTop[tt] == 1 && s.st.sum(tt) == 0) || (s.lastTop[tt] == 2 && s.st.sum(tt) > 0) {
				// events are fired after the lock was released: a hook that re-subscribes a topic whose TopicRemoved is still pending
				// gets TopicAdded first. The counts are right, the ORDER is not (not demanded, as in the concurrent part).
				d.note("submgr_reentrant_topic_events_out_of_order")
			}
			if got := s.added[tt] - s.removed[tt]; got != w {
				d.fail(op+"-wrong-topic-events", "%s(c%d,t%d) [%s]: TopicAdded-TopicRemoved for topic %d = %d, its subscriber sum went %d -> %d", op, c, t, mode, tt, got, before.sum(tt), s.st.sum(tt))
			}
		}
	}
}

func diffStr(changed bool, was, is any) string {
	if !changed {
		return ""
	}
	return fmt.Sprintf("delivered as %+v, reads %+v now", was, is)
}

// ------------------------------------------------------------------ driver

type discDef struct {
	name string
	run  func(d *dctx)
	// minimum evidence per 100 histories (0: not required)
	reent, failing int
}

var discDefs = []discDef{
	{"shrinkingmap", discSM, 100, 60},
	{"randommap", discRM, 100, 30},
	{"indexedstorage", discIS, 100, 30},
	{"onchangemap", discOC, 20, 100},
	{"bytesfilter", discBF, 100, 60},
	{"priorityqueue", discPQ, 0, 20},
	{"submgr", discSMgr, 200, 60},
}

func discSeqN(c *vf.Ctx) int { return c.Pick(400, 6000) }

func runDiscHistory(c *vf.Ctx, def *discDef, seed uint64, skip map[string]bool) *dctx {
	d := &dctx{c: c, r: &rng{s: seed}, name: def.name, seed: seed, counts: map[string]int{}, kinds: map[string]bool{}, skip: skip}
	def.run(d)
	return d
}

func discSeqChild(c *vf.Ctx, skip map[string]bool, only string, onlySeed uint64) {
	n := discSeqN(c)
	for di := range discDefs {
		def := &discDefs[di]
		if only != "" && only != def.name {
			continue
		}
		base := c.Rand("c12/disc/" + def.name).Uint64()
		nfail := 0
		for i := 0; i < n; i++ {
			seed := mix(base, uint64(i))
			if only != "" {
				if i > 0 {
					break
				}
				seed = onlySeed
			}
			d := runDiscHistory(c, def, seed, skip)
			c.Count("disc:seq_histories", 1)
			c.Count("disc:seq_histories:"+def.name, 1)
			for k, v := range d.counts {
				c.Count("disc:"+k, v)
			}
			for k := range d.kinds {
				c.Distinct("disc_reentrant_call_kinds", k)
			}
			if d.fp != "" {
				nfail++
				if nfail <= 40 {
					c.Violation("disc/"+def.name+"/"+d.fp, fmt.Sprintf("disciplines, %s: %s", def.name, d.what), discRec("seq", def.name, seed, d.trace, d.what))
				}
			} else if i == 0 && only == "" {
				c.Sample(map[string]any{"part": "disc", "container": def.name, "trace": d.trace, "result": "model and implementation agree"})
			}
		}
		c.FlushStats()
	}
}

// discPart runs the children of this part. A child that dies or dead-locks is attributed to the announced step class;
// that class is skipped in the restarted child.
func discPart(c *vf.Ctx) {
	var skip []string
	for attempt := 0; attempt < 16; attempt++ {
		res := c.RunChild(vf.ChildOpts{Name: "disc-seq", Args: []string{strings.Join(skip, ",")}, Timeout: time.Duration(c.Pick(4, 20)) * time.Minute})
		if res.TimedOut {
			c.Inconclusive(fmt.Sprintf("disc-seq child: watchdog fired while running %q (stderr %s)", res.LastMark, res.StderrPath))
			break
		}
		if !res.Deadlock && res.ExitCode == 0 {
			break
		}
		mark, detail, _ := strings.Cut(strings.TrimPrefix(res.LastMark, "disc:"), "|")
		if mark == "" || !strings.HasPrefix(res.LastMark, "disc:") {
			c.Inconclusive(fmt.Sprintf("disc-seq child died (exit %d, %s) before any step was announced", res.ExitCode, res.Fatal))
			break
		}
		container, _, _ := strings.Cut(mark, "/")
		if res.Deadlock {
			what := fmt.Sprintf("disciplines, single goroutine, no timers: the Go runtime reported a dead-lock in step %q (%s): a call that returns on the unchanged tree parks for ever (user code re-entered the container, or a lock stayed behind after user code panicked)", mark, detail)
			c.Violation("disc/"+mark+"-deadlock", what, discRec("seq", container, 0, nil, what))
		} else {
			what := fmt.Sprintf("disciplines: the child died (exit %d, %s) in step %q (%s)", res.ExitCode, res.Fatal, mark, detail)
			c.Violation("disc/"+mark+"-process-died", what, discRec("seq", container, 0, nil, what))
		}
		skip = append(skip, mark)
	}
	discGatePart(c)
	if k := c.Get("disc:submgr_reentrant_topic_events_out_of_order"); k > 0 {
		c.Note(fmt.Sprintf("SubscriptionManager fires its events after the lock was released: in %d steps a hook that re-subscribed a topic whose TopicRemoved was still pending got TopicAdded(t) BEFORE that TopicRemoved(t), so an order-sensitive consumer ends with 'removed' for a topic that has subscribers (counts are right; event order is not demanded, as in the concurrent part)", k))
	}
	if k := c.Get("disc:pq_size_changed_by_call_whose_comparator_panicked"); k > 0 {
		c.Note(fmt.Sprintf("PriorityQueue: in %d histories a Push/Pop/PopUntil whose priority type's CompareTo panicked left the element appended / half removed (Size changed although the call panicked); no lock stays behind. Robustness outside the statement, nothing demanded", k))
	}
	if k := c.Get("disc:failing_user_code:submgr"); k > 0 {
		c.Note("SubscriptionManager: a panicking hook loses the remaining events of that call (the state change is complete, later calls fire their events again); accepted as on the unchanged tree")
	}
	n := discSeqN(c)
	c.Require("disc:seq_histories", n*len(discDefs))
	for _, def := range discDefs {
		if def.reent > 0 {
			c.Require("disc:reentrant_calls:"+def.name, n*def.reent/100)
		}
		if def.failing > 0 {
			c.Require("disc:failing_user_code:"+def.name, n*def.failing/100)
		}
	}
	c.Require("disc:followups_after_failure", n*2)
	c.Require("disc_reentrant_call_kinds", 40)
}

func discReplayRun(c *vf.Ctx, r *discReplay) {
	if r.Seed == 0 {
		fmt.Println("replay file carries no history seed (dead-lock or process death attributed by the parent): re-run the check")
		return
	}
	name := "disc-seq-one"
	if r.Kind == "gate" {
		name = "disc-gate-one"
	}
	res := c.RunChild(vf.ChildOpts{Name: name, Args: []string{r.Container, strconv.FormatUint(r.Seed, 10)}, Timeout: 5 * time.Minute})
	if res.Deadlock || (res.ExitCode != 0 && !res.TimedOut) {
		what := fmt.Sprintf("disc replay child died (exit %d, %s) at %q", res.ExitCode, res.Fatal, res.LastMark)
		c.Violation("disc/"+r.Container+"/replay-process-died", what, discRec(r.Kind, r.Container, r.Seed, nil, what))
	}
}

func discChild(c *vf.Ctx) bool {
	switch c.Child {
	case "disc-seq":
		skip := map[string]bool{}
		if len(c.ChildArgs) > 0 {
			for _, s := range strings.Split(c.ChildArgs[0], ",") {
				if s != "" {
					skip[s] = true
				}
			}
		}
		discSeqChild(c, skip, "", 0)
	case "disc-seq-one":
		if len(c.ChildArgs) >= 2 {
			seed, _ := strconv.ParseUint(c.ChildArgs[1], 10, 64)
			discSeqChild(c, map[string]bool{}, c.ChildArgs[0], seed)
		}
	case "disc-gate":
		discGateChild(c, "", 0)
	case "disc-gate-one":
		if len(c.ChildArgs) >= 2 {
			seed, _ := strconv.ParseUint(c.ChildArgs[1], 10, 64)
			discGateChild(c, c.ChildArgs[0], seed)
		}
	default:
		return false
	}
	return true
}
