// C10, part "conc", family "cross": whole-list pushes between two or three thread-safe lists, pushed into each
// other at the same time, including the self-alias l.PushBackList(l).
//
// container/list completes every such call. What the unchanged thread-safe list guarantees for a call
// dst.PushBackList(src) is two atomic steps - one consistent snapshot of src, then one atomic insertion of that
// snapshot into dst - not one atomic step (the source is read before the destination is locked). The oracle
// therefore demands
//   - that every call returns: a call that stays parked while no goroutine is runnable (two identical gdump
//     snapshots, harness holds no gate any more) can never be woken: violation, no stopwatch involved;
//   - that the final contents of all lists are the result of SOME interleaving of the calls' (snapshot, insert)
//     steps; an implementation that makes the whole call atomic produces a subset of these outcomes;
//   - that a parked iteration reports a content its list had in some interleaving, and that every list is
//     structurally consistent afterwards.
package main

import (
	"fmt"
	"math/rand"
	"runtime"
	"strings"
	"sync/atomic"

	"github.com/iotaledger/hive.go/ds"
	"verif/harness/internal/gdump"
	"verif/harness/internal/vf"
)

type xcall struct {
	K   string `json:"k"` // PushBackList | PushFrontList
	Dst int    `json:"dst"`
	Src int    `json:"src"`
}

func (x xcall) String() string { return fmt.Sprintf("L%d.%s(L%d)", x.Dst, x.K, x.Src) }

type xwin struct {
	List   int    `json:"list"`
	Iter   string `json:"iteration"`
	ParkAt int    `json:"park_at"`
}

type xcase struct {
	Lists [][]int `json:"lists"` // initial contents, unique values; every list is thread-safe
	Calls []xcall `json:"calls"`
	Win   *xwin   `json:"window,omitempty"` // nil: all calls leave a start barrier together
}

func (x *xcase) crossed() bool {
	for _, a := range x.Calls {
		for _, b := range x.Calls {
			if a.Dst != a.Src && a.Dst == b.Src && a.Src == b.Dst {
				return true
			}
		}
	}
	return false
}

func (x *xcase) selfAlias() bool {
	for _, a := range x.Calls {
		if a.Dst == a.Src {
			return true
		}
	}
	return false
}

func (x *xcase) describe() string {
	ss := make([]string, len(x.Calls))
	for i, cl := range x.Calls {
		ss[i] = cl.String()
	}
	s := strings.Join(ss, " || ")
	if x.Win != nil {
		s = fmt.Sprintf("%s callback parked on element %d of L%d, then in turn: %s, then release", x.Win.Iter, x.Win.ParkAt, x.Win.List, strings.Join(ss, ", "))
	}
	return fmt.Sprintf("lists %v: %s", x.Lists, s)
}

// crossOutcomes enumerates every interleaving of the calls' two steps. finals: keys of the reachable final
// contents; states[i]: every content list i has in any interleaving; atomic: finals reachable when each call is
// one step.
func crossOutcomes(x *xcase) (finals map[string]bool, states []map[string]bool, atomicFinals map[string]bool) {
	finals, atomicFinals = map[string]bool{}, map[string]bool{}
	states = make([]map[string]bool, len(x.Lists))
	for i := range states {
		states[i] = map[string]bool{}
	}
	n := len(x.Calls)
	phase := make([]int, n)
	snap := make([][]int, n)
	visited := map[string]bool{}
	var rec func(lists [][]int, done int, atomicOnly bool, open int)
	rec = func(lists [][]int, done int, atomicOnly bool, open int) {
		node := fmt.Sprint(lists, phase, snap, atomicOnly)
		if visited[node] {
			return
		}
		visited[node] = true
		for i, l := range lists {
			states[i][fmt.Sprint(l)] = true
		}
		if done == n {
			k := fmt.Sprint(lists)
			finals[k] = true
			if atomicOnly {
				atomicFinals[k] = true
			}
			return
		}
		for i, cl := range x.Calls {
			switch phase[i] {
			case 0:
				phase[i] = 1
				snap[i] = lists[cl.Src]
				// the path stays "atomic" only if no other call is between its two steps
				rec(lists, done, atomicOnly && open == 0, open+1)
				phase[i] = 0
			case 1:
				phase[i] = 2
				nl := append([][]int{}, lists...)
				if cl.K == cPBL {
					nl[cl.Dst] = insertAt(lists[cl.Dst], len(lists[cl.Dst]), snap[i]...)
				} else {
					nl[cl.Dst] = insertAt(lists[cl.Dst], 0, snap[i]...)
				}
				rec(nl, done+1, atomicOnly, open-1)
				phase[i] = 1
			}
		}
	}
	rec(x.Lists, 0, true, 0)
	return
}

type xresult struct {
	lists    []ds.List[int]
	iterOut  []int
	iterRan  bool
	stuck    []string
	parked   int
	returned int
	events   []string
	panics   []string
}

func runCross(x *xcase) *xresult {
	res := &xresult{}
	for _, vals := range x.Lists {
		l := ds.NewList[int]()
		for _, v := range vals {
			l.PushBack(v)
		}
		res.lists = append(res.lists, l)
	}
	do := func(cl xcall) {
		if cl.K == cPBL {
			res.lists[cl.Dst].PushBackList(res.lists[cl.Src])
		} else {
			res.lists[cl.Dst].PushFrontList(res.lists[cl.Src])
		}
	}
	actors := make([]*gdump.Actor, len(x.Calls))
	for i := range actors {
		actors[i] = gdump.NewActor("pusher")
	}
	var iter *gdump.Actor
	gate := make(chan struct{})
	if x.Win != nil {
		reached := make(chan struct{}, 1)
		iterDone := make(chan struct{})
		iter = gdump.NewActor("iteration")
		w := x.Win
		iter.Start(func() {
			defer close(iterDone)
			n := 0
			cb := func(v int) {
				res.iterOut = append(res.iterOut, v)
				if n++; n == w.ParkAt {
					reached <- struct{}{}
					<-gate
				}
				if n > iterRunaway {
					panic("iteration does not terminate")
				}
			}
			switch w.Iter {
			case cRG:
				res.lists[w.List].Range(cb)
			case cRGR:
				res.lists[w.List].RangeReverse(cb)
			case cFE:
				_ = res.lists[w.List].ForEach(func(v int) error { cb(v); return nil })
			default:
				_ = res.lists[w.List].ForEachReverse(func(v int) error { cb(v); return nil })
			}
			res.iterRan = true
		})
		select {
		case <-reached:
			res.events = append(res.events, "callback parked")
		case <-iterDone:
			res.events = append(res.events, "iteration returned without parking")
		}
		for i, cl := range x.Calls {
			cl := cl
			if actors[i].Do(func() { do(cl) }) == gdump.Blocked {
				res.parked++
				res.events = append(res.events, cl.String()+" parked")
			} else {
				res.returned++
				res.events = append(res.events, cl.String()+" returned")
			}
		}
		close(gate)
		res.events = append(res.events, "callback released")
	} else {
		var bar atomic.Int64
		for i, cl := range x.Calls {
			cl := cl
			actors[i].Start(func() {
				bar.Add(1)
				for n := 1; bar.Load() < int64(len(x.Calls)); n++ {
					if n%256 == 0 {
						runtime.Gosched()
					}
				}
				do(cl)
			})
		}
	}
	if iter != nil {
		if iter.Settle() == gdump.Blocked {
			res.stuck = append(res.stuck, x.Win.Iter+" on L"+fmt.Sprint(x.Win.List))
		}
		if p := iter.TakePanic(); p != "" {
			res.panics = append(res.panics, x.Win.Iter+": "+p)
		}
	}
	for i, a := range actors {
		if a.Settle() == gdump.Blocked {
			res.stuck = append(res.stuck, x.Calls[i].String())
		}
		if p := a.TakePanic(); p != "" {
			res.panics = append(res.panics, x.Calls[i].String()+": "+p)
		}
	}
	if len(res.stuck) == 0 {
		for _, a := range actors {
			a.Close()
		}
		if iter != nil {
			iter.Close()
		}
	}
	return res
}

// crossCases: the systematic part (every shape of two calls between two lists and the ring of three, every
// combination of PushBackList/PushFrontList; free-running ones repeated, windowed ones for every parked list and
// call order) followed by n random cases.
func crossCases(rng *rand.Rand, n, repeat int) []*xcase {
	var out []*xcase
	two := [][]int{{1, 2}, {11, 12, 13}}
	three := [][]int{{1, 2}, {11, 12}, {21}}
	kinds := []string{cPBL, cPFL}
	shapes2 := [][2][2]int{ // (dst, src) of the two calls
		{{0, 1}, {1, 0}}, // crossed
		{{0, 1}, {0, 1}}, // same direction
		{{0, 0}, {1, 0}}, // self-alias, and the aliased list is read by the other call
		{{0, 0}, {0, 1}}, // self-alias, and the aliased list is written by the other call
		{{0, 0}, {0, 0}}, // two self-aliases
	}
	for _, sh := range shapes2 {
		for _, ka := range kinds {
			for _, kb := range kinds {
				calls := []xcall{{ka, sh[0][0], sh[0][1]}, {kb, sh[1][0], sh[1][1]}}
				for r := 0; r < repeat; r++ {
					out = append(out, &xcase{Lists: two, Calls: calls})
				}
				for wl := 0; wl < 2; wl++ {
					for ord := 0; ord < 2; ord++ {
						cs := calls
						if ord == 1 {
							cs = []xcall{calls[1], calls[0]}
						}
						out = append(out, &xcase{Lists: two, Calls: cs, Win: &xwin{List: wl, Iter: []string{cRG, cFE, cRGR, cFER}[(wl*2+ord+len(out))%4], ParkAt: 1 + ord%2}})
					}
				}
			}
		}
	}
	for _, ka := range kinds {
		for _, kb := range kinds {
			ring := []xcall{{ka, 0, 1}, {kb, 1, 2}, {ka, 2, 0}}
			for r := 0; r < repeat; r++ {
				out = append(out, &xcase{Lists: three, Calls: ring})
			}
			for wl := 0; wl < 3; wl++ {
				for rot := 0; rot < 3; rot++ {
					cs := []xcall{ring[rot], ring[(rot+1)%3], ring[(rot+2)%3]}
					out = append(out, &xcase{Lists: three, Calls: cs, Win: &xwin{List: wl, Iter: []string{cRG, cFE, cRGR, cFER}[(wl+rot)%4], ParkAt: 1}})
					cs2 := []xcall{ring[rot], ring[(rot+2)%3], ring[(rot+1)%3]}
					out = append(out, &xcase{Lists: three, Calls: cs2, Win: &xwin{List: wl, Iter: []string{cRG, cFE, cRGR, cFER}[(wl+rot+1)%4], ParkAt: 1}})
				}
			}
		}
	}
	for i := 0; i < n; i++ {
		nl := 2 + rng.Intn(2)
		x := &xcase{}
		v := 0
		for l := 0; l < nl; l++ {
			k := 1 + rng.Intn(3)
			var vals []int
			for j := 0; j < k; j++ {
				v++
				vals = append(vals, l*10+v)
			}
			x.Lists = append(x.Lists, vals)
		}
		nc := 2 + rng.Intn(3)
		for j := 0; j < nc; j++ {
			x.Calls = append(x.Calls, xcall{kinds[rng.Intn(2)], rng.Intn(nl), rng.Intn(nl)})
		}
		if rng.Intn(2) == 0 {
			wl := rng.Intn(nl)
			x.Win = &xwin{List: wl, Iter: []string{cRG, cFE, cRGR, cFER}[rng.Intn(4)], ParkAt: 1 + rng.Intn(len(x.Lists[wl]))}
		}
		out = append(out, x)
	}
	return out
}

func crossChild(c *vf.Ctx, stream string, n, repeat int) {
	cases := crossCases(c.Rand("conc/"+stream), n, repeat)
	for i, x := range cases {
		if st.enough() {
			return
		}
		id := fmt.Sprintf("%s/%d", stream, i)
		c.Mark(id + " " + x.describe())
		crossOne(c, id, x)
	}
}

var crossCache = map[string][3]any{}
var crossSampled bool

// crossOne runs and judges one case.
func crossOne(c *vf.Ctx, id string, x *xcase) {
	res := runCross(x)
	c.Count("conc_cross_scenarios", 1)
	c.Count("conc_cross_calls", len(x.Calls))
	c.Count("evaluations", 1)
	for _, cl := range x.Calls {
		c.Count("conc_op:"+cl.K, 1)
	}
	if x.Win != nil {
		c.Count("conc_cross_windowed", 1)
		c.Count("conc_cross_calls_parked_behind_callback", res.parked)
		c.Count("conc_cross_calls_returned_during_callback", res.returned)
	}
	if x.crossed() {
		c.Count("conc_cross_scenarios_with_opposite_pushes", 1)
	}
	if x.selfAlias() {
		c.Count("conc_cross_scenarios_with_self_alias", 1)
	}
	cs := concCase{ConcKind: "cross", ID: id, Cross: x, Extra: [][]string{res.events}}
	if len(res.panics) > 0 {
		st.report(c, &finding{"conc/cross-push-panic", fmt.Sprintf("%s: %s", x.describe(), strings.Join(res.panics, "; "))}, cs)
		return
	}
	if len(res.stuck) > 0 {
		c.Count("conc_cross_blocked_for_ever", 1)
		kind := "whole-list-pushes"
		if x.crossed() {
			kind = "opposite-whole-list-pushes"
		}
		st.report(c, &finding{"conc/blocked-for-ever:" + kind, fmt.Sprintf("%s: the calls %s stay parked in identical consecutive snapshots while no goroutine is runnable and the harness holds nothing: they can never return; container/list completes every one of these calls (events: %s)", x.describe(), strings.Join(res.stuck, " and "), strings.Join(res.events, ", "))}, cs)
		return
	}
	var finalsGot [][]int
	var f *finding
	for li, l := range res.lists {
		vals, lf := quiesceList(l, nil, nil, false)
		if lf != nil {
			lf.what = fmt.Sprintf("%s: L%d: %s", x.describe(), li, lf.what)
			f = lf
			break
		}
		finalsGot = append(finalsGot, vals)
	}
	if f == nil {
		key := fmt.Sprint(x.Lists, x.Calls)
		oc, ok := crossCache[key]
		if !ok {
			a, b, d := crossOutcomes(x)
			oc = [3]any{a, b, d}
			crossCache[key] = oc
		}
		finals, states, atomicFinals := oc[0].(map[string]bool), oc[1].([]map[string]bool), oc[2].(map[string]bool)
		got := fmt.Sprint(finalsGot)
		c.Distinct("conc_cross_outcomes", key+"=>"+got)
		switch {
		case !finals[got]:
			f = &finding{"conc/cross-push-outcome", fmt.Sprintf("%s: final contents %s are not the result of any interleaving of (consistent snapshot of the source, atomic insertion of it) steps (events: %s)", x.describe(), got, strings.Join(res.events, ", "))}
		case !atomicFinals[got]:
			c.Count("conc_cross_outcomes_explained_only_by_two_steps", 1)
		}
		if f == nil && x.Win != nil && res.iterRan {
			seen := res.iterOut
			if x.Win.Iter == cRGR || x.Win.Iter == cFER {
				seen = reversed(seen)
			}
			if !states[x.Win.List][fmt.Sprint(seen)] {
				f = &finding{"conc/cross-push-iteration", fmt.Sprintf("%s: the iteration reported %v, which L%d never contained in any interleaving (events: %s)", x.describe(), res.iterOut, x.Win.List, strings.Join(res.events, ", "))}
			}
		}
		if f == nil && !crossSampled && x.Win != nil && x.crossed() && res.parked > 0 {
			crossSampled = true
			c.Sample(map[string]any{"kind": "opposite whole-list pushes behind a parked iteration: every call returned, outcome explained", "case": x.describe(), "events": res.events, "final": finalsGot})
		}
	}
	if f != nil {
		cs.Finals = finalsGot
		st.report(c, f, cs)
	}
}

// ------------------------------------------------------------------ empty-boundary stress
//
// One writer pushes element i and takes it out again (Remove, or Init), i = 1..rounds; readers call Front, Back, Len
// and Values all the time, without any recording clock in between. Sound bounds without a linearization: the
// writer publishes i before it calls Push(i) and after Remove(i)/Init returned; a reader that loads the second
// counter (lo) before its call and the first (hi) after it may only be given nil or the element of a value v with
// lo < v <= hi - never anything else (e.g. an internal node), and a length of 0 or 1.
type boundaryCase struct {
	Rounds  int  `json:"rounds"`
	UseInit bool `json:"use_init"`
	Front   bool `json:"push_front"`
	Readers int  `json:"readers"`
}

func runBoundary(b *boundaryCase) (reads, nonNil, nils int, f *finding) {
	t := ds.NewList[int]()
	var hi, lo atomic.Int64
	var done atomic.Bool
	type rd struct {
		reads, nonNil, nils int
		f                   *finding
	}
	out := make([]rd, b.Readers)
	fin := make(chan struct{})
	var bar atomic.Int64
	start := func() {
		bar.Add(1)
		for n := 1; bar.Load() < int64(b.Readers+1); n++ {
			if n%256 == 0 {
				runtime.Gosched()
			}
		}
	}
	for r := 0; r < b.Readers; r++ {
		go func(r int) {
			defer func() { fin <- struct{}{} }()
			o := &out[r]
			defer func() {
				if p := recover(); p != nil && o.f == nil {
					o.f = &finding{"conc/panic:Front/Back", fmt.Sprintf("a reader of a list that one writer keeps filling with one element and emptying again panicked: %v", p)}
				}
			}()
			start()
			for i := 0; !done.Load() && o.f == nil; i++ {
				l := lo.Load()
				kind := i % 4
				var e ds.ListElement[int]
				var vals []int
				n := -1
				switch kind {
				case 0:
					e = t.Front()
				case 1:
					e = t.Back()
				case 2:
					n = t.Len()
				default:
					vals = t.Values()
				}
				h := hi.Load()
				o.reads++
				name := []string{"Front", "Back", "Len", "Values"}[kind]
				switch {
				case kind < 2 && e == nil:
					o.nils++
				case kind < 2:
					o.nonNil++
					if v := int64(e.Value()); v <= l || v > h {
						o.f = &finding{"conc/front-back-not-an-element:" + name, fmt.Sprintf("%s() returned a non-nil handle with Value()=%d (Prev nil=%v, Next nil=%v) although only the elements %d..%d could be in the list during the call (the writer pushes 1, 2, 3, ... and removes each before the next)", name, v, e.Prev() == nil, e.Next() == nil, l+1, h)}
					}
				case kind == 2:
					if n != 0 && n != 1 {
						o.f = &finding{"conc/not-linearizable:Len", fmt.Sprintf("Len()=%d on a list that holds at most one element", n)}
					}
				default:
					if len(vals) > 1 || (len(vals) == 1 && (int64(vals[0]) <= l || int64(vals[0]) > h)) {
						o.f = &finding{"conc/not-linearizable:whole-list-read", fmt.Sprintf("Values()=%v although only one of the elements %d..%d could be in the list", vals, l+1, h)}
					}
				}
			}
		}(r)
	}
	func() {
		defer done.Store(true)
		defer func() {
			if p := recover(); p != nil {
				f = &finding{"conc/panic:writer", fmt.Sprintf("the writer (push one element, then Remove it / Init) panicked: %v", p)}
			}
		}()
		start()
		for i := 1; i <= b.Rounds; i++ {
			hi.Store(int64(i))
			var h ds.ListElement[int]
			if b.Front {
				h = t.PushFront(i)
			} else {
				h = t.PushBack(i)
			}
			if b.UseInit && i%2 == 0 {
				t.Init()
			} else {
				t.Remove(h)
			}
			lo.Store(int64(i))
		}
	}()
	for r := 0; r < b.Readers; r++ {
		<-fin
	}
	for _, o := range out {
		reads, nonNil, nils = reads+o.reads, nonNil+o.nonNil, nils+o.nils
		if f == nil {
			f = o.f
		}
	}
	if f == nil {
		if _, qf := quiesceList(t, nil, map[int]bool{}, true); qf != nil {
			f = qf
		}
	}
	return
}

func boundaryChild(c *vf.Ctx, stream string, runs, rounds int) {
	for i := 0; i < runs && !st.enough(); i++ {
		b := &boundaryCase{Rounds: rounds, UseInit: i%3 == 1, Front: i%2 == 1, Readers: 2 + i%2}
		id := fmt.Sprintf("%s/%d", stream, i)
		if i%8 == 0 {
			c.Mark(id)
		}
		reads, nonNil, nils, f := runBoundary(b)
		c.Count("conc_boundary_runs", 1)
		c.Count("conc_boundary_push_remove_rounds", rounds)
		c.Count("conc_boundary_reads", reads)
		c.Count("conc_boundary_front_back_gave_element", nonNil)
		c.Count("conc_boundary_front_back_gave_nil", nils)
		c.Count("evaluations", 1)
		if f != nil {
			st.report(c, f, concCase{ConcKind: "boundary", ID: id, Boundary: b})
		}
	}
}

// ------------------------------------------------------------------ the list returned by Init
//
// container/list's Init returns its receiver, so `l := ds.NewList[int]().Init()` (the container/list idiom) and
// `l = l.Init()` must leave the caller with the same - thread-safe - list. initReturnedChild uses the returned list
// from several goroutines: pushes only, so the verdict needs no model: every pushed value must be present exactly
// once, Len must agree, the chain must be consistent, and the -race twin must stay silent.
func initReturnedChild(c *vf.Ctx, stream string, runs int) {
	for i := 0; i < runs && !st.enough(); i++ {
		id := fmt.Sprintf("%s/%d", stream, i)
		c.Mark(id)
		base := ds.NewList[int]()
		base.PushBack(-1)
		l := base.Init()
		ng, per := 4, 300
		var bar atomic.Int64
		done := make(chan string, ng)
		for g := 0; g < ng; g++ {
			go func(g int) {
				msg := ""
				defer func() {
					if p := recover(); p != nil {
						msg = fmt.Sprint(p)
					}
					done <- msg
				}()
				bar.Add(1)
				for n := 1; bar.Load() < int64(ng); n++ {
					if n%256 == 0 {
						runtime.Gosched()
					}
				}
				for k := 0; k < per; k++ {
					v := 1 + g*per + k
					switch (g + k) % 3 {
					case 0:
						l.PushBack(v)
					case 1:
						l.PushFront(v)
					default:
						base.PushBack(v) // the original and the returned list must be one list
					}
				}
			}(g)
		}
		pan := ""
		for g := 0; g < ng; g++ {
			if m := <-done; m != "" {
				pan = m
			}
		}
		c.Count("conc_init_returned_list_runs", 1)
		c.Count("evaluations", 1)
		cs := concCase{ConcKind: "init-returned", ID: id}
		if pan != "" {
			st.report(c, &finding{"conc/init-returned-list:panic", "goroutines pushing through l := NewList().Init() and through the original list panicked: " + pan}, cs)
			continue
		}
		want := map[int]bool{}
		for v := 1; v <= ng*per; v++ {
			want[v] = true
		}
		if _, f := quiesceList(l, nil, want, true); f != nil {
			f.fp = "conc/init-returned-list:" + strings.TrimPrefix(strings.TrimPrefix(f.fp, "conc/structure:"), "conc/")
			f.what = fmt.Sprintf("l := ds.NewList[int]().Init(); %d goroutines push %d values each through l and through the original list: %s", ng, per, f.what)
			st.report(c, f, cs)
			continue
		}
		if _, f := quiesceList(base, nil, want, true); f != nil {
			f.fp = "conc/init-returned-list:not-the-receiver"
			f.what = "the list returned by Init and the receiver disagree afterwards: " + f.what
			st.report(c, f, cs)
		}
	}
}
