// C10, part "conc": concurrent histories on the thread-safe flavour.
//
// "Every sequence of List operations" includes sequences issued by several goroutines: the thread-safe list
// (ds.NewList without the lock-free option) wraps each exported call in one critical section, so every concurrent
// history must be linearizable with respect to container/list, each exported call taking effect as ONE atomic
// operation. This part
//
//   - drives many short recorded histories (3-6 goroutines x 4-10 operations, unique values) over every exported
//     method and decides each with porcupine against a sequential model (a slice of unique values; a handle is
//     identified by the value it was created with; an operation on a handle that is no member is a no-op, exactly
//     like container/list),
//   - drives deterministic "window" scenarios: an iteration callback parked on its j-th element while other
//     goroutines (gdump actors) call mutators/observers; whether they block or return is only counted, the verdict
//     is again linearizability of the recorded history (what the iteration reports must be a state the list had)
//     plus the quiescent structural check,
//   - a big-operation scenario (whole-list push of 20 000+ values against a poller and a marker insert),
//   - crossed whole-list pushes between two or three thread-safe lists and an empty-boundary stress (cross.go),
//   - the same workload without the recording clock in a -race child,
//   - a quiescent structural check after every history (forward/backward/Len agreement, handle neighbours,
//     conservation of elements).
//
// Deliberately not demanded (not atomic on the unchanged tree, see the report): l.PushBackList(l)/l.PushFrontList(l)
// under concurrency (the source is read before the lock is taken), a whole-list push whose source is mutated at the
// same time, Prev/Next of a handle while another goroutine moves elements (handle navigation takes no lock), the list
// returned by Init (the unsynchronised inner list), re-entrant calls from iteration callbacks, and handles that
// predate an Init (container/list still treats them as members; histories are built so that none is ever used).
package main

import (
	"encoding/json"
	"errors"
	"fmt"
	"math/rand"
	"os"
	"os/exec"
	"runtime"
	"sort"
	"strconv"
	"strings"
	"sync"
	"sync/atomic"
	"time"

	"github.com/anishathalye/porcupine"
	"github.com/iotaledger/hive.go/ds"
	"verif/harness/internal/gdump"
	"verif/harness/internal/vf"
)

// ------------------------------------------------------------------ operations and programs

const (
	cPF   = "PushFront"
	cPB   = "PushBack"
	cIB   = "InsertBefore"
	cIA   = "InsertAfter"
	cMF   = "MoveToFront"
	cMK   = "MoveToBack"
	cMB   = "MoveBefore"
	cMA   = "MoveAfter"
	cRM   = "Remove"
	cPBL  = "PushBackList"
	cPFL  = "PushFrontList"
	cIN   = "Init"
	cLen  = "Len"
	cFr   = "Front"
	cBk   = "Back"
	cVals = "Values"
	cFE   = "ForEach"
	cFER  = "ForEachReverse"
	cRG   = "Range"
	cRGR  = "RangeReverse"
)

var concKinds = []string{cPF, cPB, cIB, cIA, cMF, cMK, cMB, cMA, cRM, cPBL, cPFL, cIN, cLen, cFr, cBk, cVals, cFE, cFER, cRG, cRGR}

func takesHandle(k string) bool {
	switch k {
	case cIB, cIA, cMF, cMK, cMB, cMA, cRM:
		return true
	}
	return false
}

func isIter(k string) bool { return k == cFE || k == cFER || k == cRG || k == cRGR }

// cref names a handle: pre = i-th prefilled element, own = result of the goroutine's own i-th operation (a push, an
// insert, Front or Back), gone = element removed before the history started, for = element of a foreign list.
type cref struct {
	T string `json:"t"`
	I int    `json:"i"`
}

type cpop struct {
	K     string `json:"k"`
	V     int    `json:"v,omitempty"` // fresh unique value of a push/insert
	A     *cref  `json:"a,omitempty"`
	B     *cref  `json:"b,omitempty"`
	Src   []int  `json:"src,omitempty"`    // values of the (private, quiescent) source list of a whole-list push
	SrcTS bool   `json:"src_ts,omitempty"` // source list is thread-safe
	Lim   int    `json:"lim,omitempty"`    // ForEach/ForEachReverse: the callback returns an error at its Lim-th call
	Yield bool   `json:"y,omitempty"`      // runtime.Gosched() before the call (jitter)
	CbY   int    `json:"cby,omitempty"`    // iterations: runtime.Gosched() inside the callback at its CbY-th call (jitter while the library holds whatever it holds)
}

type cseg struct {
	Init bool     `json:"init_segment,omitempty"` // contains Init calls and therefore no live handles
	Ops  [][]cpop `json:"ops"`                    // per goroutine
}

type cprogram struct {
	Boundary  bool   `json:"empty_boundary,omitempty"` // genBoundary program: no handle checks at the end (Init without segments)
	Prefill   int    `json:"prefill"`
	ForeignTS bool   `json:"foreign_ts"`
	Segs      []cseg `json:"segments"`
}

// crec is one executed operation: input, output, call/return stamps.
type crec struct {
	G     int    `json:"g"`
	K     string `json:"k"`
	V     int    `json:"v,omitempty"`
	H     int    `json:"h,omitempty"` // value that identifies the handle argument
	P     int    `json:"p,omitempty"` // value that identifies the position argument of MoveBefore/MoveAfter
	Src   []int  `json:"src,omitempty"`
	Lim   int    `json:"lim,omitempty"`
	Nil   bool   `json:"nil,omitempty"` // returned handle was nil
	N     int    `json:"n,omitempty"`   // Len / value of the element returned by Front, Back
	Out   []int  `json:"out,omitempty"` // values seen by Values / an iteration
	Err   bool   `json:"err,omitempty"` // ForEach returned an error
	Panic string `json:"panic,omitempty"`
	Call  int64  `json:"call"`
	Ret   int64  `json:"ret"`
}

func (r crec) String() string {
	var b strings.Builder
	fmt.Fprintf(&b, "g%d %s(", r.G, r.K)
	switch r.K {
	case cPF, cPB:
		fmt.Fprintf(&b, "%d", r.V)
	case cIB, cIA:
		fmt.Fprintf(&b, "%d, @%d", r.V, r.H)
	case cMF, cMK, cRM:
		fmt.Fprintf(&b, "@%d", r.H)
	case cMB, cMA:
		fmt.Fprintf(&b, "@%d, @%d", r.H, r.P)
	case cPBL, cPFL:
		fmt.Fprintf(&b, "%v", r.Src)
	case cFE, cFER:
		if r.Lim > 0 {
			fmt.Fprintf(&b, "stop@%d", r.Lim)
		}
	}
	b.WriteString(")")
	switch r.K {
	case cIB, cIA:
		if r.Nil {
			b.WriteString("=nil")
		}
	case cLen:
		fmt.Fprintf(&b, "=%d", r.N)
	case cFr, cBk:
		if r.Nil {
			b.WriteString("=nil")
		} else {
			fmt.Fprintf(&b, "=%d", r.N)
		}
	case cVals, cFE, cFER, cRG, cRGR:
		fmt.Fprintf(&b, "=%v", r.Out)
		if r.Err {
			b.WriteString("+err")
		}
	}
	if r.Panic != "" {
		b.WriteString(" PANIC")
	}
	fmt.Fprintf(&b, "[%d,%d]", r.Call, r.Ret)
	return b.String()
}

const (
	valGone0    = 91 // values of the two elements removed before the history starts
	valForeign0 = 81 // values of the two elements of the foreign list
	valFresh0   = 100
)

// genProgram draws one history program.
func genProgram(rng *rand.Rand) *cprogram {
	p := &cprogram{Prefill: rng.Intn(5), ForeignTS: rng.Intn(2) == 0}
	ng := 3 + rng.Intn(4)
	nseg := 1
	initSeg := -1
	if rng.Intn(100) < 30 {
		nseg = 2 + rng.Intn(2)
		initSeg = rng.Intn(nseg)
	}
	next := valFresh0
	fresh := func() int { next++; return next }
	// ops per goroutine and segment
	per := make([][]int, ng)
	for g := range per {
		total := 4 + rng.Intn(7)
		per[g] = make([]int, nseg)
		for i := 0; i < total; i++ {
			per[g][rng.Intn(nseg)]++
		}
	}
	flat := make([]int, ng)     // flat op index per goroutine
	ownSrc := make([][]int, ng) // own op indices of the current epoch that yield a handle
	p.Segs = make([]cseg, nseg)
	for s := 0; s < nseg; s++ {
		seg := cseg{Init: s == initSeg, Ops: make([][]cpop, ng)}
		if s > 0 && p.Segs[s-1].Init {
			for g := range ownSrc {
				ownSrc[g] = nil // nothing created before or during an Init segment may be used any more
			}
		}
		epoch0 := initSeg < 0 || s < initSeg
		initPlaced := false
		for g := 0; g < ng; g++ {
			n := per[g][s]
			if seg.Init && g == ng-1 && !initPlaced && n == 0 {
				n = 1 // an Init segment contains at least one Init
			}
			for i := 0; i < n; i++ {
				var o cpop
				ref := func() *cref {
					if seg.Init {
						if rng.Intn(2) == 0 {
							return &cref{"gone", rng.Intn(2)}
						}
						return &cref{"for", rng.Intn(2)}
					}
					for try := 0; try < 4; try++ {
						r := rng.Intn(100)
						switch {
						case r < 45 && epoch0 && p.Prefill > 0:
							return &cref{"pre", rng.Intn(p.Prefill)}
						case r < 85 && len(ownSrc[g]) > 0:
							return &cref{"own", ownSrc[g][rng.Intn(len(ownSrc[g]))]}
						case r >= 85 && r < 92:
							return &cref{"gone", rng.Intn(2)}
						case r >= 92:
							return &cref{"for", rng.Intn(2)}
						}
					}
					return &cref{"gone", 0}
				}
				r := rng.Intn(120)
				if seg.Init {
					// Init segment: Init, handle-free calls, and handle calls with never-member handles only
					switch {
					case r < 25 || (g == ng-1 && i == n-1 && !initPlaced):
						o = cpop{K: cIN}
						initPlaced = true
					case r < 37:
						o = cpop{K: cPF, V: fresh()}
					case r < 49:
						o = cpop{K: cPB, V: fresh()}
					case r < 55:
						o = cpop{K: cPBL}
					case r < 61:
						o = cpop{K: cPFL}
					case r < 66:
						o = cpop{K: []string{cIB, cIA}[rng.Intn(2)], V: fresh(), A: ref()}
					case r < 70:
						o = cpop{K: []string{cRM, cMF, cMK}[rng.Intn(3)], A: ref()}
					case r < 80:
						o = cpop{K: cLen}
					case r < 88:
						o = cpop{K: []string{cFr, cBk}[rng.Intn(2)]}
					case r < 100:
						o = cpop{K: cVals}
					default:
						o = cpop{K: []string{cFE, cFER, cRG, cRGR}[rng.Intn(4)]}
					}
				} else {
					switch {
					case r < 8:
						o = cpop{K: cPF, V: fresh()}
					case r < 16:
						o = cpop{K: cPB, V: fresh()}
					case r < 25:
						o = cpop{K: cIB, V: fresh(), A: ref()}
					case r < 34:
						o = cpop{K: cIA, V: fresh(), A: ref()}
					case r < 40:
						o = cpop{K: cMF, A: ref()}
					case r < 46:
						o = cpop{K: cMK, A: ref()}
					case r < 54:
						o = cpop{K: cMB, A: ref(), B: ref()}
					case r < 62:
						o = cpop{K: cMA, A: ref(), B: ref()}
					case r < 75:
						o = cpop{K: cRM, A: ref()}
					case r < 79:
						o = cpop{K: cPBL}
					case r < 83:
						o = cpop{K: cPFL}
					case r < 89:
						o = cpop{K: cLen}
					case r < 94:
						o = cpop{K: cFr}
					case r < 99:
						o = cpop{K: cBk}
					case r < 106:
						o = cpop{K: cVals}
					case r < 110:
						o = cpop{K: cFE}
					case r < 113:
						o = cpop{K: cFER}
					case r < 117:
						o = cpop{K: cRG}
					default:
						o = cpop{K: cRGR}
					}
				}
				if o.K == cPBL || o.K == cPFL {
					k := []int{0, 1, 2, 2, 3, 3, 4, 5}[rng.Intn(8)]
					o.Src = make([]int, k)
					for j := range o.Src {
						o.Src[j] = fresh()
					}
					o.SrcTS = rng.Intn(2) == 0
				}
				if (o.K == cFE || o.K == cFER) && rng.Intn(3) == 0 {
					o.Lim = 1 + rng.Intn(3)
				}
				o.Yield = rng.Intn(6) == 0
				if isIter(o.K) && rng.Intn(3) > 0 {
					o.CbY = 1 + rng.Intn(2)
				}
				if !seg.Init {
					switch o.K {
					case cPF, cPB, cIB, cIA, cFr, cBk:
						ownSrc[g] = append(ownSrc[g], flat[g])
					}
				}
				flat[g]++
				seg.Ops[g] = append(seg.Ops[g], o)
			}
		}
		p.Segs[s] = seg
	}
	return p
}

// genBoundary draws a program that keeps the list oscillating around "empty": one or two writers push one element
// and take it out again (Remove of their own element, or Init when there is a single writer), two or three readers
// call Front/Back/Len/Values all the time. Front and Back on a list that is just being emptied or refilled must
// return nil or a real element.
func genBoundary(rng *rand.Rand) *cprogram {
	p := &cprogram{Boundary: true, ForeignTS: true}
	variant := rng.Intn(3)
	writers := 1
	if variant == 2 {
		writers = 2
	}
	readers := 2 + rng.Intn(2)
	rounds := 30 + rng.Intn(50)
	next := valFresh0
	seg := cseg{Ops: make([][]cpop, writers+readers)}
	for w := 0; w < writers; w++ {
		for r := 0; r < rounds; r++ {
			next++
			push := cpop{K: []string{cPB, cPF}[rng.Intn(2)], V: next}
			idx := len(seg.Ops[w])
			seg.Ops[w] = append(seg.Ops[w], push)
			if variant == 1 && rng.Intn(3) == 0 {
				seg.Ops[w] = append(seg.Ops[w], cpop{K: cIN})
			} else {
				seg.Ops[w] = append(seg.Ops[w], cpop{K: cRM, A: &cref{"own", idx}})
			}
		}
	}
	for r := writers; r < writers+readers; r++ {
		for i := 0; i < 2*rounds; i++ {
			k := []string{cFr, cBk, cFr, cBk, cFr, cBk, cLen, cLen, cVals, cRG}[rng.Intn(10)]
			seg.Ops[r] = append(seg.Ops[r], cpop{K: k})
		}
	}
	p.Segs = []cseg{seg}
	return p
}

// ------------------------------------------------------------------ execution

var cclock atomic.Int64

var errStopIter = errors.New("stop iteration")

type chandle struct {
	e     ds.ListElement[int]
	v     int
	epoch int // number of Init segments before the creating segment; -1 = created inside an Init segment
}

type cenv struct {
	t       ds.List[int]
	foreign ds.List[int]
	pre     []chandle
	gone    []chandle
	forn    []chandle
	srcs    []ds.List[int] // every source list built, with its expected values
	srcVals [][]int
}

func newFlavour(ts bool) ds.List[int] {
	if ts {
		return ds.NewList[int]()
	}
	return ds.NewList[int](true)
}

func newEnv(prefill int, foreignTS bool) *cenv {
	e := &cenv{t: ds.NewList[int](), foreign: newFlavour(foreignTS)}
	for i := 0; i < prefill; i++ {
		e.pre = append(e.pre, chandle{e: e.t.PushBack(i + 1), v: i + 1})
	}
	for i := 0; i < 2; i++ {
		h := e.t.PushBack(valGone0 + i)
		e.t.Remove(h)
		e.gone = append(e.gone, chandle{e: h, v: valGone0 + i})
		e.forn = append(e.forn, chandle{e: e.foreign.PushBack(valForeign0 + i), v: valForeign0 + i})
	}
	return e
}

func (e *cenv) source(vals []int, ts bool) ds.List[int] {
	l := newFlavour(ts)
	for _, v := range vals {
		l.PushBack(v)
	}
	e.srcs = append(e.srcs, l)
	e.srcVals = append(e.srcVals, vals)
	return l
}

func (e *cenv) initial() []int {
	s := make([]int, len(e.pre))
	for i, h := range e.pre {
		s[i] = h.v
	}
	return s
}

const iterRunaway = 1 << 21

// exec performs one call on the list under test. park (optional) is called from inside an iteration callback.
func (e *cenv) exec(g int, o cpop, a, b chandle, src ds.List[int], stamp bool, park func(n int)) (r crec, res chandle) {
	r = crec{G: g, K: o.K, V: o.V, H: a.v, P: b.v, Src: o.Src, Lim: o.Lim}
	defer func() {
		if p := recover(); p != nil {
			r.Panic = fmt.Sprint(p)
			if r.Panic == "" {
				r.Panic = "panic"
			}
			if stamp && r.Ret == 0 {
				r.Ret = cclock.Add(1)
			}
		}
	}()
	t := e.t
	var he ds.ListElement[int]
	n := 0
	cbErr := func(v int) error {
		r.Out = append(r.Out, v)
		if n++; n > iterRunaway {
			panic("iteration does not terminate")
		}
		if park != nil {
			park(n)
		}
		if n == o.CbY {
			runtime.Gosched()
		}
		if o.Lim > 0 && n == o.Lim {
			return errStopIter
		}
		return nil
	}
	cb := func(v int) { _ = cbErr(v) }
	if stamp {
		r.Call = cclock.Add(1)
	}
	switch o.K {
	case cPF:
		he = t.PushFront(o.V)
	case cPB:
		he = t.PushBack(o.V)
	case cIB:
		he = t.InsertBefore(o.V, a.e)
	case cIA:
		he = t.InsertAfter(o.V, a.e)
	case cMF:
		t.MoveToFront(a.e)
	case cMK:
		t.MoveToBack(a.e)
	case cMB:
		t.MoveBefore(a.e, b.e)
	case cMA:
		t.MoveAfter(a.e, b.e)
	case cRM:
		r.N = t.Remove(a.e)
	case cPBL:
		t.PushBackList(src)
	case cPFL:
		t.PushFrontList(src)
	case cIN:
		r.Nil = t.Init() == nil // the returned list is the unsynchronised inner list: never touched here
	case cLen:
		r.N = t.Len()
	case cFr:
		he = t.Front()
	case cBk:
		he = t.Back()
	case cVals:
		r.Out = t.Values()
	case cFE:
		r.Err = t.ForEach(cbErr) != nil
	case cFER:
		r.Err = t.ForEachReverse(cbErr) != nil
	case cRG:
		t.Range(cb)
	case cRGR:
		t.RangeReverse(cb)
	}
	if stamp {
		r.Ret = cclock.Add(1)
	}
	switch o.K {
	case cPF, cPB, cIB, cIA, cFr, cBk:
		if he == nil {
			r.Nil = true
		} else {
			res = chandle{e: he, v: he.Value()}
			if o.K == cFr || o.K == cBk {
				r.N = res.v
			}
		}
	}
	return r, res
}

// resolve turns a reference into a handle; ok=false when the referenced own operation returned no handle.
func (e *cenv) resolve(ref *cref, own []chandle) (chandle, bool) {
	if ref == nil {
		return chandle{}, true
	}
	switch ref.T {
	case "pre":
		if ref.I < len(e.pre) {
			return e.pre[ref.I], true
		}
	case "gone":
		return e.gone[ref.I%2], true
	case "for":
		return e.forn[ref.I%2], true
	case "own":
		if ref.I < len(own) && own[ref.I].e != nil {
			return own[ref.I], true
		}
	}
	return chandle{}, false
}

type histRun struct {
	env     *cenv
	recs    []crec
	handles []chandle // handles of the last epoch (and the prefill when there was no Init segment)
	hasInit bool
}

// runProgram executes a program with one goroutine per program column.
func runProgram(p *cprogram, stamp bool) *histRun {
	env := newEnv(p.Prefill, p.ForeignTS)
	ng := len(p.Segs[0].Ops)
	// sources are built before the goroutines start
	srcs := make([][][]ds.List[int], len(p.Segs))
	for s, seg := range p.Segs {
		srcs[s] = make([][]ds.List[int], ng)
		for g := range seg.Ops {
			srcs[s][g] = make([]ds.List[int], len(seg.Ops[g]))
			for i, o := range seg.Ops[g] {
				if o.K == cPBL || o.K == cPFL {
					srcs[s][g][i] = env.source(o.Src, o.SrcTS)
				}
			}
		}
	}
	finalEpoch := 0
	for _, seg := range p.Segs {
		if seg.Init {
			finalEpoch++
		}
	}
	recs := make([][]crec, ng)
	owns := make([][]chandle, ng)
	var bar atomic.Int64
	var wg sync.WaitGroup
	for g := 0; g < ng; g++ {
		wg.Add(1)
		go func(g int) {
			defer wg.Done()
			var own []chandle
			epoch := 0
			for s, seg := range p.Segs {
				// start barrier: mostly busy-waiting, so that all goroutines leave it within a few hundred nanoseconds
				bar.Add(1)
				for n := 1; bar.Load() < int64(ng*(s+1)); n++ {
					if n%256 == 0 {
						runtime.Gosched()
					}
				}
				for i, o := range seg.Ops[g] {
					a, okA := env.resolve(o.A, own)
					b, okB := env.resolve(o.B, own)
					if !okA || !okB {
						own = append(own, chandle{})
						continue
					}
					if o.Yield {
						runtime.Gosched()
					}
					r, h := env.exec(g, o, a, b, srcs[s][g][i], stamp, nil)
					h.epoch = epoch
					if seg.Init {
						h.epoch = -1
					}
					own = append(own, h)
					recs[g] = append(recs[g], r)
				}
				if seg.Init {
					epoch++
				}
			}
			owns[g] = own
		}(g)
	}
	wg.Wait()
	hr := &histRun{env: env, hasInit: finalEpoch > 0}
	for g := range recs {
		hr.recs = append(hr.recs, recs[g]...)
		for _, h := range owns[g] {
			if h.e != nil && h.epoch == finalEpoch {
				hr.handles = append(hr.handles, h)
			}
		}
	}
	if !hr.hasInit {
		hr.handles = append(hr.handles, env.pre...)
	}
	if p.Boundary {
		hr.handles = nil
	}
	return hr
}

// ------------------------------------------------------------------ sequential model

func idxOf(s []int, v int) int {
	for i, x := range s {
		if x == v {
			return i
		}
	}
	return -1
}

func without(s []int, i int) []int {
	out := make([]int, 0, len(s)-1)
	out = append(out, s[:i]...)
	return append(out, s[i+1:]...)
}

func insertAt(s []int, i int, v ...int) []int {
	out := make([]int, 0, len(s)+len(v))
	out = append(out, s[:i]...)
	out = append(out, v...)
	return append(out, s[i:]...)
}

func reversed(s []int) []int {
	out := make([]int, len(s))
	for i, v := range s {
		out[len(s)-1-i] = v
	}
	return out
}

// cstep: container/list semantics on a slice of unique values.
func cstep(st []int, o *crec) (bool, []int) {
	switch o.K {
	case cPF:
		return true, insertAt(st, 0, o.V)
	case cPB:
		return true, insertAt(st, len(st), o.V)
	case cIB, cIA:
		i := idxOf(st, o.H)
		if i < 0 {
			return o.Nil, st
		}
		if o.Nil {
			return false, st
		}
		if o.K == cIA {
			i++
		}
		return true, insertAt(st, i, o.V)
	case cMF, cMK:
		i := idxOf(st, o.H)
		if i < 0 {
			return true, st
		}
		s := without(st, i)
		if o.K == cMF {
			return true, insertAt(s, 0, o.H)
		}
		return true, insertAt(s, len(s), o.H)
	case cMB, cMA:
		i, j := idxOf(st, o.H), idxOf(st, o.P)
		if i < 0 || j < 0 || o.H == o.P {
			return true, st
		}
		s := without(st, i)
		j = idxOf(s, o.P)
		if o.K == cMA {
			j++
		}
		return true, insertAt(s, j, o.H)
	case cRM:
		if i := idxOf(st, o.H); i >= 0 {
			return true, without(st, i)
		}
		return true, st
	case cPBL:
		return true, insertAt(st, len(st), o.Src...)
	case cPFL:
		return true, insertAt(st, 0, o.Src...)
	case cIN:
		return true, []int{}
	case cLen:
		return o.N == len(st), st
	case cFr, cBk:
		if len(st) == 0 {
			return o.Nil, st
		}
		want := st[0]
		if o.K == cBk {
			want = st[len(st)-1]
		}
		return !o.Nil && o.N == want, st
	case cVals, cRG:
		return eqInts(o.Out, st), st
	case cRGR:
		return eqInts(o.Out, reversed(st)), st
	case cFE, cFER:
		s := st
		if o.K == cFER {
			s = reversed(st)
		}
		if o.Lim > 0 && len(s) >= o.Lim {
			return o.Err && eqInts(o.Out, s[:o.Lim]), st
		}
		return !o.Err && eqInts(o.Out, s), st
	}
	return false, st
}

func concModel(init []int) porcupine.Model {
	return porcupine.Model{
		Init: func() interface{} { return init },
		Step: func(st, in, out interface{}) (bool, interface{}) {
			ok, ns := cstep(st.([]int), in.(*crec))
			return ok, ns
		},
		Equal: func(a, b interface{}) bool { return eqInts(a.([]int), b.([]int)) },
	}
}

func toPorc(recs []crec, skip int) []porcupine.Operation {
	ops := make([]porcupine.Operation, 0, len(recs))
	for i := range recs {
		if i == skip {
			continue
		}
		r := &recs[i]
		ops = append(ops, porcupine.Operation{ClientId: r.G, Input: r, Output: r, Call: r.Call, Return: r.Ret})
	}
	return ops
}

// ------------------------------------------------------------------ verdicts

type concCase struct {
	ConcKind string        `json:"conc_kind"` // history | window | big | race
	ID       string        `json:"id"`
	Program  *cprogram     `json:"program,omitempty"`
	Window   *wcase        `json:"window,omitempty"`
	Big      *bigcase      `json:"big,omitempty"`
	Cross    *xcase        `json:"cross,omitempty"`
	Boundary *boundaryCase `json:"boundary,omitempty"`
	Finals   [][]int       `json:"final_contents,omitempty"`
	Initial  []int         `json:"initial"`
	History  []crec        `json:"history,omitempty"`
	Final    []int         `json:"final_values,omitempty"`
	What     string        `json:"what,omitempty"`
	Race     string        `json:"report,omitempty"`
	RaceArgs []string      `json:"race_args,omitempty"`
	Extra    [][]string    `json:"events,omitempty"`
}

type finding struct{ fp, what string }

// quiesce is the structural check of a list no goroutine is working on. handles: elements whose membership is
// decided by the final content (never handles that predate an Init). want (optional): the exact set of values.
func quiesce(env *cenv, handles []chandle, want map[int]bool) *finding {
	fwd, f := quiesceList(env.t, handles, want, true)
	if f != nil {
		return f
	}
	pos := make(map[int]bool, len(fwd))
	for _, v := range fwd {
		pos[v] = true
	}
	for _, h := range append(append([]chandle{}, env.gone...), env.forn...) {
		if pos[h.v] {
			return &finding{"conc/structure:foreign-member", fmt.Sprintf("quiescent list %v contains value %d of an element that never was a member during the history", clip(fwd), h.v)}
		}
	}
	if fv := env.foreign.Values(); !eqInts(fv, []int{valForeign0, valForeign0 + 1}) {
		return &finding{"conc/structure:foreign-list", fmt.Sprintf("the foreign list changed to %v", clip(fv))}
	}
	for i, s := range env.srcs {
		if sv := s.Values(); !eqInts(sv, env.srcVals[i]) {
			return &finding{"conc/structure:source-list", fmt.Sprintf("the source list of a whole-list push changed from %v to %v", clip(env.srcVals[i]), clip(sv))}
		}
	}
	return nil
}

// quiesceList: forward/backward/Len agreement of one list, neighbours of the given handles, conservation.
// unique=false: values may repeat (lists pushed into each other); then no handles and no want set are given.
func quiesceList(t ds.List[int], handles []chandle, want map[int]bool, unique bool) ([]int, *finding) {
	n := t.Len()
	limit := n + 4096
	if n < 0 {
		limit = 4096
	}
	var fe, fer []int
	collect := func(dst *[]int) func(int) error {
		return func(v int) error {
			if *dst = append(*dst, v); len(*dst) > limit {
				return errStopIter
			}
			return nil
		}
	}
	var pan any
	func() {
		defer func() { pan = recover() }()
		if t.ForEach(collect(&fe)) != nil || t.ForEachReverse(collect(&fer)) != nil {
			panic("traversal does not end")
		}
	}()
	if pan != nil {
		return nil, &finding{"conc/structure:traversal", fmt.Sprintf("quiescent list: ForEach/ForEachReverse failed: %v (Len %d)", pan, n)}
	}
	var fwd, bwd []int
	func() {
		defer func() { pan = recover() }()
		for e, k := t.Front(), 0; e != nil && k <= limit; e, k = e.Next(), k+1 {
			fwd = append(fwd, e.Value())
		}
		for e, k := t.Back(), 0; e != nil && k <= limit; e, k = e.Prev(), k+1 {
			bwd = append(bwd, e.Value())
		}
	}()
	if pan != nil {
		return nil, &finding{"conc/structure:traversal", fmt.Sprintf("quiescent list: walking the handles panicked: %v", pan)}
	}
	vals := t.Values()
	switch {
	case len(fwd) != n:
		return nil, &finding{"conc/structure:len", fmt.Sprintf("quiescent list: Len()=%d but %d elements are reachable from Front (%v)", n, len(fwd), clip(fwd))}
	case !eqInts(fwd, fe) || !eqInts(fwd, vals):
		return nil, &finding{"conc/structure:forward", fmt.Sprintf("quiescent list: handle walk %v, ForEach %v, Values %v disagree", clip(fwd), clip(fe), clip(vals))}
	case !eqInts(reversed(bwd), fwd) || !eqInts(bwd, fer):
		return nil, &finding{"conc/structure:backward", fmt.Sprintf("quiescent list: forward %v, backward walk %v, ForEachReverse %v disagree", clip(fwd), clip(bwd), clip(fer))}
	}
	pos := make(map[int]int, len(fwd))
	for i, v := range fwd {
		if _, dup := pos[v]; dup && unique {
			return nil, &finding{"conc/structure:duplicate", fmt.Sprintf("quiescent list: value %d is present twice in %v", v, clip(fwd))}
		}
		pos[v] = i
	}
	val := func(e ds.ListElement[int]) string {
		if e == nil {
			return "nil"
		}
		return strconv.Itoa(e.Value())
	}
	for _, h := range handles {
		i, live := pos[h.v]
		wp, wn := "nil", "nil"
		if live {
			if i > 0 {
				wp = strconv.Itoa(fwd[i-1])
			}
			if i+1 < len(fwd) {
				wn = strconv.Itoa(fwd[i+1])
			}
		}
		if gp, gn := val(h.e.Prev()), val(h.e.Next()); gp != wp || gn != wn || h.e.Value() != h.v {
			return nil, &finding{"conc/structure:handle", fmt.Sprintf("quiescent list %v: handle of value %d (member=%v) has Prev()=%s Next()=%s Value()=%d, expected Prev %s Next %s", clip(fwd), h.v, live, gp, gn, h.e.Value(), wp, wn)}
		}
	}
	if want != nil {
		for v := range want {
			if _, ok := pos[v]; !ok {
				return nil, &finding{"conc/lost-element", fmt.Sprintf("value %d was inserted and never removed but is missing from the quiescent list %v", v, clip(fwd))}
			}
		}
		for _, v := range fwd {
			if !want[v] {
				return nil, &finding{"conc/unexpected-element", fmt.Sprintf("value %d is in the quiescent list %v although it was removed or never inserted", v, clip(fwd))}
			}
		}
	}
	return fwd, nil
}

func clip(s []int) string {
	if len(s) <= 24 {
		return fmt.Sprint(s)
	}
	return fmt.Sprintf("%v...(%d values)...%v", s[:8], len(s), s[len(s)-8:])
}

// wantSet: the values that must be present at the end of a history without Init.
func wantSet(initial []int, recs []crec) map[int]bool {
	w := map[int]bool{}
	for _, v := range initial {
		w[v] = true
	}
	for _, r := range recs {
		if r.Panic != "" {
			return nil // undecided
		}
		switch r.K {
		case cPF, cPB:
			w[r.V] = true
		case cIB, cIA:
			if !r.Nil {
				w[r.V] = true
			}
		case cPBL, cPFL:
			for _, v := range r.Src {
				w[v] = true
			}
		case cIN:
			return nil
		}
	}
	for _, r := range recs {
		if r.K == cRM {
			delete(w, r.H)
		}
	}
	return w
}

// blockFindings: direct atomicity check of whole-list pushes on full observations. Only valid while no call
// addresses an element of a pushed block through a handle (such a call may legally split the block).
func blockFindings(recs []crec, final []int) *finding {
	blockOf := map[int]int{}
	var blocks []*crec
	for i := range recs {
		r := &recs[i]
		if (r.K == cPBL || r.K == cPFL) && len(r.Src) >= 2 {
			for _, v := range r.Src {
				blockOf[v] = len(blocks)
			}
			blocks = append(blocks, r)
		}
	}
	if len(blocks) == 0 {
		return nil
	}
	for _, r := range recs {
		if _, ok := blockOf[r.H]; ok && r.H != 0 {
			return nil
		}
		if _, ok := blockOf[r.P]; ok && r.P != 0 {
			return nil
		}
	}
	check := func(obs []int, who string) *finding {
		for bi, b := range blocks {
			first := -1
			cnt := 0
			for i, v := range obs {
				if x, ok := blockOf[v]; ok && x == bi {
					if first < 0 {
						first = i
					}
					cnt++
				}
			}
			if cnt == 0 {
				continue
			}
			if cnt < len(b.Src) {
				return &finding{"conc/whole-list-push-torn:" + b.K, fmt.Sprintf("%s saw %d of the %d values that one %s%v inserts: %v", who, cnt, len(b.Src), b.K, b.Src, clip(obs))}
			}
			if first+len(b.Src) > len(obs) || !eqInts(obs[first:first+len(b.Src)], b.Src) {
				return &finding{"conc/whole-list-push-interleaved:" + b.K, fmt.Sprintf("%s shows the values of one %s%v not as one contiguous block: %v", who, b.K, b.Src, clip(obs))}
			}
		}
		return nil
	}
	for _, r := range recs {
		switch r.K {
		case cVals, cRG, cFE:
			if r.Lim == 0 && r.Panic == "" {
				if f := check(r.Out, r.String()); f != nil {
					return f
				}
			}
		case cRGR, cFER:
			if r.Lim == 0 && r.Panic == "" {
				if f := check(reversed(r.Out), r.String()+" (reversed)"); f != nil {
					return f
				}
			}
		}
	}
	return check(final, "the quiescent list")
}

const (
	linOK = iota
	linIllegal
	linUnknown
)

// decide checks a recorded history (+ final content) for linearizability; on Illegal it names the calls whose
// single removal makes the rest linearizable.
func decide(initial []int, recs []crec, final []int, timeout time.Duration) (int, *finding) {
	all := append(append([]crec{}, recs...), crec{G: 99, K: cVals, Out: final})
	maxStamp := int64(0)
	for _, r := range recs {
		if r.Ret > maxStamp {
			maxStamp = r.Ret
		}
	}
	all[len(all)-1].Call, all[len(all)-1].Ret = maxStamp+1, maxStamp+2
	m := concModel(initial)
	switch porcupine.CheckOperationsTimeout(m, toPorc(all, -1), timeout) {
	case porcupine.Ok:
		return linOK, nil
	case porcupine.Unknown:
		return linUnknown, nil
	}
	kinds := map[string]bool{}
	var culprits []string
	for i := range all {
		if porcupine.CheckOperationsTimeout(m, toPorc(all, i), 2*time.Second) == porcupine.Ok {
			k := all[i].K
			switch {
			case i == len(all)-1:
				k = "final-content"
			case isIter(k) || k == cVals:
				k = "whole-list-read" // Values and the four iterations: one class
			case k == cFr || k == cBk:
				k = "Front/Back"
			}
			kinds[k] = true
			culprits = append(culprits, all[i].String())
		}
	}
	ks := make([]string, 0, len(kinds))
	for k := range kinds {
		ks = append(ks, k)
	}
	sort.Strings(ks)
	if len(ks) == 0 {
		return linIllegal, &finding{"conc/not-linearizable:several-calls", "no order of the calls that respects their call/return stamps reproduces every result with container/list semantics, and removing any single call does not help"}
	}
	if len(culprits) > 4 {
		culprits = culprits[:4]
	}
	return linIllegal, &finding{"conc/not-linearizable:" + strings.Join(ks, "+"), "no order of the calls that respects their call/return stamps reproduces every result with container/list semantics; it becomes linearizable when one of these calls is taken out: " + strings.Join(culprits, " | ")}
}

func overlapPairs(recs []crec) (n int, kinds map[string]bool) {
	kinds = map[string]bool{}
	for i := range recs {
		for j := i + 1; j < len(recs); j++ {
			a, b := recs[i], recs[j]
			if a.G != b.G && a.Call < b.Ret && b.Call < a.Ret {
				n++
				ka, kb := a.K, b.K
				if ka > kb {
					ka, kb = kb, ka
				}
				kinds[ka+"|"+kb] = true
			}
		}
	}
	return
}

func shapeHash(recs []crec) uint64 {
	type ev struct {
		t int64
		x uint64
	}
	evs := make([]ev, 0, 2*len(recs))
	for _, r := range recs {
		evs = append(evs, ev{r.Call, uint64(r.G)<<1 | 0}, ev{r.Ret, uint64(r.G)<<1 | 1})
	}
	sort.Slice(evs, func(i, j int) bool { return evs[i].t < evs[j].t })
	h := uint64(14695981039346656037)
	for _, e := range evs {
		h = (h ^ e.x) * 1099511628211
	}
	return h
}

// judge applies every oracle to one finished run. Returns the finding (nil = fine) and the porcupine result.
func judge(c *vf.Ctx, env *cenv, initial []int, recs []crec, handles []chandle, hasInit, recorded bool) (*finding, int, []int) {
	for _, r := range recs {
		if r.Panic != "" {
			return &finding{"conc/panic:" + r.K, fmt.Sprintf("%s panicked (%s); container/list does not panic for member, removed or foreign handles", r.String(), r.Panic)}, linOK, nil
		}
		if r.K == cRM && r.N != r.H {
			return &finding{"conc/returned-value:Remove", fmt.Sprintf("%s returned %d", r.String(), r.N)}, linOK, nil
		}
		if r.K == cIN && r.Nil {
			return &finding{"conc/returned-value:Init", "Init returned nil"}, linOK, nil
		}
		if (r.K == cPF || r.K == cPB) && r.Nil {
			return &finding{"conc/returned-value:" + r.K, r.String() + " returned a nil element"}, linOK, nil
		}
	}
	var want map[int]bool
	if !hasInit {
		want = wantSet(initial, recs)
	}
	f := quiesce(env, handles, want)
	final := env.t.Values()
	if f != nil && strings.HasPrefix(f.fp, "conc/structure") {
		return f, linOK, final
	}
	if bf := blockFindings(recs, final); bf != nil {
		return bf, linOK, final
	}
	if !recorded {
		return f, linOK, final
	}
	res, lf := decide(initial, recs, final, 8*time.Second)
	if lf != nil {
		return lf, res, final
	}
	if res == linUnknown {
		return nil, res, final // the structural findings below would need the linearization
	}
	return f, res, final
}

func historyText(recs []crec, max int) string {
	s := append([]crec{}, recs...)
	sort.Slice(s, func(i, j int) bool { return s[i].Call < s[j].Call })
	var parts []string
	for i, r := range s {
		if i >= max {
			parts = append(parts, "...")
			break
		}
		parts = append(parts, r.String())
	}
	return strings.Join(parts, "; ")
}

// concStats: one per child process. Once a child has reported maxChildViolations findings it stops driving the
// (evidently broken) list: a corrupted chain can make library calls spin or allocate without end.
type concStats struct {
	viol    int
	corrupt bool // a panic or a structurally broken list was seen: further calls on such a tree may never return
}

const maxChildViolations = 12

var st concStats

func (st *concStats) enough() bool {
	return st.viol >= maxChildViolations || (st.corrupt && st.viol >= 3)
}

func (st *concStats) report(c *vf.Ctx, f *finding, cs concCase) {
	if strings.HasPrefix(f.fp, "conc/structure") || strings.HasPrefix(f.fp, "conc/panic") {
		st.corrupt = true
	}
	if st.viol++; st.viol > maxChildViolations {
		return // enough evidence from one child
	}
	cs.What = f.what
	what := f.what
	if len(what) > 900 {
		what = what[:900] + "..."
	}
	c.Violation(f.fp, fmt.Sprintf("thread-safe list, %s %s, initial %v: %s. History (by call stamp): %s. Final content %s", cs.ConcKind, cs.ID, cs.Initial, what, historyText(cs.History, 14), clip(cs.Final)), cs)
}

// ------------------------------------------------------------------ child: random histories

func histChild(c *vf.Ctx, stream string, n int, recorded bool) {
	sampled := false
	for i := 0; i < n && !st.enough(); i++ {
		id := fmt.Sprintf("%s/%d", stream, i)
		if i%64 == 0 {
			c.Mark(id)
		}
		var p *cprogram
		if i%32 == 31 {
			p = genBoundary(c.Rand("conc/" + id))
			c.Count("conc_empty_boundary_histories", 1)
		} else {
			p = genProgram(c.Rand("conc/" + id))
		}
		hr := runProgram(p, recorded)
		initial := hr.env.initial()
		f, res, final := judge(c, hr.env, initial, hr.recs, hr.handles, hr.hasInit, recorded)
		pre := "conc_"
		if !recorded {
			pre = "conc_unrecorded_"
		}
		c.Count(pre+"histories", 1)
		c.Count(pre+"ops", len(hr.recs))
		c.Count("conc_quiescent_checks", 1)
		c.Count("conc_handles_checked", len(hr.handles))
		if hr.hasInit {
			c.Count(pre+"histories_with_init", 1)
		}
		for _, r := range hr.recs {
			c.Count("conc_op:"+r.K, 1)
		}
		if recorded {
			c.Count("evaluations", 1)
			np, kinds := overlapPairs(hr.recs)
			c.Count("conc_overlapping_pairs", np)
			for k := range kinds {
				c.Distinct("conc_overlap_kinds", k)
			}
			c.DistinctHash("conc_shapes", shapeHash(hr.recs))
			switch res {
			case linOK:
				if f == nil {
					c.Count("conc_porcupine_ok", 1)
				}
			case linIllegal:
				c.Count("conc_porcupine_illegal", 1)
			case linUnknown:
				c.Count("conc_porcupine_unknown", 1)
			}
			if f == nil && !sampled && np >= 3 && strings.HasSuffix(stream, "/0") && !hr.hasInit {
				sampled = true
				c.Sample(map[string]any{"kind": "recorded concurrent history on the thread-safe list, accepted by porcupine", "initial": initial, "history": historyText(hr.recs, 60), "final": final, "overlapping_pairs": np})
			}
		}
		if f != nil {
			st.report(c, f, concCase{ConcKind: "history", ID: id, Program: p, Initial: initial, History: hr.recs, Final: final})
		}
	}
}

// ------------------------------------------------------------------ child: window scenarios

// wcase: an iteration whose callback parks at its ParkAt-th element while the mutators are called one after the
// other, each by its own actor; then the callback is released.
type wcase struct {
	Prefill int    `json:"prefill"`
	Iter    string `json:"iteration"`
	ParkAt  int    `json:"park_at"`
	Lim     int    `json:"lim,omitempty"`
	Muts    []cpop `json:"mutators"`
}

func genWindow(rng *rand.Rand) *wcase {
	w := &wcase{Prefill: 3 + rng.Intn(3), Iter: []string{cFE, cFER, cRG, cRGR}[rng.Intn(4)]}
	w.ParkAt = 1 + rng.Intn(w.Prefill)
	if (w.Iter == cFE || w.Iter == cFER) && rng.Intn(4) == 0 {
		w.Lim = w.ParkAt + rng.Intn(w.Prefill-w.ParkAt+1)
	}
	next := valFresh0
	fresh := func() int { next++; return next }
	nm := 2 + rng.Intn(4)
	withInit := rng.Intn(8) == 0
	ref := func() *cref {
		r := rng.Intn(100)
		switch {
		case withInit && r < 50, r >= 94:
			return &cref{"for", rng.Intn(2)}
		case withInit, r >= 88:
			return &cref{"gone", rng.Intn(2)}
		}
		return &cref{"pre", rng.Intn(w.Prefill)}
	}
	for i := 0; i < nm; i++ {
		var o cpop
		r := rng.Intn(100)
		switch {
		case withInit && (i == 0 || r < 15):
			o = cpop{K: cIN}
		case r < 8:
			o = cpop{K: cPF, V: fresh()}
		case r < 16:
			o = cpop{K: cPB, V: fresh()}
		case r < 27:
			o = cpop{K: cIB, V: fresh(), A: ref()}
		case r < 38:
			o = cpop{K: cIA, V: fresh(), A: ref()}
		case r < 44:
			o = cpop{K: cMF, A: ref()}
		case r < 50:
			o = cpop{K: cMK, A: ref()}
		case r < 57:
			o = cpop{K: cMB, A: ref(), B: ref()}
		case r < 64:
			o = cpop{K: cMA, A: ref(), B: ref()}
		case r < 80:
			o = cpop{K: cRM, A: ref()}
		case r < 84:
			o = cpop{K: cPBL}
		case r < 88:
			o = cpop{K: cPFL}
		case r < 91:
			o = cpop{K: cLen}
		case r < 94:
			o = cpop{K: []string{cFr, cBk}[rng.Intn(2)]}
		case r < 97:
			o = cpop{K: cVals}
		default:
			o = cpop{K: []string{cFE, cFER, cRG, cRGR}[rng.Intn(4)]}
		}
		if o.K == cPBL || o.K == cPFL {
			k := 2 + rng.Intn(3)
			for j := 0; j < k; j++ {
				o.Src = append(o.Src, fresh())
			}
			o.SrcTS = rng.Intn(2) == 0
		}
		w.Muts = append(w.Muts, o)
	}
	return w
}

// pairWindows: every ordered pair of calls on the same handle (ahead of a forward cursor) and on two handles on
// both sides of the cursor, under each kind of iteration.
func pairWindows() []*wcase {
	kinds := []string{cPF, cPB, cIB, cIA, cMF, cMK, cMB, cMA, cRM, cPBL, cPFL, cLen, cVals}
	var out []*wcase
	n := 0
	for _, ka := range kinds {
		for _, kb := range kinds {
			for variant := 0; variant < 2; variant++ {
				w := &wcase{Prefill: 4, Iter: []string{cRG, cFE, cRGR, cFER}[n%4], ParkAt: 2}
				n++
				mk := func(k string, v int, h int) cpop {
					o := cpop{K: k}
					switch k {
					case cPF, cPB:
						o.V = v
					case cIB, cIA:
						o.V, o.A = v, &cref{"pre", h}
					case cMF, cMK, cRM:
						o.A = &cref{"pre", h}
					case cMB, cMA:
						o.A, o.B = &cref{"pre", h}, &cref{"pre", (h + 2) % 4}
					case cPBL, cPFL:
						o.Src = []int{v, v + 1, v + 2}
					}
					return o
				}
				ha, hb := 2, 2
				if variant == 1 {
					ha, hb = 0, 2
					if w.Iter == cRGR || w.Iter == cFER {
						ha, hb = 3, 1
					}
				}
				w.Muts = []cpop{mk(ka, 110, ha), mk(kb, 120, hb)}
				out = append(out, w)
			}
		}
	}
	return out
}

type windowResult struct {
	recs     []crec
	handles  []chandle
	env      *cenv
	blocked  int
	returned int
	stuck    string // a call that stays parked although nothing holds it any more
	events   []string
	parked   bool
	hasInit  bool
}

func runWindow(w *wcase, stamp bool) *windowResult {
	env := newEnv(w.Prefill, true)
	res := &windowResult{env: env}
	reached := make(chan struct{}, 1)
	gate := make(chan struct{})
	iterDone := make(chan struct{})
	var mu sync.Mutex
	add := func(r crec) { mu.Lock(); res.recs = append(res.recs, r); mu.Unlock() }
	srcs := make([]ds.List[int], len(w.Muts))
	for i, o := range w.Muts {
		if o.K == cPBL || o.K == cPFL {
			srcs[i] = env.source(o.Src, o.SrcTS)
		}
		if o.K == cIN {
			res.hasInit = true
		}
	}
	iter := gdump.NewActor("iteration")
	iter.Start(func() {
		defer close(iterDone)
		r, _ := env.exec(0, cpop{K: w.Iter, Lim: w.Lim}, chandle{}, chandle{}, nil, stamp, func(n int) {
			if n == w.ParkAt {
				reached <- struct{}{}
				<-gate
			}
		})
		add(r)
	})
	select {
	case <-reached:
		res.parked = true
		res.events = append(res.events, fmt.Sprintf("%s callback parked on element %d", w.Iter, w.ParkAt))
	case <-iterDone:
		res.events = append(res.events, w.Iter+" returned without reaching the park point")
	}
	actors := make([]*gdump.Actor, len(w.Muts))
	for i, o := range w.Muts {
		a, _ := env.resolve(o.A, nil)
		b, _ := env.resolve(o.B, nil)
		i, o := i, o
		actors[i] = gdump.NewActor("mutator")
		var got chandle
		st := actors[i].Do(func() {
			r, h := env.exec(i+1, o, a, b, srcs[i], stamp, nil)
			got = h
			add(r)
		})
		if st == gdump.Blocked {
			res.blocked++
			res.events = append(res.events, o.K+" parked while the callback was parked")
		} else {
			res.returned++
			res.events = append(res.events, o.K+" returned while the callback was parked")
			if got.e != nil && !res.hasInit {
				res.handles = append(res.handles, got)
			}
		}
	}
	close(gate)
	res.events = append(res.events, "callback released")
	if iter.Settle() == gdump.Blocked {
		res.stuck = w.Iter
	}
	for i, a := range actors {
		if a.Settle() == gdump.Blocked && res.stuck == "" {
			res.stuck = w.Muts[i].K
		}
	}
	if res.stuck != "" {
		return res // goroutines are leaked; the list must not be touched any more
	}
	iter.Close()
	for _, a := range actors {
		a.Close()
	}
	if !res.hasInit {
		res.handles = append(res.handles, env.pre...)
	}
	return res
}

func windowChild(c *vf.Ctx, stream string, n int, stamp bool) {
	cases := pairWindows()
	np := len(cases)
	for i := 0; i < n; i++ {
		cases = append(cases, genWindow(c.Rand(fmt.Sprintf("conc/%s/%d", stream, i))))
	}
	sampled := false
	for i, w := range cases {
		if st.enough() {
			return
		}
		id := fmt.Sprintf("%s/pair-%d", stream, i)
		if i >= np {
			id = fmt.Sprintf("%s/%d", stream, i-np)
		}
		c.Mark(id)
		wr := runWindow(w, stamp)
		initial := wr.env.initial()
		c.Count("conc_window_scenarios", 1)
		if wr.parked {
			c.Count("conc_window_callback_parked", 1)
		}
		c.Count("conc_window_calls_parked_behind_callback", wr.blocked)
		c.Count("conc_window_calls_returned_during_callback", wr.returned)
		c.Distinct("conc_window_shapes", fmt.Sprintf("%s@%d/%v", w.Iter, w.ParkAt, kindsOf(w.Muts)))
		cs := concCase{ConcKind: "window", ID: id, Window: w, Initial: initial, History: wr.recs, Extra: [][]string{wr.events}}
		if wr.stuck != "" {
			st.report(c, &finding{"conc/blocked-for-ever:" + wr.stuck, fmt.Sprintf("after the parked %s callback was released, the call %s stays parked in two identical snapshots while no other goroutine is runnable: nothing can wake it (events: %s)", w.Iter, wr.stuck, strings.Join(wr.events, ", "))}, cs)
			continue
		}
		f, res, final := judge(c, wr.env, initial, wr.recs, wr.handles, wr.hasInit, stamp)
		cs.Final = final
		for _, r := range wr.recs {
			c.Count("conc_op:"+r.K, 1)
		}
		if stamp {
			c.Count("evaluations", 1)
			switch res {
			case linOK:
				if f == nil {
					c.Count("conc_window_porcupine_ok", 1)
				}
			case linUnknown:
				c.Count("conc_porcupine_unknown", 1)
			}
		}
		if f == nil && !sampled && i >= np && wr.blocked >= 2 {
			sampled = true
			c.Sample(map[string]any{"kind": "window scenario (iteration callback parked, then released), accepted", "initial": initial, "events": wr.events, "history": historyText(wr.recs, 20), "final": final})
		}
		if f != nil {
			f.what += " (events: " + strings.Join(wr.events, ", ") + ")"
			st.report(c, f, cs)
		}
	}
}

func kindsOf(ops []cpop) []string {
	out := make([]string, len(ops))
	for i, o := range ops {
		out[i] = o.K
	}
	return out
}

// ------------------------------------------------------------------ child: big whole-list push

type bigcase struct {
	Kind   string `json:"kind"`
	K      int    `json:"source_len"`
	SrcTS  bool   `json:"src_ts"`
	Marker cpop   `json:"marker"`
}

func genBig(rng *rand.Rand, i, k int) *bigcase {
	b := &bigcase{Kind: []string{cPFL, cPBL}[i%2], K: k, SrcTS: rng.Intn(2) == 0}
	switch rng.Intn(6) {
	case 0:
		b.Marker = cpop{K: cPF}
	case 1:
		b.Marker = cpop{K: cPB}
	case 2:
		b.Marker = cpop{K: cIB, A: &cref{"pre", 0}}
	case 3:
		b.Marker = cpop{K: cIA, A: &cref{"pre", 1}}
	case 4:
		b.Marker = cpop{K: cIA, A: &cref{"pre", 0}}
	default:
		b.Marker = cpop{K: cIB, A: &cref{"pre", 1}}
	}
	b.Marker.V = 7
	return b
}

func runBig(b *bigcase) (env *cenv, recs []crec, polls, overlapping int) {
	env = newEnv(2, true)
	vals := make([]int, b.K)
	for i := range vals {
		vals[i] = 1000 + i
	}
	src := env.source(vals, b.SrcTS)
	var started, done atomic.Bool
	var wg sync.WaitGroup
	var push, mark crec
	var obs []crec
	wg.Add(3)
	go func() {
		defer wg.Done()
		defer done.Store(true)
		started.Store(true)
		push, _ = env.exec(0, cpop{K: b.Kind, Src: vals}, chandle{}, chandle{}, src, true, nil)
	}()
	go func() {
		defer wg.Done()
		for !started.Load() {
			runtime.Gosched()
		}
		for i := 0; i < 3; i++ {
			runtime.Gosched()
		}
		a, _ := env.resolve(b.Marker.A, nil)
		mark, _ = env.exec(1, b.Marker, a, chandle{}, nil, true, nil)
	}()
	go func() {
		defer wg.Done()
		kinds := []string{cLen, cFr, cBk}
		last := map[string]crec{}
		fin := false
		for i := 0; ; i++ {
			k := kinds[i%3]
			r, _ := env.exec(2, cpop{K: k}, chandle{}, chandle{}, nil, true, nil)
			polls++
			if l, ok := last[k]; !ok || l.N != r.N || l.Nil != r.Nil || r.Panic != "" {
				if len(obs) < 90 {
					obs = append(obs, r)
				}
				last[k] = r
			} else if n := len(obs); n > 0 && obs[n-1].K == k {
				obs[n-1].Ret = r.Ret // same answer again: one long observation
			}
			if fin && i%3 == 2 {
				return
			}
			if done.Load() {
				fin = true
			}
		}
	}()
	wg.Wait()
	for _, o := range obs {
		if o.Call < push.Ret && push.Call < o.Ret {
			overlapping++
		}
	}
	recs = append([]crec{push, mark}, obs...)
	return
}

func bigChild(c *vf.Ctx, stream string, rounds, k int) {
	for i := 0; i < rounds && !st.enough(); i++ {
		id := fmt.Sprintf("%s/%d", stream, i)
		c.Mark(id)
		kk := k
		if i%4 == 3 {
			kk = k * 2
		}
		b := genBig(c.Rand("conc/"+id), i, kk)
		env, recs, polls, ov := runBig(b)
		initial := env.initial()
		c.Count("conc_big_rounds", 1)
		c.Count("conc_big_polls", polls)
		c.Count("conc_big_observations_overlapping_the_push", ov)
		c.Count("evaluations", 1)
		c.Count("conc_op:"+b.Kind, 1)
		cs := concCase{ConcKind: "big", ID: id, Big: b, Initial: initial}
		// the replay keeps the observations, not the 20 000 source values
		slim := append([]crec{}, recs...)
		slim[0].Src = nil
		cs.History = slim
		var f *finding
		for _, r := range recs[2:] {
			if r.K == cLen && r.Panic == "" && r.N != 2 && r.N != 3 && r.N != 2+b.K && r.N != 3+b.K {
				f = &finding{"conc/whole-list-push-torn:" + b.Kind, fmt.Sprintf("Len()=%d was observed while %s of %d values ran on a list of 2 elements (plus one marker insert): only 2, 3, %d and %d are lengths the list can have", r.N, b.Kind, b.K, 2+b.K, 3+b.K)}
				break
			}
		}
		if f == nil {
			hs := append([]chandle{}, env.pre...)
			f, _, cs.Final = judge(c, env, initial, recs, hs, false, true)
		}
		if f != nil {
			cs.Final = nil
			st.report(c, f, cs)
		}
	}
}

// ------------------------------------------------------------------ race reports

func exportedDsMethod(stack []string) (method string, harness bool) {
	// stack is innermost first
	inner := ""
	for _, fn := range stack {
		if strings.HasPrefix(fn, "main.") {
			if inner == "" {
				return "", true // the access itself is harness code
			}
			break
		}
		if strings.Contains(fn, "iotaledger/hive.go/ds.") {
			name := fn[strings.LastIndexByte(fn, '.')+1:]
			if inner == "" {
				inner = name
			}
			if name != "" && name[0] >= 'A' && name[0] <= 'Z' {
				method = name // keep the outermost exported method of package ds
			}
		}
	}
	if method == "" {
		method = inner
	}
	return method, false
}

// fpAll != "": every race inside package ds is reported under that one fingerprint (dedicated children).
func concReportRaces(c *vf.Ctx, rs []vf.RaceReport, args []string, fpAll string) {
	seen := map[string]bool{}
	for _, r := range rs {
		c.Count("conc_race_reports", 1)
		if len(r.Stacks) < 2 {
			continue
		}
		a, ha := exportedDsMethod(r.Stacks[0])
		b, hb := exportedDsMethod(r.Stacks[1])
		if ha || hb {
			c.Count("conc_race_reports_harness_own", 1)
			c.Note("race inside the harness (not attributed to hive.go): " + r.Key)
			continue
		}
		if a == "" || b == "" {
			c.Note("race outside package ds: " + r.Key)
			continue
		}
		if a > b {
			a, b = b, a
		}
		key := a + " <-> " + b
		if seen[key] || len(seen) >= 4 {
			continue
		}
		seen[key] = true
		txt := r.Text
		if len(txt) > 6000 {
			txt = txt[:6000]
		}
		if fpAll != "" {
			if len(seen) == 1 {
				c.Violation(fpAll, "data race inside package ds between "+a+" and "+b+" called concurrently through the list returned by Init() of a thread-safe list ("+r.Key+")", concCase{ConcKind: "race-initret", Race: txt, RaceArgs: args})
			}
			continue
		}
		c.Violation("race:ds.List "+key, "data race inside package ds between "+a+" and "+b+" called concurrently on one thread-safe list ("+r.Key+")", concCase{ConcKind: "race", Race: txt, RaceArgs: args})
	}
}

// ------------------------------------------------------------------ parent side

func concScale() float64 {
	n := runtime.NumCPU()
	if n > 4 {
		n = 4
	}
	return float64(n) / 4
}

func atoi(s string) int { n, _ := strconv.Atoi(s); return n }

// startMemGuard protects the machine from a library call that never ends on a corrupted chain (Values on a cycle
// allocates without bound, and no callback of the harness is involved): a shell helper polls this process's resident
// set and kills it above the limit. It lives outside the process, so no timer or running goroutine disturbs the
// gdump scenarios; it ends by itself when this process is gone. A killed child makes the run INCONCLUSIVE unless
// violations were reported before.
func startMemGuard(limitMB int) {
	script := fmt.Sprintf(`while kill -0 %[1]d 2>/dev/null; do r=$(awk '/^VmRSS:/{print int($2/1024)}' /proc/%[1]d/status 2>/dev/null); if [ "${r:-0}" -gt %[2]d ]; then echo "MEMGUARD: resident set ${r} MiB above %[2]d MiB, killing the child" >&2; kill -9 %[1]d; exit 0; fi; sleep 0.2; done`, os.Getpid(), limitMB)
	cmd := exec.Command("/bin/sh", "-c", script)
	cmd.Stderr = os.Stderr
	_ = cmd.Start() // never waited for: a goroutine inside a wait syscall would count as "not idle" in gdump snapshots
}

// concChild dispatches the child modes of this part.
func concChild(c *vf.Ctx) bool {
	a := c.ChildArgs
	if strings.HasPrefix(c.Child, "conc-") {
		limit := 1536
		if vfRace {
			limit = 4096
		}
		startMemGuard(limit)
	}
	switch c.Child {
	case "conc-hist": // shard n
		histChild(c, "hist/"+a[0], atoi(a[1]), true)
		boundaryChild(c, "boundary/"+a[0], atoi(a[1])/100, 6000)
	case "conc-window": // n
		windowChild(c, "window/"+a[0], atoi(a[1]), true)
	case "conc-initret": // runs
		initReturnedChild(c, "init-returned/"+a[0], atoi(a[1]))
	case "conc-boundary": // runs rounds
		boundaryChild(c, "boundary/"+a[0], atoi(a[1]), atoi(a[2]))
	case "conc-cross": // n repeat
		crossChild(c, "cross/"+a[0], atoi(a[1]), atoi(a[2]))
	case "conc-big": // rounds k
		bigChild(c, "big/"+a[0], atoi(a[1]), atoi(a[2]))
	case "conc-race": // shard nUnrecorded nRecorded nWindow bigRounds bigK
		histChild(c, "race-unrecorded/"+a[0], atoi(a[1]), false)
		histChild(c, "race-recorded/"+a[0], atoi(a[2]), true)
		boundaryChild(c, "race-boundary/"+a[0], atoi(a[2])/100, 2000)
		if atoi(a[3]) > 0 {
			windowChild(c, "race-window/"+a[0], atoi(a[3]), true)
		}
		if atoi(a[4]) > 0 {
			bigChild(c, "race-big/"+a[0], atoi(a[4]), atoi(a[5]))
			crossChild(c, "race-cross/"+a[0], atoi(a[4])*25, 3)
		}
		c.Count("conc_race_children_completed", 1)
	case "conc-replay":
		concReplayChild(c)
	default:
		return false
	}
	return true
}

func concChildOutcome(c *vf.Ctx, name string, res vf.ChildResult, race bool) {
	switch {
	case res.Deadlock:
		c.Violation("conc/deadlock", fmt.Sprintf("child %s: the Go runtime reported 'all goroutines are asleep' in case %s (%s)", name, res.LastMark, firstBlockedFrame(res.Stderr)), concCase{ConcKind: "deadlock", ID: res.LastMark})
	case strings.Contains(res.Stderr, "MEMGUARD:"):
		c.Inconclusive(fmt.Sprintf("conc child %s was killed by its memory guard: a library call allocated without bound (last case %s)", name, res.LastMark))
	case res.TimedOut:
		c.Inconclusive(fmt.Sprintf("conc child %s hit the watchdog (last case %s)", name, res.LastMark))
	case res.ExitCode != 0 && !(race && res.ExitCode == 66):
		c.Inconclusive(fmt.Sprintf("conc child %s died: exit %d %s (last case %s)", name, res.ExitCode, res.Fatal, res.LastMark))
	default:
		c.Count("conc_children_completed", 1)
	}
}

// runConc is the parent side of the part.
func runConc(c *vf.Ctx) {
	t0 := time.Now()
	var jobs []vf.ChildOpts
	tmo := time.Duration(c.Pick(5, 14)) * time.Minute
	histShards := 3
	nHist := c.Pick(6000, 60000)
	for s := 0; s < histShards; s++ {
		jobs = append(jobs, vf.ChildOpts{Name: "conc-hist", Args: []string{strconv.Itoa(s), strconv.Itoa(nHist)}, Timeout: tmo})
	}
	jobs = append(jobs, vf.ChildOpts{Name: "conc-window", Args: []string{"0", strconv.Itoa(c.Pick(1200, 12000))}, Timeout: tmo})
	jobs = append(jobs, vf.ChildOpts{Name: "conc-cross", Args: []string{"0", strconv.Itoa(c.Pick(600, 6000)), strconv.Itoa(c.Pick(20, 200))} /* keep in step with xn, xr below */, Timeout: tmo})
	jobs = append(jobs, vf.ChildOpts{Name: "conc-big", Args: []string{"0", strconv.Itoa(c.Pick(24, 120)), "20000"}, Timeout: tmo})
	// the list returned by Init: own children, so that its findings cannot stop or disturb the other families
	jobs = append(jobs, vf.ChildOpts{Name: "conc-initret", Args: []string{"0", strconv.Itoa(c.Pick(20, 100))}, Timeout: tmo})
	jobs = append(jobs, vf.ChildOpts{Name: "conc-initret", Race: true, Args: []string{"r", strconv.Itoa(c.Pick(3, 10))}, Timeout: tmo})
	for s := 0; s < 2; s++ {
		jobs = append(jobs, vf.ChildOpts{Name: "conc-race", Race: true, Timeout: tmo,
			Args: []string{strconv.Itoa(s), strconv.Itoa(c.Pick(1500, 15000)), strconv.Itoa(c.Pick(400, 4000)), strconv.Itoa(c.Pick(150, 1500) * (1 - s)), strconv.Itoa(c.Pick(4, 16) * s), "5000"}})
	}
	var tmu sync.Mutex
	childS := map[string]float64{}
	vf.Parallel(len(jobs), len(jobs), func(i int) {
		tc := time.Now()
		res := c.RunChild(jobs[i])
		tmu.Lock()
		childS[jobs[i].Name+"/"+jobs[i].Args[0]] = float64(int(time.Since(tc).Seconds()*10)) / 10
		tmu.Unlock()
		concChildOutcome(c, jobs[i].Name+"/"+jobs[i].Args[0], res, jobs[i].Race)
		if jobs[i].Race {
			fpAll := ""
			if jobs[i].Name == "conc-initret" {
				fpAll = "conc/init-returned-list:race"
			}
			concReportRaces(c, res.Races, jobs[i].Args, fpAll)
		}
	})
	c.Extra("phase_s_conc", int(time.Since(t0).Seconds()))
	c.Extra("conc_child_s", childS)
	sc := concScale()
	c.Require("conc_children_completed", len(jobs))
	c.Require("conc_histories", histShards*nHist)
	c.Require("conc_porcupine_ok", histShards*nHist*9/10)
	c.Require("conc_overlapping_pairs", int(float64(histShards*nHist)*sc))
	c.Require("conc_unrecorded_histories", 2*c.Pick(1500, 15000))
	c.Require("conc_window_scenarios", c.Pick(1200, 12000))
	c.Require("conc_window_callback_parked", c.Pick(1200, 12000))
	c.Require("conc_big_rounds", c.Pick(24, 120))
	c.Require("conc_big_observations_overlapping_the_push", max(1, int(float64(c.Pick(12, 60))*sc)))
	c.Require("conc_race_children_completed", 2)
	c.Require("conc_init_returned_list_runs", c.Pick(20, 100))
	c.Require("conc_boundary_runs", histShards*nHist/100)
	c.Require("conc_boundary_front_back_gave_element", max(1, int(float64(histShards*nHist/10)*sc)))
	c.Require("conc_boundary_front_back_gave_nil", max(1, int(float64(histShards*nHist/10)*sc)))
	xn, xr := c.Pick(600, 6000), c.Pick(20, 200) // arguments of the plain conc-cross child: see crossCases for the counts
	c.Require("conc_cross_scenarios", 20*(xr+4)+4*(xr+18)+xn)
	c.Require("conc_cross_scenarios_with_opposite_pushes", 4*(xr+4))
	c.Require("conc_cross_scenarios_with_self_alias", 12*(xr+4))
	c.Require("conc_cross_windowed", 20*4+4*18+xn/3)
	for _, k := range concKinds {
		c.Require("conc_op:"+k, 200)
	}
	if unk := c.Get("conc_porcupine_unknown"); unk*50 > c.Get("conc_histories") {
		c.Inconclusive(fmt.Sprintf("porcupine timed out on %d of %d concurrent histories", unk, c.Get("conc_histories")))
	}
	c.Assume("concurrent part: the reference for a concurrent history of the thread-safe list is any order of its calls that respects the recorded call/return stamps (linearizability), each call acting like the container/list call of the same name on a list of unique values")
	c.Assume("concurrent part does not demand: atomicity of l.PushBackList(l)/l.PushFrontList(l) and of whole-list pushes from a source that is mutated meanwhile (the source is read before the lock is taken), Prev/Next on handles while other goroutines move elements, use of the list returned by Init, re-entrant calls from callbacks, handles that predate an Init")
}

// ------------------------------------------------------------------ replay

func isConcReplay(c *vf.Ctx) (concCase, bool) {
	var cs concCase
	if err := c.LoadReplay(&cs); err != nil || cs.ConcKind == "" {
		return cs, false
	}
	return cs, true
}

func concReplay(c *vf.Ctx, cs concCase) {
	b, _ := json.Marshal(cs)
	switch cs.ConcKind {
	case "race":
		args := cs.RaceArgs
		if len(args) < 6 {
			args = []string{"0", "1500", "0", "150", "0", "5000"}
		}
		res := c.RunChild(vf.ChildOpts{Name: "conc-race", Race: true, Args: args, Timeout: 14 * time.Minute})
		concChildOutcome(c, "conc-race", res, true)
		concReportRaces(c, res.Races, args, "")
	case "race-initret":
		res := c.RunChild(vf.ChildOpts{Name: "conc-initret", Race: true, Args: []string{"r", "3"}, Timeout: 5 * time.Minute})
		concChildOutcome(c, "conc-initret", res, true)
		concReportRaces(c, res.Races, []string{"r", "3"}, "conc/init-returned-list:race")
	default:
		res := c.RunChild(vf.ChildOpts{Name: "conc-replay", Stdin: b, Timeout: 10 * time.Minute})
		concChildOutcome(c, "conc-replay", res, false)
	}
}

// concReplayChild re-executes the recorded case.
func concReplayChild(c *vf.Ctx) {
	var cs concCase
	dec := json.NewDecoder(os.Stdin)
	if err := dec.Decode(&cs); err != nil {
		c.Inconclusive("conc-replay: cannot decode the case: " + err.Error())
		return
	}
	c.Count("evaluations", 1)
	// the recorded history is evidence about the tree it was recorded on: it is re-decided for the log only; the
	// verdict of a replay comes from executing the case again (up to 300 times; window cases are deterministic)
	if cs.ConcKind != "big" && len(cs.History) > 0 && cs.Final != nil {
		if bf := blockFindings(cs.History, cs.Final); bf != nil {
			c.Note("recorded history re-decided: " + bf.fp)
		} else if _, f := decide(cs.Initial, cs.History, cs.Final, 60*time.Second); f != nil {
			c.Note("recorded history re-decided: " + f.fp)
		}
	}
	for i := 0; i < 3000 && st.viol == 0; i++ {
		switch {
		case cs.ConcKind == "init-returned":
			if i == 0 {
				initReturnedChild(c, "init-returned/replay", 40)
			}
		case cs.Cross != nil && i < 300:
			crossOne(c, cs.ID, cs.Cross)
		case cs.Boundary != nil:
			if i < 40 {
				if _, _, _, f := runBoundary(cs.Boundary); f != nil {
					st.report(c, f, concCase{ConcKind: "boundary", ID: cs.ID, Boundary: cs.Boundary})
				}
			}
		case cs.Program != nil:
			hr := runProgram(cs.Program, true)
			if f, _, final := judge(c, hr.env, hr.env.initial(), hr.recs, hr.handles, hr.hasInit, true); f != nil {
				st.report(c, f, concCase{ConcKind: cs.ConcKind, ID: cs.ID, Program: cs.Program, Initial: hr.env.initial(), History: hr.recs, Final: final})
			}
		case cs.Window != nil && i < 300:
			wr := runWindow(cs.Window, true)
			ncs := concCase{ConcKind: cs.ConcKind, ID: cs.ID, Window: cs.Window, Initial: wr.env.initial(), History: wr.recs, Extra: [][]string{wr.events}}
			if wr.stuck != "" {
				st.report(c, &finding{"conc/blocked-for-ever:" + wr.stuck, "call stays parked after the callback was released"}, ncs)
				return
			}
			if f, _, final := judge(c, wr.env, wr.env.initial(), wr.recs, wr.handles, wr.hasInit, true); f != nil {
				ncs.Final = final
				st.report(c, f, ncs)
			}
		case cs.Big != nil && i < 20:
			env, recs, _, _ := runBig(cs.Big)
			var f *finding
			for _, r := range recs[2:] {
				if r.K == cLen && r.N != 2 && r.N != 3 && r.N != 2+cs.Big.K && r.N != 3+cs.Big.K {
					f = &finding{"conc/whole-list-push-torn:" + cs.Big.Kind, fmt.Sprintf("Len()=%d observed during the whole-list push", r.N)}
				}
			}
			if f == nil {
				f, _, _ = judge(c, env, env.initial(), recs, env.pre, false, true)
			}
			if f != nil {
				recs[0].Src = nil
				st.report(c, f, concCase{ConcKind: "big", ID: cs.ID, Big: cs.Big, Initial: env.initial(), History: recs})
			}
		}
	}
}
