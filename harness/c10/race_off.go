//go:build !race

package main

const vfRace = false
