// C10 – ds.List behaves exactly like container/list.
//
// Lock-step mirror: every operation is applied to a hive.go list and to a
// container/list.List; handles are kept as pairs (hive element, std element) in a
// pool that also retains removed handles and the handles of a second (foreign)
// list pair. After every step both lists are compared completely (forward and
// backward traversal through the element handles, Values/ForEach/Range and their
// reverse variants, Len, Front/Back, Prev/Next/Value of every pooled handle).
//
// Self-PushBackList/PushFrontList on the thread-safe flavour would hang the
// process if it self-dead-locks, therefore those cases run in their own
// plain-build, timer-free child and the verdict is the Go runtime's dead-lock
// detector (res.Deadlock).
package main

import (
	"container/list"
	"fmt"
	"math/rand"
	"runtime"
	"strconv"
	"strings"
	"sync"
	"sync/atomic"
	"time"

	"github.com/iotaledger/hive.go/ds"
	"verif/harness/internal/vf"
)

// ------------------------------------------------------------------ operations

// op kinds. A is the list under test, B the foreign list.
const (
	kPF  = "PF"  // A.PushFront
	kPB  = "PB"  // A.PushBack
	kBPB = "BPB" // B.PushBack (creates a foreign handle)
	kBPF = "BPF" // B.PushFront
	kIB  = "IB"  // A.InsertBefore(v, h)
	kIA  = "IA"  // A.InsertAfter(v, h)
	kMF  = "MF"  // A.MoveToFront(h)
	kMK  = "MK"  // A.MoveToBack(h)
	kMB  = "MB"  // A.MoveBefore(h, p)
	kMA  = "MA"  // A.MoveAfter(h, p)
	kRM  = "RM"  // A.Remove(h)
	kBRM = "BRM" // B.Remove(h)
	kPBL = "PBL" // A.PushBackList(B | self)   arg a: 0 = B, 1 = self
	kPFL = "PFL" // A.PushFrontList(B | self)
	kIN  = "IN"  // A.Init()
	kHV  = "HV"  // harvest: walk both lists in parallel and pool every handle (random mode only)
)

var opNames = map[string]string{kPF: "PushFront", kPB: "PushBack", kBPB: "foreign.PushBack", kBPF: "foreign.PushFront",
	kIB: "InsertBefore", kIA: "InsertAfter", kMF: "MoveToFront", kMK: "MoveToBack", kMB: "MoveBefore", kMA: "MoveAfter",
	kRM: "Remove", kBRM: "foreign.Remove", kPBL: "PushBackList", kPFL: "PushFrontList", kIN: "Init", kHV: "harvest"}

type op struct {
	K    string
	A, B int
}

func (o op) String() string {
	switch o.K {
	case kIB, kIA, kMF, kMK, kRM, kBRM, kPBL, kPFL:
		return o.K + ":" + strconv.Itoa(o.A)
	case kMB, kMA:
		return o.K + ":" + strconv.Itoa(o.A) + ":" + strconv.Itoa(o.B)
	}
	return o.K
}

func parseOp(s string) op {
	p := strings.Split(s, ":")
	o := op{K: p[0]}
	if len(p) > 1 {
		o.A, _ = strconv.Atoi(p[1])
	}
	if len(p) > 2 {
		o.B, _ = strconv.Atoi(p[2])
	}
	return o
}

func opsString(ops []op) string {
	ss := make([]string, len(ops))
	for i, o := range ops {
		ss[i] = o.String()
	}
	return strings.Join(ss, ",")
}

func parseOps(s string) []op {
	if s == "" {
		return nil
	}
	var out []op
	for _, p := range strings.Split(s, ",") {
		out = append(out, parseOp(p))
	}
	return out
}

func (o op) isSelfPush() bool { return (o.K == kPBL || o.K == kPFL) && o.A == 1 }

// alphabet of the exhaustive enumeration: handle arguments range over the first
// nh pool slots.
func alphabet(nh int, withSelf bool) []op {
	a := []op{{K: kPF}, {K: kPB}, {K: kBPB}}
	for h := 0; h < nh; h++ {
		a = append(a, op{K: kIB, A: h}, op{K: kIA, A: h}, op{K: kMF, A: h}, op{K: kMK, A: h}, op{K: kRM, A: h}, op{K: kBRM, A: h})
		for p := 0; p < nh; p++ {
			a = append(a, op{K: kMB, A: h, B: p}, op{K: kMA, A: h, B: p})
		}
	}
	a = append(a, op{K: kPBL, A: 0}, op{K: kPFL, A: 0})
	if withSelf {
		a = append(a, op{K: kPBL, A: 1}, op{K: kPFL, A: 1})
	}
	a = append(a, op{K: kIN})
	return a
}

// ------------------------------------------------------------------ mirror world

type ent struct {
	h       ds.ListElement[int]
	s       *list.Element
	owner   int // 0 = A, 1 = B
	removed bool
	stale   bool // was a member when its list was Init()-ed: container/list keeps e.list == l, so it still counts as a member
}

type world struct {
	ts      [2]bool // thread-safe flavour of A / B
	h       [2]ds.List[int]
	s       [2]*list.List
	pool    []ent
	byH     map[ds.ListElement[int]]int
	byS     map[*list.Element]int
	nextVal int
	sig     uint64 // hash of (flavour, operation-class sequence)
}

func newWorld(tsA, tsB bool) *world {
	w := &world{ts: [2]bool{tsA, tsB}, byH: map[ds.ListElement[int]]int{}, byS: map[*list.Element]int{}}
	for i := 0; i < 2; i++ {
		if w.ts[i] {
			w.h[i] = ds.NewList[int]()
		} else {
			w.h[i] = ds.NewList[int](true)
		}
		w.s[i] = list.New()
	}
	return w
}

func (w *world) add(h ds.ListElement[int], s *list.Element, owner int) {
	w.byH[h] = len(w.pool)
	w.byS[s] = len(w.pool)
	w.pool = append(w.pool, ent{h: h, s: s, owner: owner})
}

// class of a pooled handle from the point of view of list `of`.
func (w *world) class(i, of int) string {
	e := w.pool[i]
	switch {
	case e.removed:
		return "removed"
	case e.owner != of:
		return "foreign"
	case e.stale:
		return "stale"
	}
	return "live"
}

func try(f func()) (p any) {
	defer func() { p = recover() }()
	f()
	return nil
}

const (
	stOK = iota
	stInvalid
	stDiverged
)

type outcome struct {
	st    int
	class string // e.g. MoveBefore(live,foreign)
	div   string // kind of divergence
	what  string
}

func (w *world) usable(i int) bool { return i >= 0 && i < len(w.pool) }

// walkLimit bounds every traversal: after an Init, handles that predate it can splice the chain into shapes in
// which Len and the reachable elements disagree, so no traversal may rely on terminating by itself. Both sides
// exceeding the limit counts as equal, one side only as a mismatch.
const walkLimit = 300

// sv is the value of a container/list element; the sentinel (reachable as Front() of a list whose Len and chain
// disagree) has a nil Value where ds.List reports the zero value.
func sv(e *list.Element) int {
	if v, ok := e.Value.(int); ok {
		return v
	}
	return 0
}

// stdWalk returns the values reachable from Front (or Back) of a container/list and whether the walk ended.
func stdWalk(l *list.List, back bool) (vals []int, ended bool) {
	e := l.Front()
	if back {
		e = l.Back()
	}
	for n := 0; e != nil; n++ {
		if n >= walkLimit {
			return vals, false
		}
		vals = append(vals, sv(e))
		if back {
			e = e.Prev()
		} else {
			e = e.Next()
		}
	}
	return vals, true
}

// consistent: the chain is a proper doubly linked list of Len real elements – the backward walk visits exactly the
// elements of the forward walk in reverse and the sentinel is never exposed (always true unless handles that
// predate an Init were used). On other lists container/list copies Len elements following one direction (and the
// sentinel's nil Value), the thread-safe flavour copies the forward chain, the lock-free one panics on the sentinel.
func consistent(l *list.List) bool {
	var f, b []*list.Element
	for e := l.Front(); e != nil; e = e.Next() {
		if f = append(f, e); len(f) > walkLimit || e.Value == nil {
			return false
		}
	}
	for e := l.Back(); e != nil; e = e.Prev() {
		if b = append(b, e); len(b) > walkLimit {
			return false
		}
	}
	if l.Len() != len(f) || len(f) != len(b) {
		return false
	}
	for i := range f {
		if f[i] != b[len(b)-1-i] {
			return false
		}
	}
	return true
}

func flavourName(ts bool) string {
	if ts {
		return "thread-safe"
	}
	return "lock-free"
}

// apply executes one operation on both lists and compares everything.
func (w *world) apply(o op, check bool) (out outcome) {
	name := opNames[o.K]
	out.class = name
	diverge := func(kind, f string, a ...any) outcome {
		out.st, out.div, out.what = stDiverged, kind, fmt.Sprintf(f, a...)
		return out
	}
	var ph, ps any
	switch o.K {
	case kPF, kPB, kBPB, kBPF:
		li := 0
		if o.K == kBPB || o.K == kBPF {
			li = 1
		}
		w.nextVal++
		v := w.nextVal
		var he ds.ListElement[int]
		var se *list.Element
		if o.K == kPF || o.K == kBPF {
			ph = try(func() { he = w.h[li].PushFront(v) })
			se = w.s[li].PushFront(v)
		} else {
			ph = try(func() { he = w.h[li].PushBack(v) })
			se = w.s[li].PushBack(v)
		}
		if ph != nil {
			return diverge("panic", "%s panicked: %v", name, ph)
		}
		if he == nil {
			return diverge("nil-handle", "%s returned a nil element", name)
		}
		w.add(he, se, li)
	case kIB, kIA:
		if !w.usable(o.A) {
			out.st = stInvalid
			return
		}
		e := w.pool[o.A]
		out.class = fmt.Sprintf("%s(%s)", name, w.class(o.A, 0))
		w.nextVal++
		v := w.nextVal
		var he ds.ListElement[int]
		var se *list.Element
		if o.K == kIB {
			ph = try(func() { he = w.h[0].InsertBefore(v, e.h) })
			ps = try(func() { se = w.s[0].InsertBefore(v, e.s) })
		} else {
			ph = try(func() { he = w.h[0].InsertAfter(v, e.h) })
			ps = try(func() { se = w.s[0].InsertAfter(v, e.s) })
		}
		if ps != nil {
			out.st = stInvalid
			return
		}
		if ph != nil {
			return diverge("panic", "%s panicked: %v", out.class, ph)
		}
		if (he == nil) != (se == nil) {
			return diverge("returned-handle", "%s returned nil=%v, container/list nil=%v", out.class, he == nil, se == nil)
		}
		if he != nil {
			w.add(he, se, 0)
		}
	case kMF, kMK:
		if !w.usable(o.A) {
			out.st = stInvalid
			return
		}
		e := w.pool[o.A]
		out.class = fmt.Sprintf("%s(%s)", name, w.class(o.A, 0))
		if o.K == kMF {
			ph = try(func() { w.h[0].MoveToFront(e.h) })
			ps = try(func() { w.s[0].MoveToFront(e.s) })
		} else {
			ph = try(func() { w.h[0].MoveToBack(e.h) })
			ps = try(func() { w.s[0].MoveToBack(e.s) })
		}
	case kMB, kMA:
		if !w.usable(o.A) || !w.usable(o.B) {
			out.st = stInvalid
			return
		}
		e, p := w.pool[o.A], w.pool[o.B]
		out.class = fmt.Sprintf("%s(%s,%s)", name, w.class(o.A, 0), w.class(o.B, 0))
		if o.A == o.B {
			out.class = fmt.Sprintf("%s(%s,same)", name, w.class(o.A, 0))
		}
		if o.K == kMB {
			ph = try(func() { w.h[0].MoveBefore(e.h, p.h) })
			ps = try(func() { w.s[0].MoveBefore(e.s, p.s) })
		} else {
			ph = try(func() { w.h[0].MoveAfter(e.h, p.h) })
			ps = try(func() { w.s[0].MoveAfter(e.s, p.s) })
		}
	case kRM, kBRM:
		if !w.usable(o.A) {
			out.st = stInvalid
			return
		}
		li := 0
		if o.K == kBRM {
			li = 1
		}
		e := w.pool[o.A]
		out.class = fmt.Sprintf("%s(%s)", name, w.class(o.A, li))
		var hv int
		var rv any
		ph = try(func() { hv = w.h[li].Remove(e.h) })
		ps = try(func() { rv = w.s[li].Remove(e.s) })
		if ri, _ := rv.(int); ps == nil && ph == nil && hv != ri {
			return diverge("returned-value", "%s returned %d, container/list %d", out.class, hv, ri)
		}
		if e.owner == li && !e.removed {
			w.pool[o.A].removed = true
		}
	case kPBL, kPFL:
		oi := 1
		oc := "other"
		if o.A == 1 {
			oi, oc = 0, "self"
		}
		out.class = fmt.Sprintf("%s(%s)", name, oc)
		if w.s[0].Len()+w.s[oi].Len() > 96 {
			out.st = stInvalid // bound on the list length
			return
		}
		if !consistent(w.s[oi]) {
			// deliberately not demanded: copying a list whose Len and chain disagree (only reachable through handles that
			// predate an Init). container/list copies Len elements (or panics on a short chain), the thread-safe flavour
			// copies the reachable chain.
			out.st = stInvalid
			return
		}
		if o.K == kPBL {
			ph = try(func() { w.h[0].PushBackList(w.h[oi]) })
			ps = try(func() { w.s[0].PushBackList(w.s[oi]) })
		} else {
			ph = try(func() { w.h[0].PushFrontList(w.h[oi]) })
			ps = try(func() { w.s[0].PushFrontList(w.s[oi]) })
		}
	case kIN:
		var ret ds.List[int]
		ph = try(func() { ret = w.h[0].Init() })
		w.s[0].Init()
		for i := range w.pool {
			if w.pool[i].owner == 0 && !w.pool[i].removed {
				w.pool[i].stale = true
			}
		}
		if ph == nil && (ret == nil || ret.Len() != 0) {
			return diverge("returned-list", "Init returned a list that is nil or not empty")
		}
	case kHV:
		for li := 0; li < 2; li++ {
			he, se := w.h[li].Front(), w.s[li].Front()
			for n := 0; he != nil && se != nil && n < 256; n++ {
				_, okH := w.byH[he]
				_, okS := w.byS[se]
				if !okH && !okS && se.Value != nil { // never pool the sentinel
					w.add(he, se, li)
				}
				he, se = he.Next(), se.Next()
			}
		}
	default:
		out.st = stInvalid
		return
	}
	if ps != nil {
		// container/list itself rejects the call: outside the statement
		out.st = stInvalid
		return
	}
	if ph != nil {
		return diverge("panic", "%s panicked: %v (container/list did not)", out.class, ph)
	}
	if !check {
		return // this prefix step was compared completely when the shorter sequence was evaluated
	}
	if kind, what := w.compare(); kind != "" {
		return diverge(kind, "after %s: %s", out.class, what)
	}
	return
}

// sameElem compares a hive handle with a std handle: nil-ness, value, and – when
// either of them is pooled – that they are the two halves of one pair.
func (w *world) sameElem(he ds.ListElement[int], se *list.Element) (bool, string) {
	if (he == nil) != (se == nil) {
		return false, fmt.Sprintf("nil=%v vs container/list nil=%v", he == nil, se == nil)
	}
	if he == nil {
		return true, ""
	}
	var hv int
	if p := try(func() { hv = he.Value() }); p != nil {
		return false, fmt.Sprintf("Value() panicked: %v", p)
	}
	if hv != sv(se) {
		return false, fmt.Sprintf("value %d vs container/list %d", hv, sv(se))
	}
	ih, okH := w.byH[he]
	is, okS := w.byS[se]
	if okH != okS || (okH && ih != is) {
		return false, fmt.Sprintf("value %d: element identity differs (hive handle #%d/%v, container/list handle #%d/%v)", hv, ih, okH, is, okS)
	}
	return true, ""
}

func eqInts(a, b []int) bool {
	if len(a) != len(b) {
		return false
	}
	for i := range a {
		if a[i] != b[i] {
			return false
		}
	}
	return true
}

// compare returns the first disagreement between the hive lists and the std lists.
func (w *world) compare() (kind, what string) {
	for li := 0; li < 2; li++ {
		ln := "list"
		if li == 1 {
			ln = "foreign list"
		}
		h, s := w.h[li], w.s[li]
		if h.Len() != s.Len() {
			return "len", fmt.Sprintf("%s Len()=%d, container/list %d", ln, h.Len(), s.Len())
		}
		fwd, fwdEnded := stdWalk(s, false)
		rev, revEnded := stdWalk(s, true)
		// forward / backward traversal through handles, bounded
		he, se := h.Front(), s.Front()
		for n := 0; (he != nil || se != nil) && n < walkLimit; n++ {
			if ok, d := w.sameElem(he, se); !ok {
				return "forward-order", fmt.Sprintf("%s forward position %d: %s (container/list order %v, Len %d)", ln, n, d, fwd, s.Len())
			}
			he, se = he.Next(), se.Next()
		}
		he, se = h.Back(), s.Back()
		for n := 0; (he != nil || se != nil) && n < walkLimit; n++ {
			if ok, d := w.sameElem(he, se); !ok {
				return "backward-order", fmt.Sprintf("%s backward position %d: %s (container/list reverse order %v, Len %d)", ln, n, d, rev, s.Len())
			}
			he, se = he.Prev(), se.Prev()
		}
		// Front/Back
		if ok, d := w.sameElem(h.Front(), s.Front()); !ok {
			return "front", ln + " Front(): " + d
		}
		if ok, d := w.sameElem(h.Back(), s.Back()); !ok {
			return "back", ln + " Back(): " + d
		}
		// bulk accessors: not part of container/list, defined through the forward/backward walk. Demanded only while
		// the list is a proper chain of Len elements (always, unless handles that predate an Init were used): on a list
		// whose Len and chain disagree (Len may even be negative) they have no reference behaviour and cannot be
		// bounded from outside. Len, Front/Back and the handle walks above are demanded in every state.
		_, _ = fwdEnded, revEnded
		if consistent(s) {
			var v, a, c2, b, d2 []int
			if p := try(func() {
				v = h.Values()
				_ = h.ForEach(func(x int) error { a = append(a, x); return nil })
				h.Range(func(x int) { c2 = append(c2, x) })
				_ = h.ForEachReverse(func(x int) error { b = append(b, x); return nil })
				h.RangeReverse(func(x int) { d2 = append(d2, x) })
			}); p != nil {
				return "bulk-panic", fmt.Sprintf("%s Values/ForEach/Range panicked: %v", ln, p)
			}
			if !eqInts(v, fwd) {
				return "values", fmt.Sprintf("%s Values()=%v, container/list %v", ln, v, fwd)
			}
			if !eqInts(a, fwd) || !eqInts(c2, fwd) {
				return "foreach", fmt.Sprintf("%s ForEach=%v Range=%v, container/list %v", ln, a, c2, fwd)
			}
			if !eqInts(b, rev) || !eqInts(d2, rev) {
				return "foreach-reverse", fmt.Sprintf("%s ForEachReverse=%v RangeReverse=%v, container/list %v", ln, b, d2, rev)
			}
		}
	}
	for i := range w.pool {
		e := &w.pool[i]
		cl := w.class(i, 0)
		if ok, d := w.sameElem(e.h.Prev(), e.s.Prev()); !ok {
			return "handle-prev", fmt.Sprintf("handle #%d (%s, value %d) Prev(): %s", i, cl, sv(e.s), d)
		}
		if ok, d := w.sameElem(e.h.Next(), e.s.Next()); !ok {
			return "handle-next", fmt.Sprintf("handle #%d (%s, value %d) Next(): %s", i, cl, sv(e.s), d)
		}
		if e.h.Value() != sv(e.s) {
			return "handle-value", fmt.Sprintf("handle #%d (%s) Value()=%d, container/list %d", i, cl, e.h.Value(), sv(e.s))
		}
	}
	return "", ""
}

func safeValues(l ds.List[int]) (v []int) {
	n := 0
	_ = l.ForEach(func(x int) error {
		v = append(v, x)
		if n++; n > 200 {
			return fmt.Errorf("stop")
		}
		return nil
	})
	return v
}

func (w *world) order() []int {
	fwd, _ := stdWalk(w.s[0], false)
	return fwd
}

// ------------------------------------------------------------------ running sequences

type caseRec struct {
	FlavourA string   `json:"flavour"`
	FlavourB string   `json:"foreign_flavour"`
	Ops      []string `json:"ops"`
	Child    bool     `json:"child,omitempty"` // must run in a plain-build child (may dead-lock)
	Step     int      `json:"diverged_at_step"`
	Class    string   `json:"class,omitempty"`
	What     string   `json:"what,omitempty"`
}

func mkRec(tsA, tsB bool, ops []op, step int, o outcome) caseRec {
	ss := make([]string, len(ops))
	for i, x := range ops {
		ss[i] = x.String()
	}
	return caseRec{FlavourA: flavourName(tsA), FlavourB: flavourName(tsB), Ops: ss, Step: step, Class: o.class, What: o.what}
}

// runSeq executes ops; returns the index of the first step that is invalid or
// diverged (len(ops) if none) and the outcome of that step (or of the last step).
func runSeq(tsA, tsB bool, ops []op, checkFrom int) (int, outcome, *world) {
	w := newWorld(tsA, tsB)
	var out outcome
	for i, o := range ops {
		out = w.apply(o, i >= checkFrom)
		if out.st != stOK {
			return i, out, w
		}
		w.mix(out.class)
	}
	return len(ops), out, w
}

// mix folds the operation class of a step into the behaviour hash of the sequence.
func (w *world) mix(class string) {
	h := w.sig
	if h == 0 {
		h = 14695981039346656037
		if w.ts[0] {
			h ^= 0x9e3779b97f4a7c15
		}
	}
	for i := 0; i < len(class); i++ {
		h = (h ^ uint64(class[i])) * 1099511628211
	}
	w.sig = (h ^ 0xff) * 1099511628211
}

// stats collected by one worker, merged into the Ctx at the end.
type local struct {
	evals     int
	abandoned int
	invalid   int
	classes   map[string]int
	distinct  map[uint64]struct{}
	viols     []viol
	samples   []any
}

type viol struct {
	fp, what string
	rec      caseRec
}

func newLocal() *local { return &local{classes: map[string]int{}, distinct: map[uint64]struct{}{}} }

var mergeMu sync.Mutex
var exSamples, rndSamples atomic.Int64

func (l *local) merge(c *vf.Ctx) {
	mergeMu.Lock()
	defer mergeMu.Unlock()
	c.Count("evaluations", l.evals)
	c.Count("sequences_abandoned_after_reported_divergence", l.abandoned)
	c.Count("sequences_pruned_invalid_handle", l.invalid)
	for k, v := range l.classes {
		c.Count("op:"+k, v)
		c.Distinct("op_argclass", k)
	}
	for k := range l.distinct {
		c.DistinctHash("nontrivial", k)
	}
	for _, v := range l.viols {
		c.Violation(v.fp, v.what, v.rec)
	}
	for _, s := range l.samples {
		c.Sample(s)
	}
}

func (l *local) report(tsA, tsB bool, ops []op, step int, o outcome) {
	if len(l.viols) >= 300 {
		return
	}
	fp := o.class + "/" + o.div
	what := fmt.Sprintf("%s list, ops [%s], step %d: %s", flavourName(tsA), opsString(ops[:step+1]), step, o.what)
	l.viols = append(l.viols, viol{fp, what, mkRec(tsA, tsB, ops[:step+1], step, o)})
}

func nontrivial(ops []op) bool {
	for _, o := range ops {
		switch o.K {
		case kPF, kPB, kBPB, kBPF, kHV:
		default:
			return true
		}
	}
	return false
}

// one evaluates one full sequence whose last step is the step under test.
// Returns the status of the sequence (ok → may be extended).
func (l *local) one(tsA, tsB bool, ops []op) int {
	step, out, w := runSeq(tsA, tsB, ops, len(ops)-1) // the DFS extends only prefixes that were evaluated and agreed
	if step < len(ops)-1 {
		// a proper prefix already diverged / was invalid: reported (or pruned) by the shorter sequence
		if out.st == stDiverged {
			l.abandoned++
		} else {
			l.invalid++
		}
		return out.st
	}
	if out.st == stInvalid {
		l.invalid++
		return stInvalid
	}
	l.evals++
	l.classes[out.class]++
	if out.st == stDiverged {
		l.report(tsA, tsB, ops, len(ops)-1, out)
		return stDiverged
	}
	if len(ops) <= 5 && nontrivial(ops) { // length-6 sequences (thorough) are counted as evaluations only: memory
		l.distinct[w.sig] = struct{}{}
	}
	if len(ops) >= 4 && ops[len(ops)-1].K == kMB && ops[len(ops)-1].A != ops[len(ops)-1].B && len(w.order()) >= 3 && exSamples.Add(1) <= 2 {
		l.samples = append(l.samples, map[string]any{"flavour": flavourName(tsA), "ops": opsString(ops), "order_after": w.order(), "agrees_with_container_list": true})
	}
	return stOK
}

// dfs enumerates every extension of prefix up to maxLen.
func (l *local) dfs(tsA, tsB bool, alpha []op, prefix []op, maxLen int) {
	for _, o := range alpha {
		seq := append(prefix[:len(prefix):len(prefix)], o)
		if st := l.one(tsA, tsB, seq); st == stOK && len(seq) < maxLen {
			l.dfs(tsA, tsB, alpha, seq, maxLen)
		}
	}
}

func exhaustive(c *vf.Ctx, ts bool, maxLen int) {
	alpha := alphabet(3, !ts) // self pushes on the thread-safe flavour only in the child
	workers := runtime.NumCPU()
	// split on the first two operations
	type task struct{ a, b op }
	var tasks []task
	top := newLocal()
	for _, a := range alpha {
		if top.one(ts, ts, []op{a}) != stOK {
			continue
		}
		for _, b := range alpha {
			tasks = append(tasks, task{a, b})
		}
	}
	top.merge(c)
	vf.Parallel(len(tasks), workers, func(i int) {
		l := newLocal()
		seq := []op{tasks[i].a, tasks[i].b}
		if st := l.one(ts, ts, seq); st == stOK && maxLen > 2 {
			l.dfs(ts, ts, alpha, seq, maxLen)
		}
		l.merge(c)
	})
}

// randomOp draws an operation; handles come from the whole pool.
func randomOp(rng *rand.Rand, w *world, allowSelf bool) op {
	n := len(w.pool)
	h := func() int {
		if n == 0 {
			return 0
		}
		// bias towards recent handles, but any handle (live, removed, foreign) can be drawn
		if rng.Intn(3) == 0 {
			return n - 1 - rng.Intn(min(n, 4))
		}
		return rng.Intn(n)
	}
	for {
		r := rng.Intn(100)
		switch {
		case r < 10:
			return op{K: kPF}
		case r < 22:
			return op{K: kPB}
		case r < 28:
			return op{K: kBPB}
		case r < 31:
			return op{K: kBPF}
		case r < 38 && n > 0:
			return op{K: kIB, A: h()}
		case r < 45 && n > 0:
			return op{K: kIA, A: h()}
		case r < 51 && n > 0:
			return op{K: kMF, A: h()}
		case r < 57 && n > 0:
			return op{K: kMK, A: h()}
		case r < 67 && n > 0:
			return op{K: kMB, A: h(), B: h()}
		case r < 77 && n > 0:
			return op{K: kMA, A: h(), B: h()}
		case r < 86 && n > 0:
			return op{K: kRM, A: h()}
		case r < 89 && n > 0:
			return op{K: kBRM, A: h()}
		case r < 91:
			return op{K: kPBL, A: 0}
		case r < 93:
			return op{K: kPFL, A: 0}
		case r < 95 && allowSelf:
			return op{K: []string{kPBL, kPFL}[rng.Intn(2)], A: 1}
		case r < 96:
			return op{K: kIN}
		case r >= 96:
			return op{K: kHV}
		}
	}
}

// randomSeq runs one random sequence of the given length, checking after each step.
func (l *local) randomSeq(rng *rand.Rand, tsA, tsB bool, length int, allowSelf bool, mark func(ops []op)) {
	w := newWorld(tsA, tsB)
	var ops []op
	for i := 0; i < length; i++ {
		o := randomOp(rng, w, allowSelf)
		ops = append(ops, o)
		if mark != nil && o.isSelfPush() {
			mark(ops)
		}
		out := w.apply(o, true)
		if out.st == stInvalid {
			ops = ops[:len(ops)-1] // e.g. length bound or copying an inconsistent list: skip
			l.invalid++
			continue
		}
		l.evals++
		l.classes[out.class]++
		if out.st == stDiverged {
			l.report(tsA, tsB, ops, len(ops)-1, out)
			return
		}
		w.mix(out.class)
	}
	l.distinct[w.sig] = struct{}{}
	if len(ops) >= 30 && rndSamples.Add(1) <= 2 {
		l.samples = append(l.samples, map[string]any{"flavour": flavourName(tsA), "foreign_flavour": flavourName(tsB), "random_ops": opsString(ops), "order_after": w.order(), "agrees_with_container_list": true})
	}
}

// ------------------------------------------------------------------ parent / child

func selfFP(kind string) string {
	return opNames[kind] + "(self)/thread-safe/self-deadlock"
}

func runSelfPushChild(c *vf.Ctx, kind string) {
	res := c.RunChild(vf.ChildOpts{Name: "selfpush", Args: []string{kind}, Timeout: 10 * time.Minute, KeepStderr: false})
	switch {
	case !res.Deadlock && !res.TimedOut && res.ExitCode == 0:
		c.Count("selfpush_children_decided", 1)
	case res.Deadlock:
		c.Count("selfpush_children_decided", 1)
		ops := parseOps(res.LastMark)
		rec := mkRec(true, true, ops, len(ops)-1, outcome{class: opNames[kind] + "(self)"})
		rec.Child = true
		rec.What = "Go runtime: all goroutines are asleep - deadlock!"
		c.Violation(selfFP(kind), fmt.Sprintf("thread-safe list, ops [%s]: l.%s(l) never returns – the Go runtime dead-lock detector aborted the child (%s); container/list (and the lock-free flavour) append a copy of the list", res.LastMark, opNames[kind], firstBlockedFrame(res.Stderr)), rec)
	case res.TimedOut:
		c.Inconclusive("selfpush child " + kind + " hit the watchdog (last case " + res.LastMark + ")")
	case res.ExitCode != 0:
		c.Inconclusive(fmt.Sprintf("selfpush child %s died: exit %d %s (last case %s)", kind, res.ExitCode, res.Fatal, res.LastMark))
	}
}

func firstBlockedFrame(stderr string) string {
	for _, l := range strings.Split(stderr, "\n") {
		if strings.HasPrefix(l, "goroutine 1 [") {
			return strings.TrimSpace(l)
		}
	}
	return "no goroutine header found"
}

func child(c *vf.Ctx) {
	if concChild(c) || discChild(c) {
		return
	}
	switch c.Child {
	case "selfpush":
		kind := c.ChildArgs[0]
		self := op{K: kind, A: 1}
		alpha := alphabet(3, false)
		depth := c.Pick(3, 4)
		l := newLocal()
		var rec func(prefix []op)
		rec = func(prefix []op) {
			seq := append(prefix[:len(prefix):len(prefix)], self)
			c.Mark(opsString(seq))
			if st := l.one(true, true, seq); st == stOK {
				c.Count("selfpush_threadsafe_cases", 1)
				for _, f := range alpha { // one follow-up operation on the doubled list
					l.one(true, true, append(seq[:len(seq):len(seq)], f))
				}
			}
			if len(prefix) >= depth {
				return
			}
			for _, o := range alpha {
				p := append(prefix[:len(prefix):len(prefix)], o)
				if st, _, _ := runSeq(true, true, p, 0); st == len(p) {
					rec(p)
				}
			}
		}
		rec(nil)
		rng := c.Rand("selfpush-random/" + kind)
		n := c.Pick(3000, 30000)
		for i := 0; i < n; i++ {
			l.randomSeq(rng, true, rng.Intn(2) == 0, 40, true, func(ops []op) { c.Mark(opsString(ops)) })
		}
		l.merge(c)
	case "replay":
		ops := parseOps(c.ChildArgs[2])
		c.Mark(opsString(ops))
		step, out, _ := runSeq(c.ChildArgs[0] == "thread-safe", c.ChildArgs[1] == "thread-safe", ops, 0)
		if out.st == stDiverged {
			c.Violation(out.class+"/"+out.div, out.what, mkRec(true, true, ops, step, out))
		}
		c.Count("evaluations", 1)
	}
}

func replay(c *vf.Ctx) {
	if cs, ok := isDiscReplay(c); ok {
		discReplay(c, cs)
		return
	}
	if cs, ok := isConcReplay(c); ok {
		concReplay(c, cs)
		return
	}
	var r caseRec
	if err := c.LoadReplay(&r); err != nil {
		c.Inconclusive("cannot load replay: " + err.Error())
		return
	}
	ops := parseOps(strings.Join(r.Ops, ","))
	tsA, tsB := r.FlavourA == "thread-safe", r.FlavourB == "thread-safe"
	needChild := r.Child
	for _, o := range ops {
		if o.isSelfPush() && tsA {
			needChild = true
		}
	}
	if needChild {
		res := c.RunChild(vf.ChildOpts{Name: "replay", Args: []string{r.FlavourA, r.FlavourB, opsString(ops)}, Timeout: 2 * time.Minute})
		if res.Deadlock {
			k := ops[len(ops)-1].K
			c.Violation(selfFP(k), fmt.Sprintf("thread-safe list, ops [%s]: dead-lock reported by the Go runtime (%s)", opsString(ops), firstBlockedFrame(res.Stderr)), r)
		} else if res.TimedOut || res.ExitCode != 0 {
			c.Inconclusive("replay child: " + res.Fatal)
		}
		return
	}
	step, out, _ := runSeq(tsA, tsB, ops, 0)
	c.Count("evaluations", 1)
	if out.st == stDiverged {
		c.Violation(out.class+"/"+out.div, fmt.Sprintf("%s list, ops [%s], step %d: %s", r.FlavourA, opsString(ops[:step+1]), step, out.what), mkRec(tsA, tsB, ops[:step+1], step, out))
	}
}

func run(c *vf.Ctx) {
	if c.Replay != "" {
		replay(c)
		return
	}
	c.SetRule("a case is one operation sequence applied in lock-step to a ds.List and a container/list.List (plus a foreign list pair) with a full comparison after every step; " +
		"exhaustive part: every sequence up to length 5 (quick) / 6 (thorough) over an alphabet of 44 operations whose handle arguments range over the first 3 pooled handles (live, removed and foreign ones arise from the sequence itself), both flavours; " +
		"random part: seeded sequences of length 40 over the whole handle pool incl. handles created by whole-list pushes; evaluations counts sequences whose last step was checked (exhaustive) resp. checked steps (random); " +
		"concurrent part (thread-safe flavour): seeded programs of 3-6 goroutines x 4-10 calls over all 20 exported methods with unique values, recorded at the client boundary and decided by porcupine against a slice model with container/list semantics, plus window scenarios (iteration callback parked while other goroutines call), a 20 000-value whole-list push against a poller and a marker insert, the same workload without the recording clock in a -race child, and a quiescent structural check after every history; " +
		"disciplines part (disc.go): histories in which the caller keeps and scribbles over every slice Values() returned and continues through the list Init() returned; iterations (all four iterators) of the lock-free list whose callbacks mutate the list around the cursor (47 relative actions at every position of lists of length 1-5, plus random scripts with nested iterations), compared with the canonical container/list loop run on a second mirror world; iterations of the thread-safe list whose callbacks read the list, use the other list and iterate again, callbacks that return an error or panic followed by further use, and caller-implemented source lists for the whole-list pushes, in single-goroutine timer-free children where a call that never returns is reported by the Go runtime; " +
		"distinct_nontrivial counts distinct (flavour, sequence of operation x argument-class) signatures, e.g. PushBack>PushBack>MoveBefore(live,live)>Remove(live), of sequences (exhaustive ones up to length 5, and the random ones) that agreed with the reference and contain at least one handle-taking, whole-list or Init operation (handle numbering is abstracted away); distinct_op_argclass counts operation x argument-class (live/removed/foreign/stale = predates an Init/same/self/other) combinations")
	maxLen := c.Pick(5, 6)
	t0 := time.Now()
	for _, ts := range []bool{false, true} {
		exhaustive(c, ts, maxLen)
	}
	c.Extra("phase_s_exhaustive", int(time.Since(t0).Seconds()))
	c.Count("exhaustive_max_length", maxLen)
	// random long sequences, both flavours, mixed foreign flavour
	nRand := c.Pick(20000, 200000)
	workers := runtime.NumCPU()
	chunks := 64
	vf.Parallel(chunks, workers, func(i int) {
		l := newLocal()
		rng := c.Rand(fmt.Sprintf("random/%d", i))
		for k := 0; k < nRand/chunks; k++ {
			tsA := (k+i)%2 == 1
			l.randomSeq(rng, tsA, rng.Intn(2) == 0, 40, !tsA, nil)
			c.Count("random_sequences", 1)
		}
		l.merge(c)
	})
	c.Extra("phase_s_exhaustive_plus_random", int(time.Since(t0).Seconds()))
	// self pushes on the thread-safe flavour: own child each, verdict = runtime dead-lock detector
	// concurrent histories on the thread-safe flavour (conc.go): own children, started next to the two single-threaded
	// self-push children
	concDone := make(chan struct{})
	go func() { defer close(concDone); runConc(c) }()
	// the three workload disciplines (disc.go): held results + scribbling, re-entrant callbacks, failing callbacks
	discDone := make(chan struct{})
	go func() { defer close(discDone); runDisc(c) }()
	runSelfPushChild(c, kPBL)
	runSelfPushChild(c, kPFL)
	<-concDone
	<-discDone
	c.Extra("phase_s_all", int(time.Since(t0).Seconds()))

	c.SetExhaustive(false)
	c.Extra("exhaustive_note", fmt.Sprintf("all sequences up to length %d over the 44-operation alphabet were executed for both flavours (self pushes of the thread-safe flavour in the child, as last-but-one step after every prefix up to length %d); longer histories are sampled", maxLen, c.Pick(3, 4)))
	c.Require("evaluations", c.Pick(1000000, 20000000))
	c.Require("op:MoveBefore(live,live)", 1000)
	c.Require("op:MoveAfter(live,live)", 1000)
	c.Require("op:MoveBefore(live,foreign)", 100)
	c.Require("op:MoveBefore(live,removed)", 100)
	c.Require("op:InsertBefore(removed)", 100)
	c.Require("op:InsertAfter(foreign)", 100)
	c.Require("op:Remove(removed)", 100)
	c.Require("op:Remove(foreign)", 100)
	c.Require("op:PushBackList(self)", 100)
	c.Require("op:PushFrontList(self)", 100)
	c.Require("op:PushBackList(other)", 100)
	c.Require("op:Init", 100)
	c.Require("op:InsertAfter(stale)", 100)
	c.Require("op:Remove(stale)", 100)
	c.Require("op:MoveBefore(stale,live)", 100)
	c.Require("op:MoveToFront(stale)", 100)
	c.Require("selfpush_children_decided", 2)
	c.Assume("container/list of the Go toolchain is the reference")
	c.Assume("handles that predate an Init() stay in the pool as class stale and full lock-step equality is demanded for them; only whole-list pushes FROM, and Values/ForEach/Range(+Reverse) ON, a list whose Len and reachable chain disagree (reachable only through stale handles) are not demanded")
}

func main() { vf.Main("C10", "exploration", run, child) }
