// C10 – the three workload disciplines (harness/DISCIPLINES.md) applied to every exported entry point of ds.List.
//
//  1. Held results and scribbling: every slice returned by Values() is kept by the "caller" together with a copy;
//     after each of the following steps the held slice must still equal its copy, and a share of them is scribbled
//     (overwritten, sorted, reversed, appended to within and beyond capacity, truncated and refilled); afterwards the
//     ordinary lock-step oracle judges the list (a second Values(), whole-list pushes that read the scribbled list as
//     their source). The list returned by Init() is held too and the history continues through it. Element handles
//     are held by the mirror world of main.go anyway (Prev/Next/Value of every pooled handle after every step).
//  2. Re-entrant user code: the callbacks of ForEach/ForEachReverse/Range/RangeReverse call back into the list they
//     are invoked from. Lock-free flavour: they mutate the list around the cursor; the reference is the canonical
//     container/list loop `for e := l.Front(); e != nil; e = e.Next()` (successor evaluated AFTER the callback) run on
//     a second, identical mirror world with the same concrete operations. Thread-safe flavour: mutating callbacks
//     self-dead-lock on the unchanged tree (not demanded, never generated); read-only calls on the iterated list, any
//     call on the other list (incl. whole-list pushes that read the iterated list) and nested iterations return on the
//     unchanged tree and must keep returning – decided by the Go runtime's dead-lock detector in a single-goroutine,
//     timer-free plain-build child. A user-implemented List passed to PushBackList/PushFrontList is user code too.
//  3. Failing user code: callbacks return an error / panic (recovered by the caller) at a chosen visit, the wrapped
//     source list panics on its first call; afterwards the list is used again: the next (writing) call must return
//     and the state must equal the model.
package main

import (
	"container/list"
	"encoding/json"
	"errors"
	"fmt"
	"math/rand"
	"os"
	"sort"
	"strconv"
	"strings"
	"sync"
	"time"

	"github.com/iotaledger/hive.go/ds"
	"verif/harness/internal/vf"
)

// ------------------------------------------------------------------ case record

type discCase struct {
	DiscKind string      `json:"disc_kind"` // held | reent | wrap | deadlock
	Family   string      `json:"family,omitempty"`
	Index    int         `json:"index"`
	FlavourA string      `json:"flavour"`
	FlavourB string      `json:"foreign_flavour"`
	Steps    []string    `json:"steps,omitempty"`  // held family: operations and caller actions in order
	Prefix   []string    `json:"prefix,omitempty"` // operations that build the lists
	Script   *iterScript `json:"script,omitempty"`
	Follow   []string    `json:"follow_up,omitempty"` // operations after the iteration / the whole-list push
	Wrap     *wrapSpec   `json:"wrap,omitempty"`
	Mark     string      `json:"last_mark,omitempty"`
	What     string      `json:"what,omitempty"`
}

const (
	itFE  = "ForEach"
	itFER = "ForEachReverse"
	itRG  = "Range"
	itRGR = "RangeReverse"
)

var iterKinds = []string{itFE, itFER, itRG, itRGR}

func iterBack(k string) bool   { return k == itFER || k == itRGR }
func iterHasErr(k string) bool { return k == itFE || k == itFER }

// visitAct is what the callback does at one of its invocations.
type visitAct struct {
	Class  string      `json:"class,omitempty"` // relative description (remove-next, …)
	Ops    []string    `json:"ops,omitempty"`   // concrete operations (pool indices), executed in order
	Nested *iterScript `json:"nested,omitempty"`
	Fail   string      `json:"fail,omitempty"` // "error" (ForEach/ForEachReverse) | "panic"
}

type iterScript struct {
	Kind string            `json:"iterator"`
	Acts map[int]*visitAct `json:"at_visit,omitempty"`
}

// ------------------------------------------------------------------ extra operations (other list reads the iterated list)

const (
	kXBL = "XBL" // B.PushBackList(A)
	kXFL = "XFL" // B.PushFrontList(A)
)

func (w *world) applyX(o op) (out outcome) {
	if o.K != kXBL && o.K != kXFL {
		return w.apply(o, true)
	}
	name := "foreign.PushBackList(this)"
	if o.K == kXFL {
		name = "foreign.PushFrontList(this)"
	}
	out.class = name
	if w.s[0].Len()+w.s[1].Len() > 96 || !consistent(w.s[0]) {
		out.st = stInvalid
		return
	}
	var ph any
	if o.K == kXBL {
		ph = try(func() { w.h[1].PushBackList(w.h[0]) })
		w.s[1].PushBackList(w.s[0])
	} else {
		ph = try(func() { w.h[1].PushFrontList(w.h[0]) })
		w.s[1].PushFrontList(w.s[0])
	}
	if ph != nil {
		out.st, out.div, out.what = stDiverged, "panic", fmt.Sprintf("%s panicked: %v (container/list did not)", name, ph)
		return
	}
	if kind, what := w.compare(); kind != "" {
		out.st, out.div, out.what = stDiverged, kind, fmt.Sprintf("after %s: %s", name, what)
	}
	return
}

// build applies the prefix to a fresh world; ok=false when a step is invalid or diverges (ordinary sequential
// divergences are reported by the other parts).
func buildWorld(tsA, tsB bool, prefix []string) (*world, bool) {
	w := newWorld(tsA, tsB)
	for _, s := range prefix {
		if out := w.applyX(parseOp(s)); out.st != stOK {
			return w, false
		}
	}
	return w, true
}

// ------------------------------------------------------------------ 1. held results + scribbling

type heldSlice struct {
	v, cp []int
	li    int
	born  int
}

const heldAge = 6 // a held result is re-checked after each of the following heldAge steps

var scribbleModes = []string{"overwrite", "sort-descending", "reverse", "append-within-capacity", "append-beyond-capacity", "truncate-and-refill", "fill-spare-capacity"}

func scribble(v []int, mode string, salt int) {
	junk := func(i int) int { return -1000 - 7*salt - i }
	switch mode {
	case "overwrite":
		for i := range v {
			v[i] = junk(i)
		}
	case "sort-descending":
		sort.Sort(sort.Reverse(sort.IntSlice(v)))
	case "reverse":
		for i, j := 0, len(v)-1; i < j; i, j = i+1, j-1 {
			v[i], v[j] = v[j], v[i]
		}
	case "append-within-capacity":
		if cap(v) > len(v) {
			_ = append(v, junk(0))
		} else if len(v) > 0 {
			_ = append(v[:len(v)-1], junk(0))
		}
	case "append-beyond-capacity":
		x := append(v[:len(v):len(v)], junk(0), junk(1), junk(2))
		if len(v) > 0 {
			v[0] = junk(3)
		}
		_ = x
	case "truncate-and-refill":
		x := v[:0]
		for i := 0; i < len(v); i++ {
			x = append(x, junk(i))
		}
	case "fill-spare-capacity":
		full := v[:cap(v)]
		for i := range full {
			full[i] = junk(i)
		}
	}
}

func cloneInts(v []int) []int { return append([]int(nil), v...) }

type heldStats struct {
	taken, rechecks, scribbled, pushFromScribbled, initHeld, steps, valuesAfterScribble int
	modes                                                                               map[string]int
}

// heldRun executes one history of the held-result family. next supplies the steps (generation or replay).
func heldRun(tsA, tsB bool, n int, next func(w *world, held []heldSlice, i int) string, hs *heldStats) (steps []string, f *finding) {
	w := newWorld(tsA, tsB)
	alts := []ds.List[int]{w.h[0]}
	var held []heldSlice
	lastScribbledList := -1
	for i := 0; i < n; i++ {
		s := next(w, held, i)
		if s == "" {
			break
		}
		steps = append(steps, s)
		p := strings.Split(s, ":")
		arg := func(k int) int {
			if len(p) > k {
				x, _ := strconv.Atoi(p[k])
				return x
			}
			return 0
		}
		switch p[0] {
		case "VT": // the caller takes Values() of list li and keeps it
			li := arg(1) & 1
			if !consistent(w.s[li]) {
				steps = steps[:len(steps)-1]
				continue
			}
			var v []int
			if ph := try(func() { v = w.h[li].Values() }); ph != nil {
				return steps, &finding{"held/Values/panic", fmt.Sprintf("Values() panicked: %v", ph)}
			}
			ref, _ := stdWalk(w.s[li], false)
			if !eqInts(v, ref) {
				what := fmt.Sprintf("Values() of list %d returned %v, container/list holds %v", li, v, ref)
				if lastScribbledList == li {
					return steps, &finding{"held/after-scribble/values", what + " (the caller had written into the slice a previous Values() call returned)"}
				}
				return steps, &finding{"held/values", what}
			}
			held = append(held, heldSlice{v: v, cp: cloneInts(v), li: li, born: i})
			hs.taken++
			if lastScribbledList == li {
				hs.valuesAfterScribble++
			}
		case "VS": // the caller writes into a slice it was given
			k := arg(1)
			if k < 0 || k >= len(held) {
				steps = steps[:len(steps)-1]
				continue
			}
			mode := scribbleModes[arg(2)%len(scribbleModes)]
			h := &held[k]
			scribble(h.v, mode, i)
			h.cp = cloneInts(h.v)
			hs.scribbled++
			hs.modes[mode]++
			lastScribbledList = h.li
			if kind, what := w.compare(); kind != "" {
				return steps, &finding{"held/after-scribble/" + kind, fmt.Sprintf("after the caller scribbled (%s) over the slice returned by Values() of list %d %d step(s) earlier: %s", mode, h.li, i-h.born, what)}
			}
		case "IH": // Init(); the returned list is held and the history continues through it
			var ret ds.List[int]
			ph := try(func() { ret = w.h[0].Init() })
			w.s[0].Init()
			for j := range w.pool {
				if w.pool[j].owner == 0 && !w.pool[j].removed {
					w.pool[j].stale = true
				}
			}
			if ph != nil {
				return steps, &finding{"held/Init/panic", fmt.Sprintf("Init panicked: %v", ph)}
			}
			if ret == nil {
				return steps, &finding{"held/Init/returned-list", "Init returned nil"}
			}
			alts = append(alts, ret)
			w.h[0] = ret
			hs.initHeld++
			lastScribbledList = -1
			if kind, what := w.compare(); kind != "" {
				return steps, &finding{"held/Init/returned-list/" + kind, "history continued through the list returned by Init(): " + what}
			}
		case "SW": // continue through another of the held list values (the original or one returned by an Init)
			w.h[0] = alts[arg(1)%len(alts)]
			if kind, what := w.compare(); kind != "" {
				return steps, &finding{"held/Init/returned-list/" + kind, "history continued through a list value held since an earlier Init(): " + what}
			}
		default:
			o := parseOp(s)
			out := w.apply(o, true)
			if out.st == stInvalid {
				steps = steps[:len(steps)-1]
				continue
			}
			if out.st == stDiverged {
				fp := "held/" + out.class + "/" + out.div
				if lastScribbledList >= 0 {
					fp = "held/after-scribble/" + out.class + "/" + out.div
				}
				return steps, &finding{fp, out.what}
			}
			if (o.K == kPBL || o.K == kPFL) && ((o.A == 0 && lastScribbledList == 1) || (o.A == 1 && lastScribbledList == 0)) {
				hs.pushFromScribbled++
			}
			// a mutation ends the window in which a cached snapshot could still be served
			switch o.K {
			case kBPB, kBPF, kBRM:
				if lastScribbledList == 1 {
					lastScribbledList = -1
				}
			case kHV:
			default:
				if lastScribbledList == 0 {
					lastScribbledList = -1
				}
			}
		}
		hs.steps++
		for k := range held {
			h := &held[k]
			if i-h.born > heldAge || i == h.born {
				continue
			}
			hs.rechecks++
			if !eqInts(h.v, h.cp) {
				return steps, &finding{"held/values-result-changed-by-later-call", fmt.Sprintf("the slice returned by Values() of list %d at step %d was %v when the caller last touched it and is %v after step %d (%s): the library or another returned slice shares its memory", h.li, h.born, h.cp, h.v, i, s)}
			}
		}
	}
	return steps, nil
}

// heldGen is the generator of the held family.
func heldGen(rng *rand.Rand) func(w *world, held []heldSlice, i int) string {
	pendingSrc := -1 // list whose Values() result was just scribbled
	seen := 0
	inits := 0
	return func(w *world, held []heldSlice, i int) string {
		justTook := len(held) > seen
		seen = len(held)
		if justTook {
			if rng.Intn(10) < 6 {
				pendingSrc = held[len(held)-1].li
				return fmt.Sprintf("VS:%d:%d", len(held)-1, rng.Intn(len(scribbleModes)))
			}
		}
		if pendingSrc >= 0 {
			src := pendingSrc
			pendingSrc = -1
			switch r := rng.Intn(10); {
			case r < 3:
				return fmt.Sprintf("VT:%d", src)
			case r < 8:
				k := []string{kPBL, kPFL}[rng.Intn(2)]
				if src == 1 {
					return op{K: k, A: 0}.String() // A.PushXList(B)
				}
				return op{K: k, A: 1}.String() // A.PushXList(A)
			}
		}
		r := rng.Intn(100)
		switch {
		case r < 16 && i > 1:
			return fmt.Sprintf("VT:%d", rng.Intn(3)/2) // list A twice as often as B
		case r < 24 && len(held) > 0:
			k := len(held) - 1 - rng.Intn(min(len(held), 3))
			pendingSrc = held[k].li
			return fmt.Sprintf("VS:%d:%d", k, rng.Intn(len(scribbleModes)))
		case r < 27 && i > 3:
			inits++
			return "IH"
		case r < 31 && inits > 0:
			return fmt.Sprintf("SW:%d", rng.Intn(inits+1))
		}
		return randomOp(rng, w, true).String()
	}
}

func replaySteps(steps []string) func(w *world, held []heldSlice, i int) string {
	return func(w *world, held []heldSlice, i int) string {
		if i < len(steps) {
			return steps[i]
		}
		return ""
	}
}

// ------------------------------------------------------------------ 2./3. iteration callbacks that re-enter / fail

type tev struct{ D, K, V int } // depth, kind, value

const (
	evVisit  = iota // the callback was invoked with value V
	evEnd           // the iterator returned normally
	evErr           // ForEach/ForEachReverse returned the callback's error
	evBadErr        // … returned some other error
	evNilErr        // … returned nil although the callback had failed
)

type capStop struct{}
type abortStop struct{}
type userPanic struct{}

var errUser = errors.New("callback failed")

type genFunc func(r *iterRun, e *list.Element, it *iterScript, k, depth int) *visitAct

type iterRun struct {
	w       *world
	ref     bool
	gen     genFunc
	trace   []tev
	budget  int
	div     *outcome // lock-step divergence inside a callback
	acts    []actAt
	mark    func(stage, class string)
	visits  int
	reads   int
	opsDone int
	nested  int
	failed  bool
}

type actAt struct {
	pos   int // len(trace) when the act was executed
	class string
}

func (r *iterRun) iterate(it *iterScript, depth int) {
	k := 0
	failedHere := false
	cb := func(v int, e *list.Element) error {
		if r.budget <= 0 {
			panic(capStop{})
		}
		r.budget--
		r.visits++
		r.trace = append(r.trace, tev{depth, evVisit, v})
		kk := k
		k++
		var act *visitAct
		if r.gen != nil {
			if act = r.gen(r, e, it, kk, depth); act != nil {
				if it.Acts == nil {
					it.Acts = map[int]*visitAct{}
				}
				it.Acts[kk] = act
			}
		} else {
			act = it.Acts[kk]
		}
		err := r.visit(act, depth)
		if err != nil {
			failedHere = true
		}
		return err
	}
	var err error
	if r.ref {
		// the canonical container/list loop; the successor is evaluated after the callback
		if iterBack(it.Kind) {
			for e := r.w.s[0].Back(); e != nil; e = e.Prev() {
				if err = cb(sv(e), e); err != nil {
					break
				}
			}
		} else {
			for e := r.w.s[0].Front(); e != nil; e = e.Next() {
				if err = cb(sv(e), e); err != nil {
					break
				}
			}
		}
	} else {
		h := r.w.h[0]
		switch it.Kind {
		case itFE:
			err = h.ForEach(func(v int) error { return cb(v, nil) })
		case itFER:
			err = h.ForEachReverse(func(v int) error { return cb(v, nil) })
		case itRG:
			h.Range(func(v int) { _ = cb(v, nil) })
		case itRGR:
			h.RangeReverse(func(v int) { _ = cb(v, nil) })
		}
	}
	switch {
	case err == nil && failedHere && iterHasErr(it.Kind):
		r.trace = append(r.trace, tev{depth, evNilErr, 0})
	case err == nil:
		r.trace = append(r.trace, tev{depth, evEnd, 0})
	case errors.Is(err, errUser):
		r.trace = append(r.trace, tev{depth, evErr, 0})
	default:
		r.trace = append(r.trace, tev{depth, evBadErr, 0})
	}
}

func (r *iterRun) visit(act *visitAct, depth int) error {
	class := "read-only"
	if act != nil && act.Class != "" {
		class = act.Class
	}
	if r.mark != nil {
		r.mark("callback", class)
	}
	// read-only re-entrant calls at every visit: Len, Front, Back, Values, the four iterators (nested) and
	// Prev/Next/Value of every pooled handle, all compared with the reference
	r.reads++
	if kind, what := r.w.compare(); kind != "" {
		r.div = &outcome{st: stDiverged, class: "read-only-calls-in-callback", div: kind, what: what}
		panic(abortStop{})
	}
	if act == nil {
		return nil
	}
	r.acts = append(r.acts, actAt{len(r.trace), class})
	kept := act.Ops[:0:0]
	for _, s := range act.Ops {
		out := r.w.applyX(parseOp(s))
		switch out.st {
		case stDiverged:
			r.div = &out
			panic(abortStop{})
		case stOK:
			kept = append(kept, s)
			r.opsDone++
		}
	}
	if r.gen != nil {
		act.Ops = kept // operations container/list itself rejects (or that exceed the length bound) are not part of the case
	}
	if act.Nested != nil {
		r.nested++
		r.iterate(act.Nested, depth+1)
	}
	switch act.Fail {
	case "error":
		r.failed = true
		return errUser
	case "panic":
		r.failed = true
		panic(userPanic{})
	}
	return nil
}

// run executes the outermost iteration and classifies how it ended.
func (r *iterRun) run(it *iterScript) (end string) {
	p := try(func() { r.iterate(it, 0) })
	switch x := p.(type) {
	case nil:
		return "returned"
	case capStop:
		return "stopped-by-panic(visit-cap)"
	case userPanic:
		return "callback-panicked"
	case abortStop:
		return "abort"
	default:
		return fmt.Sprintf("library-panic: %v", x)
	}
}

func traceText(t []tev) string {
	var b strings.Builder
	d := 0
	for _, e := range t {
		for d < e.D {
			b.WriteString(" (")
			d++
		}
		switch e.K {
		case evVisit:
			fmt.Fprintf(&b, " %d", e.V)
		case evEnd:
			if e.D > 0 {
				b.WriteString(" )")
				d--
			} else {
				b.WriteString(" end")
			}
		case evErr, evBadErr, evNilErr:
			b.WriteString(map[int]string{evErr: " err", evBadErr: " other-error", evNilErr: " nil-error-although-callback-failed"}[e.K])
			if e.D > 0 {
				b.WriteString(" )")
				d--
			}
		}
	}
	return "[" + strings.TrimSpace(b.String()) + " ]"
}

// ---- relative actions of a callback

var lfClasses = []string{
	"none",
	"remove-current", "remove-next", "remove-previous", "remove-both-neighbours", "remove-next-two", "remove-previous-two",
	"remove-current-and-next", "remove-current-and-previous", "remove-front", "remove-back", "remove-all-others", "remove-all",
	"insert-before-current", "insert-after-current", "insert-both-sides", "insert-after-next", "insert-before-previous",
	"move-current-to-front", "move-current-to-back", "move-current-after-next", "move-current-before-previous",
	"move-next-to-front", "move-next-to-back", "move-previous-to-front", "move-previous-to-back",
	"move-next-before-previous", "move-previous-after-next", "move-front-after-current", "move-back-before-current",
	"init", "init-then-push-back", "push-front", "push-back", "push-both",
	"pushbacklist-self", "pushfrontlist-self", "pushbacklist-other", "pushfrontlist-other",
	"remove-current-then-push-back", "remove-current-then-insert-after-previous", "remove-next-then-insert-after-current",
	"foreign-list-operations",
	"nested-iteration", "nested-iteration-removing-visited", "nested-iteration-removing-next", "nested-reverse-iteration-inserting",
}

var tsClasses = []string{
	"none", "foreign-push", "foreign-remove", "foreign-remove-handle-of-this-list", "foreign-pushbacklist-from-this", "foreign-pushfrontlist-from-this",
	"nested-iteration", "nested-iteration-with-foreign-operations",
}

// buildAct resolves a relative class at the cursor e of the reference list.
func buildAct(w *world, e *list.Element, class string, outer string, rng *rand.Rand) *visitAct {
	ix := func(x *list.Element) int {
		if x == nil || x.Value == nil {
			return -1
		}
		if i, ok := w.byS[x]; ok {
			return i
		}
		return -1
	}
	nx := func(x *list.Element) *list.Element {
		if x == nil {
			return nil
		}
		return x.Next()
	}
	pv := func(x *list.Element) *list.Element {
		if x == nil {
			return nil
		}
		return x.Prev()
	}
	cur, next, prev := ix(e), ix(nx(e)), ix(pv(e))
	next2, prev2 := ix(nx(nx(e))), ix(pv(pv(e)))
	front, back := ix(w.s[0].Front()), ix(w.s[0].Back())
	foreign := -1
	for i := len(w.pool) - 1; i >= 0; i-- {
		if w.pool[i].owner == 1 && !w.pool[i].removed {
			foreign = i
			break
		}
	}
	a := &visitAct{Class: class}
	add := func(need []int, ops ...op) {
		for _, n := range need {
			if n < 0 {
				return
			}
		}
		for _, o := range ops {
			a.Ops = append(a.Ops, o.String())
		}
	}
	other := func(k string) string { // a different iterator than the outer one
		for i, x := range iterKinds {
			if x == outer {
				return iterKinds[(i+1+len(k))%4]
			}
		}
		return itFE
	}
	switch class {
	case "none":
	case "remove-current":
		add([]int{cur}, op{K: kRM, A: cur})
	case "remove-next":
		add([]int{next}, op{K: kRM, A: next})
	case "remove-previous":
		add([]int{prev}, op{K: kRM, A: prev})
	case "remove-both-neighbours":
		add([]int{prev}, op{K: kRM, A: prev})
		add([]int{next}, op{K: kRM, A: next})
	case "remove-next-two":
		add([]int{next}, op{K: kRM, A: next})
		add([]int{next2}, op{K: kRM, A: next2})
	case "remove-previous-two":
		add([]int{prev}, op{K: kRM, A: prev})
		add([]int{prev2}, op{K: kRM, A: prev2})
	case "remove-current-and-next":
		add([]int{cur}, op{K: kRM, A: cur})
		add([]int{next}, op{K: kRM, A: next})
	case "remove-current-and-previous":
		add([]int{cur}, op{K: kRM, A: cur})
		add([]int{prev}, op{K: kRM, A: prev})
	case "remove-front":
		add([]int{front}, op{K: kRM, A: front})
	case "remove-back":
		add([]int{back}, op{K: kRM, A: back})
	case "remove-all-others", "remove-all":
		n := 0
		for x := w.s[0].Front(); x != nil && n < walkLimit; x, n = x.Next(), n+1 {
			if i := ix(x); i >= 0 && (i != cur || class == "remove-all") {
				add(nil, op{K: kRM, A: i})
			}
		}
	case "insert-before-current":
		add([]int{cur}, op{K: kIB, A: cur})
	case "insert-after-current":
		add([]int{cur}, op{K: kIA, A: cur})
	case "insert-both-sides":
		add([]int{cur}, op{K: kIB, A: cur}, op{K: kIA, A: cur})
	case "insert-after-next":
		add([]int{next}, op{K: kIA, A: next})
	case "insert-before-previous":
		add([]int{prev}, op{K: kIB, A: prev})
	case "move-current-to-front":
		add([]int{cur}, op{K: kMF, A: cur})
	case "move-current-to-back":
		add([]int{cur}, op{K: kMK, A: cur})
	case "move-current-after-next":
		add([]int{cur, next}, op{K: kMA, A: cur, B: next})
	case "move-current-before-previous":
		add([]int{cur, prev}, op{K: kMB, A: cur, B: prev})
	case "move-next-to-front":
		add([]int{next}, op{K: kMF, A: next})
	case "move-next-to-back":
		add([]int{next}, op{K: kMK, A: next})
	case "move-previous-to-front":
		add([]int{prev}, op{K: kMF, A: prev})
	case "move-previous-to-back":
		add([]int{prev}, op{K: kMK, A: prev})
	case "move-next-before-previous":
		add([]int{next, prev}, op{K: kMB, A: next, B: prev})
	case "move-previous-after-next":
		add([]int{next, prev}, op{K: kMA, A: prev, B: next})
	case "move-front-after-current":
		add([]int{front, cur}, op{K: kMA, A: front, B: cur})
	case "move-back-before-current":
		add([]int{back, cur}, op{K: kMB, A: back, B: cur})
	case "init":
		add(nil, op{K: kIN})
	case "init-then-push-back":
		add(nil, op{K: kIN}, op{K: kPB}, op{K: kPB})
	case "push-front":
		add(nil, op{K: kPF})
	case "push-back":
		add(nil, op{K: kPB})
	case "push-both":
		add(nil, op{K: kPF}, op{K: kPB})
	case "pushbacklist-self":
		add(nil, op{K: kPBL, A: 1}, op{K: kHV})
	case "pushfrontlist-self":
		add(nil, op{K: kPFL, A: 1}, op{K: kHV})
	case "pushbacklist-other":
		add(nil, op{K: kPBL, A: 0}, op{K: kHV})
	case "pushfrontlist-other":
		add(nil, op{K: kPFL, A: 0}, op{K: kHV})
	case "remove-current-then-push-back":
		add([]int{cur}, op{K: kRM, A: cur}, op{K: kPB})
	case "remove-current-then-insert-after-previous":
		add([]int{cur, prev}, op{K: kRM, A: cur}, op{K: kIA, A: prev})
	case "remove-next-then-insert-after-current":
		add([]int{cur, next}, op{K: kRM, A: next}, op{K: kIA, A: cur})
	case "foreign-list-operations":
		add(nil, op{K: kBPB})
		add([]int{foreign}, op{K: kBRM, A: foreign}, op{K: kRM, A: foreign}, op{K: kMF, A: foreign})
		add([]int{cur, foreign}, op{K: kMB, A: cur, B: foreign}, op{K: kIA, A: foreign})
	case "random-operation":
		if rng != nil {
			o := randomOp(rng, w, true)
			add(nil, o)
			if o.K == kPBL || o.K == kPFL {
				add(nil, op{K: kHV})
			}
		}
	case "nested-iteration", "nested-iteration-removing-visited", "nested-iteration-removing-next", "nested-reverse-iteration-inserting", "nested-iteration-with-foreign-operations":
		a.Nested = &iterScript{Kind: other(class)}
		if class == "nested-reverse-iteration-inserting" {
			a.Nested.Kind = []string{itFER, itRGR}[len(outer)%2]
		}
	// thread-safe flavour: calls that do not need the write lock of the iterated list
	case "foreign-push":
		add(nil, op{K: kBPB}, op{K: kBPF})
	case "foreign-remove":
		add([]int{foreign}, op{K: kBRM, A: foreign})
	case "foreign-remove-handle-of-this-list":
		add([]int{cur}, op{K: kBRM, A: cur})
	case "foreign-pushbacklist-from-this":
		add(nil, op{K: kXBL})
	case "foreign-pushfrontlist-from-this":
		add(nil, op{K: kXFL})
	}
	return a
}

// nestedClass is what the callbacks of a nested iteration do (by class of the act that started it).
func nestedClass(parent string) string {
	switch parent {
	case "nested-iteration-removing-visited":
		return "remove-current"
	case "nested-iteration-removing-next":
		return "remove-next"
	case "nested-reverse-iteration-inserting":
		return "insert-before-current"
	case "nested-iteration-with-foreign-operations":
		return "foreign-push"
	}
	return "none"
}

const reentBudget = 48

// execReent runs the case: reference loop on one mirror world (generating the script when gen != nil), the library's
// iterator on a second one, the follow-up operations on both; returns the finding (if any).
func execReent(cs *discCase, gen genFunc, rng *rand.Rand, mark func(stage, class string), stt *reentStats) *finding {
	tsA, tsB := cs.FlavourA == "thread-safe", cs.FlavourB == "thread-safe"
	budget := reentBudget
	if tsA {
		budget = 400
	}
	w1, ok := buildWorld(tsA, tsB, cs.Prefix)
	if !ok || !consistent(w1.s[0]) {
		stt.skipped++
		return nil
	}
	r1 := &iterRun{w: w1, ref: true, gen: gen, budget: budget}
	end1 := r1.run(cs.Script)
	if r1.div != nil {
		// the reference loop only makes plain sequential calls: an ordinary divergence
		return &finding{"reent/reference-loop/" + r1.div.class + "/" + r1.div.div, "while the canonical loop ran its callbacks: " + r1.div.what}
	}
	if gen != nil {
		// follow-up: a write first (a leaked read lock would park it), then anything
		cs.Follow = nil
		cand := []op{{K: kPB}}
		for i := 0; i < 3 && rng != nil; i++ {
			cand = append(cand, randomOp(rng, w1, !tsA))
		}
		cand = append(cand, op{K: kPF})
		for _, o := range cand {
			if out := w1.applyX(o); out.st == stOK {
				cs.Follow = append(cs.Follow, o.String())
			} else if out.st == stDiverged {
				return &finding{"reent/reference-loop/" + out.class + "/" + out.div, "follow-up after the canonical loop: " + out.what}
			}
		}
	} else {
		for _, s := range cs.Follow {
			w1.applyX(parseOp(s))
		}
	}
	w2, ok := buildWorld(tsA, tsB, cs.Prefix)
	if !ok {
		stt.skipped++
		return nil
	}
	r2 := &iterRun{w: w2, budget: budget, mark: mark}
	if mark != nil {
		mark("iterate", "")
	}
	end2 := r2.run(cs.Script)
	stt.scenarios++
	stt.byIter[cs.Script.Kind]++
	stt.visits += r2.visits
	stt.reads += r2.reads
	stt.ops += r2.opsDone
	stt.nested += r2.nested
	for _, a := range r1.acts {
		stt.classes[a.class]++
	}
	fl := cs.FlavourA
	desc := func() string {
		var parts []string
		rep := 0
		for i, a := range r1.acts {
			rep++
			if i+1 < len(r1.acts) && r1.acts[i+1].class == a.class {
				continue
			}
			if rep > 1 {
				parts = append(parts, fmt.Sprintf("%s x%d", a.class, rep))
			} else {
				parts = append(parts, a.class)
			}
			rep = 0
		}
		return fmt.Sprintf("%s list built by [%s], %s whose callback does {%s} (script %s)", fl, strings.Join(cs.Prefix, ","), cs.Script.Kind, strings.Join(parts, "; "), scriptText(cs.Script))
	}
	if r2.div != nil {
		return &finding{"reent/" + fl + "/" + cs.Script.Kind + "/" + r2.div.class + "/" + r2.div.div, desc() + ": inside the callback: " + r2.div.what}
	}
	if strings.HasPrefix(end2, "library-panic") {
		return &finding{"reent/" + fl + "/" + cs.Script.Kind + "/panic", desc() + ": " + end2 + "; the canonical container/list loop " + end1 + " after " + traceText(r1.trace)}
	}
	// visited sequence
	n := min(len(r1.trace), len(r2.trace))
	diff := -1
	for i := 0; i < n; i++ {
		if r1.trace[i] != r2.trace[i] {
			diff = i
			break
		}
	}
	if diff < 0 && len(r1.trace) != len(r2.trace) {
		diff = n
	}
	if diff >= 0 || end1 != end2 {
		culprit := "none"
		for _, a := range r1.acts {
			if diff < 0 || a.pos <= diff {
				culprit = a.class
			}
		}
		kind := "visit-order"
		switch {
		case diff < 0:
			kind = "ending"
		case diff >= len(r2.trace) || diff >= len(r1.trace):
			kind = "walk-length"
		case r2.trace[diff].K == evBadErr || r2.trace[diff].K == evNilErr || (r1.trace[diff].K == evErr) != (r2.trace[diff].K == evErr):
			kind = "returned-error"
		case r1.trace[diff].K != evVisit || r2.trace[diff].K != evVisit:
			kind = "walk-length"
		}
		return &finding{"reent/" + fl + "/" + cs.Script.Kind + "/callback-" + classGroup(culprit) + "/" + kind,
			fmt.Sprintf("%s: the library invoked the callback for %s and %s; the canonical loop `for e := l.Front(); e != nil; e = e.Next()` (successor taken after the callback) visits %s and %s", desc(), traceText(r2.trace), end2, traceText(r1.trace), end1)}
	}
	if r2.failed || end2 != "returned" {
		stt.failed[fl+":"+end2]++
	}
	if walkAffected(r1.trace) {
		stt.affected++
	}
	// the list is used again
	if mark != nil {
		mark("follow-up", end2)
	}
	if kind, what := w2.compare(); kind != "" {
		return &finding{"reent/" + fl + "/" + cs.Script.Kind + "/state-after-iteration/" + kind, desc() + " (" + end2 + "): afterwards " + what}
	}
	for _, s := range cs.Follow {
		stt.follow++
		if out := w2.applyX(parseOp(s)); out.st == stDiverged {
			return &finding{"reent/" + fl + "/" + cs.Script.Kind + "/follow-up/" + out.class + "/" + out.div, desc() + " (" + end2 + "), then " + s + ": " + out.what}
		}
	}
	return nil
}

// classGroup is the coarse kind of a callback action (fingerprints name the kind, the sentence names the action).
func classGroup(class string) string {
	g := strings.SplitN(class, "-", 2)[0]
	switch g {
	case "remove":
		return "removes"
	case "insert":
		return "inserts"
	case "move":
		return "moves"
	case "init":
		return "inits"
	case "push", "pushbacklist", "pushfrontlist":
		return "pushes"
	case "nested":
		return "iterates"
	case "foreign":
		return "uses-other-list"
	case "random":
		return "mutates"
	case "fail":
		return "fails"
	}
	return "reads"
}

// walkAffected: the depth-0 visits are not simply a run of increasing or decreasing positions ending normally –
// approximated by: the scenario executed an operation (evidence only).
func walkAffected(t []tev) bool {
	seen := map[int]bool{}
	for _, e := range t {
		if e.K == evVisit && e.D == 0 {
			if seen[e.V] {
				return true
			}
			seen[e.V] = true
		}
	}
	return false
}

func scriptText(it *iterScript) string {
	var ks []int
	for k := range it.Acts {
		ks = append(ks, k)
	}
	sort.Ints(ks)
	var parts []string
	for _, k := range ks {
		a := it.Acts[k]
		s := fmt.Sprintf("visit %d: %s", k, strings.Join(a.Ops, ","))
		if a.Nested != nil {
			s += " nested " + a.Nested.Kind + "{" + scriptText(a.Nested) + "}"
		}
		if a.Fail != "" {
			s += " then " + a.Fail
		}
		parts = append(parts, s)
	}
	return strings.Join(parts, " | ")
}

type reentStats struct {
	scenarios, skipped, visits, reads, ops, nested, follow, affected int
	byIter, classes, failed                                          map[string]int
}

func newReentStats() *reentStats {
	return &reentStats{byIter: map[string]int{}, classes: map[string]int{}, failed: map[string]int{}}
}

func (s *reentStats) flush(c *vf.Ctx, pre string) {
	c.Count(pre+"_scenarios", s.scenarios)
	c.Count(pre+"_scenarios_skipped", s.skipped)
	c.Count(pre+"_callback_invocations", s.visits)
	c.Count(pre+"_readonly_reentrant_comparisons", s.reads)
	c.Count(pre+"_operations_inside_callbacks", s.ops)
	c.Count(pre+"_nested_iterations", s.nested)
	c.Count(pre+"_follow_up_operations", s.follow)
	c.Count(pre+"_walks_visiting_an_element_twice", s.affected)
	for k, v := range s.byIter {
		c.Count(pre+"_iterator:"+k, v)
	}
	for k, v := range s.classes {
		c.Count(pre+"_callback:"+k, v)
		c.Distinct("disc_callback_classes", pre+k)
	}
	for k, v := range s.failed {
		c.Count(pre+"_then_used_again:"+k, v)
	}
	c.Count("evaluations", s.scenarios)
}

// ---- scenario generation (a function of family, index and the seed only)

var smallPositions = func() (p [][2]int) {
	for l := 1; l <= 5; l++ {
		for k := 0; k < l; k++ {
			p = append(p, [2]int{l, k})
		}
	}
	return
}()

func smallCount() int { return len(smallPositions) * len(lfClasses) * 4 * 3 }

func flav(ts bool) string { return flavourName(ts) }

func failKind(iter string, salt int) string {
	if iterHasErr(iter) && salt%2 == 0 {
		return "error"
	}
	return "panic"
}

// makeReent builds the case (prefix, iterator) and the generator of its script.
func makeReent(c *vf.Ctx, fam string, i int) (*discCase, genFunc, *rand.Rand) {
	cs := &discCase{DiscKind: "reent", Family: fam, Index: i}
	switch fam {
	case "lf-small":
		j := i
		pos := smallPositions[j%len(smallPositions)]
		j /= len(smallPositions)
		ci := j % len(lfClasses)
		class := lfClasses[ci]
		j /= len(lfClasses)
		iter := iterKinds[j%4]
		j /= 4
		failMode := j % 3
		cs.FlavourA, cs.FlavourB = flav(false), flav(i%2 == 1)
		for n := 0; n < pos[0]; n++ {
			cs.Prefix = append(cs.Prefix, kPB)
		}
		cs.Prefix = append(cs.Prefix, kBPB, kBPB)
		cs.Script = &iterScript{Kind: iter}
		gen := func(r *iterRun, e *list.Element, it *iterScript, k, depth int) *visitAct {
			if depth > 0 {
				if nc := nestedClass(class); nc != "none" {
					return buildAct(r.w, e, nc, it.Kind, nil)
				}
				return nil
			}
			switch {
			case k == pos[1]:
				a := buildAct(r.w, e, class, it.Kind, nil)
				if failMode == 1 {
					a.Fail = failKind(iter, ci+pos[0])
				}
				return a
			case k == pos[1]+1 && failMode == 2:
				return &visitAct{Class: "fail-only", Fail: failKind(iter, ci+pos[0])}
			}
			return nil
		}
		return cs, gen, nil
	case "lf-rand":
		rng := c.Rand(fmt.Sprintf("disc/lf-rand/%d", i))
		cs.FlavourA, cs.FlavourB = flav(false), flav(rng.Intn(2) == 0)
		cs.Prefix = randomPrefix(rng, false, cs.FlavourB == "thread-safe", 3+rng.Intn(10), true)
		cs.Script = &iterScript{Kind: iterKinds[rng.Intn(4)]}
		pAct := []float64{0.15, 0.35, 0.7}[rng.Intn(3)]
		gen := func(r *iterRun, e *list.Element, it *iterScript, k, depth int) *visitAct {
			if rng.Float64() >= pAct {
				return nil
			}
			class := "random-operation"
			if rng.Intn(4) > 0 {
				class = lfClasses[1+rng.Intn(len(lfClasses)-1)]
			}
			if depth >= 2 && strings.HasPrefix(class, "nested") {
				class = "remove-next"
			}
			a := buildAct(r.w, e, class, it.Kind, rng)
			if rng.Intn(12) == 0 {
				a.Fail = failKind(it.Kind, rng.Intn(2))
			}
			return a
		}
		return cs, gen, rng
	case "ts-reent", "ts-fail":
		rng := c.Rand(fmt.Sprintf("disc/%s/%d", fam, i))
		cs.FlavourA, cs.FlavourB = flav(true), flav(rng.Intn(2) == 0)
		cs.Prefix = randomPrefix(rng, true, cs.FlavourB == "thread-safe", 2+rng.Intn(9), false)
		cs.Script = &iterScript{Kind: iterKinds[i%4]}
		pAct := []float64{0.2, 0.5}[rng.Intn(2)]
		failAt, failDepth := -1, 0
		if fam == "ts-fail" {
			failAt, failDepth = rng.Intn(4), rng.Intn(3)/2
		}
		nestedBudget := 2
		gen := func(r *iterRun, e *list.Element, it *iterScript, k, depth int) *visitAct {
			var a *visitAct
			if rng.Float64() < pAct || (failDepth == 1 && depth == 0 && k == 0) {
				class := tsClasses[1+rng.Intn(len(tsClasses)-1)]
				if failDepth == 1 && depth == 0 && k == 0 {
					class = "nested-iteration"
				}
				if strings.HasPrefix(class, "nested") {
					if depth >= 1 || nestedBudget == 0 {
						class = "foreign-push"
					} else {
						nestedBudget--
					}
				}
				a = buildAct(r.w, e, class, it.Kind, rng)
			}
			last := (iterBack(it.Kind) && e.Prev() == nil) || (!iterBack(it.Kind) && e.Next() == nil)
			if failAt >= 0 && depth == failDepth && (k == failAt || last) {
				if a == nil {
					a = &visitAct{Class: "fail-only"}
				}
				a.Fail = failKind(it.Kind, rng.Intn(2))
				failAt = -1
			}
			return a
		}
		return cs, gen, rng
	}
	return nil, nil, nil
}

// randomPrefix draws operations on a scratch world and keeps the valid ones; it ends with a harvest so that every
// element of both lists is pooled (callbacks address elements through pool indices).
func randomPrefix(rng *rand.Rand, tsA, tsB bool, n int, allowInit bool) []string {
	w := newWorld(tsA, tsB)
	var out []string
	for _, o := range []op{{K: kPB}, {K: kBPB}} {
		w.apply(o, false)
		out = append(out, o.String())
	}
	for i := 0; i < n; i++ {
		o := randomOp(rng, w, true)
		if o.K == kIN && (!allowInit || rng.Intn(3) > 0) {
			o = op{K: kPB}
		}
		if o.K == kRM && rng.Intn(2) == 0 {
			o = op{K: kPF} // keep the lists from staying empty
		}
		if st := w.apply(o, false); st.st == stOK {
			out = append(out, o.String())
		}
	}
	return append(out, kHV)
}

// ------------------------------------------------------------------ user-implemented source list

type wrapSpec struct {
	Push string `json:"push"`   // PushBackList | PushFrontList
	Src  string `json:"source"` // other | self
	Mode string `json:"mode"`   // transparent | panic-on-first-call | reentrant-reads
}

var wrapModes = []string{"transparent", "panic-on-first-call", "reentrant-reads"}

// wrapList is a caller's own implementation of ds.List that delegates to a real list; every reading method reports to
// the hook first.
type wrapList struct {
	ds.List[int]
	hook func(method string)
}

func (x *wrapList) Len() int                        { x.hook("Len"); return x.List.Len() }
func (x *wrapList) Front() ds.ListElement[int]      { x.hook("Front"); return x.List.Front() }
func (x *wrapList) Back() ds.ListElement[int]       { x.hook("Back"); return x.List.Back() }
func (x *wrapList) Values() []int                   { x.hook("Values"); return x.List.Values() }
func (x *wrapList) Range(f func(int))               { x.hook("Range"); x.List.Range(f) }
func (x *wrapList) RangeReverse(f func(int))        { x.hook("RangeReverse"); x.List.RangeReverse(f) }
func (x *wrapList) ForEach(f func(int) error) error { x.hook("ForEach"); return x.List.ForEach(f) }
func (x *wrapList) ForEachReverse(f func(int) error) error {
	x.hook("ForEachReverse")
	return x.List.ForEachReverse(f)
}

type wrapStats struct {
	scenarios, skipped, hookCalls, reentrantReads, follow int
	modes                                                 map[string]int
}

func makeWrap(c *vf.Ctx, i int) (*discCase, *rand.Rand) {
	rng := c.Rand(fmt.Sprintf("disc/wrap/%d", i))
	cs := &discCase{DiscKind: "wrap", Family: "wrap", Index: i, FlavourA: flav(i%2 == 0), FlavourB: flav((i/2)%2 == 0)}
	cs.Wrap = &wrapSpec{Push: []string{"PushBackList", "PushFrontList"}[(i/4)%2], Src: []string{"other", "other", "self"}[(i/8)%3], Mode: wrapModes[(i/24)%3]}
	cs.Prefix = randomPrefix(rng, cs.FlavourA == "thread-safe", cs.FlavourB == "thread-safe", 1+rng.Intn(8), false)
	return cs, rng
}

func execWrap(cs *discCase, rng *rand.Rand, mark func(stage, class string), stt *wrapStats) *finding {
	tsA, tsB := cs.FlavourA == "thread-safe", cs.FlavourB == "thread-safe"
	w, ok := buildWorld(tsA, tsB, cs.Prefix)
	si := 1
	if cs.Wrap.Src == "self" {
		si = 0
	}
	if !ok || !consistent(w.s[si]) || !consistent(w.s[0]) || w.s[0].Len()+w.s[si].Len() > 96 {
		stt.skipped++
		return nil
	}
	desc := fmt.Sprintf("%s list built by [%s]: l.%s(x) where x is the caller's own List implementation delegating to %s (%s, %s)", cs.FlavourA, strings.Join(cs.Prefix, ","), cs.Wrap.Push, map[int]string{0: "l itself", 1: "the other list"}[si], flav(w.ts[si]), cs.Wrap.Mode)
	fpre := "wrap/" + cs.FlavourA + "/" + cs.Wrap.Push + "/" + cs.Wrap.Mode + "/"
	calls, late := 0, 0
	var lateMethod string
	wl := &wrapList{List: w.h[si]}
	wl.hook = func(m string) {
		calls++
		switch cs.Wrap.Mode {
		case "panic-on-first-call":
			if calls == 1 {
				panic(userPanic{})
			}
		case "reentrant-reads":
			if mark != nil {
				mark("source."+m, "reentrant-reads")
			}
			stt.reentrantReads++
			d := w.h[0]
			_ = d.Len()
			_ = d.Front()
			_ = d.Back()
			_ = d.Values()
			d.Range(func(int) {})
			_ = d.ForEachReverse(func(int) error { return nil })
		}
	}
	if mark != nil {
		mark("call", cs.Wrap.Mode)
	}
	var p any
	if cs.Wrap.Push == "PushBackList" {
		p = try(func() { w.h[0].PushBackList(wl) })
	} else {
		p = try(func() { w.h[0].PushFrontList(wl) })
	}
	stt.scenarios++
	stt.modes[cs.Wrap.Mode]++
	stt.hookCalls += calls
	switch p.(type) {
	case nil:
		if cs.Wrap.Push == "PushBackList" {
			w.s[0].PushBackList(w.s[si])
		} else {
			w.s[0].PushFrontList(w.s[si])
		}
	case userPanic:
		// the source failed before it delivered anything: the call did nothing
	default:
		return &finding{fpre + "panic", fmt.Sprintf("%s panicked: %v", desc, p)}
	}
	wl.hook = func(m string) { late++; lateMethod = m }
	if mark != nil {
		mark("follow-up", cs.Wrap.Mode)
	}
	if kind, what := w.compare(); kind != "" {
		return &finding{fpre + kind, desc + ": afterwards " + what}
	}
	if rng != nil {
		cs.Follow = []string{kPB}
		for i := 0; i < 2; i++ {
			cs.Follow = append(cs.Follow, randomOp(rng, w, !tsA).String())
		}
	}
	for _, s := range cs.Follow {
		stt.follow++
		if out := w.applyX(parseOp(s)); out.st == stDiverged {
			return &finding{fpre + "follow-up/" + out.class + "/" + out.div, desc + ", then " + s + ": " + out.what}
		}
	}
	if late > 0 {
		return &finding{fpre + "source-used-after-the-call-returned", fmt.Sprintf("%s: %s() of the source was called %d time(s) after the push had returned", desc, lateMethod, late)}
	}
	return nil
}

// ------------------------------------------------------------------ children

var discViol int

func discReport(c *vf.Ctx, f *finding, cs *discCase) {
	if discViol++; discViol > 12 {
		return
	}
	cs.What = f.what
	what := f.what
	if len(what) > 1200 {
		what = what[:1200] + "..."
	}
	c.Violation(f.fp, what, cs)
}

func discMarker(c *vf.Ctx, cs *discCase) func(stage, class string) {
	last := ""
	return func(stage, class string) {
		m := fmt.Sprintf("%s|%d|%s|%s|%s", cs.Family, cs.Index, cs.iter(), stage, class)
		if m != last {
			c.Mark(m)
			last = m
		}
	}
}

func (cs *discCase) iter() string {
	switch {
	case cs.Script != nil:
		return cs.Script.Kind
	case cs.Wrap != nil:
		return cs.Wrap.Push
	}
	return "-"
}

func heldChild(c *vf.Ctx, shard, shards, n int) {
	hs := &heldStats{modes: map[string]int{}}
	for i := shard; i < n && discViol < 12; i += shards {
		rng := c.Rand(fmt.Sprintf("disc/held/%d", i))
		tsA, tsB := i%2 == 1, (i/2)%2 == 1
		if i%64 == shard {
			c.Mark(fmt.Sprintf("held|%d|-|history|", i))
		}
		steps, f := heldRun(tsA, tsB, 36, heldGen(rng), hs)
		c.Count("disc_held_histories", 1)
		if f != nil {
			discReport(c, f, &discCase{DiscKind: "held", Family: "held", Index: i, FlavourA: flav(tsA), FlavourB: flav(tsB), Steps: steps})
		}
	}
	c.Count("disc_held_steps", hs.steps)
	c.Count("disc_held_values_results_kept", hs.taken)
	c.Count("disc_held_rechecks_after_later_steps", hs.rechecks)
	c.Count("disc_held_results_scribbled", hs.scribbled)
	c.Count("disc_held_values_again_right_after_scribble", hs.valuesAfterScribble)
	c.Count("disc_held_pushlist_reading_a_scribbled_source", hs.pushFromScribbled)
	c.Count("disc_held_init_returned_list_used", hs.initHeld)
	for k, v := range hs.modes {
		c.Count("disc_held_scribble:"+k, v)
	}
	c.Count("evaluations", hs.steps)
}

func reentChild(c *vf.Ctx, fam string, shard, shards, n int, pre string) {
	stt := newReentStats()
	semantics := map[string]string{}
	for i := shard; i < n && discViol < 12; i += shards {
		cs, gen, rng := makeReent(c, fam, i)
		var mark func(stage, class string)
		if cs.FlavourA == "thread-safe" {
			mark = discMarker(c, cs)
		} else if i%256 == shard {
			c.Mark(fmt.Sprintf("%s|%d|%s|batch|", fam, i, cs.Script.Kind))
		}
		f := execReent(cs, gen, rng, mark, stt)
		if f != nil {
			discReport(c, f, cs)
		}
	}
	_ = semantics
	stt.flush(c, pre)
}

func wrapChild(c *vf.Ctx, n int) {
	stt := &wrapStats{modes: map[string]int{}}
	for i := 0; i < n && discViol < 12; i++ {
		cs, rng := makeWrap(c, i)
		if f := execWrap(cs, rng, discMarker(c, cs), stt); f != nil {
			discReport(c, f, cs)
		}
	}
	c.Count("disc_wrap_scenarios", stt.scenarios)
	c.Count("disc_wrap_scenarios_skipped", stt.skipped)
	c.Count("disc_wrap_source_methods_called_by_the_library", stt.hookCalls)
	c.Count("disc_wrap_reentrant_read_batches", stt.reentrantReads)
	c.Count("disc_wrap_follow_up_operations", stt.follow)
	for k, v := range stt.modes {
		c.Count("disc_wrap_mode:"+k, v)
	}
	c.Count("evaluations", stt.scenarios)
}

// semanticsTable records, for the evidence file, what the tree under test does on [1 2 3 4 5] when the callback of
// ForEach acts at the third element.
func semanticsTable() map[string]string {
	out := map[string]string{}
	for _, class := range lfClasses {
		cs := &discCase{DiscKind: "reent", FlavourA: flav(false), FlavourB: flav(false), Prefix: []string{kPB, kPB, kPB, kPB, kPB, kBPB, kBPB}, Script: &iterScript{Kind: itFE}}
		gen := func(r *iterRun, e *list.Element, it *iterScript, k, depth int) *visitAct {
			if depth > 0 {
				if nc := nestedClass(class); nc != "none" {
					return buildAct(r.w, e, nc, it.Kind, nil)
				}
				return nil
			}
			if k == 2 {
				return buildAct(r.w, e, class, it.Kind, nil)
			}
			return nil
		}
		// script from the reference, then the library alone
		w1, _ := buildWorld(false, false, cs.Prefix)
		r1 := &iterRun{w: w1, ref: true, gen: gen, budget: reentBudget}
		e1 := r1.run(cs.Script)
		w2, _ := buildWorld(false, false, cs.Prefix)
		r2 := &iterRun{w: w2, budget: reentBudget}
		e2 := r2.run(cs.Script)
		s := traceText(r2.trace) + " " + e2
		if traceText(r1.trace) != traceText(r2.trace) || e1 != e2 {
			s += " != canonical loop " + traceText(r1.trace) + " " + e1
		}
		out[class] = s
	}
	return out
}

// discChild dispatches the child modes of this part.
func discChild(c *vf.Ctx) bool {
	a := c.ChildArgs
	if !strings.HasPrefix(c.Child, "disc-") {
		return false
	}
	startMemGuard(1536)
	switch c.Child {
	case "disc-seq": // shard shards nHeld nRand
		shard, shards := atoi(a[0]), atoi(a[1])
		heldChild(c, shard, shards, atoi(a[2]))
		reentChild(c, "lf-small", shard, shards, smallCount(), "disc_lockfree_reent")
		reentChild(c, "lf-rand", shard, shards, atoi(a[3]), "disc_lockfree_reent")
		if shard == 0 {
			c.Emit("semantics", semanticsTable())
		}
	case "disc-ts": // family n
		switch a[0] {
		case "reent":
			reentChild(c, "ts-reent", 0, 1, atoi(a[1]), "disc_threadsafe_reent")
		case "fail":
			reentChild(c, "ts-fail", 0, 1, atoi(a[1]), "disc_threadsafe_fail")
		case "wrap":
			wrapChild(c, atoi(a[1]))
		}
	case "disc-replay":
		var cs discCase
		if err := json.NewDecoder(os.Stdin).Decode(&cs); err != nil {
			c.Inconclusive("disc-replay: cannot decode the case: " + err.Error())
			return true
		}
		c.Count("evaluations", 1)
		var f *finding
		switch cs.DiscKind {
		case "held":
			_, f = heldRun(cs.FlavourA == "thread-safe", cs.FlavourB == "thread-safe", len(cs.Steps), replaySteps(cs.Steps), &heldStats{modes: map[string]int{}})
		case "reent":
			f = execReent(&cs, nil, nil, discMarker(c, &cs), newReentStats())
		case "wrap":
			f = execWrap(&cs, nil, discMarker(c, &cs), &wrapStats{modes: map[string]int{}})
		}
		if f != nil {
			discReport(c, f, &cs)
		}
	default:
		return false
	}
	return true
}

// ------------------------------------------------------------------ parent

// deadlockFinding turns the last mark of a dead-locked child into fingerprint, sentence and replayable case.
func deadlockFinding(c *vf.Ctx, res vf.ChildResult) (string, string, *discCase) {
	p := strings.Split(res.LastMark, "|")
	for len(p) < 5 {
		p = append(p, "")
	}
	fam, idx, iter, stage, class := p[0], atoi(p[1]), p[2], p[3], p[4]
	var cs *discCase
	switch fam {
	case "ts-reent", "ts-fail", "lf-small", "lf-rand":
		if try(func() {
			var gen genFunc
			var rng *rand.Rand
			cs, gen, rng = makeReent(c, fam, idx)
			// fill the script by running the reference loop only
			tsA, tsB := cs.FlavourA == "thread-safe", cs.FlavourB == "thread-safe"
			if w1, ok := buildWorld(tsA, tsB, cs.Prefix); ok {
				r1 := &iterRun{w: w1, ref: true, gen: gen, budget: 400}
				r1.run(cs.Script)
				cs.Follow = []string{kPB}
			}
			_ = rng
		}) != nil {
			cs = nil
		}
	case "wrap":
		cs, _ = makeWrap(c, idx)
		cs.Follow = []string{kPB}
	}
	if cs == nil {
		cs = &discCase{DiscKind: "deadlock", Family: fam, Index: idx}
	}
	cs.Mark = res.LastMark
	blocked := firstBlockedFrame(res.Stderr)
	switch {
	case fam == "wrap" && stage == "follow-up":
		return "fail/" + cs.FlavourA + "/" + iter + "/after-source-" + class + "/next-call-never-returns",
			fmt.Sprintf("%s list: after l.%s(x) with a caller-implemented source list x (%s) had ended, the next call on the list never returns – Go runtime: all goroutines are asleep (%s): a lock is still held", cs.FlavourA, iter, class, blocked), cs
	case fam == "wrap":
		return "wrap/" + cs.FlavourA + "/" + iter + "/" + class + "/never-returns",
			fmt.Sprintf("%s list: l.%s(x) with a caller-implemented source list x that delegates to l or to the other list (%s, stage %s) never returns – Go runtime: all goroutines are asleep (%s); on the unchanged tree the source is read before the destination is locked", cs.FlavourA, iter, class, stage, blocked), cs
	case stage == "follow-up":
		return "fail/" + cs.FlavourA + "/" + iter + "/after-" + class + "/next-call-never-returns",
			fmt.Sprintf("%s list: %s %s; the next call on the list never returns – Go runtime: all goroutines are asleep (%s): the iteration left the list locked", cs.FlavourA, iter, class, blocked), cs
	case stage == "callback" || stage == "iterate":
		return "reent/" + cs.FlavourA + "/" + iter + "/callback-" + class + "/never-returns",
			fmt.Sprintf("%s list: a call made from inside the %s callback (%s: reads of the iterated list, calls on the other list, nested iteration) never returns – Go runtime: all goroutines are asleep (%s); on the unchanged tree these calls return", cs.FlavourA, iter, class, blocked), cs
	}
	return "disc/" + fam + "/deadlock", fmt.Sprintf("child dead-locked in case %s (%s)", res.LastMark, blocked), cs
}

func discChildOutcome(c *vf.Ctx, name string, res vf.ChildResult) {
	switch {
	case res.Deadlock:
		fp, what, cs := deadlockFinding(c, res)
		c.Violation(fp, what, cs)
		c.Count("disc_children_completed", 1)
	case strings.Contains(res.Stderr, "MEMGUARD:"):
		c.Inconclusive(fmt.Sprintf("disc child %s was killed by its memory guard (last case %s)", name, res.LastMark))
	case res.TimedOut:
		c.Inconclusive(fmt.Sprintf("disc child %s hit the watchdog (last case %s)", name, res.LastMark))
	case res.ExitCode != 0:
		c.Inconclusive(fmt.Sprintf("disc child %s died: exit %d %s (last case %s)", name, res.ExitCode, res.Fatal, res.LastMark))
	default:
		c.Count("disc_children_completed", 1)
	}
}

// runDisc is the parent side of the part.
func runDisc(c *vf.Ctx) {
	t0 := time.Now()
	tmo := time.Duration(c.Pick(5, 14)) * time.Minute
	shards := 2
	nHeld, nRand := c.Pick(4000, 60000), c.Pick(6000, 80000)
	nTS, nWrap := c.Pick(2400, 30000), c.Pick(1800, 24000)
	var jobs []vf.ChildOpts
	for s := 0; s < shards; s++ {
		jobs = append(jobs, vf.ChildOpts{Name: "disc-seq", Args: []string{strconv.Itoa(s), strconv.Itoa(shards), strconv.Itoa(nHeld), strconv.Itoa(nRand)}, Timeout: tmo})
	}
	jobs = append(jobs,
		vf.ChildOpts{Name: "disc-ts", Args: []string{"reent", strconv.Itoa(nTS)}, Timeout: tmo},
		vf.ChildOpts{Name: "disc-ts", Args: []string{"fail", strconv.Itoa(nTS)}, Timeout: tmo},
		vf.ChildOpts{Name: "disc-ts", Args: []string{"wrap", strconv.Itoa(nWrap)}, Timeout: tmo})
	var mu sync.Mutex
	childS := map[string]float64{}
	vf.Parallel(len(jobs), len(jobs), func(i int) {
		tc := time.Now()
		res := c.RunChild(jobs[i])
		name := jobs[i].Name + "/" + jobs[i].Args[0]
		mu.Lock()
		childS[name] = float64(int(time.Since(tc).Seconds()*10)) / 10
		mu.Unlock()
		discChildOutcome(c, name, res)
		for _, r := range res.Records {
			if r.Kind == "semantics" {
				var m map[string]string
				if json.Unmarshal(r.V, &m) == nil {
					c.Extra("disc_lockfree_foreach_on_1_2_3_4_5_callback_acts_at_3", m)
				}
			}
		}
	})
	c.Extra("phase_s_disc", int(time.Since(t0).Seconds()))
	c.Extra("disc_child_s", childS)
	c.Require("disc_children_completed", len(jobs))
	c.Require("disc_held_histories", nHeld)
	c.Require("disc_held_values_results_kept", nHeld)
	c.Require("disc_held_rechecks_after_later_steps", 4*nHeld)
	c.Require("disc_held_results_scribbled", nHeld)
	c.Require("disc_held_values_again_right_after_scribble", nHeld/20)
	c.Require("disc_held_pushlist_reading_a_scribbled_source", nHeld/20)
	c.Require("disc_held_init_returned_list_used", nHeld/10)
	for _, m := range scribbleModes {
		c.Require("disc_held_scribble:"+m, nHeld/20)
	}
	c.Require("disc_lockfree_reent_scenarios", smallCount()+nRand*8/10)
	c.Require("disc_lockfree_reent_operations_inside_callbacks", smallCount())
	for _, k := range iterKinds {
		c.Require("disc_lockfree_reent_iterator:"+k, smallCount()/4)
		c.Require("disc_threadsafe_reent_iterator:"+k, nTS/5)
		c.Require("disc_threadsafe_fail_iterator:"+k, nTS/5)
	}
	for _, k := range lfClasses[1:] {
		c.Require("disc_lockfree_reent_callback:"+k, 100)
	}
	c.Require("disc_lockfree_reent_then_used_again:lock-free:callback-panicked", 500)
	c.Require("disc_threadsafe_reent_scenarios", nTS*8/10)
	c.Require("disc_threadsafe_reent_readonly_reentrant_comparisons", nTS)
	c.Require("disc_threadsafe_reent_nested_iterations", nTS/10)
	c.Require("disc_threadsafe_reent_callback:foreign-pushbacklist-from-this", nTS/50)
	c.Require("disc_threadsafe_fail_then_used_again:thread-safe:callback-panicked", nTS/5)
	c.Require("disc_threadsafe_fail_then_used_again:thread-safe:returned", nTS/10) // ForEach/ForEachReverse returned the callback's error
	c.Require("disc_threadsafe_fail_follow_up_operations", nTS)
	c.Require("disc_wrap_scenarios", nWrap*8/10)
	for _, m := range wrapModes {
		c.Require("disc_wrap_mode:"+m, nWrap/5)
	}
	c.Require("disc_wrap_reentrant_read_batches", nWrap/5)
	c.Assume("disciplines part: a slice returned by Values() belongs to the caller (the unchanged tree builds a fresh slice per call); the callbacks of the four iterators of the lock-free list may mutate the list and the walk is the canonical container/list loop whose successor is taken after the callback (the unchanged tree is literally that loop); on the thread-safe list mutating callbacks self-dead-lock on the unchanged tree and are not exercised, while reads of the iterated list, calls on another list and nested iterations from inside a callback return and must keep returning (single goroutine, so no writer is ever waiting between the nested read locks)")
	c.Assume("disciplines part does not demand: anything about mutating callbacks on the thread-safe list, the panic value that reaches the caller, what a source list implemented by the caller sees beyond its first call, re-entrant writes from a caller-implemented source list")
}

// ------------------------------------------------------------------ replay

func isDiscReplay(c *vf.Ctx) (discCase, bool) {
	var cs discCase
	if err := c.LoadReplay(&cs); err != nil || cs.DiscKind == "" {
		return cs, false
	}
	return cs, true
}

func discReplay(c *vf.Ctx, cs discCase) {
	if cs.DiscKind == "deadlock" {
		c.Inconclusive("this dead-lock record carries no case; re-run the check")
		return
	}
	b, _ := json.Marshal(cs)
	res := c.RunChild(vf.ChildOpts{Name: "disc-replay", Stdin: b, Timeout: 5 * time.Minute})
	discChildOutcome(c, "disc-replay", res)
}
