// C19 – safemath: exact result or overflow error, never a wrapped value.
// Differential execution against exact arithmetic (int64 for 8/16-bit types,
// math/big for 32/64-bit types).
package main

import (
	"errors"
	"fmt"
	"math"
	"math/big"
	"math/rand"
	"os"
	"runtime"
	"strconv"
	"sync"

	"github.com/iotaledger/hive.go/core/safemath"
	"verif/harness/internal/vf"
)

type caseRec struct {
	Fn    string `json:"fn"`
	Type  string `json:"type"`
	X     string `json:"x"`
	Y     string `json:"y"`
	Z     string `json:"z,omitempty"`
	Got   string `json:"got"`
	Err   string `json:"err"`
	Exact string `json:"exact"`
}

type spec struct {
	name   string
	bits   int
	signed bool
	idx    int
}

func (s spec) min() *big.Int {
	if !s.signed {
		return big.NewInt(0)
	}
	return new(big.Int).Neg(new(big.Int).Lsh(big.NewInt(1), uint(s.bits-1)))
}
func (s spec) max() *big.Int {
	b := s.bits
	if s.signed {
		b--
	}
	return new(big.Int).Sub(new(big.Int).Lsh(big.NewInt(1), uint(b)), big.NewInt(1))
}

var fastFns = [5]string{"SafeAdd", "SafeSub", "SafeMul", "SafeDiv", "SafeLeftShift"}

func fnIndex(fn string) int {
	switch fn[4] {
	case 'A':
		return 0
	case 'S':
		return 1
	case 'M':
		return 2
	case 'D':
		return 3
	}
	return 4
}

type local struct {
	evals   int64
	classes map[string]int64 // fn/type/outcome
	fast    [5][16][2]int64  // fn x type x {exact, overflow}
	viols   []viol
}

// fold moves the fast-path counters into classes.
func (l *local) fold() {
	for f := range l.fast {
		for t := range l.fast[f] {
			for c, v := range l.fast[f][t] {
				if v != 0 {
					l.classes[fastFns[f]+"/"+specs[t].name+"/"+[2]string{"exact", "overflow"}[c]] += v
				}
			}
		}
	}
	l.fast = [5][16][2]int64{}
}

type viol struct {
	fp, what string
	rec      caseRec
}

func (l *local) viol(fp, what string, r caseRec) {
	if len(l.viols) < 200 {
		l.viols = append(l.viols, viol{fp, what, r})
	}
}

// verdict compares (got, err) with the exact result. exact==nil means division by zero.
func verdict[T safemath.Integer](l *local, s spec, fn string, x, y T, got T, err error, exactSmall int64, exactBig *big.Int, divZero bool) {
	l.evals++
	if exactBig == nil && !divZero {
		// hot path (8/16-bit types): decide numerically, build strings only for a violation
		var lo, hi int64
		if s.signed {
			lo, hi = -(1 << (s.bits - 1)), (1<<(s.bits-1))-1
		} else {
			lo, hi = 0, (1<<s.bits)-1
		}
		if exactSmall >= lo && exactSmall <= hi {
			if err == nil && int64(got) == exactSmall {
				l.fast[fnIndex(fn)][s.idx][0]++
				return
			}
		} else if err != nil && errors.Is(err, safemath.ErrIntegerOverflow) {
			l.fast[fnIndex(fn)][s.idx][1]++
			return
		}
		l.evals-- // fall through to the slow path, which counts again and reports
		l.evals++
	}
	var representable bool
	var exactStr string
	if divZero {
		exactStr = "div-by-zero"
	} else if exactBig != nil {
		representable = exactBig.Cmp(s.min()) >= 0 && exactBig.Cmp(s.max()) <= 0
		exactStr = exactBig.String()
	} else {
		var lo, hi int64
		if s.signed {
			lo, hi = -(1 << (s.bits - 1)), (1<<(s.bits-1))-1
		} else {
			lo, hi = 0, (1<<s.bits)-1
		}
		representable = exactSmall >= lo && exactSmall <= hi
		exactStr = strconv.FormatInt(exactSmall, 10)
	}
	sg := "unsigned"
	if s.signed {
		sg = "signed"
	}
	rec := func() caseRec {
		e := ""
		if err != nil {
			e = err.Error()
		}
		return caseRec{Fn: fn, Type: s.name, X: fmt.Sprint(x), Y: fmt.Sprint(y), Got: fmt.Sprint(got), Err: e, Exact: exactStr}
	}
	switch {
	case divZero:
		l.classes[fn+"/"+s.name+"/divzero"]++
		if err == nil {
			l.viol(fn+"/"+sg+"/divzero-no-error", fmt.Sprintf("%s[%s](%v,%v) returned %v,nil for division by zero", fn, s.name, x, y, got), rec())
		} else if !errors.Is(err, safemath.ErrIntegerDivisionByZero) {
			l.viol(fn+"/"+sg+"/divzero-wrong-error", fmt.Sprintf("%s[%s](%v,%v) error %v is not ErrIntegerDivisionByZero", fn, s.name, x, y, err), rec())
		}
	case representable:
		l.classes[fn+"/"+s.name+"/exact"]++
		if err != nil {
			l.viol(fn+"/"+sg+"/spurious-error", fmt.Sprintf("%s[%s](%v,%v): exact result %s is representable but got error %v", fn, s.name, x, y, exactStr, err), rec())
		} else if fmt.Sprint(got) != exactStr {
			l.viol(fn+"/"+sg+"/wrong-value", fmt.Sprintf("%s[%s](%v,%v) = %v, exact result is %s", fn, s.name, x, y, got, exactStr), rec())
		}
	default:
		l.classes[fn+"/"+s.name+"/overflow"]++
		if err == nil {
			l.viol(fn+"/"+sg+"/wrapped", fmt.Sprintf("%s[%s](%v,%v) = %v,nil but exact result %s is not representable", fn, s.name, x, y, got, exactStr), rec())
		} else if !errors.Is(err, safemath.ErrIntegerOverflow) {
			l.viol(fn+"/"+sg+"/overflow-wrong-error", fmt.Sprintf("%s[%s](%v,%v) error %v is not ErrIntegerOverflow", fn, s.name, x, y, err), rec())
		}
	}
}

func toBig[T safemath.Integer](s spec, x T) *big.Int {
	if s.signed {
		return big.NewInt(int64(x))
	}
	return new(big.Int).SetUint64(uint64(x))
}

// pair runs the four binary operations on (x, y).
func pair[T safemath.Integer](l *local, s spec, x, y T) {
	if s.bits <= 16 {
		xi, yi := int64(x), int64(y)
		r, e := safemath.SafeAdd(x, y)
		verdict(l, s, "SafeAdd", x, y, r, e, xi+yi, nil, false)
		r, e = safemath.SafeSub(x, y)
		verdict(l, s, "SafeSub", x, y, r, e, xi-yi, nil, false)
		r, e = safemath.SafeMul(x, y)
		verdict(l, s, "SafeMul", x, y, r, e, xi*yi, nil, false)
		r, e = safeDiv(x, y)
		if yi == 0 {
			verdict(l, s, "SafeDiv", x, y, r, e, 0, nil, true)
		} else {
			verdict(l, s, "SafeDiv", x, y, r, e, xi/yi, nil, false)
		}
		return
	}
	xb, yb := toBig(s, x), toBig(s, y)
	r, e := safemath.SafeAdd(x, y)
	verdict(l, s, "SafeAdd", x, y, r, e, 0, new(big.Int).Add(xb, yb), false)
	r, e = safemath.SafeSub(x, y)
	verdict(l, s, "SafeSub", x, y, r, e, 0, new(big.Int).Sub(xb, yb), false)
	r, e = safemath.SafeMul(x, y)
	verdict(l, s, "SafeMul", x, y, r, e, 0, new(big.Int).Mul(xb, yb), false)
	r, e = safeDiv(x, y)
	if yb.Sign() == 0 {
		verdict(l, s, "SafeDiv", x, y, r, e, 0, nil, true)
	} else {
		verdict(l, s, "SafeDiv", x, y, r, e, 0, new(big.Int).Quo(xb, yb), false) // Quo truncates like Go
	}
}

// safeDiv shields the harness from the hardware trap-free but panicking cases.
func safeDiv[T safemath.Integer](x, y T) (r T, err error) {
	defer func() {
		if p := recover(); p != nil {
			err = fmt.Errorf("PANIC: %v", p)
		}
	}()
	return safemath.SafeDiv(x, y)
}

func shift[T safemath.Integer](l *local, s spec, v T, sh uint8) {
	r, e := safemath.SafeLeftShift(v, sh)
	exact := new(big.Int).Lsh(toBigAbs(s, v), uint(sh))
	if s.signed && int64(v) < 0 {
		exact.Neg(exact)
	}
	verdict(l, s, "SafeLeftShift", v, T(sh), r, e, 0, exact, false)
}

func toBigAbs[T safemath.Integer](s spec, x T) *big.Int {
	b := toBig(s, x)
	return b.Abs(b)
}

// boundary values of a type, as int64/uint64 bit patterns converted to T.
func boundaries[T safemath.Integer](s spec) []T {
	var out []T
	add := func(b *big.Int) {
		if b.Cmp(s.min()) < 0 || b.Cmp(s.max()) > 0 {
			return
		}
		if s.signed {
			out = append(out, T(b.Int64()))
		} else {
			out = append(out, T(b.Uint64()))
		}
	}
	for _, d := range []int64{0, 1, 2, 3, 5, 7, 10, 255, 256} {
		add(big.NewInt(d))
		add(big.NewInt(-d))
		add(new(big.Int).Add(s.min(), big.NewInt(d)))
		add(new(big.Int).Sub(s.max(), big.NewInt(d)))
	}
	for k := 1; k < s.bits; k++ {
		p := new(big.Int).Lsh(big.NewInt(1), uint(k))
		for _, d := range []int64{-1, 0, 1} {
			q := new(big.Int).Add(p, big.NewInt(d))
			add(q)
			add(new(big.Int).Neg(q))
		}
	}
	// sqrt(max) neighbourhood
	r := new(big.Int).Sqrt(s.max())
	for d := int64(-2); d <= 2; d++ {
		q := new(big.Int).Add(r, big.NewInt(d))
		add(q)
		add(new(big.Int).Neg(q))
	}
	return out
}

func randT[T safemath.Integer](s spec, rng *rand.Rand) T {
	u := rng.Uint64()
	// bias: random bit length
	if rng.Intn(3) == 0 {
		u >>= uint(rng.Intn(64))
	}
	switch rng.Intn(8) {
	case 0:
		// near a power of two
		u = (uint64(1) << uint(rng.Intn(s.bits))) + uint64(rng.Intn(5)) - 2
	case 1:
		if s.signed {
			u = uint64(-int64(u >> uint(64-s.bits+1+rng.Intn(s.bits-1))))
		}
	}
	return T(u)
}

// factorPair returns operands whose product is close to a representability border.
func factorPair[T safemath.Integer](s spec, rng *rand.Rand) (T, T) {
	border := s.max()
	if s.signed && rng.Intn(2) == 0 {
		border = new(big.Int).Neg(s.min())
	}
	if !s.signed && rng.Intn(4) == 0 {
		border = new(big.Int).Lsh(big.NewInt(1), uint(s.bits-1))
	}
	xb := new(big.Int).Rand(rng, new(big.Int).Lsh(big.NewInt(1), uint(1+rng.Intn(s.bits-1))))
	if xb.Sign() == 0 {
		xb.SetInt64(1)
	}
	yb := new(big.Int).Quo(border, xb)
	yb.Add(yb, big.NewInt(int64(rng.Intn(3)-1)))
	conv := func(b *big.Int, neg bool) T {
		if b.Cmp(s.max()) > 0 {
			b = s.max()
		}
		if s.signed {
			v := b.Int64()
			if neg {
				v = -v
			}
			return T(v)
		}
		return T(b.Uint64())
	}
	return conv(xb, s.signed && rng.Intn(2) == 0), conv(yb, s.signed && rng.Intn(2) == 0)
}

func runType[T safemath.Integer](c *vf.Ctx, s spec, workers int) {
	var mu sync.Mutex
	merge := func(l *local) {
		l.fold()
		mu.Lock()
		c.Count("evaluations", int(l.evals))
		for k, v := range l.classes {
			c.Count("class:"+k, int(v))
			c.Distinct("nontrivial", k)
		}
		for _, v := range l.viols {
			c.Violation(v.fp, v.what, v.rec)
		}
		mu.Unlock()
	}
	newLocal := func() *local { return &local{classes: map[string]int64{}} }
	bnd := boundaries[T](s)
	// defined types share the instantiation shape with their predeclared twins: a quarter of the sampled work suffices
	scale := 1
	if s.idx >= 8 {
		scale = 4
	}
	switch {
	case s.bits == 8:
		// exhaustive: all pairs, all shifts
		l := newLocal()
		for xi := 0; xi < 256; xi++ {
			for yi := 0; yi < 256; yi++ {
				pair(l, s, T(xi), T(yi))
			}
			for sh := 0; sh < 256; sh++ {
				shift(l, s, T(xi), uint8(sh))
			}
		}
		merge(l)
		c.Count("exhaustive_subspaces", 1)
	case s.bits == 16:
		if c.Quick() {
			l := newLocal()
			for _, x := range bnd {
				for _, y := range bnd {
					pair(l, s, x, y)
				}
			}
			merge(l)
			vf.Parallel(workers, workers, func(w int) {
				l := newLocal()
				rng := c.Rand(fmt.Sprintf("%s/%d", s.name, w))
				n := (1 << 20) / workers / scale
				for i := 0; i < n; i++ {
					if i%4 == 0 {
						x, y := factorPair[T](s, rng)
						pair(l, s, x, y)
					} else {
						pair(l, s, T(rng.Uint32()), T(rng.Uint32()))
					}
				}
				merge(l)
			})
			// all values x all shifts (2^24 calls) is cheap enough for quick: every 1st value
			vf.Parallel(16, workers, func(w int) {
				l := newLocal()
				for xi := w; xi < 65536; xi += 16 * scale {
					for sh := 0; sh < 256; sh++ {
						shift(l, s, T(xi), uint8(sh))
					}
				}
				merge(l)
			})
			if scale == 1 {
				c.Count("exhaustive_subspaces", 1) // 16-bit shifts
			}
		} else {
			// a quarter of the 2^32 pairs: every x with every y of a seeded residue class mod 4, plus every x
			// with every boundary y (the hive.go error path costs ~3 us per overflowing call, which makes the
			// full square ~40 CPU-minutes per type), split by x
			off := int(c.Seed&3+4) % 4
			for _, x := range bnd {
				_ = x
			}
			vf.Parallel(256, workers, func(w int) {
				l := newLocal()
				for xi := w * 256; xi < (w+1)*256; xi++ {
					for yi := off; yi < 65536; yi += 4 * scale {
						pair(l, s, T(xi), T(yi))
					}
					for _, y := range bnd {
						pair(l, s, T(xi), y)
					}
					for sh := 0; sh < 256; sh++ {
						shift(l, s, T(xi), uint8(sh))
					}
				}
				merge(l)
			})
			c.Count("exhaustive_subspaces", 1)
		}
	default:
		l := newLocal()
		for _, x := range bnd {
			for _, y := range bnd {
				pair(l, s, x, y)
			}
			for sh := 0; sh < 256; sh++ {
				shift(l, s, x, uint8(sh))
			}
		}
		merge(l)
		total := c.Pick(1<<18, 1<<22) / scale
		vf.Parallel(workers, workers, func(w int) {
			l := newLocal()
			rng := c.Rand(fmt.Sprintf("%s/%d", s.name, w))
			for i := 0; i < total/workers; i++ {
				var x, y T
				if i%3 == 0 {
					x, y = factorPair[T](s, rng)
				} else {
					x, y = randT[T](s, rng), randT[T](s, rng)
				}
				pair(l, s, x, y)
				shift(l, s, x, uint8(rng.Intn(256)))
				if i%16 == 0 {
					shift(l, s, y, uint8(rng.Intn(s.bits+2)))
				}
			}
			merge(l)
		})
	}
}

// 64-bit specials.
func run64(c *vf.Ctx, workers int) {
	u64 := specs[7]
	i64 := specs[6]
	var mu sync.Mutex
	one := func(l *local, x, y, d uint64) {
		xb, yb := new(big.Int).SetUint64(x), new(big.Int).SetUint64(y)
		r, e := safemath.SafeMulUint64(x, y)
		verdict(l, u64, "SafeMulUint64", x, y, r, e, 0, new(big.Int).Mul(xb, yb), false)
		xs, ys := int64(x), int64(y)
		rs, es := safemath.SafeMulInt64(xs, ys)
		verdict(l, i64, "SafeMulInt64", xs, ys, rs, es, 0, new(big.Int).Mul(big.NewInt(xs), big.NewInt(ys)), false)
		func() {
			defer func() {
				if p := recover(); p != nil {
					l.viol("Safe64MulDiv/panic", fmt.Sprintf("Safe64MulDiv(%d,%d,%d) panicked: %v", x, y, d, p), caseRec{Fn: "Safe64MulDiv", X: fmt.Sprint(x), Y: fmt.Sprint(y), Z: fmt.Sprint(d)})
				}
			}()
			r, e = safemath.Safe64MulDiv(x, y, d)
			if d == 0 {
				verdict(l, u64, "Safe64MulDiv", x, y, r, e, 0, nil, true)
			} else {
				q := new(big.Int).Mul(xb, yb)
				q.Quo(q, new(big.Int).SetUint64(d))
				verdict(l, u64, "Safe64MulDiv", x, y, r, e, 0, q, false)
			}
		}()
	}
	bnd := boundaries[uint64](u64)
	bndS := boundaries[int64](i64)
	for _, v := range bndS {
		bnd = append(bnd, uint64(v))
	}
	l := &local{classes: map[string]int64{}}
	for _, x := range bnd {
		for _, y := range bnd {
			one(l, x, y, 0)
			one(l, x, y, 1)
			one(l, x, y, x)
			one(l, x, y, y)
			one(l, x, y, math.MaxUint64)
			hi := new(big.Int).Mul(new(big.Int).SetUint64(x), new(big.Int).SetUint64(y))
			hi.Rsh(hi, 64)
			h := hi.Uint64()
			one(l, x, y, h)
			one(l, x, y, h+1)
			one(l, x, y, h-1)
		}
	}
	flush := func(l *local) {
		l.fold()
		mu.Lock()
		c.Count("evaluations", int(l.evals))
		for k, v := range l.classes {
			c.Count("class:"+k, int(v))
			c.Distinct("nontrivial", k)
		}
		for _, v := range l.viols {
			c.Violation(v.fp, v.what, v.rec)
		}
		mu.Unlock()
	}
	flush(l)
	total := c.Pick(1<<18, 1<<22)
	vf.Parallel(workers, workers, func(w int) {
		l := &local{classes: map[string]int64{}}
		rng := c.Rand(fmt.Sprintf("64/%d", w))
		for i := 0; i < total/workers; i++ {
			var x, y uint64
			switch i % 3 {
			case 0:
				x, y = factorPair[uint64](u64, rng)
			case 1:
				a, b := factorPair[int64](i64, rng)
				x, y = uint64(a), uint64(b)
			default:
				x, y = randT[uint64](u64, rng), randT[uint64](u64, rng)
			}
			hi := new(big.Int).Mul(new(big.Int).SetUint64(x), new(big.Int).SetUint64(y))
			hi.Rsh(hi, 64)
			d := hi.Uint64() + uint64(rng.Intn(5)) - 2
			if rng.Intn(4) == 0 {
				d = randT[uint64](u64, rng)
			}
			one(l, x, y, d)
		}
		flush(l)
	})
}

func replay(c *vf.Ctx) {
	var r caseRec
	if err := c.LoadReplay(&r); err != nil {
		fmt.Fprintln(os.Stderr, err)
		os.Exit(3)
	}
	l := &local{classes: map[string]int64{}}
	ps := func(bits int) (int64, uint64) {
		a, _ := strconv.ParseInt(r.X, 10, 64)
		b, _ := strconv.ParseUint(r.X, 10, 64)
		_ = bits
		return a, b
	}
	_ = ps
	xi, _ := strconv.ParseInt(r.X, 10, 64)
	yi, _ := strconv.ParseInt(r.Y, 10, 64)
	xu, _ := strconv.ParseUint(r.X, 10, 64)
	yu, _ := strconv.ParseUint(r.Y, 10, 64)
	zu, _ := strconv.ParseUint(r.Z, 10, 64)
	do := func(f func()) { f() }
	switch r.Type {
	case "int8":
		do(func() { pair(l, specs[0], int8(xi), int8(yi)); shift(l, specs[0], int8(xi), uint8(yi)) })
	case "uint8":
		do(func() { pair(l, specs[1], uint8(xu), uint8(yu)); shift(l, specs[1], uint8(xu), uint8(yu)) })
	case "int16":
		do(func() { pair(l, specs[2], int16(xi), int16(yi)); shift(l, specs[2], int16(xi), uint8(yi)) })
	case "uint16":
		do(func() { pair(l, specs[3], uint16(xu), uint16(yu)); shift(l, specs[3], uint16(xu), uint8(yu)) })
	case "int32":
		do(func() { pair(l, specs[4], int32(xi), int32(yi)); shift(l, specs[4], int32(xi), uint8(yi)) })
	case "uint32":
		do(func() { pair(l, specs[5], uint32(xu), uint32(yu)); shift(l, specs[5], uint32(xu), uint8(yu)) })
	case "int64":
		do(func() { pair(l, specs[6], xi, yi); shift(l, specs[6], xi, uint8(yi)) })
	case "uint64":
		do(func() { pair(l, specs[7], xu, yu); shift(l, specs[7], xu, uint8(yu)) })
	case "defined-int8":
		do(func() { pair(l, specs[8], dInt8(xi), dInt8(yi)); shift(l, specs[8], dInt8(xi), uint8(yi)) })
	case "defined-uint8":
		do(func() { pair(l, specs[9], dUint8(xu), dUint8(yu)); shift(l, specs[9], dUint8(xu), uint8(yu)) })
	case "defined-int16":
		do(func() { pair(l, specs[10], dInt16(xi), dInt16(yi)); shift(l, specs[10], dInt16(xi), uint8(yi)) })
	case "defined-uint16":
		do(func() { pair(l, specs[11], dUint16(xu), dUint16(yu)); shift(l, specs[11], dUint16(xu), uint8(yu)) })
	case "defined-int32":
		do(func() { pair(l, specs[12], dInt32(xi), dInt32(yi)); shift(l, specs[12], dInt32(xi), uint8(yi)) })
	case "defined-uint32":
		do(func() { pair(l, specs[13], dUint32(xu), dUint32(yu)); shift(l, specs[13], dUint32(xu), uint8(yu)) })
	case "defined-int64":
		do(func() { pair(l, specs[14], dInt64(xi), dInt64(yi)); shift(l, specs[14], dInt64(xi), uint8(yi)) })
	case "defined-uint64":
		do(func() { pair(l, specs[15], dUint64(xu), dUint64(yu)); shift(l, specs[15], dUint64(xu), uint8(yu)) })
	}
	_ = zu
	for _, v := range l.viols {
		if v.rec.Fn == r.Fn {
			c.Violation(v.fp, v.what, v.rec)
		}
	}
	c.Count("evaluations", int(l.evals))
}

var specs = []spec{{"int8", 8, true, 0}, {"uint8", 8, false, 1}, {"int16", 16, true, 2}, {"uint16", 16, false, 3},
	{"int32", 32, true, 4}, {"uint32", 32, false, 5}, {"int64", 64, true, 6}, {"uint64", 64, false, 7},
	// defined types (the functions are generic over ~T; type switches on predeclared types would misclassify these)
	{"defined-int8", 8, true, 8}, {"defined-uint8", 8, false, 9}, {"defined-int16", 16, true, 10}, {"defined-uint16", 16, false, 11},
	{"defined-int32", 32, true, 12}, {"defined-uint32", 32, false, 13}, {"defined-int64", 64, true, 14}, {"defined-uint64", 64, false, 15}}

// defined (named) integer types, as user code has them (e.g. type Mana uint64)
type (
	dInt8   int8
	dUint8  uint8
	dInt16  int16
	dUint16 uint16
	dInt32  int32
	dUint32 uint32
	dInt64  int64
	dUint64 uint64
)

func run(c *vf.Ctx) {
	if c.Replay != "" {
		replay(c)
		return
	}
	w := runtime.NumCPU()
	c.SetRule("each evaluation is one call of a safemath function (instantiated with the eight predeclared integer types and with eight defined types such as `type dUint64 uint64`) compared with exact arithmetic; 8-bit operand pairs and shifts and 16-bit shifts are enumerated completely; 16-bit pairs: boundary set squared + 2^20 seeded pairs (quick) or every x with every y of one residue class mod 4 and every boundary y (thorough), 32/64-bit use boundary values squared plus seeded operands biased to factor pairs at representability borders; distinct_nontrivial counts distinct (function, type, outcome class in {exact, overflow, divzero}) combinations actually observed")
	runType[int8](c, specs[0], w)
	runType[uint8](c, specs[1], w)
	runType[int16](c, specs[2], w)
	runType[uint16](c, specs[3], w)
	runType[int32](c, specs[4], w)
	runType[uint32](c, specs[5], w)
	runType[int64](c, specs[6], w)
	runType[uint64](c, specs[7], w)
	runType[dInt8](c, specs[8], w)
	runType[dUint8](c, specs[9], w)
	runType[dInt16](c, specs[10], w)
	runType[dUint16](c, specs[11], w)
	runType[dInt32](c, specs[12], w)
	runType[dUint32](c, specs[13], w)
	runType[dInt64](c, specs[14], w)
	runType[dUint64](c, specs[15], w)
	run64(c, w)
	c.SetExhaustive(false)
	c.Extra("exhaustive_note", "8-bit pair/shift spaces and 16-bit shift spaces enumerated completely on every run; 16-bit pairs and wider types sampled (thorough: a quarter of all 16-bit pairs)")
	c.Sample(map[string]any{"fn": "SafeMul", "type": "int8", "x": -1, "y": -128, "expected": "overflow error"})
	c.Sample(map[string]any{"fn": "SafeLeftShift", "type": "uint8", "val": 96, "shift": 2, "expected": "overflow error"})
	c.Sample(map[string]any{"fn": "Safe64MulDiv", "x": "2^63", "y": 2, "div": 1, "expected": "overflow error"})
	c.Require("evaluations", 1000000)
	c.Assume("math/big and int64 arithmetic are exact")
}

func main() { vf.Main("C19", "exploration", run, nil) }
