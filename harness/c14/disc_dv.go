// disc / DerivedVariable, Counter, InheritFrom – see disc.go. Values are ints (comparable value types): there is no
// caller-owned memory to scribble on; this family applies the re-entrancy and the failing-user-code disciplines.
package main

import (
	"fmt"
	"math/rand"

	"github.com/iotaledger/hive.go/ds/reactive"
)

type discDV struct {
	rng      *rand.Rand
	st       *runStats
	a        []reactive.Variable[int] // inputs
	z        reactive.Variable[int]   // unrelated input with its own derived value
	d        reactive.DerivedVariable[int]
	dd       reactive.DerivedVariable[int] // derived from d
	dz       reactive.DerivedVariable[int]
	c        reactive.Counter[int]
	t        reactive.Variable[int] // InheritFrom(a[0])
	extra    []reactive.Variable[int]
	armed    *reent
	hist     []string
	lateSubs bool
	condBoom bool
	ctorBoom bool
}

func dvF(x []int) int {
	s := 0
	for i, v := range x {
		s += (2*i + 3) * v
	}
	return s
}

func dvCond(v int) bool { return v > 2 || v == -1 }

func (d *discDV) hook(site string, i int) {
	r := d.armed
	if r == nil || r.site != site {
		return
	}
	d.armed = nil
	d.st.add("disc_reentrant_calls:"+site, 1)
	d.st.add("disc_reentrant_calls", 1)
	d.hist = append(d.hist, fmt.Sprintf("  re-entrant %s/%s (input %d)", site, r.action, i))
	rng := d.rng
	switch r.action {
	case "read-inputs":
		for _, v := range d.a {
			v.Get()
		}
		d.z.Get()
	case "read-derived":
		d.d.Get()
		d.dd.Get()
		d.c.Get()
		d.t.Get()
	case "write-unrelated":
		writeVar(d.z, varEntryPoints[rng.Intn(2)], 1+rng.Intn(9), 0)
	case "write-other-input":
		j := (i + 1 + rng.Intn(len(d.a)-1)) % len(d.a)
		d.a[j].Set(rng.Intn(9) - 3)
	default:
		panic("unknown re-entrant action " + r.action)
	}
}

func (d *discDV) verify(after string) *viol {
	in := make([]int, len(d.a))
	cnt := 0
	for i, v := range d.a {
		in[i] = v.Get()
		cnt += b2i(dvCond(in[i]))
	}
	for _, v := range d.extra {
		cnt += b2i(dvCond(v.Get()))
	}
	det := map[string]any{"history": d.hist, "inputs": in, "unrelated_input": d.z.Get()}
	for _, c := range []struct {
		name      string
		got, want int
	}{
		{fmt.Sprintf("derivedvariable%d", len(d.a)), d.d.Get(), dvF(in)},
		{"derivedvariable-chained", d.dd.Get(), d.d.Get() + 1000},
		{"derivedvariable1", d.dz.Get(), 7*d.z.Get() + 1},
		{"counter", d.c.Get(), cnt},
		{"inheritfrom", d.t.Get(), in[0]},
	} {
		if c.got != c.want {
			return &viol{"disc/" + c.name + "/diverges-after/" + after, fmt.Sprintf("%s = %d, its defining function of the current inputs gives %d (after %s)", c.name, c.got, c.want, after), det}
		}
	}
	return nil
}

func runDiscDV(rng *rand.Rand) (viols []viol, st runStats) {
	d := &discDV{rng: rng, st: &st}
	n := 2 + rng.Intn(2)
	st.shape = fmt.Sprintf("disc/dv/n%d", n)
	sub := func(v reactive.ReadableVariable[int], site string, i int) {
		v.OnUpdate(func(_, _ int) { d.hook(site, i) })
	}
	for i := 0; i < n; i++ {
		v := reactive.NewVariable[int]()
		if rng.Intn(2) == 0 {
			v.Init(rng.Intn(9) - 3)
		}
		d.a = append(d.a, v)
		sub(v, "dv/input-sub-early", i)
	}
	d.z = reactive.NewVariable[int]()
	if n == 2 {
		d.d = reactive.NewDerivedVariable2(func(_ int, x, y int) int {
			d.hook("dv/compute-fn", -1)
			return dvF([]int{x, y})
		}, d.a[0], d.a[1])
	} else {
		d.d = reactive.NewDerivedVariable3(func(_ int, x, y, w int) int {
			d.hook("dv/compute-fn", -1)
			return dvF([]int{x, y, w})
		}, d.a[0], d.a[1], d.a[2])
	}
	d.dd = reactive.NewDerivedVariable(func(_ int, x int) int { return x + 1000 }, d.d)
	d.dz = reactive.NewDerivedVariable(func(_ int, x int) int { return 7*x + 1 }, d.z)
	d.c = reactive.NewCounter[int](func(v int) bool {
		if d.condBoom {
			d.condBoom = false
			panic(thrown{})
		}
		d.hook("dv/condition", -1)
		return dvCond(v)
	})
	for _, v := range d.a {
		d.c.Monitor(v)
	}
	d.t = reactive.NewVariable[int]()
	d.t.InheritFrom(d.a[0])
	sub(d.d, "dv/derived-sub", -1)
	sub(d.dd, "dv/derived-sub", -1)
	sub(d.c, "dv/derived-sub", -1)
	sub(d.t, "dv/derived-sub", -1)

	fail := func(v *viol) ([]viol, runStats) {
		st.nontrivial = true
		return []viol{*v}, st
	}
	if v := d.verify("construction"); v != nil {
		return fail(v)
	}
	recovered := func(f func()) {
		defer func() {
			if r := recover(); r != nil {
				if _, ok := r.(thrown); !ok {
					panic(r)
				}
			}
		}()
		f()
	}
	steps := 8 + rng.Intn(40)
	for step := 0; step < steps; step++ {
		var label string
		switch c := rng.Intn(12); {
		case c < 5:
			sites := []string{"dv/compute-fn", "dv/condition", "dv/input-sub-early", "dv/derived-sub"}
			if d.lateSubs {
				sites = append(sites, "dv/input-sub-late")
			}
			r := pickReentry(rng, sites...)
			label = "reentrant:" + r.site + "/" + r.action
			i := rng.Intn(n)
			d.armed = r
			discEnter(r.site + "/" + r.action)
			d.hist = append(d.hist, fmt.Sprintf("armed %s; input %d changes", label, i))
			d.a[i].Set(d.a[i].Get() + 1 + rng.Intn(4))
			if d.armed != nil {
				d.armed = nil
				st.add("disc_reentry_site_not_reached", 1)
			}
		case c < 6:
			st.add("disc_failing_user_code_followed_by_use", 1)
			i := rng.Intn(n)
			discEnter("dv/input-compute-panics")
			d.hist = append(d.hist, fmt.Sprintf("input %d: Compute with a function that panics", i))
			computePanics(d.a[i])
			label = "input-Compute-panics"
		case c < 7 && len(d.extra) < 3:
			// a further input is monitored with a condition that panics at Monitor time; the input keeps a value
			// the condition does not hold for, so it contributes 0 whether or not the tree considers it monitored
			st.add("disc_failing_user_code_followed_by_use", 1)
			x := reactive.NewVariable[int]().Init(rng.Intn(3))
			d.extra = append(d.extra, x)
			d.condBoom = true
			discEnter("dv/condition-panics-at-monitor")
			d.hist = append(d.hist, "Counter.Monitor(new input) with a condition that panics")
			recovered(func() { d.c.Monitor(x) })
			d.condBoom = false
			label = "Monitor-condition-panics"
		case c < 8:
			// a DerivedVariable whose compute function panics inside the constructor: its inputs stay usable
			st.add("disc_failing_user_code_followed_by_use", 1)
			i, j := rng.Intn(n), rng.Intn(n)
			if i == j {
				continue
			}
			boom := true
			discEnter("dv/constructor-compute-panics")
			d.hist = append(d.hist, fmt.Sprintf("NewDerivedVariable2(inputs %d, %d) with a compute function that panics once", i, j))
			recovered(func() {
				reactive.NewDerivedVariable2(func(_ int, x, y int) int {
					if boom {
						boom = false
						panic(thrown{})
					}
					return x - y
				}, d.a[i], d.a[j])
			})
			label = "constructor-compute-panics"
		default:
			i := rng.Intn(n + 1)
			ep := varEntryPoints[rng.Intn(len(varEntryPoints))]
			val := rng.Intn(9) - 3
			v := d.z
			if i < n {
				v = d.a[i]
			}
			d.hist = append(d.hist, fmt.Sprintf("input %d: %s(%d)", i, ep, val))
			writeVar(v, ep, val, 0)
			label = "input-write/" + ep
		}
		d.armed = nil
		discLeave()
		st.ops++
		if v := d.verify(label); v != nil {
			return fail(v)
		}
		if step == steps/3 && !d.lateSubs {
			d.lateSubs = true
			for i, v := range d.a {
				sub(v, "dv/input-sub-late", i)
			}
		}
	}
	st.nontrivial = true
	return
}
