// disc / SortedSet – see disc.go.
package main

import (
	"fmt"
	"math/rand"

	"github.com/iotaledger/hive.go/ds"
	"github.com/iotaledger/hive.go/ds/reactive"
)

// hlel: element type with a Less method that is user code too (it runs under the SortedSet mutex).
type hlel struct{ ID int }

var hlelHook func()

func (a hlel) Less(b hlel) bool {
	if h := hlelHook; h != nil {
		h()
	}
	return a.ID < b.ID
}

var hlelKind = elemKind[hlel]{"lessable-with-hook", func(i int) hlel { return hlel{i} }, func(e hlel) int { return e.ID }, func(a, b hlel) bool { return a.ID < b.ID }}

type discSS[E comparable] struct {
	*ssEnv[E]
	rng    *rand.Rand
	st     *runStats
	bag    *heldBag
	member uint32 // model of the membership
	armed  *reent
	// elements that are present (absent) before AND after the step that is being executed, without the element the
	// step is about: what re-entrant actions may pick as "other"
	stablePresent, stableAbsent uint32
	filler                      []E
	hist                        []string
	lateSubs                    bool
	argViol                     *viol
}

func (d *discSS[E]) key(e E) int { return d.k.id(e) }

func (d *discSS[E]) all() uint32 { return (uint32(1)<<uint(d.U+1) - 1) &^ 1 }

// hook is called from every user-code site.
func (d *discSS[E]) hook(site string, own int) {
	r := d.armed
	if r == nil || r.site != site {
		return
	}
	d.armed = nil
	d.st.add("disc_reentrant_calls:"+site, 1)
	d.st.add("disc_reentrant_calls", 1)
	d.hist = append(d.hist, fmt.Sprintf("  re-entrant %s/%s (element %d)", site, r.action, own))
	ss, w := d.ss, d.w
	switch r.action {
	case "has":
		ss.Has(d.k.mk(1))
	case "size":
		ss.Size()
	case "toslice":
		holdSlice(d.bag, "ToSlice:in-callback", ss.ToSlice(), d.key, d.filler)
	case "desc":
		holdSlice(d.bag, "Descending:in-callback", ss.Descending(), d.key, d.filler)
	case "asc":
		holdSlice(d.bag, "Ascending:in-callback", ss.Ascending(), d.key, d.filler)
	case "heavy":
		ss.HeaviestElement().Get()
	case "light":
		ss.LightestElement().Get()
	case "wget":
		w[1+d.rng.Intn(d.U)].Get()
	case "wset-other-present":
		if x := pickBit(d.rng, d.stablePresent); x > 0 {
			w[x].Set(w[x].Get() + 1 + d.rng.Intn(5))
		}
	case "wset-other-absent":
		if x := pickBit(d.rng, d.stableAbsent); x > 0 {
			w[x].Set(d.rng.Intn(9) - 3)
		}
	case "wset-own":
		w[own].Set(w[own].Get() + 1 + d.rng.Intn(7))
	case "add-other":
		if x := pickBit(d.rng, d.stableAbsent); x > 0 {
			ss.Add(d.k.mk(x))
			d.member |= 1 << uint(x)
		}
	case "delete-other":
		if x := pickBit(d.rng, d.stablePresent); x > 0 {
			ss.Delete(d.k.mk(x))
			d.member &^= 1 << uint(x)
		}
	case "delete-own":
		ss.Delete(d.k.mk(own))
		d.member &^= 1 << uint(own)
	case "delete-add-own":
		ss.Delete(d.k.mk(own))
		ss.Add(d.k.mk(own))
		d.member |= 1 << uint(own)
	default:
		panic("unknown re-entrant action " + r.action)
	}
}

func (d *discSS[E]) stable(own int) {
	d.stablePresent = d.member &^ (1 << uint(own))
	d.stableAbsent = d.all() &^ d.member &^ (1 << uint(own))
}

// verify: held objects unchanged, membership = model, SortedSet oracle.
func (d *discSS[E]) verify(after string) *viol {
	det := func(m map[string]any) map[string]any {
		if m == nil {
			m = map[string]any{}
		}
		m["history"] = d.hist
		m["element_type"] = d.k.name
		return m
	}
	if d.argViol != nil {
		return d.argViol
	}
	if which, what := d.bag.recheck(); which != "" {
		return &viol{"disc/sortedset/held-result-changed/" + which, what + " (after " + after + ")", det(nil)}
	}
	if got := keysOf[E](d.ss, d.key); got != d.member {
		return &viol{"disc/sortedset/elements-differ-from-model-after/" + fpLabel(after), fmt.Sprintf("the SortedSet holds %s, the history of writes gives %s (after %s)", mstr(got), mstr(d.member), after), det(nil)}
	}
	if kind, what, m := d.check(); kind != "" {
		return &viol{"disc/sortedset/" + kind + "-after/" + fpLabel(after), "sequential history: after " + after + ": " + what, det(m)}
	}
	return nil
}

func (d *discSS[E]) capture() {
	ss := d.ss
	switch d.rng.Intn(6) {
	case 0:
		holdSlice(d.bag, "Descending", ss.Descending(), d.key, d.filler)
	case 1:
		holdSlice(d.bag, "Ascending", ss.Ascending(), d.key, d.filler)
	case 2:
		holdSlice(d.bag, "Descending", ss.Descending(), d.key, d.filler)
		holdSlice(d.bag, "Descending:second-call", ss.Descending(), d.key, d.filler)
		holdSlice(d.bag, "Ascending", ss.Ascending(), d.key, d.filler)
	case 3:
		holdSlice(d.bag, "ToSlice", ss.ToSlice(), d.key, d.filler)
	case 4:
		holdSet(d.bag, "Clone", ss.Clone(), d.key, d.filler)
	}
}

func runDiscSS[E comparable](k elemKind[E], rng *rand.Rand) (viols []viol, st runStats) {
	U := 3 + rng.Intn(5)
	st.shape = fmt.Sprintf("disc/ss/%s/u%d", k.name, U)
	d := &discSS[E]{rng: rng, st: &st}
	d.bag = &heldBag{st: &st, rng: rng}
	env := &ssEnv[E]{k: k, U: U, w: make([]reactive.Variable[int], U+1)}
	d.ssEnv = env
	for i := 0; i <= U+2; i++ {
		d.filler = append(d.filler, k.mk(i))
	}
	for i := range env.w {
		env.w[i] = reactive.NewVariable[int]()
		if rng.Intn(2) == 0 {
			env.w[i].Init(rng.Intn(7) - 2)
		}
		i := i
		env.w[i].OnUpdate(func(_, _ int) { d.hook("ss/weight-subscriber-early", i) })
	}
	env.ss = reactive.NewSortedSet[E, int](func(el E) reactive.Variable[int] {
		d.hook("ss/weightfn", k.id(el))
		return env.w[k.id(el)]
	})
	hlelHook = func() { d.hook("ss/less", 0) }
	defer func() { hlelHook = nil }()
	// the LAST subscriber of the set (behind the internal one): keeps what it is handed, re-enters
	env.ss.OnUpdate(func(m ds.SetMutations[E]) {
		st.add("disc_callback_mutations_held", 1)
		holdSet(d.bag, "OnUpdate-mutations:added", m.AddedElements(), d.key, d.filler)
		holdSet(d.bag, "OnUpdate-mutations:deleted", m.DeletedElements(), d.key, d.filler)
		own := 0
		m.AddedElements().Range(func(e E) { own = k.id(e) })
		m.DeletedElements().Range(func(e E) { own = k.id(e) })
		d.hook("ss/subscriber", own)
	})
	env.ss.HeaviestElement().OnUpdate(func(_, _ E) { d.hook("ss/heaviest-subscriber", 0) })
	env.ss.LightestElement().OnUpdate(func(_, _ E) { d.hook("ss/heaviest-subscriber", 0) })

	fail := func(v *viol) ([]viol, runStats) {
		st.nontrivial = true
		return []viol{*v}, st
	}
	n := 8 + rng.Intn(40)
	for i := 0; i < n; i++ {
		var label string
		switch c := rng.Intn(10); {
		case c < 4:
			label = d.reentrantStep()
		case c < 5:
			label = d.panicStep()
		default:
			label = d.plainStep()
		}
		if label == "" {
			continue
		}
		d.armed = nil
		discLeave()
		st.ops++
		if v := d.verify(label); v != nil {
			return fail(v)
		}
		if i == n/3 && !d.lateSubs {
			d.lateSubs = true
			for x := 1; x <= U; x++ {
				x := x
				env.w[x].OnUpdate(func(_, _ int) { d.hook("ss/weight-subscriber-late", x) })
			}
		}
		d.capture()
		if which, what := d.bag.recheck(); which != "" { // taking one result must not change another
			return fail(&viol{"disc/sortedset/held-result-changed/" + which, what + " (after further read calls)", map[string]any{"history": d.hist}})
		}
		var sv *viol
		d.bag.tick(func(s string) bool {
			d.hist = append(d.hist, "caller scribbles on "+s)
			sv = d.verify("scribbling:" + s)
			return sv == nil
		})
		if sv != nil {
			return fail(sv)
		}
	}
	st.nontrivial = true
	return
}

// plainStep: one write through an exported entry point with caller-owned arguments.
func (d *discSS[E]) plainStep() string {
	rng, ss := d.rng, d.ss
	s := genSSStep(rng, d.U, allElems(d.U), []string{"add", "add", "delete", "weight", "weight", "wcompute", "wentry", "apply", "addall", "deleteall", "toggle", "replace"})
	d.hist = append(d.hist, fmt.Sprintf("%s %+v", s.Kind, s))
	argCheck := func(ep string, arg ds.Set[E], want uint32) {
		if got := keysOf[E](arg, d.key); got != want {
			d.argViol = &viol{"disc/sortedset/argument-changed-by-call/" + ep, fmt.Sprintf("the set passed to %s held %s before the call and holds %s when it returns", ep, mstr(want), mstr(got)), map[string]any{"history": d.hist}}
		}
		scribbleArg(rng, d.st, arg, d.filler)
	}
	switch s.Kind {
	case "addall":
		arg := d.set(s.A)
		ret := ss.AddAll(arg)
		d.member |= s.A
		argCheck("AddAll", arg, s.A)
		holdSet(d.bag, "AddAll-result", ret, d.key, d.filler)
	case "deleteall":
		arg := d.set(s.A)
		ret := ss.DeleteAll(arg)
		d.member &^= s.A
		argCheck("DeleteAll", arg, s.A)
		holdSet(d.bag, "DeleteAll-result", ret, d.key, d.filler)
	case "replace":
		arg := d.set(s.A)
		ret := ss.Replace(arg)
		d.member = s.A
		argCheck("Replace", arg, s.A)
		holdSet(d.bag, "Replace-result", ret, d.key, d.filler)
	case "apply":
		a, b := d.set(s.A), d.set(s.B)
		ret := ss.Apply(ds.NewSetMutations[E]().WithAddedElements(a).WithDeletedElements(b))
		d.member = (d.member | s.A) &^ s.B
		argCheck("Apply", a, s.A)
		argCheck("Apply", b, s.B)
		holdSet(d.bag, "Apply-result:added", ret.AddedElements(), d.key, d.filler)
		holdSet(d.bag, "Apply-result:deleted", ret.DeletedElements(), d.key, d.filler)
	case "toggle":
		// Compute: the mutations the factory returns stay the caller's
		bit := uint32(1) << uint(s.E)
		var a, b ds.Set[E]
		var wa, wb uint32
		ret := ss.Compute(func(cur ds.ReadableSet[E]) ds.SetMutations[E] {
			if cur.Has(d.k.mk(s.E)) {
				wb = bit
			} else {
				wa = bit
			}
			a, b = d.set(wa), d.set(wb)
			return ds.NewSetMutations[E]().WithAddedElements(a).WithDeletedElements(b)
		})
		d.member ^= bit
		argCheck("Compute", a, wa)
		argCheck("Compute", b, wb)
		holdSet(d.bag, "Compute-result:added", ret.AddedElements(), d.key, d.filler)
		holdSet(d.bag, "Compute-result:deleted", ret.DeletedElements(), d.key, d.filler)
	case "add":
		d.exec(s)
		d.member |= 1 << uint(s.E)
	case "delete":
		d.exec(s)
		d.member &^= 1 << uint(s.E)
	default:
		d.exec(s)
	}
	return s.Kind
}

// panicStep: user code that panics where the unchanged tree stays usable.
func (d *discSS[E]) panicStep() string {
	recovered := func(f func()) {
		defer func() {
			if r := recover(); r != nil {
				if _, ok := r.(thrown); !ok {
					panic(r)
				}
			}
		}()
		f()
	}
	d.st.add("disc_failing_user_code_followed_by_use", 1)
	if d.rng.Intn(2) == 0 {
		discEnter("ss/compute-factory-panics")
		d.hist = append(d.hist, "SortedSet.Compute with a factory that panics")
		recovered(func() { d.ss.Compute(func(ds.ReadableSet[E]) ds.SetMutations[E] { panic(thrown{}) }) })
		return "Compute-factory-panics"
	}
	x := 1 + d.rng.Intn(d.U)
	discEnter("ss/weight-compute-panics")
	d.hist = append(d.hist, fmt.Sprintf("weight[%d].Compute with a function that panics", x))
	computePanics(d.w[x])
	return "weight-Compute-panics"
}

// reentrantStep arms one (site, action) pair and performs a write that reaches the site.
func (d *discSS[E]) reentrantStep() string {
	rng, ss, w := d.rng, d.ss, d.w
	sites := []string{"ss/weightfn", "ss/subscriber", "ss/heaviest-subscriber", "ss/weight-subscriber-early", "ss/compute-factory"}
	if d.lateSubs {
		sites = append(sites, "ss/weight-subscriber-late")
	}
	if d.k.less != nil {
		sites = append(sites, "ss/less", "ss/less")
	}
	r := pickReentry(rng, sites...)
	label := "reentrant:" + r.site + "/" + r.action
	absent, present := d.all()&^d.member, d.member
	arm := func(own int) {
		d.stable(own)
		d.armed = r
		discEnter(r.site + "/" + r.action)
		d.hist = append(d.hist, "armed "+label)
	}
	switch r.site {
	case "ss/weightfn":
		x := pickBit(rng, absent)
		if x < 0 {
			return ""
		}
		arm(x)
		ss.Add(d.k.mk(x))
		d.member |= 1 << uint(x)
	case "ss/subscriber":
		if x := pickBit(rng, absent); x > 0 && (rng.Intn(2) == 0 || present == 0) {
			arm(x)
			ss.Add(d.k.mk(x))
			d.member |= 1 << uint(x)
		} else if x := pickBit(rng, present); x > 0 {
			arm(x)
			ss.Delete(d.k.mk(x))
			d.member &^= 1 << uint(x)
		} else {
			return ""
		}
	case "ss/heaviest-subscriber":
		// make a present element that is not the heaviest the heaviest one
		desc := ss.Descending()
		if len(desc) < 2 {
			return ""
		}
		x := d.k.id(desc[1+rng.Intn(len(desc)-1)])
		arm(x)
		w[x].Set(w[d.k.id(desc[0])].Get() + 1 + rng.Intn(3))
	case "ss/weight-subscriber-early", "ss/weight-subscriber-late":
		x := 1 + rng.Intn(d.U)
		arm(x)
		w[x].Set(w[x].Get() + 1 + rng.Intn(5))
	case "ss/compute-factory":
		x := 1 + rng.Intn(d.U)
		arm(x)
		bit := uint32(1) << uint(x)
		ss.Compute(func(cur ds.ReadableSet[E]) ds.SetMutations[E] {
			d.hook("ss/compute-factory", x)
			if cur.Has(d.k.mk(x)) {
				return ds.NewSetMutations[E]().WithDeletedElements(ds.NewSet(d.k.mk(x)))
			}
			return ds.NewSetMutations[E](d.k.mk(x))
		})
		d.member ^= bit
	case "ss/less":
		// create a tie between two present elements: Less decides
		desc := ss.Descending()
		if len(desc) < 2 {
			return ""
		}
		i := rng.Intn(len(desc))
		j := (i + 1 + rng.Intn(len(desc)-1)) % len(desc)
		x := d.k.id(desc[i])
		if w[x].Get() == w[d.k.id(desc[j])].Get() {
			return ""
		}
		arm(x)
		w[x].Set(w[d.k.id(desc[j])].Get())
	}
	if d.armed != nil {
		d.armed = nil
		d.st.add("disc_reentry_site_not_reached", 1)
	}
	return label
}
