// C14 – derived reactive values converge to their defining function; no
// combination of input changes and structural changes dead-locks.
//
// Oracle at quiescence (all writer goroutines joined; in sequential scenarios
// after every single step, which names the step kind that broke it): the
// defining function is recomputed from the inputs' current Get()/ToSlice().
// Scenarios (each in plain, timer-free children decided by the Go runtime
// dead-lock detector, and in -race children decided by the goroutine-snapshot
// rule):
//
//	dv        DerivedVariable1-4, Variable.InheritFrom (toggled), DeriveValueFrom
//	dset      DerivedSet = union of the currently inherited sources (sources
//	          inherited/unsubscribed while written; Replace on sources)
//	subtract  SubtractReactive = source minus the others
//	counter   Counter = number of monitored inputs satisfying the condition
//	ss-seq    SortedSet, one goroutine, oracle after every step
//	ss-owner  SortedSet, goroutines own disjoint elements (add/delete/re-add/weights)
//	ss-addw   SortedSet, elements added while other goroutines update their weights
//	ss-dl     SortedSet, Delete+Add of elements whose weights are updated concurrently
//	          (own children: the dead-lock found here must not hide the others)
//	wg        WaitGroup: not triggered while z pending, triggered when Done(z) returns
//	evict     EvictionState: event(s) triggered iff s <= last evicted slot
package main

import (
	"fmt"
	"math/bits"
	"math/rand"
	"os"
	"runtime"
	"runtime/debug"
	"strconv"
	"sync"
	"sync/atomic"
	"time"

	"github.com/iotaledger/hive.go/ds"
	"github.com/iotaledger/hive.go/ds/reactive"
	"verif/harness/internal/gdump"
	"verif/harness/internal/vf"
)

type viol struct {
	fp, what string
	detail   any
}

type runStats struct {
	ops, structural int
	nontrivial      bool
	shape           string
	extra           map[string]int
}

func (s *runStats) add(k string, n int) {
	if s.extra == nil {
		s.extra = map[string]int{}
	}
	s.extra[k] += n
}

type panicRec struct {
	Who   string `json:"who"`
	Value string `json:"value"`
	Stack string `json:"stack"`
}

type panics struct {
	mu  sync.Mutex
	rec []panicRec
}

// theCtx lets a recovered panic be reported at once: a panic inside a callback leaves hive.go's execution locks
// held (they are not released by defer), so the rest of the run may block for ever.
var theCtx *vf.Ctx

func (p *panics) guard(who string) {
	if r := recover(); r != nil {
		p.mu.Lock()
		st := string(debug.Stack())
		if len(st) > 3000 {
			st = st[:3000]
		}
		rec := panicRec{who, fmt.Sprint(r), st}
		p.rec = append(p.rec, rec)
		p.mu.Unlock()
		if theCtx != nil {
			scn, _ := curScenario.Load().(string)
			theCtx.Violation("panic/"+scn+"/"+digitsRe.ReplaceAllString(rec.Value, "N"), "panic inside a hive.go call ("+who+"): "+rec.Value, caseRef{Scenario: scn, Run: int(curRun.Load()), Race: raceBuild, Seed: theCtx.Seed, Detail: rec})
		}
	}
}

// span of one goroutine's activity in ticks; two overlapping spans = the
// goroutines really ran concurrently.
type span struct{ a, b uint64 }

func overlapping(sp []span) int {
	n := 0
	for i := range sp {
		for j := i + 1; j < len(sp); j++ {
			if sp[i].b != 0 && sp[j].b != 0 && sp[i].a < sp[j].b && sp[j].a < sp[i].b {
				n++
			}
		}
	}
	return n
}

// group runs goroutines from a common start barrier and joins them.
type group struct {
	wg    sync.WaitGroup
	start chan struct{}
	pn    panics
	mu    sync.Mutex
	spans []span
}

func newGroup() *group { return &group{start: make(chan struct{})} }

func (g *group) spawn(who string, f func()) {
	g.wg.Add(1)
	go func() {
		defer g.wg.Done()
		defer g.pn.guard(who)
		<-g.start
		a := tick()
		f()
		b := tick()
		g.mu.Lock()
		g.spans = append(g.spans, span{a, b})
		g.mu.Unlock()
	}()
}

func (g *group) run() {
	close(g.start)
	g.wg.Wait()
}

func maskOf(s ds.ReadableSet[int]) (m uint32) {
	s.Range(func(e int) { m |= 1 << uint(e) })
	return
}

func setOf(m uint32) ds.Set[int] {
	s := ds.NewSet[int]()
	for m != 0 {
		e := bits.TrailingZeros32(m)
		s.Add(e)
		m &^= 1 << uint(e)
	}
	return s
}

func mstr(m uint32) string {
	out := "{"
	for e := 0; e < 32; e++ {
		if m&(1<<uint(e)) != 0 {
			if len(out) > 1 {
				out += ","
			}
			out += strconv.Itoa(e)
		}
	}
	return out + "}"
}

// ============================================================== DerivedVariable / InheritFrom

func runDV(rng *rand.Rand) (viols []viol, st runStats) {
	n := 1 + rng.Intn(4)
	wPer := 1 + rng.Intn(2)
	rounds := 3 + rng.Intn(16)
	st.shape = fmt.Sprintf("dv/n%d/w%d", n, wPer)
	in := make([]reactive.Variable[int], 4)
	for i := range in {
		in[i] = reactive.NewVariable[int]()
		if i < n && rng.Intn(2) == 0 {
			in[i].Init(rng.Intn(1000))
		}
	}
	f := func(x ...int) int {
		r, m := 0, 1
		for _, v := range x {
			r += v * m
			m *= 1000
		}
		return r
	}
	var d reactive.DerivedVariable[int]
	var dInit []int // optional initial value of the derived variable; it must be replaced by compute(inputs) at once
	if rng.Intn(3) == 0 {
		dInit = []int{555}
	}
	switch n {
	case 1:
		d = reactive.NewDerivedVariable[int](func(_ int, a int) int { return f(a) }, in[0], dInit...)
	case 2:
		d = reactive.NewDerivedVariable2[int](func(_ int, a, b int) int { return f(a, b) }, in[0], in[1], dInit...)
	case 3:
		d = reactive.NewDerivedVariable3[int](func(_ int, a, b, c int) int { return f(a, b, c) }, in[0], in[1], in[2], dInit...)
	case 4:
		d = reactive.NewDerivedVariable4[int](func(_ int, a, b, c, e int) int { return f(a, b, c, e) }, in[0], in[1], in[2], in[3], dInit...)
	}
	inh := reactive.NewVariable[int]()
	inh.InheritFrom(d)
	second := reactive.NewDerivedVariable[int](func(_ int, x int) int { return 2*x + 1 }, d)
	dvf := reactive.NewVariable[int]()
	dvf.DeriveValueFrom(second)
	tog := reactive.NewVariable[int]()
	if rng.Intn(2) == 0 {
		tog.Init(777) // the inheriting variable already holds a value; a zero source must overwrite it, too
		st.add("inherit_target_nonzero_at_attach", 1)
	}
	unsubTog := tog.InheritFrom(d)
	for i := 0; i < n; i++ {
		if in[i].Get() != 0 {
			st.add("dv_inputs_nonzero_at_creation", 1)
		} else {
			st.add("dv_inputs_zero_at_creation", 1)
		}
	}

	type step struct {
		kind, val, y int
		ep           string // "" = Set (kind 0, 1) / Compute (kind 2); else one of the other exported write entry points
	}
	overl := 0
	// targets attached (InheritFrom / DeriveValueFrom / new DerivedVariable on existing inputs) while the source is
	// being written; they stay attached and are checked at every later quiescent point
	type attached struct {
		Kind      string
		Src, Src2 int
		Call, Ret uint64
		Det       bool // attached from inside a writer's callback (deterministic overlap), not by the racing attacher
		get       func() int
		want      func() int
	}
	var amu sync.Mutex
	var atts []*attached
	var zeroWrites [4][]span // tick intervals of writes of the zero value, per input
	attach := func(kind, j, j2 int, det bool) {
		a := &attached{Src: j, Src2: j2, Det: det}
		a.Call = tick()
		switch kind {
		case 0:
			a.Kind = "inheritfrom"
			t := reactive.NewVariable[int]()
			if j2%2 == 0 {
				t.Init(777)
			}
			t.InheritFrom(in[j])
			a.get, a.want = t.Get, in[j].Get
		case 1:
			a.Kind = "derivevaluefrom"
			t := reactive.NewVariable[int]()
			t.DeriveValueFrom(reactive.NewDerivedVariable[int](func(_ int, x int) int { return x }, in[j]))
			a.get, a.want = t.Get, in[j].Get
		case 2:
			a.Kind = "derivedvariable1"
			t := reactive.NewDerivedVariable[int](func(_ int, x int) int { return 3 * x }, in[j])
			a.get, a.want = t.Get, func() int { return 3 * in[j].Get() }
		default:
			a.Kind = "derivedvariable2"
			t := reactive.NewDerivedVariable2[int](func(_ int, x, y int) int { return f(x, y) }, in[j], in[j2])
			a.get, a.want = t.Get, func() int { return f(in[j].Get(), in[j2].Get()) }
		}
		a.Ret = tick()
		amu.Lock()
		atts = append(atts, a)
		amu.Unlock()
	}
	// every round ends in a quiescent point (all writers joined) at which the oracle is evaluated; round -1 is the
	// state right after construction (initial-value paths: inputs / sources that were already set)
	// Deterministic overlap (independent of the parallelism the machine offers): a subscriber of each input performs a
	// planned attach from inside the callback of a write of the zero value, i.e. while that writer is between its value
	// update and its return. The racing attacher goroutine below stays on top of this.
	var armed [4]atomic.Int32 // 0: not armed, else 1 + kind
	var armedJ2 [4]int
	for i := 0; i < n; i++ {
		i := i
		in[i].OnUpdate(func(_, nv int) {
			if nv == 0 {
				if k := armed[i].Swap(0); k != 0 {
					attach(int(k-1), i, armedJ2[i], true)
				}
			}
		})
	}
	for r := -1; r < rounds; r++ {
		g := newGroup()
		armedInput := -1
		if r >= 0 && rng.Intn(3) == 0 {
			armedInput = rng.Intn(n)
			armedJ2[armedInput] = rng.Intn(n)
			armed[armedInput].Store(int32(1 + rng.Intn(4)))
			st.structural++
		}
		for i := 0; i < n && r >= 0; i++ {
			for w := 0; w < wPer; w++ {
				plan := make([]step, 1+rng.Intn(3))
				for k := range plan {
					plan[k] = step{kind: rng.Intn(3), val: rng.Intn(1000), y: rng.Intn(3)}
					if rng.Intn(5) < 2 {
						plan[k] = step{kind: 0, val: 0, y: rng.Intn(3)} // the zero value as a written value (X -> 0 -> X ...)
					}
					if rng.Intn(3) == 0 { // every other exported write entry point of the Variable interface
						plan[k].ep = varEntryPointsBeyondSetCompute[rng.Intn(len(varEntryPointsBeyondSetCompute))]
						st.add("writes_beyond_set_compute", 1)
					}
				}
				if i == armedInput && w == 0 {
					plan = append(plan, step{kind: 0, val: 1 + rng.Intn(999)}, step{}) // X, then back to the zero value
				}
				st.ops += len(plan)
				v := in[i]
				g.spawn(fmt.Sprintf("writer of input %d", i), func() {
					for _, s := range plan {
						yield(s.y)
						switch {
						case s.ep != "":
							t0 := tick()
							writeVar(v, s.ep, s.val, 1000)
							if endsAtZero(s.ep, s.val) {
								t1 := tick()
								amu.Lock()
								zeroWrites[i] = append(zeroWrites[i], span{t0, t1})
								amu.Unlock()
							}
						case s.kind < 2:
							t0 := tick()
							v.Set(s.val)
							if s.val == 0 {
								t1 := tick()
								amu.Lock()
								zeroWrites[i] = append(zeroWrites[i], span{t0, t1})
								amu.Unlock()
							}
						default:
							v.Compute(func(c int) int { return (c + s.val) % 1000 })
						}
						progress.Add(1)
					}
				})
			}
		}
		if r >= 0 && rng.Intn(3) == 0 {
			y := rng.Intn(10)
			st.structural++
			g.spawn("inheritance toggler", func() {
				yield(y)
				unsubTog()
				yield(y / 2)
				unsubTog = tog.InheritFrom(d)
				progress.Add(1)
			})
		}
		if r >= 0 && rng.Intn(3) != 0 {
			type at struct{ kind, j, j2, y int }
			plan := make([]at, 1+rng.Intn(3))
			for k := range plan {
				plan[k] = at{rng.Intn(4), rng.Intn(n), rng.Intn(n), rng.Intn(4)}
			}
			st.structural += len(plan)
			g.spawn("attacher", func() {
				for _, p := range plan {
					yield(p.y)
					attach(p.kind, p.j, p.j2, false)
					progress.Add(1)
				}
			})
		}
		g.run()
		overl += overlapping(g.spans)
		st.nontrivial = overl > 0
		if len(g.pn.rec) > 0 {
			return nil, st // reported by the guard
		}
		for _, a := range atts {
			for _, j := range []int{a.Src, a.Src2} {
				for _, z := range zeroWrites[j] {
					if a.Ret != 0 && z.a < a.Ret && a.Call < z.b {
						st.add("attaches_overlapping_zero_write", 1)
						if a.Det {
							st.add("attaches_inside_zero_write_callback", 1)
						} else {
							st.add("attaches_racing_zero_write", 1)
						}
						a.Ret = 0 // counted once
					}
				}
			}
			if got, want := a.get(), a.want(); got != want {
				return []viol{{a.Kind + "/diverges-after-concurrent-attach", fmt.Sprintf("%s attached to input %d while it was being written (values incl. the zero value) holds %d, its defining function of the current inputs is %d (round %d)", a.Kind, a.Src, got, want, r), map[string]any{"kind": a.Kind, "source": a.Src, "source2": a.Src2, "got": got, "want": want, "round": r}}}, st
			}
		}
		for i := range zeroWrites {
			zeroWrites[i] = zeroWrites[i][:0]
			armed[i].Store(0)
		}
		vals := make([]int, n)
		for i := range vals {
			vals[i] = in[i].Get()
		}
		want := f(vals...)
		det := map[string]any{"round": r, "inputs": vals, "want": want, "derived": d.Get(), "inherit": inh.Get(), "second": second.Get(), "deriveValueFrom": dvf.Get(), "toggled_inherit": tog.Get()}
		if got := d.Get(); got != want {
			return []viol{{fmt.Sprintf("derivedvariable%d/diverges", n), fmt.Sprintf("DerivedVariable%d = %d but compute(inputs %v) = %d after all writers returned", n, got, vals, want), det}}, st
		}
		if got := inh.Get(); got != want {
			viols = append(viols, viol{"inheritfrom/diverges", fmt.Sprintf("InheritFrom copy = %d, source = %d", got, want), det})
		}
		if got := tog.Get(); got != want {
			viols = append(viols, viol{"inheritfrom/diverges-after-resubscribe", fmt.Sprintf("InheritFrom copy (re-subscribed during the writes) = %d, source = %d", got, want), det})
		}
		if got := second.Get(); got != 2*want+1 {
			viols = append(viols, viol{"derivedvariable1/chained-diverges", fmt.Sprintf("derived-of-derived = %d, want %d", got, 2*want+1), det})
		} else if got := dvf.Get(); got != 2*want+1 {
			viols = append(viols, viol{"derivevaluefrom/diverges", fmt.Sprintf("DeriveValueFrom target = %d, want %d", got, 2*want+1), det})
		}
		if len(viols) > 0 {
			return
		}
	}
	return
}

// ============================================================== DerivedSet / SubtractReactive

type setStep struct {
	Src   int    `json:"src"`
	Kind  string `json:"kind"`
	A, B  uint32
	Yield int `json:"-"`
}

var setKinds = []string{"add", "delete", "addall", "deleteall", "apply", "toggle", "replace", "clear"}

func genSetStep(rng *rand.Rand, src, U int, withReplace bool) setStep {
	rmask := func() uint32 { return (rng.Uint32() & (1<<uint(U) - 1)) << 1 }
	kind := setKinds[rng.Intn(len(setKinds))]
	if kind == "replace" && !withReplace {
		kind = "apply"
	}
	s := setStep{Src: src, Kind: kind, Yield: rng.Intn(4)}
	switch kind {
	case "add", "delete", "toggle":
		s.A = 1 << uint(1+rng.Intn(U))
	case "addall", "deleteall":
		s.A = rmask() & rmask()
	case "clear": // the set becomes empty (its zero value)
		s.Kind, s.A = "deleteall", (1<<uint(U)-1)<<1
		if withReplace && rng.Intn(2) == 0 {
			s.Kind, s.A = "replace", 0
		}
	case "replace":
		s.A = rmask()
	case "apply":
		s.A = rmask() & rmask()
		s.B = rmask() & rmask() &^ s.A
	}
	return s
}

func execSetStep(set reactive.Set[int], s setStep) {
	switch s.Kind {
	case "add":
		set.Add(bits.TrailingZeros32(s.A))
	case "delete":
		set.Delete(bits.TrailingZeros32(s.A))
	case "addall":
		set.AddAll(setOf(s.A))
	case "deleteall":
		set.DeleteAll(setOf(s.A))
	case "apply":
		set.Apply(ds.NewSetMutations[int]().WithAddedElements(setOf(s.A)).WithDeletedElements(setOf(s.B)))
	case "toggle":
		e := bits.TrailingZeros32(s.A)
		set.Compute(func(cur ds.ReadableSet[int]) ds.SetMutations[int] {
			if cur.Has(e) {
				return ds.NewSetMutations[int]().WithDeletedElements(ds.NewSet(e))
			}
			return ds.NewSetMutations[int](e)
		})
	case "replace":
		set.Replace(setOf(s.A))
	}
}

func runDSet(rng *rand.Rand) (viols []viol, st runStats) {
	K := 1 + rng.Intn(3)
	U := 3 + rng.Intn(6)
	seq := rng.Intn(3) == 0
	withReplace := rng.Intn(2) == 0
	nOps := 4 + rng.Intn(30)
	st.shape = fmt.Sprintf("dset/k%d/seq%v/replace%v", K, seq, withReplace)
	src := make([]reactive.Set[int], K)
	for i := range src {
		src[i] = reactive.NewSet[int]()
		if rng.Intn(2) == 0 {
			src[i].AddAll(setOf((rng.Uint32() & (1<<uint(U) - 1)) << 1))
		}
	}
	D := reactive.NewDerivedSet[int]()
	unsub := make([]func(), K)
	inherited := make([]bool, K)
	for i := range src {
		if rng.Intn(4) != 0 {
			unsub[i] = D.InheritFrom(src[i])
			inherited[i] = true
		}
	}
	want := func() (m uint32) {
		for i := range src {
			if inherited[i] {
				m |= maskOf(src[i])
			}
		}
		return
	}
	toggleSrc := func(i int) string {
		if inherited[i] {
			unsub[i]()
			inherited[i] = false
			return "unsubscribe-source"
		}
		unsub[i] = D.InheritFrom(src[i])
		inherited[i] = true
		return "inherit-source"
	}
	state := func() map[string]any {
		var ss []string
		for i := range src {
			ss = append(ss, fmt.Sprintf("source %d inherited=%v %s", i, inherited[i], mstr(maskOf(src[i]))))
		}
		return map[string]any{"sources": ss, "derived": mstr(maskOf(D)), "want": mstr(want())}
	}
	for i := range src {
		if inherited[i] && maskOf(src[i]) != 0 {
			st.add("dset_sources_nonempty_at_attach", 1)
		} else if inherited[i] {
			st.add("dset_sources_empty_at_attach", 1)
		}
	}
	if got, w := maskOf(D), want(); got != w {
		st.nontrivial = true
		return []viol{{"derivedset/diverges-after/inherit-source-at-creation", fmt.Sprintf("right after InheritFrom of sources that already held elements the DerivedSet holds %s but the union of its inherited sources is %s", mstr(got), mstr(w)), state()}}, st
	}
	if seq {
		var hist []any
		replaced := false
		for k := 0; k < nOps*K; k++ {
			kind := ""
			if rng.Intn(6) == 0 {
				i := rng.Intn(K)
				kind = toggleSrc(i)
				hist = append(hist, map[string]any{"src": i, "kind": kind})
				st.structural++
			} else {
				s := genSetStep(rng, rng.Intn(K), U, withReplace)
				execSetStep(src[s.Src], s)
				kind = s.Kind
				replaced = replaced || s.Kind == "replace"
				hist = append(hist, s)
				st.ops++
			}
			if got, w := maskOf(D), want(); got != w {
				det := state()
				det["history"] = hist
				st.nontrivial = true
				fp := "derivedset/diverges-after/" + kind
				if replaced { // Replace on a source in this history: one class, whether the divergence shows at once or later
					fp = "derivedset/diverges-after-source-replace"
				}
				return []viol{{fp, fmt.Sprintf("sequential history: after %s the DerivedSet holds %s but the union of its inherited sources is %s", kind, mstr(got), mstr(w)), det}}, st
			}
		}
		st.nontrivial = st.ops >= 3
		return
	}
	rounds := 3 + rng.Intn(12)
	overl := 0
	for r := 0; r < rounds; r++ {
		g := newGroup()
		for i := 0; i < K; i++ {
			for w := 0; w < 1+rng.Intn(2); w++ {
				plan := make([]setStep, 1+rng.Intn(3))
				for k := range plan {
					plan[k] = genSetStep(rng, i, U, withReplace)
				}
				st.ops += len(plan)
				g.spawn(fmt.Sprintf("writer of source %d", i), func() {
					for _, s := range plan {
						yield(s.Yield)
						execSetStep(src[s.Src], s)
						progress.Add(1)
					}
				})
			}
		}
		if rng.Intn(2) == 0 {
			ti, ty := rng.Intn(K), rng.Intn(10)
			st.structural++
			g.spawn("source toggler", func() {
				yield(ty)
				toggleSrc(ti)
				progress.Add(1)
			})
		}
		g.run()
		overl += overlapping(g.spans)
		st.nontrivial = overl > 0
		if len(g.pn.rec) > 0 {
			return nil, st
		}
		if got, w := maskOf(D), want(); got != w {
			cls := "derivedset/diverges/concurrent"
			if withReplace {
				cls = "derivedset/diverges-after-source-replace"
			}
			det := state()
			det["round"] = r
			return []viol{{cls, fmt.Sprintf("after all writers returned the DerivedSet holds %s but the union of its inherited sources is %s", mstr(got), mstr(w)), det}}, st
		}
	}
	return
}

func runSubtract(rng *rand.Rand) (viols []viol, st runStats) {
	K := 2 + rng.Intn(2) // source + 1..2 others
	U := 3 + rng.Intn(6)
	seq := rng.Intn(3) == 0
	withReplace := rng.Intn(2) == 0
	nOps := 4 + rng.Intn(30)
	st.shape = fmt.Sprintf("subtract/k%d/seq%v/replace%v", K, seq, withReplace)
	sets := make([]reactive.Set[int], K)
	for i := range sets {
		sets[i] = reactive.NewSet[int]()
		if rng.Intn(2) == 0 {
			sets[i].AddAll(setOf((rng.Uint32() & (1<<uint(U) - 1)) << 1))
		}
	}
	others := make([]reactive.ReadableSet[int], 0, K-1)
	for _, o := range sets[1:] {
		others = append(others, o)
	}
	R := sets[0].SubtractReactive(others...)
	want := func() uint32 {
		m := maskOf(sets[0])
		for _, o := range sets[1:] {
			m &^= maskOf(o)
		}
		return m
	}
	state := func() map[string]any {
		var ss []string
		for i := range sets {
			ss = append(ss, mstr(maskOf(sets[i])))
		}
		return map[string]any{"source_then_others": ss, "result": mstr(maskOf(R)), "want": mstr(want())}
	}
	for i := range sets {
		if maskOf(sets[i]) != 0 {
			st.add("subtract_sets_nonempty_at_creation", 1)
		}
	}
	if got, w := maskOf(R), want(); got != w {
		st.nontrivial = true
		return []viol{{"subtractreactive/diverges-at-creation", fmt.Sprintf("right after SubtractReactive on sets that already held elements the result holds %s, source minus others is %s", mstr(got), mstr(w)), state()}}, st
	}
	if seq {
		var hist []any
		replaced := false
		for k := 0; k < nOps*K; k++ {
			s := genSetStep(rng, rng.Intn(K), U, withReplace)
			execSetStep(sets[s.Src], s)
			replaced = replaced || s.Kind == "replace"
			hist = append(hist, s)
			st.ops++
			if got, w := maskOf(R), want(); got != w {
				det := state()
				det["history"] = hist
				st.nontrivial = true
				fp := "subtractreactive/diverges-after/" + s.Kind
				if replaced {
					fp = "subtractreactive/diverges-after-source-replace"
				}
				return []viol{{fp, fmt.Sprintf("sequential history: after %s on set %d SubtractReactive holds %s, source minus others is %s", s.Kind, s.Src, mstr(got), mstr(w)), det}}, st
			}
		}
		st.nontrivial = true
		return
	}
	rounds := 3 + rng.Intn(12)
	overl := 0
	for r := 0; r < rounds; r++ {
		g := newGroup()
		for i := 0; i < K; i++ {
			plan := make([]setStep, 1+rng.Intn(3))
			for k := range plan {
				plan[k] = genSetStep(rng, i, U, withReplace)
			}
			st.ops += len(plan)
			g.spawn(fmt.Sprintf("writer of set %d", i), func() {
				for _, s := range plan {
					yield(s.Yield)
					execSetStep(sets[s.Src], s)
					progress.Add(1)
				}
			})
		}
		g.run()
		overl += overlapping(g.spans)
		st.nontrivial = overl > 0
		if len(g.pn.rec) > 0 {
			return nil, st
		}
		if got, w := maskOf(R), want(); got != w {
			cls := "subtractreactive/diverges/concurrent"
			if withReplace {
				cls = "subtractreactive/diverges-after-source-replace"
			}
			det := state()
			det["round"] = r
			return []viol{{cls, fmt.Sprintf("after all writers returned SubtractReactive holds %s, source minus others is %s", mstr(got), mstr(w)), det}}, st
		}
	}
	return
}

// ============================================================== Counter

// counterCond is one member of the seeded condition family; zeroTrue: the condition holds for the zero value.
func counterCond(rng *rand.Rand) (name string, cond func(int) bool, isDefault bool) {
	k := rng.Intn(4)
	switch rng.Intn(8) {
	case 0, 1:
		return "default-nonzero", func(v int) bool { return v != 0 }, true
	case 2:
		return fmt.Sprintf("v>%d", k), func(v int) bool { return v > k }, false
	case 3:
		return fmt.Sprintf("v<%d", k+1), func(v int) bool { return v < k+1 }, false // true for zero
	case 4:
		return "even", func(v int) bool { return v%2 == 0 }, false // true for zero
	case 5:
		return "odd", func(v int) bool { return v%2 == 1 }, false
	case 6:
		return "always-true", func(int) bool { return true }, false
	default:
		return "always-false", func(int) bool { return false }, false
	}
}

func runCounter(rng *rand.Rand) (viols []viol, st runStats) {
	const maxVal = 6 // values 0..5
	n := 2 + rng.Intn(6)
	rounds := 3 + rng.Intn(14)
	name, cond, isDefault := counterCond(rng)
	zeroTrue := cond(0)
	st.shape = fmt.Sprintf("counter/n%d/%s", n, name)
	if zeroTrue {
		st.add("counter_runs_condition_true_for_zero", 1)
	}
	var cnt reactive.Counter[int]
	if isDefault {
		cnt = reactive.NewCounter[int]()
	} else {
		cnt = reactive.NewCounter[int](cond)
	}
	// pickVal returns a value of the requested class: 0 zero, 1 non-zero satisfying, 2 non-zero not satisfying
	pickVal := func(class int) int {
		if class == 0 {
			return 0
		}
		for try := 0; try < 20; try++ {
			if v := 1 + rng.Intn(maxVal-1); cond(v) == (class == 1) {
				return v
			}
		}
		return 1 + rng.Intn(maxVal-1) // class does not exist for this condition
	}
	in := make([]reactive.Variable[int], n)
	monitored := make([]bool, n)
	// monitorNow attaches an input at a quiescent point, i.e. with a known value: the initial-value path of Monitor
	monitorNow := func(i int) {
		v := in[i].Get()
		switch {
		case v == 0 && cond(v):
			st.add("counter_inputs_zero_and_satisfying_at_monitor", 1)
		case v == 0:
			st.add("counter_inputs_zero_not_satisfying_at_monitor", 1)
		case cond(v):
			st.add("counter_inputs_nonzero_satisfying_at_monitor", 1)
		default:
			st.add("counter_inputs_nonzero_not_satisfying_at_monitor", 1)
		}
		cnt.Monitor(in[i])
		monitored[i] = true
		st.structural++
	}
	var late, between []int
	for i := range in {
		in[i] = reactive.NewVariable[int]()
		if v := pickVal(rng.Intn(3)); v != 0 {
			in[i].Init(v)
		}
	}
	check := func(when string) bool {
		want := 0
		var vals []string
		for i := range in {
			v := in[i].Get()
			vals = append(vals, fmt.Sprintf("input %d monitored=%v value=%d satisfies=%v", i, monitored[i], v, cond(v)))
			if monitored[i] && cond(v) {
				want++
			}
		}
		if got := cnt.Get(); got != want {
			viols = []viol{{"counter/diverges", fmt.Sprintf("Counter(condition %s) = %d but %d monitored inputs satisfy the condition (%s)", name, got, want, when), map[string]any{"condition": name, "condition_true_for_zero": zeroTrue, "inputs": vals}}}
			return false
		}
		return true
	}
	for i := range in {
		switch rng.Intn(6) {
		case 0: // never monitored
		case 1:
			late = append(late, i) // monitored while its writer is running
		case 2:
			between = append(between, i) // monitored at a later quiescent point
		default:
			monitorNow(i)
			if !check(fmt.Sprintf("right after Monitor(input %d), before any write", i)) {
				return
			}
		}
	}
	overl := 0
	for r := 0; r < rounds; r++ {
		g := newGroup()
		for i := range in {
			plan := make([][2]int, 1+rng.Intn(4))
			eps := make([]string, len(plan))
			for k := range plan {
				plan[k] = [2]int{pickVal(rng.Intn(3)), rng.Intn(3)} // moves in and out of the condition, through zero
				eps[k] = "Set"
				if rng.Intn(3) == 0 { // any exported write entry point of the Variable interface
					eps[k] = varEntryPoints[1+rng.Intn(len(varEntryPoints)-1)]
					st.add("writes_beyond_set_compute", 1)
				}
			}
			st.ops += len(plan)
			v := in[i]
			g.spawn(fmt.Sprintf("writer of input %d", i), func() {
				for k, s := range plan {
					yield(s[1])
					writeVar(v, eps[k], s[0], maxVal)
					progress.Add(1)
				}
			})
		}
		if len(late) > 0 && rng.Intn(2) == 0 {
			li, ly := late[0], rng.Intn(10)
			late = late[1:]
			st.structural++
			g.spawn("monitor adder", func() {
				yield(ly)
				cnt.Monitor(in[li])
				monitored[li] = true
				progress.Add(1)
			})
		}
		g.run()
		overl += overlapping(g.spans)
		st.nontrivial = overl > 0
		if len(g.pn.rec) > 0 {
			return nil, st
		}
		if !check(fmt.Sprintf("after round %d", r)) {
			return
		}
		if len(between) > 0 && rng.Intn(2) == 0 {
			i := between[0]
			between = between[1:]
			monitorNow(i)
			if !check(fmt.Sprintf("right after Monitor(input %d) between rounds", i)) {
				return
			}
		}
	}
	return
}

// ============================================================== SortedSet

type lel struct{ ID int }

func (a lel) Less(b lel) bool { return a.ID < b.ID }

type elemKind[E comparable] struct {
	name string
	mk   func(id int) E
	id   func(E) int
	less func(a, b E) bool // nil: ties are not ordered
}

var intKind = elemKind[int]{"int", func(i int) int { return i }, func(e int) int { return e }, nil}
var lelKind = elemKind[lel]{"lessable", func(i int) lel { return lel{i} }, func(e lel) int { return e.ID }, func(a, b lel) bool { return a.Less(b) }}

type ssEnv[E comparable] struct {
	k  elemKind[E]
	U  int
	w  []reactive.Variable[int]
	ss reactive.SortedSet[E]
}

func newSSEnv[E comparable](k elemKind[E], U int, rng *rand.Rand) *ssEnv[E] {
	e := &ssEnv[E]{k: k, U: U, w: make([]reactive.Variable[int], U+1)}
	for i := range e.w {
		e.w[i] = reactive.NewVariable[int]()
		if rng.Intn(2) == 0 {
			e.w[i].Init(rng.Intn(7) - 2)
		}
	}
	e.ss = reactive.NewSortedSet[E, int](func(el E) reactive.Variable[int] { return e.w[k.id(el)] })
	return e
}

type ssStep struct {
	Kind  string `json:"kind"`
	EP    string `json:"entry_point,omitempty"`
	E     int    `json:"e,omitempty"`
	W     int    `json:"w,omitempty"`
	A, B  uint32
	Yield int `json:"-"`
}

func (e *ssEnv[E]) set(m uint32) ds.Set[E] {
	s := ds.NewSet[E]()
	for m != 0 {
		i := bits.TrailingZeros32(m)
		s.Add(e.k.mk(i))
		m &^= 1 << uint(i)
	}
	return s
}

func (e *ssEnv[E]) exec(s ssStep) {
	switch s.Kind {
	case "add":
		e.ss.Add(e.k.mk(s.E))
	case "delete":
		e.ss.Delete(e.k.mk(s.E))
	case "weight":
		e.w[s.E].Set(s.W)
	case "wcompute":
		e.w[s.E].Compute(func(c int) int { return c + s.W })
	case "wentry": // the weight variable is written through one of the other exported entry points
		writeVar(e.w[s.E], s.EP, s.W, 0)
	case "addall":
		e.ss.AddAll(e.set(s.A))
	case "deleteall":
		e.ss.DeleteAll(e.set(s.A))
	case "toggle":
		el := e.k.mk(s.E)
		e.ss.Compute(func(cur ds.ReadableSet[E]) ds.SetMutations[E] {
			if cur.Has(el) {
				return ds.NewSetMutations[E]().WithDeletedElements(ds.NewSet(el))
			}
			return ds.NewSetMutations[E](el)
		})
	case "apply":
		e.ss.Apply(ds.NewSetMutations[E]().WithAddedElements(e.set(s.A)).WithDeletedElements(e.set(s.B)))
	case "replace":
		e.ss.Replace(e.set(s.A))
	}
}

// check is the SortedSet oracle; kind == "" when it holds.
func (e *ssEnv[E]) check() (kind, what string, det map[string]any) {
	elems := e.ss.ToSlice()
	desc := e.ss.Descending()
	asc := e.ss.Ascending()
	heavy, light := e.ss.HeaviestElement().Get(), e.ss.LightestElement().Get()
	ids := func(l []E) []int {
		o := make([]int, len(l))
		for i, x := range l {
			o[i] = e.k.id(x)
		}
		return o
	}
	ws := map[string]int{}
	for _, x := range elems {
		ws[strconv.Itoa(e.k.id(x))] = e.w[e.k.id(x)].Get()
	}
	det = map[string]any{"elements": ids(elems), "weights": ws, "descending": ids(desc), "ascending": ids(asc), "heaviest": e.k.id(heavy), "lightest": e.k.id(light), "element_type": e.k.name}
	in := map[E]bool{}
	for _, x := range elems {
		in[x] = true
	}
	seen := map[E]bool{}
	for _, x := range desc {
		if !in[x] || seen[x] {
			return "not-a-permutation", fmt.Sprintf("Descending() = %v is not a permutation of the elements %v", ids(desc), ids(elems)), det
		}
		seen[x] = true
	}
	if len(desc) != len(elems) {
		return "not-a-permutation", fmt.Sprintf("Descending() = %v is not a permutation of the elements %v", ids(desc), ids(elems)), det
	}
	for i := 0; i+1 < len(desc); i++ {
		wa, wb := e.w[e.k.id(desc[i])].Get(), e.w[e.k.id(desc[i+1])].Get()
		if wa < wb || wa == wb && e.k.less != nil && e.k.less(desc[i], desc[i+1]) {
			return "order", fmt.Sprintf("Descending() = %v: element %d (weight %d) is listed before element %d (weight %d)", ids(desc), e.k.id(desc[i]), wa, e.k.id(desc[i+1]), wb), det
		}
	}
	if len(asc) != len(desc) {
		return "ascending-not-reverse", fmt.Sprintf("Ascending() = %v is not the reverse of Descending() = %v", ids(asc), ids(desc)), det
	}
	for i := range asc {
		if asc[i] != desc[len(desc)-1-i] {
			return "ascending-not-reverse", fmt.Sprintf("Ascending() = %v is not the reverse of Descending() = %v", ids(asc), ids(desc)), det
		}
	}
	var zero E
	wantH, wantL := zero, zero
	if len(desc) > 0 {
		wantH, wantL = desc[0], desc[len(desc)-1]
	}
	if heavy != wantH {
		return "heaviest", fmt.Sprintf("HeaviestElement() = %d but Descending() = %v", e.k.id(heavy), ids(desc)), det
	}
	if light != wantL {
		return "lightest", fmt.Sprintf("LightestElement() = %d but Descending() = %v", e.k.id(light), ids(desc)), det
	}
	return "", "", det
}

func genSSStep(rng *rand.Rand, U int, elems []int, kinds []string) ssStep {
	s := ssStep{Kind: kinds[rng.Intn(len(kinds))], Yield: rng.Intn(4)}
	pick := func() int { return elems[rng.Intn(len(elems))] }
	switch s.Kind {
	case "add", "delete", "toggle":
		s.E = pick()
	case "addall", "deleteall":
		for _, x := range elems {
			if rng.Intn(3) == 0 {
				s.A |= 1 << uint(x)
			}
		}
	case "wentry":
		s.E, s.W, s.EP = pick(), rng.Intn(9)-3, varEntryPointsBeyondSetCompute[rng.Intn(len(varEntryPointsBeyondSetCompute))]
	case "weight":
		s.E, s.W = pick(), rng.Intn(9)-3
	case "wcompute":
		s.E, s.W = pick(), rng.Intn(5)-2
	case "apply":
		for _, x := range elems {
			switch rng.Intn(4) {
			case 0:
				s.A |= 1 << uint(x)
			case 1:
				s.B |= 1 << uint(x)
			}
		}
	case "replace":
		for _, x := range elems {
			if rng.Intn(2) == 0 {
				s.A |= 1 << uint(x)
			}
		}
	}
	return s
}

func allElems(U int) []int {
	l := make([]int, U)
	for i := range l {
		l[i] = i + 1
	}
	return l
}

func runSS[E comparable](k elemKind[E], scenario string, rng *rand.Rand) (viols []viol, st runStats) {
	U := 2 + rng.Intn(7)
	env := newSSEnv(k, U, rng)
	st.shape = fmt.Sprintf("%s/%s/u%d", scenario, k.name, U)
	overl := 0
	// roundDone joins the round's goroutines and evaluates the oracle at the quiescent point
	roundDone := func(g *group, class string) bool {
		g.run()
		overl += overlapping(g.spans)
		st.nontrivial = overl > 0
		if len(g.pn.rec) > 0 {
			return false
		}
		if kind, what, det := env.check(); kind != "" {
			viols = append(viols, viol{"sortedset/" + kind + "/" + class, what + " (after all writers returned)", det})
			return false
		}
		return true
	}
	preAdd := func(i int) {
		if env.w[i].Get() != 0 {
			st.add("ss_weights_nonzero_at_add", 1)
		} else {
			st.add("ss_weights_zero_at_add", 1)
		}
		env.ss.Add(k.mk(i))
	}
	switch scenario {
	case "ss-seq":
		withReplace := rng.Intn(2) == 0
		kinds := []string{"add", "add", "delete", "weight", "weight", "wcompute", "apply", "wentry", "wentry", "addall", "deleteall", "toggle"}
		if withReplace {
			kinds = append(kinds, "replace")
		}
		n := 5 + rng.Intn(60)
		var hist []ssStep
		replaced := false
		for i := 0; i < n; i++ {
			s := genSSStep(rng, U, allElems(U), kinds)
			env.exec(s)
			replaced = replaced || s.Kind == "replace"
			hist = append(hist, s)
			st.ops++
			if kind, what, det := env.check(); kind != "" {
				det["history"] = hist
				st.nontrivial = true
				fp := "sortedset/" + kind + "-after/" + s.Kind
				if s.EP != "" {
					fp += "/" + s.EP
				}
				if replaced {
					fp = "sortedset/diverges-after-replace"
				}
				return []viol{{fp, "sequential history: after " + s.Kind + ": " + what, det}}, st
			}
		}
		st.nontrivial = true
		return
	case "ss-owner":
		G := 2 + rng.Intn(3)
		own := make([][]int, G)
		for i := 1; i <= U; i++ {
			own[i%G] = append(own[i%G], i)
		}
		for i := 1; i <= U; i++ {
			if rng.Intn(2) == 0 {
				preAdd(i)
			}
		}
		if !roundDone(newGroup(), "initial-adds") {
			return
		}
		for r, rounds := 0, 3+rng.Intn(12); r < rounds; r++ {
			g := newGroup()
			for gi := 0; gi < G; gi++ {
				if len(own[gi]) == 0 {
					continue
				}
				plan := make([]ssStep, 1+rng.Intn(5))
				for i := range plan {
					plan[i] = genSSStep(rng, U, own[gi], []string{"add", "add", "delete", "weight", "wentry", "wcompute"})
				}
				st.ops += len(plan)
				st.structural += len(plan) / 2
				g.spawn(fmt.Sprintf("owner %d", gi), func() {
					for _, s := range plan {
						yield(s.Yield)
						env.exec(s)
						progress.Add(1)
					}
				})
			}
			if !roundDone(g, "owner-partitioned") {
				return
			}
		}
	case "ss-addw":
		// one goroutine adds the elements one by one; others keep changing the weights of all elements
		order := rng.Perm(U)
		B := 1 + rng.Intn(3)
		for r := 0; r < U+2; r++ {
			g := newGroup()
			if r < U {
				e, y := order[r]+1, rng.Intn(6)
				st.structural++
				g.spawn("adder", func() {
					yield(y)
					env.exec(ssStep{Kind: "add", E: e})
					progress.Add(1)
				})
			}
			for b := 0; b < B; b++ {
				plan := make([]ssStep, 2+rng.Intn(6))
				for i := range plan {
					plan[i] = genSSStep(rng, U, allElems(U), []string{"weight", "weight", "wcompute", "wentry"})
				}
				st.ops += len(plan)
				g.spawn("weight writer", func() {
					for _, s := range plan {
						yield(s.Yield)
						env.exec(s)
						progress.Add(1)
					}
				})
			}
			if !roundDone(g, "add-vs-weight-update") {
				return
			}
		}
	case "ss-dl":
		// Delete+Add of elements whose weights other goroutines update at the same time
		for i := 1; i <= U; i++ {
			preAdd(i)
		}
		if !roundDone(newGroup(), "initial-adds") {
			return
		}
		A := 1 + rng.Intn(2)
		B := 1 + rng.Intn(3)
		for r, rounds := 0, 3+rng.Intn(10); r < rounds; r++ {
			g := newGroup()
			for a := 0; a < A; a++ {
				plan := make([]ssStep, 1+rng.Intn(4))
				for i := range plan {
					plan[i] = genSSStep(rng, U, allElems(U), []string{"add", "delete", "delete"})
				}
				st.ops += len(plan)
				st.structural += len(plan)
				g.spawn("add/delete writer", func() {
					for _, s := range plan {
						yield(s.Yield)
						env.exec(s)
						if s.Kind == "delete" && s.Yield%2 == 0 {
							env.exec(ssStep{Kind: "add", E: s.E})
						}
						progress.Add(1)
					}
				})
			}
			for b := 0; b < B; b++ {
				plan := make([]ssStep, 2+rng.Intn(6))
				for i := range plan {
					plan[i] = genSSStep(rng, U, allElems(U), []string{"weight", "weight", "wcompute", "wentry"})
				}
				st.ops += len(plan)
				g.spawn("weight writer", func() {
					for _, s := range plan {
						yield(s.Yield)
						env.exec(s)
						progress.Add(1)
					}
				})
			}
			if !roundDone(g, "delete-vs-weight-update") {
				return
			}
		}
	}
	return
}

// ============================================================== WaitGroup

// runWGReadd: elements that are already pending are added again while they are marked done. At the quiescent point
// "nothing pending" must imply "triggered" (the last pending element has been marked done).
func runWGReadd(rng *rand.Rand) (viols []viol, st runStats) {
	U := 1 + rng.Intn(3)
	A := 1 + rng.Intn(2)
	st.shape = fmt.Sprintf("wg/readd/u%d/a%d", U, A)
	all := make([]int, U)
	for i := range all {
		all[i] = i + 1
	}
	overl := 0
	for r, rounds := 0, 6+rng.Intn(20); r < rounds; r++ {
		w := reactive.NewWaitGroup[int](all...)
		var fired atomic.Int32
		w.OnTrigger(func() { fired.Add(1) })
		g := newGroup()
		var readds [][]int
		for a := 0; a < A; a++ {
			var els []int
			for _, e := range all {
				if rng.Intn(2) == 0 {
					els = append(els, e)
				}
			}
			if len(els) == 0 {
				els = []int{all[rng.Intn(U)]}
			}
			readds = append(readds, els)
			y := rng.Intn(4)
			st.ops += len(els)
			g.spawn("re-adder", func() {
				yield(y)
				for _, e := range els {
					w.Add(e)
				}
				progress.Add(1)
			})
		}
		y := rng.Intn(4)
		perm := rng.Perm(U)
		st.ops += U
		g.spawn("done", func() {
			yield(y)
			for _, i := range perm {
				w.Done(all[i])
			}
			progress.Add(1)
		})
		g.run()
		overl += overlapping(g.spans)
		st.nontrivial = overl > 0
		if len(g.pn.rec) > 0 {
			return nil, st
		}
		pend := w.PendingElements().ToSlice()
		det := map[string]any{"round": r, "initially_pending": all, "added_again_concurrently": readds, "pending": pend, "triggered": w.WasTriggered(), "handler_runs": fired.Load()}
		if len(pend) == 0 && !w.WasTriggered() {
			return []viol{{"waitgroup/never-triggers-although-nothing-pending", fmt.Sprintf("elements %v were pending, Add of already pending elements %v raced with Done of all of them; now nothing is pending, every call has returned and the WaitGroup has not triggered (Wait() would block for ever)", all, readds), det}}, st
		}
		if len(pend) > 0 && w.WasTriggered() {
			// legal: it triggered when the set was transiently empty
			st.add("wg_triggered_then_readded", 1)
		}
		if w.WasTriggered() && fired.Load() != 1 {
			return []viol{{"waitgroup/handler-count", fmt.Sprintf("OnTrigger handler ran %d times", fired.Load()), det}}, st
		}
	}
	return
}

// runWGMultiAdd: multi-element Add calls racing with Done of their own early elements, without any guard element.
// Every batch keeps at least one element that nobody marks done during the race. Argument: Add(a, b, ...) inserts its
// elements as one step as far as triggering is concerned ("first increase the counter so that the trigger is not
// executed before all elements are added"). The group is fresh, so before the first Add takes effect nothing is
// pending and nothing can trigger; from the moment a batch has taken effect its never-done element is pending until
// the harness marks it done after the join. A trigger needs the pending set to go from non-empty to empty, which
// therefore cannot happen during the race: triggered at the join => violation. Afterwards the rest is marked done and
// the group must trigger exactly once.
func runWGMultiAdd(rng *rand.Rand) (viols []viol, st runStats) {
	B := 1 + rng.Intn(2) // concurrent Add calls
	st.shape = fmt.Sprintf("wg/multiadd/b%d", B)
	overl := 0
	for r, rounds := 0, 6+rng.Intn(20); r < rounds; r++ {
		w := reactive.NewWaitGroup[int]()
		var fired atomic.Int32
		var firedAt atomic.Uint64
		w.OnTrigger(func() { firedAt.CompareAndSwap(0, tick()); fired.Add(1) })
		batches := make([][]int, B)
		var early, rest []int
		next := 1
		for b := range batches {
			n := 2 + rng.Intn(3)
			for i := 0; i < n; i++ {
				batches[b] = append(batches[b], next)
				next++
			}
			k := 1 + rng.Intn(n-1) // the first k elements are marked done while the call is still running
			early = append(early, batches[b][:k]...)
			rest = append(rest, batches[b][k:]...)
		}
		var adding atomic.Int32
		adding.Store(int32(B))
		g := newGroup()
		type callT struct{ Call, Ret uint64 }
		calls := make([]callT, B)
		for b := range batches {
			y := rng.Intn(3)
			g.spawn("multi-element Add", func() {
				yield(y)
				calls[b].Call = tick()
				w.Add(batches[b]...)
				calls[b].Ret = tick()
				adding.Add(-1)
				progress.Add(1)
			})
		}
		S := 1 + rng.Intn(2)
		for sp := 0; sp < S; sp++ {
			g.spawn("Done spinner", func() {
				for adding.Load() > 0 {
					for _, e := range early {
						w.Done(e)
					}
					runtime.Gosched()
				}
				w.Done(early...)
				progress.Add(1)
			})
		}
		st.ops += len(early) + len(rest)
		st.add("wg_multi_element_adds_raced_by_done", B)
		g.run()
		overl += overlapping(g.spans)
		st.nontrivial = overl > 0
		if len(g.pn.rec) > 0 {
			return nil, st
		}
		det := map[string]any{"round": r, "add_calls": batches, "add_call_ticks": calls, "marked_done_during_the_calls": early, "never_marked_done_so_far": rest, "pending": w.PendingElements().ToSlice(), "triggered": w.WasTriggered(), "handler_tick": firedAt.Load()}
		if w.WasTriggered() || fired.Load() != 0 {
			return []viol{{"waitgroup/triggered-while-elements-of-same-add-pending", fmt.Sprintf("Add%v raced with Done of the early elements %v only; elements %v of the same Add calls have never been marked done, yet the WaitGroup triggered", batches, early, rest), det}}, st
		}
		if p := maskOfInts(w.PendingElements().ToSlice()); p != maskOfInts(rest) {
			return []viol{{"waitgroup/pending-elements-wrong", fmt.Sprintf("PendingElements() = %v, expected %v", w.PendingElements().ToSlice(), rest), det}}, st
		}
		w.Done(rest...)
		if !w.WasTriggered() || fired.Load() != 1 {
			return []viol{{"waitgroup/not-triggered-by-last-done", fmt.Sprintf("every element has been marked done but the WaitGroup has not triggered exactly once (triggered=%v, handler runs=%d)", w.WasTriggered(), fired.Load()), det}}, st
		}
	}
	return
}

func maskOfInts(l []int) (m uint64) {
	for _, e := range l {
		m |= 1 << uint(e)
	}
	return
}

func runWG(rng *rand.Rand) (viols []viol, st runStats) {
	switch rng.Intn(4) {
	case 0:
		return runWGReadd(rng)
	case 1:
		return runWGMultiAdd(rng)
	}
	const z = 999
	G := 1 + rng.Intn(4)
	U := 1 + rng.Intn(5)
	nOps := 3 + rng.Intn(30)
	zConcurrent := rng.Intn(3) == 0
	st.shape = fmt.Sprintf("wg/g%d/u%d/zconc%v", G, U, zConcurrent)
	w := reactive.NewWaitGroup[int]()
	var fired atomic.Int32
	var firedAt atomic.Uint64
	w.OnTrigger(func() { fired.Add(1); firedAt.CompareAndSwap(0, tick()) })
	w.Add(z)
	g := newGroup()
	all := make([]int, U)
	for i := range all {
		all[i] = i + 1
	}
	for gi := 0; gi < G; gi++ {
		plan := make([][3]int, nOps)
		for i := range plan {
			plan[i] = [3]int{rng.Intn(2), 1 + rng.Intn(U), rng.Intn(4)}
		}
		g.spawn(fmt.Sprintf("wg user %d", gi), func() {
			for _, s := range plan {
				yield(s[2])
				if s[0] == 0 {
					w.Add(s[1])
				} else {
					w.Done(s[1])
				}
				progress.Add(1)
			}
			w.Done(all...)
		})
	}
	var zCall, zRet atomic.Uint64
	if zConcurrent {
		y := rng.Intn(60)
		g.spawn("done(z)", func() {
			yield(y)
			zCall.Store(tick())
			w.Done(z)
			zRet.Store(tick())
		})
	}
	g.run()
	st.ops = G * nOps
	st.nontrivial = overlapping(g.spans) > 0 || G == 1
	if len(g.pn.rec) > 0 {
		return []viol{{"waitgroup/panic", "panic: " + g.pn.rec[0].Value, g.pn.rec}}, st
	}
	det := func() any {
		return map[string]any{"pending": w.PendingElements().ToSlice(), "triggered": w.WasTriggered(), "handler_runs": fired.Load(), "handler_tick": firedAt.Load(), "doneZ_call": zCall.Load(), "doneZ_ret": zRet.Load()}
	}
	if zConcurrent {
		// z was marked done while others were still adding: a trigger before Done(z) was invoked is early; and if
		// nothing is pending now the group must have triggered
		if t := firedAt.Load(); t != 0 && t < zCall.Load() {
			return []viol{{"waitgroup/triggered-early", "the WaitGroup triggered before Done(z) was invoked although z had been pending since the beginning", det()}}, st
		}
		if w.PendingElements().Size() == 0 && !w.WasTriggered() {
			return []viol{{"waitgroup/never-triggers-although-nothing-pending", "Add of already pending elements raced with Done: no element is pending after all goroutines returned but the WaitGroup has not triggered (Wait() would block for ever)", det()}}, st
		}
	} else {
		if w.WasTriggered() || fired.Load() != 0 {
			return []viol{{"waitgroup/triggered-early", "the WaitGroup triggered although z (added first) has not been marked done", det()}}, st
		}
		if p := w.PendingElements().ToSlice(); len(p) != 1 || p[0] != z {
			return []viol{{"waitgroup/pending-elements-wrong", fmt.Sprintf("every element but z was marked done by its last user, PendingElements() = %v", p), det()}}, st
		}
		w.Done(z)
		if !w.WasTriggered() {
			return []viol{{"waitgroup/not-triggered-by-last-done", "Done(z) of the last pending element returned but the WaitGroup has not triggered", det()}}, st
		}
	}
	if w.WasTriggered() && fired.Load() != 1 {
		return []viol{{"waitgroup/handler-count", fmt.Sprintf("OnTrigger handler ran %d times", fired.Load()), det()}}, st
	}
	return
}

// ============================================================== EvictionState

func runEvict(rng *rand.Rand) (viols []viol, st runStats) {
	const maxSlot = 48
	E := rng.Intn(4) // evictors (0: nothing is ever evicted)
	Gt := 1 + rng.Intn(4)
	nOps := 3 + rng.Intn(25)
	st.shape = fmt.Sprintf("evict/e%d/g%d", E, Gt)
	es := reactive.NewEvictionState[int]()
	type handle struct {
		Slot     int
		ev       reactive.Event
		runs     *atomic.Int32
		KnownMax int64 // max slot whose Evict had returned before the handle was requested (-1: none)
	}
	var evictedMax atomic.Int64 // max over *returned* Evict calls
	evictedMax.Store(-1)
	var mu sync.Mutex
	var handles []*handle
	var early []string
	get := func(slot int) {
		km := evictedMax.Load()
		ev := es.EvictionEvent(slot)
		h := &handle{Slot: slot, ev: ev, runs: new(atomic.Int32), KnownMax: km}
		if int64(slot) <= km && !ev.WasTriggered() {
			mu.Lock()
			early = append(early, fmt.Sprintf("EvictionEvent(%d) requested after Evict(%d) had returned is not triggered", slot, km))
			mu.Unlock()
		}
		ev.OnTrigger(func() { h.runs.Add(1) })
		mu.Lock()
		handles = append(handles, h)
		mu.Unlock()
	}
	for i := 0; i < rng.Intn(4); i++ {
		get(rng.Intn(maxSlot + 6))
	}
	g := newGroup()
	argMax := -1
	for e := 0; e < E; e++ {
		plan := make([][2]int, 1+rng.Intn(nOps))
		base := 0
		for i := range plan {
			if rng.Intn(4) == 0 {
				plan[i] = [2]int{rng.Intn(maxSlot + 1), rng.Intn(6)} // out of order / repeated
			} else {
				base = min(maxSlot, base+rng.Intn(4))
				plan[i] = [2]int{base, rng.Intn(6)}
			}
			argMax = max(argMax, plan[i][0])
		}
		st.ops += len(plan)
		g.spawn("evictor", func() {
			for _, s := range plan {
				yield(s[1])
				es.Evict(s[0])
				for {
					cur := evictedMax.Load()
					if int64(s[0]) <= cur || evictedMax.CompareAndSwap(cur, int64(s[0])) {
						break
					}
				}
				progress.Add(1)
			}
		})
	}
	for t := 0; t < Gt; t++ {
		plan := make([][2]int, nOps)
		for i := range plan {
			plan[i] = [2]int{rng.Intn(maxSlot + 6), rng.Intn(6)}
		}
		st.ops += nOps
		g.spawn("event getter", func() {
			for _, s := range plan {
				yield(s[1])
				get(s[0])
				progress.Add(1)
			}
		})
	}
	g.run()
	st.nontrivial = E > 0 && overlapping(g.spans) > 0
	if len(g.pn.rec) > 0 {
		return []viol{{"evictionstate/panic", "panic: " + g.pn.rec[0].Value, g.pn.rec}}, st
	}
	for s := 0; s <= maxSlot+5; s += 1 + rng.Intn(3) {
		get(s)
	}
	det := func(h *handle) any {
		return map[string]any{"slot": h.Slot, "triggered": h.ev.WasTriggered(), "handler_runs": h.runs.Load(), "max_evicted_slot": argMax, "LastEvictedSlot": es.LastEvictedSlot(), "evictors": E}
	}
	if len(early) > 0 {
		return []viol{{"evictionstate/event-of-evicted-slot-not-triggered", early[0], early}}, st
	}
	if argMax >= 0 && es.LastEvictedSlot() != argMax {
		return []viol{{"evictionstate/last-evicted-slot", fmt.Sprintf("LastEvictedSlot() = %d, highest evicted slot is %d", es.LastEvictedSlot(), argMax), nil}}, st
	}
	for _, h := range handles {
		want := h.Slot <= argMax
		switch {
		case h.ev.WasTriggered() != want && want:
			return []viol{{"evictionstate/event-not-triggered", fmt.Sprintf("EvictionEvent(%d) is not triggered although slot %d was evicted", h.Slot, argMax), det(h)}}, st
		case h.ev.WasTriggered() != want:
			return []viol{{"evictionstate/event-triggered-for-unevicted-slot", fmt.Sprintf("EvictionEvent(%d) is triggered although the last evicted slot is %d", h.Slot, argMax), det(h)}}, st
		case want && h.runs.Load() != 1, !want && h.runs.Load() != 0:
			return []viol{{"evictionstate/handler-count", fmt.Sprintf("OnTrigger handler of EvictionEvent(%d) ran %d times (triggered=%v)", h.Slot, h.runs.Load(), want), det(h)}}, st
		}
	}
	st.add("eviction_handles", len(handles))
	return
}

// ============================================================== switching the source of an inheriting construct

// swGate parks the writer of a source inside an earlier subscriber of that source: its update is in flight (value
// stored, callback list collected, the inheriting callback not yet invoked).
type swGate struct {
	armed   atomic.Bool
	entered chan struct{}
	release chan struct{}
}

func (g *swGate) pass() {
	if g != nil && g.armed.CompareAndSwap(true, false) {
		close(g.entered)
		<-g.release
	}
}

// runSwitch: a Variable / DerivedSet that inherits from source A is switched to source B (unsubscribe from A, then
// InheritFrom(B)) while an update of the OLD source is in flight (held in a gate, or free-running writers). At
// quiescence the target must equal its CURRENT source.
func runSwitch(rng *rand.Rand) (viols []viol, st runStats) {
	isSet := rng.Intn(3) == 0
	st.shape = fmt.Sprintf("switch/set%v", isSet)
	var gates [2]atomic.Pointer[swGate]
	nextVal := 0
	fresh := func() int { nextVal++; return nextVal }
	// the two sources, the target, and uniform accessors
	var write [2]func(v int) // a write that changes the source (v == 0: the zero value / empty set)
	var inherit [2]func() func()
	var srcVal [2]func() int
	var tgtVal func() int
	if isSet {
		var src [2]reactive.Set[int]
		D := reactive.NewDerivedSet[int]()
		for i := range src {
			src[i] = reactive.NewSet[int]()
			src[i].OnUpdate(func(ds.SetMutations[int]) { gates[i].Load().pass() })
			write[i] = func(v int) {
				if v == 0 {
					src[i].Replace(ds.NewSet[int]())
					return
				}
				e := 1 + v%5
				src[i].Compute(func(cur ds.ReadableSet[int]) ds.SetMutations[int] {
					if cur.Has(e) {
						return ds.NewSetMutations[int]().WithDeletedElements(ds.NewSet(e))
					}
					return ds.NewSetMutations[int](e)
				})
			}
			inherit[i] = func() func() { return D.InheritFrom(src[i]) }
			srcVal[i] = func() int { return int(maskOf(src[i])) }
		}
		tgtVal = func() int { return int(maskOf(D)) }
	} else {
		var src [2]reactive.Variable[int]
		t := reactive.NewVariable[int]()
		for i := range src {
			src[i] = reactive.NewVariable[int]()
			src[i].OnUpdate(func(_, _ int) { gates[i].Load().pass() })
			write[i] = func(v int) {
				if v != 0 {
					v = v*2 + i // values of the two sources never coincide
				}
				src[i].Set(v)
			}
			inherit[i] = func() func() { return t.InheritFrom(src[i]) }
			srcVal[i] = src[i].Get
		}
		tgtVal = t.Get
	}
	for i := range write {
		if rng.Intn(2) == 0 {
			write[i](fresh())
		}
	}
	cur := rng.Intn(2)
	unsub := inherit[cur]()
	check := func(r int, how string) bool {
		if got, want := tgtVal(), srcVal[cur](); got != want {
			kind := "inheritfrom"
			if isSet {
				kind = "derivedset"
			}
			viols = []viol{{kind + "/target-differs-from-current-source-after-switch", fmt.Sprintf("the target was switched from source %d to source %d while an update of the old source was in flight (%s); all writers have returned, the target holds %d but its current source holds %d (old source: %d)", 1-cur, cur, how, got, want, srcVal[1-cur]()), map[string]any{"round": r, "mode": how, "target": got, "current_source": want, "old_source": srcVal[1-cur](), "set": isSet}}}
			return false
		}
		return true
	}
	if !check(-1, "initial attach") {
		return
	}
	overl := 0
	for r, rounds := 0, 4+rng.Intn(10); r < rounds; r++ {
		old, nw := cur, 1-cur
		if rng.Intn(2) == 0 {
			// held: the old source's update is parked inside an earlier subscriber while the switch happens
			g := &swGate{entered: make(chan struct{}), release: make(chan struct{})}
			g.armed.Store(true)
			gates[old].Store(g)
			v := fresh()
			if srcVal[old]() != 0 && rng.Intn(3) == 0 {
				v = 0
			}
			grp := newGroup()
			grp.spawn("writer of the old source", func() { write[old](v) })
			close(grp.start)
			<-g.entered
			unsub()
			unsub = inherit[nw]()
			cur = nw
			if rng.Intn(2) == 0 {
				write[nw](fresh())
			}
			close(g.release)
			grp.wg.Wait()
			gates[old].Store(nil)
			st.add("switches_with_old_source_update_in_flight", 1)
			st.structural++
			st.ops++
			if len(grp.pn.rec) > 0 {
				return nil, st
			}
			if !check(r, "held in an earlier subscriber of the old source") {
				return
			}
			continue
		}
		// free-running writers on both sources while the switcher switches 1-3 times
		grp := newGroup()
		for i := 0; i < 2; i++ {
			plan := make([][2]int, 1+rng.Intn(4))
			for k := range plan {
				plan[k] = [2]int{fresh(), rng.Intn(3)}
				if rng.Intn(4) == 0 {
					plan[k][0] = 0
				}
			}
			st.ops += len(plan)
			grp.spawn(fmt.Sprintf("writer of source %d", i), func() {
				for _, p := range plan {
					yield(p[1])
					write[i](p[0])
					progress.Add(1)
				}
			})
		}
		nSw, y := 1+rng.Intn(3), rng.Intn(6)
		st.structural += nSw
		st.add("switches_racing_free_writers", nSw)
		grp.spawn("switcher", func() {
			for k := 0; k < nSw; k++ {
				yield(y)
				unsub()
				cur = 1 - cur
				unsub = inherit[cur]()
				progress.Add(1)
			}
		})
		grp.run()
		overl += overlapping(grp.spans)
		if len(grp.pn.rec) > 0 {
			return nil, st
		}
		if !check(r, "free-running writers") {
			return
		}
		_ = old
	}
	st.nontrivial = true
	return
}

// ============================================================== driver

func runOne(scenario string, rng *rand.Rand) ([]viol, runStats) {
	switch scenario {
	case "dv":
		return runDV(rng)
	case "dset":
		return runDSet(rng)
	case "subtract":
		return runSubtract(rng)
	case "counter":
		return runCounter(rng)
	case "ss-seq", "ss-owner", "ss-addw", "ss-dl":
		if rng.Intn(2) == 0 {
			return runSS(lelKind, scenario, rng)
		}
		return runSS(intKind, scenario, rng)
	case "wg":
		return runWG(rng)
	case "evict":
		return runEvict(rng)
	case "switch":
		return runSwitch(rng)
	case "entry-var":
		return runEntryVar(rng)
	case "entry-set":
		return runEntrySet(rng)
	case "disc":
		return runDisc(rng)
	}
	panic("unknown scenario " + scenario)
}

func child(c *vf.Ctx) {
	if c.Child != "runs" || len(c.ChildArgs) < 3 {
		fmt.Fprintln(os.Stderr, "bad child invocation")
		os.Exit(3)
	}
	scn := c.ChildArgs[0]
	start, _ := strconv.Atoi(c.ChildArgs[1])
	n, _ := strconv.Atoi(c.ChildArgs[2])
	attempts := 1
	if len(c.ChildArgs) > 3 {
		attempts, _ = strconv.Atoi(c.ChildArgs[3])
	}
	curScenario.Store(scn)
	theCtx = c
	if raceBuild {
		startSnapshotMonitor(c)
	}
	for i := start; i < start+n; i++ {
		for a := 0; a < attempts; a++ {
			curRun.Store(int64(i))
			c.Mark(fmt.Sprintf("%s %d", scn, i))
			viols, st := runOne(scn, c.Rand(runSeedOf(c, scn, i)))
			c.Count("evaluations", 1)
			c.Count("runs:"+scn, 1)
			c.Count("input_writes", st.ops)
			c.Count("structural_changes", st.structural)
			for k, v := range st.extra {
				c.Count(k, v)
			}
			c.Distinct("shape", st.shape)
			if st.nontrivial {
				c.Distinct("nontrivial", fmt.Sprintf("%s/%d", scn, i))
				c.Count("nontrivial:"+scn, 1)
			}
			if raceBuild {
				c.Count("runs_race_build", 1)
			}
			if i == start && a == 0 && !raceBuild && c.WantSample() {
				c.Sample(map[string]any{"scenario": scn, "run": i, "shape": st.shape, "input_writes": st.ops, "structural_changes": st.structural, "writers_overlapped": st.nontrivial})
			}
			for _, v := range viols {
				c.Violation(v.fp, v.what, caseRef{Scenario: scn, Run: i, Race: raceBuild, Seed: c.Seed, Detail: v.detail})
			}
			if len(viols) > 0 {
				break
			}
		}
		if (i-start)%100 == 99 {
			c.FlushStats()
		}
	}
}

// share of the run budget per scenario (percent)
var scenarios = []struct {
	name  string
	share int
}{{"entry-var", 8}, {"entry-set", 4}, {"dv", 12}, {"dset", 12}, {"subtract", 8}, {"counter", 9}, {"ss-seq", 9}, {"ss-owner", 9}, {"ss-addw", 8}, {"ss-dl", 8}, {"wg", 9}, {"evict", 9}, {"switch", 7}, {"disc", 8}}

func run(c *vf.Ctx) {
	if c.Replay != "" {
		var r caseRef
		if err := c.LoadReplay(&r); err != nil {
			fmt.Fprintln(os.Stderr, err)
			os.Exit(3)
		}
		if r.Seed != 0 {
			c.Seed = r.Seed
		}
		if r.Run < 0 {
			r.Run = 0
		}
		// same scenario and run seed; schedules are not reproducible, so a concurrent case is re-executed up to 300 times
		res := c.RunChild(vf.ChildOpts{Name: "runs", Args: []string{r.Scenario, strconv.Itoa(r.Run), "1", "300"}, Race: r.Race, Timeout: 5 * time.Minute, Seed: c.Seed})
		reportRaces(c, res.Races, job{Scenario: r.Scenario, Start: r.Run, Race: r.Race})
		if res.Deadlock {
			fp, what := classifyDeadlock(scenarioOfMark(res.LastMark, r.Scenario), gdump.Parse(res.Stderr))
			c.Violation(fp, what, r)
		}
		return
	}
	c.SetRule("one evaluation = one run of one scenario (DerivedVariable1-4/InheritFrom/DeriveValueFrom, DerivedSet, SubtractReactive, Counter, SortedSet x4, WaitGroup, EvictionState) on fresh objects: seeded writer goroutines on different inputs plus structural changes (inherit/unsubscribe source, Monitor, add/delete/re-add element, Replace on a source, weight updates of present and removed elements), then the defining function is recomputed from the inputs at quiescence (right after construction/attachment with inputs that are already zero / non-zero, after every round of concurrent writes, in sequential scenarios after every step; Counter conditions come from a seeded family incl. conditions that hold for the zero value; writer streams include the zero value / the empty set; InheritFrom, DeriveValueFrom and new DerivedVariables are attached to inputs while these are written and stay checked); entry-var / entry-set: inputs (plain, transforming, derived and counter carriers, Events, reactive Sets) that already have every kind of derived value attached are written through every exported write entry point (Init, Set, Compute, DefaultTo, ToggleValue and its reset, InheritFrom, DeriveValueFrom, Trigger; Add, AddAll, Delete, DeleteAll, Apply, Compute, Replace, Clear, Decode), sequentially with the oracle after every step and in concurrent rounds; the sequential histories are chains three levels deep whose middle nodes are written directly as well (mostly writes without effect) and whose every level is compared with the defining function of the current values of its parents; they include writes that fail or abort part-way (Decode of a payload cut at every position, Compute with a panicking function, teardown of an inheritance from inside the update being delivered); the writer mixes of dv, counter and the SortedSet weights use the same entry points; runs are distinct by construction (run seed); scenario disc: sequential histories in which the caller keeps every returned / delivered slice and set with a copy, re-checks and then overwrites it, re-uses its arguments, and in which user code (weight functions, Less, factories, compute functions, conditions, handlers, subscribers) re-enters the construct or panics (the pairs that return on the unchanged tree), oracle after every step; distinct_nontrivial counts runs in which at least two writer goroutines' activity spans overlapped by logical ticks (sequential scenarios: at least 3 effective steps)")
	total := c.Pick(30000, 600000)
	chunk := c.Pick(600, 6000)
	var jobs []job
	for _, s := range scenarios {
		n := total * s.share / 100
		nPlain := n * 2 / 3
		if s.name == "ss-seq" || s.name == "disc" {
			nPlain = n // single goroutine: nothing for the race detector
		}
		for st := 0; st < nPlain; st += chunk {
			jobs = append(jobs, job{Scenario: s.name, Start: st, N: min(chunk, nPlain-st), MaxRestarts: 2})
		}
		for st := nPlain; st < n; st += chunk {
			jobs = append(jobs, job{Scenario: s.name, Start: st, N: min(chunk, n-st), Race: true, MaxRestarts: 2})
		}
	}
	vf.Parallel(len(jobs), 6, func(i int) { runJob(c, jobs[i], time.Duration(c.Pick(4, 15))*time.Minute) })
	par := min(runtime.NumCPU(), 4) // respects the affinity mask (taskset); overlap-dependent minimums scale with it
	c.Extra("parallelism_available", runtime.NumCPU())
	c.Assume("the Go race detector and runtime dead-lock detector are sound; inputs are read with Get()/ToSlice() only after every writer goroutine has been joined")
	c.Require("evaluations", total*8/10)
	for _, s := range scenarios {
		if s.name != "ss-dl" { // may be cut short by its own dead-lock finding
			c.Require("runs:"+s.name, total*s.share/100*8/10)
			c.Require("nontrivial:"+s.name, max(10, total*s.share/100/4*par/4))
		}
	}
	c.Require("runs:ss-dl", 1)
	c.Require("runs_race_build", total/5)
	c.Require("structural_changes", total/4)
	// initial-value paths must really have been exercised
	c.Require("counter_runs_condition_true_for_zero", total/100)
	c.Require("counter_inputs_zero_and_satisfying_at_monitor", total/400)
	c.Require("counter_inputs_nonzero_satisfying_at_monitor", total/100)
	c.Require("dv_inputs_nonzero_at_creation", total/50)
	c.Require("dset_sources_nonempty_at_attach", total/50)
	c.Require("ss_weights_nonzero_at_add", total/50)
	// deterministic base (attach from inside the callback of a zero write) + racing overlaps; the racing minimum
	// scales with the parallelism that is actually available and never drops below a floor that still proves the
	// window was entered through pre-emption / Gosched jitter
	c.Require("wg_multi_element_adds_raced_by_done", total/100)
	c.Require("switches_with_old_source_update_in_flight", total/20)
	c.Require("switches_racing_free_writers", total/20)
	c.Require("attaches_inside_zero_write_callback", total/100)
	c.Require("attaches_racing_zero_write", max(total/2000, total/100*par/10))
	// every exported write entry point must really have been used on inputs that already had derived values attached
	for _, ep := range varEntryPoints {
		c.Require("entry_writes:"+ep, total/400)
	}
	for _, ep := range setEntryPoints {
		c.Require("entry_set_writes:"+ep, total/400)
	}
	for _, k := range []string{"variable", "variable-with-transformation", "derivedvariable", "counter"} {
		c.Require("entry_writes_on_carrier:"+k, total/400)
	}
	c.Require("entry_event_writes", total/400)
	// chains: direct writes on middle nodes (most of them without effect) followed by >= 2 effective source mutations
	c.Require("entry_set_middle_writes_without_effect", total/100)
	c.Require("entry_set_middle_write_then_two_source_mutations", total/100)
	c.Require("entry_var_middle_writes_without_effect", total/100)
	c.Require("entry_var_middle_write_then_two_input_changes", total/100)
	// writes that fail / abort part-way
	c.Require("entry_set_failed_decodes_after_a_complete_element", total/100)
	c.Require("entry_set_decode_cut_sweeps", total/400)
	c.Require("entry_set_teardowns_inside_update", total/400)
	c.Require("entry_var_teardowns_inside_update", total/400)
	c.Require("entry_failed_writes", total/400)
	c.Require("writes_beyond_set_compute", total/20)
	for _, s := range scenarios {
		if s.name == "disc" {
			discRequire(func(k string, n int) { c.Require(k, n) }, c.Note, total*s.share/100)
		}
	}
}

func main() { vf.Main("C14", "exploration", run, child) }
