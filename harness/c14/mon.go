// Shared monitor plumbing of the reactive checks (C13, C14): logical clock,
// child driver with restart after a process death, dead-lock verdicts (Go
// runtime detector in plain children, goroutine-snapshot rule in -race
// children), race report classification.
package main

import (
	"fmt"
	"os"
	"regexp"
	"runtime"
	"sort"
	"strconv"
	"strings"
	"sync/atomic"
	"time"

	"verif/harness/internal/gdump"
	"verif/harness/internal/vf"
)

// ---------------------------------------------------------------- clock

// clock is the only clock used by deciding oracles (DESIGN 1.3).
var clock atomic.Uint64

func tick() uint64 { return clock.Add(1) }

// progress is bumped by every finished operation; the snapshot monitor uses it
// only as a cheap pre-filter (the verdict itself is structural).
var progress atomic.Uint64

func yield(n int) {
	for i := 0; i < n; i++ {
		runtime.Gosched()
	}
}

// current run (for the in-process monitor of -race children)
var curScenario atomic.Value // string
var curRun atomic.Int64

// ---------------------------------------------------------------- dead-lock classification

var typeParamRe = regexp.MustCompile(`\[[^\[\]]*\]`)
var digitsRe = regexp.MustCompile(`\d+`)

func stripTypeParams(s string) string {
	for {
		t := typeParamRe.ReplaceAllString(s, "")
		if t == s {
			return s
		}
		s = t
	}
}

func shortFn(f string) string {
	f = stripTypeParams(f)
	if i := strings.LastIndex(f, "/"); i >= 0 {
		f = f[i+1:]
	}
	return f
}

// classifyDeadlock derives a stable class name from the blocked goroutines of
// a dump: the known SortedSet lock-order inversion gets its own name, every
// other shape is named after the innermost hive.go frames of the parked
// goroutines.
func classifyDeadlock(scenario string, gs []gdump.G) (fp, what string) {
	var delWaitsExec, cbWaitsSet bool
	inner := map[string]bool{}
	for _, g := range gs {
		if !g.Parked() {
			continue
		}
		var first string
		for _, f := range g.Frames {
			if strings.Contains(f, "iotaledger/hive.go/") {
				first = shortFn(f)
				break
			}
		}
		if first == "" {
			continue
		}
		inner[first+"@"+g.State] = true
		hasDel, hasMark, hasCb := false, false, false
		for _, f := range g.Frames {
			sf := shortFn(f)
			if strings.Contains(sf, "sortedSet).deleteSorted") {
				hasDel = true
			}
			if strings.Contains(sf, "MarkUnsubscribed") {
				hasMark = true
			}
			if strings.Contains(sf, "sortedSet).addSorted.func") {
				hasCb = true
			}
		}
		if hasDel && hasMark {
			delWaitsExec = true
		}
		if hasCb && !hasDel && g.Has("sync.(*RWMutex).Lock") {
			cbWaitsSet = true
		}
	}
	keys := make([]string, 0, len(inner))
	for k := range inner {
		keys = append(keys, k)
	}
	sort.Strings(keys)
	if delWaitsExec && cbWaitsSet {
		return "sortedset/deadlock-delete-vs-weight-update",
			"dead-lock: deleteSorted holds the SortedSet mutex and waits (MarkUnsubscribed) for the weight callback's execution lock while the weight callback holds that lock and waits for the SortedSet mutex"
	}
	return "deadlock/" + scenario + "/" + strings.Join(keys, "|"), "dead-lock in scenario " + scenario + ": every goroutine is parked; blocked in " + strings.Join(keys, ", ")
}

func trimDump(s string) string {
	if i := strings.Index(s, "fatal error:"); i >= 0 {
		s = s[i:]
	}
	if len(s) > 12000 {
		s = s[:12000]
	}
	return s
}

// ---------------------------------------------------------------- in-process snapshot monitor (-race children)

// startSnapshotMonitor implements DESIGN 1.4 rule 2 for builds in which the Go
// runtime dead-lock detector does not fire: every goroutine except the
// monitor parked on a sync primitive/channel in three consecutive identical
// snapshots => no goroutine can ever run again. The sleep only paces the
// monitor; it never decides.
func startSnapshotMonitor(c *vf.Ctx) {
	go func() {
		var lastP uint64
		lastSig := ""
		stable := 0
		for {
			time.Sleep(15 * time.Millisecond)
			p := progress.Load()
			if p != lastP {
				lastP, lastSig, stable = p, "", 0
				continue
			}
			gs := gdump.Snapshot()
			if !gdump.Quiescent(gs) {
				lastSig, stable = "", 0
				continue
			}
			var b strings.Builder
			raw := ""
			for _, g := range gs {
				if g.State == "running" {
					continue
				}
				fmt.Fprintf(&b, "%d:%s;", g.ID, g.State)
				raw += g.Raw + "\n\n"
			}
			if sig := b.String(); sig == lastSig {
				stable++
			} else {
				lastSig, stable = sig, 0
			}
			if stable >= 2 && progress.Load() == p {
				scn, _ := curScenario.Load().(string)
				fp, what := classifyDeadlock(scn, gs)
				c.Count("deadlocks", 1)
				c.Violation(fp, what+" (goroutine-snapshot rule, -race build)", caseRef{Scenario: scn, Run: int(curRun.Load()), Race: true, Dump: trimDump(raw)})
				c.Emit("deadlock-at", curRun.Load())
				c.FlushStats()
				os.Exit(7)
			}
		}
	}()
}

// ---------------------------------------------------------------- parent-side driver

// caseRef identifies one run: scenario + run index under the check's seed.
type caseRef struct {
	Scenario string `json:"scenario"`
	Run      int    `json:"run"`
	Race     bool   `json:"race"`
	Seed     int64  `json:"seed,omitempty"`
	Detail   any    `json:"detail,omitempty"`
	Dump     string `json:"dump,omitempty"`
}

type job struct {
	Scenario    string
	Start, N    int
	Race        bool
	MaxRestarts int
}

var racePkgs = []string{"hive.go/ds/reactive", "hive.go/ds."}

func stackTouches(block string) bool {
	for _, p := range racePkgs {
		if strings.Contains(block, p) {
			return true
		}
	}
	return false
}

// raceStacks returns the function names (innermost first) of the access stacks
// of one race report. (vf.RaceReport.Key truncates method names at the
// receiver's parenthesis, so the report text is parsed here.)
func raceStacks(text string) (stacks [][]string) {
	head := text
	if i := strings.Index(head, "\nGoroutine "); i >= 0 {
		head = head[:i]
	}
	for _, blk := range strings.Split(head, "\n\n") {
		var fns []string
		for _, l := range strings.Split(blk, "\n") {
			if !strings.HasPrefix(l, "  ") || strings.HasPrefix(l, "   ") {
				continue
			}
			l = strings.TrimSpace(l)
			if i := strings.LastIndexByte(l, '('); i > 0 {
				l = l[:i]
			}
			fns = append(fns, l)
		}
		if len(fns) > 0 {
			stacks = append(stacks, fns)
		}
	}
	return
}

// reportRaces: a report is a violation when both access stacks are inside
// hive.go/ds(/reactive) operations (DESIGN 1.6); other reports become notes.
// Reports are de-duplicated by the innermost hive.go function of each stack.
func reportRaces(c *vf.Ctx, rs []vf.RaceReport, j job) {
	seen := map[string]bool{}
	for _, r := range rs {
		c.Count("race_reports", 1)
		stacks := raceStacks(r.Text)
		var keyFns []string
		in := 0
		for _, st := range stacks {
			touched := false
			first := ""
			for _, f := range st {
				if stackTouches(f) {
					touched = true
				}
				if first == "" && strings.Contains(f, "iotaledger/hive.go") {
					first = shortFn(f)
				}
			}
			if touched {
				in++
			}
			if first == "" && len(st) > 0 {
				first = shortFn(st[0])
			}
			keyFns = append(keyFns, first)
		}
		sort.Strings(keyFns)
		key := strings.Join(keyFns, " <-> ")
		if seen[key] {
			continue
		}
		seen[key] = true
		txt := r.Text
		if len(txt) > 8000 {
			txt = txt[:8000]
		}
		if len(stacks) >= 2 && in >= 2 {
			c.Violation("race:"+key, "data race inside operations the statement constrains ("+j.Scenario+"): "+key, caseRef{Scenario: j.Scenario, Run: j.Start, Race: true, Dump: txt})
		} else {
			c.Note("race outside statement: " + key)
		}
	}
}

// scenarioOfMark: the "disc" scenario names the user-code site it was driving ("disc:<site> <run>") when the child died.
func scenarioOfMark(mark, scenario string) string {
	if f := strings.Fields(mark); len(f) == 2 && strings.HasPrefix(f[0], scenario+":") {
		return f[0]
	}
	return scenario
}

func markRun(m string) int {
	f := strings.Fields(m)
	if len(f) == 2 {
		if v, err := strconv.Atoi(f[1]); err == nil {
			return v
		}
	}
	return -1
}

// runJob runs [Start, Start+N) of a scenario in a child; when the child dies
// (dead-lock, fatal error) the death is attributed to the marked run, a
// verdict is derived structurally and the rest continues in a fresh child.
func runJob(c *vf.Ctx, j job, timeout time.Duration) {
	start, end := j.Start, j.Start+j.N
	restarts := 0
	for start < end {
		res := c.RunChild(vf.ChildOpts{Name: "runs", Args: []string{j.Scenario, strconv.Itoa(start), strconv.Itoa(end - start)}, Race: j.Race, Timeout: timeout})
		reportRaces(c, res.Races, j)
		deadAt := false // the -race child's snapshot monitor reported a dead-lock (its exit status may be 7 or the race runtime's 66)
		for _, r := range res.Records {
			if r.Kind == "deadlock-at" {
				deadAt = true
			}
		}
		if !deadAt && (res.ExitCode == 0 || j.Race && res.ExitCode == 66) && !res.TimedOut {
			return // 66: the race runtime's exit status when it has reported races (already collected above)
		}
		idx := markRun(res.LastMark)
		ref := caseRef{Scenario: j.Scenario, Run: idx, Race: j.Race, Dump: trimDump(res.Stderr)}
		scn := scenarioOfMark(res.LastMark, j.Scenario)
		switch {
		case deadAt || res.ExitCode == 7:
			// -race child: its snapshot monitor already reported the dead-lock
		case res.Deadlock:
			fp, what := classifyDeadlock(scn, gdump.Parse(res.Stderr))
			c.Count("deadlocks", 1)
			c.Violation(fp, what+" (Go runtime: all goroutines are asleep)", ref)
		case res.TimedOut:
			gs := gdump.Parse(res.Stderr)
			allParked := len(gs) > 1
			for _, g := range gs {
				if !g.Parked() && !strings.HasPrefix(g.State, "syscall") && !strings.Contains(g.Raw, "os/signal") {
					allParked = false
				}
			}
			if allParked {
				fp, what := classifyDeadlock(scn, gs)
				c.Count("deadlocks", 1)
				c.Violation(fp, what+" (watchdog dump: every goroutine parked)", ref)
			} else {
				c.Inconclusive(fmt.Sprintf("watchdog fired in scenario %s run %d and the dump does not match a dead-lock rule", j.Scenario, idx))
			}
		default:
			msg := res.Fatal
			if msg == "" {
				msg = fmt.Sprintf("exit code %d", res.ExitCode)
			}
			c.Violation("crash/"+j.Scenario+"/"+digitsRe.ReplaceAllString(msg, "N"), "child process died in scenario "+j.Scenario+": "+msg, ref)
		}
		restarts++
		if idx < 0 || restarts > j.MaxRestarts {
			c.Count("runs_skipped_after_restarts", end-start)
			return
		}
		start = idx + 1
	}
}

func runSeedOf(c *vf.Ctx, scenario string, i int) string { return fmt.Sprintf("%s/%d", scenario, i) }
