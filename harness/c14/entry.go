// Write entry points. The statement quantifies over ALL histories of input changes, so an input that already has
// derived values attached must be driven through EVERY exported write entry point of its interface, not only through
// Set/Compute (Variable) or Add/Delete/Apply (Set). The lists below were enumerated from the exported interfaces
// (reactive.Variable + WritableVariable, reactive.Event, ds.WriteableSet and the Clear method of ds.ReadableSet):
//
//	Variable[T]: Init, Set, Compute, DefaultTo, ToggleValue (and the reset function it returns), InheritFrom,
//	             DeriveValueFrom                            (the carrier may be a plain Variable, a Variable with a
//	             transformation function, a DerivedVariable or a Counter: all of them export the same write methods)
//	Event:       the above on Variable[bool] + Trigger
//	Set[T]:      Add, AddAll, Delete, DeleteAll, Apply, Compute, Replace, Decode, Clear
//
// writeVar / writeEvent are used by the concurrent writer mixes of the older scenarios (dv, counter, SortedSet
// weights) and by the two scenarios of this file:
//
//	entry-var  inputs of every carrier kind with DerivedVariable1-4, chained DerivedVariable, InheritFrom,
//	           DeriveValueFrom, Counter.Monitor and SortedSet weights attached BEFORE the writes; Events with a
//	           Counter, a DerivedVariable and an InheritFrom copy attached. Sequential histories (oracle after every
//	           step, the fingerprint names the entry point) and concurrent rounds (oracle after the join).
//	entry-set  chains of reactive sets three levels deep (sources -> DerivedSet / SubtractReactive -> chained
//	           DerivedSet / SubtractReactive of derived sets -> third level); sequential histories in which the
//	           sources AND the middle nodes are written through all Set entry points (the middle nodes mostly with
//	           writes that change nothing), every level checked after every step against the current contents of
//	           its parents; writes that fail or abort part-way (Decode of a payload cut at every position, Compute
//	           whose factory panics, InheritFrom torn down from inside the update being delivered).
//
// entry-var does the same for Variables in its sequential half: input -> DerivedVariable -> DerivedVariable ->
// DerivedVariable2, input -> InheritFrom copy -> copy of the copy -> DerivedVariable, Counter -> DerivedVariable,
// with direct writes on the middle nodes, teardown of InheritFrom / DeriveValueFrom inside an update and re-attach,
// and a Compute whose function panics.
package main

import (
	"fmt"
	"math/rand"

	"github.com/iotaledger/hive.go/ds"
	"github.com/iotaledger/hive.go/ds/reactive"
	"github.com/iotaledger/hive.go/serializer/v2/serix"
)

// varEntryPoints: every exported way to write a reactive.Variable.
var varEntryPoints = []string{"Set", "Compute", "Init", "DefaultTo", "ToggleValue", "ToggleValue+reset", "InheritFrom", "DeriveValueFrom"}

// varEntryPointsBeyondSetCompute: what the original writer mixes did not use.
var varEntryPointsBeyondSetCompute = varEntryPoints[2:]

// writeVar writes through the named entry point. mod > 0 keeps Compute results in [0, mod). The InheritFrom and
// DeriveValueFrom forms subscribe v to a fresh source that holds val and unsubscribe at once: v has received val
// (the zero value included) by the time the call returns.
func writeVar(v reactive.Variable[int], ep string, val, mod int) {
	switch ep {
	case "Set":
		v.Set(val)
	case "Compute":
		v.Compute(func(c int) int {
			if mod > 0 {
				return ((c+val)%mod + mod) % mod
			}
			return c + val
		})
	case "Init":
		v.Init(val)
	case "DefaultTo":
		v.DefaultTo(val)
	case "ToggleValue":
		v.ToggleValue(val)
	case "ToggleValue+reset":
		v.ToggleValue(val)()
	case "InheritFrom":
		v.InheritFrom(reactive.NewVariable[int]().Init(val))()
	case "DeriveValueFrom":
		v.DeriveValueFrom(reactive.NewDerivedVariable[int](func(_ int, x int) int { return x }, reactive.NewVariable[int]().Init(val)))()
	default:
		panic("unknown variable entry point " + ep)
	}
}

// endsAtZero: the entry point leaves the zero value behind for certain (used for the zero-write windows of dv).
func endsAtZero(ep string, val int) bool {
	switch ep {
	case "Set", "Init", "ToggleValue", "InheritFrom", "DeriveValueFrom":
		return val == 0
	case "ToggleValue+reset":
		return true
	}
	return false
}

var eventEntryPoints = []string{"Trigger", "Set", "Init", "Compute", "DefaultTo", "ToggleValue", "ToggleValue+reset", "InheritFrom"}

func writeEvent(e reactive.Event, ep string, val bool) {
	switch ep {
	case "Trigger":
		e.Trigger()
	case "Set":
		e.Set(val)
	case "Init":
		e.Init(val)
	case "Compute":
		e.Compute(func(c bool) bool { return c || val })
	case "DefaultTo":
		e.DefaultTo(val)
	case "ToggleValue":
		e.ToggleValue(val)
	case "ToggleValue+reset":
		e.ToggleValue(val)() // an event cannot be reset: stays triggered
	case "InheritFrom":
		e.InheritFrom(reactive.NewVariable[bool]().Init(val))()
	default:
		panic("unknown event entry point " + ep)
	}
}

func b2i(b bool) int {
	if b {
		return 1
	}
	return 0
}

// varNode is one derived value: a level of a chain input -> derived -> derived-of-derived ... want() is the defining
// function of the CURRENT values of its parents, whatever these are. Derived values are writable themselves: after a
// direct write that leaves a node different from its defining function the node is not checked (tainted) until one
// of its parents changes its value, which must recompute it (incremental nodes - the Counter - stay tainted). What
// is derived from the node is checked against the node's actual value throughout.
type varNode struct {
	construct, about string
	v                reactive.Variable[int] // handle for direct writes; nil: none
	get, want        func() int
	parents          []func() int
	incremental      bool
	tainted          bool
	detached         bool // torn down: no defining function until re-attached
	hasSubscribers   bool // a middle node of a chain
	last             []int
}

type entryStep struct {
	Input string `json:"input"`
	EP    string `json:"entry_point"`
	Val   int    `json:"value"`
	Note  string `json:"note,omitempty"`
	Yield int    `json:"-"`
}

// computePanics calls v.Compute with a function that panics and recovers the panic.
func computePanics(v reactive.Variable[int]) {
	defer func() {
		if r := recover(); r != nil {
			if _, ok := r.(thrown); !ok {
				panic(r)
			}
		}
	}()
	v.Compute(func(int) int { panic(thrown{}) })
}

// ============================================================== entry-var

func runEntryVar(rng *rand.Rand) (viols []viol, st runStats) {
	const maxVal = 10
	n := 1 + rng.Intn(4)
	m := rng.Intn(3)
	seq := rng.Intn(2) == 0
	st.shape = fmt.Sprintf("entry-var/n%d/ev%d/seq%v", n, m, seq)
	val := func() int {
		if rng.Intn(4) == 0 {
			return 0
		}
		return 1 + rng.Intn(maxVal-1)
	}
	// ---- inputs: every kind of object that exports the Variable write methods
	in := make([]reactive.Variable[int], n)
	up := make([]reactive.Variable[int], n) // optional upstream: in[i].InheritFrom(up[i]) while attached
	unsubUp := make([]func(), n)
	carrier := make([]string, n)
	teardownInside := make([]func(), n) // run from inside the next update of input i (a subscriber registered first)
	for i := range in {
		i := i
		switch rng.Intn(5) {
		case 0, 1:
			carrier[i] = "variable"
			in[i] = reactive.NewVariable[int]()
		case 2:
			carrier[i] = "variable-with-transformation"
			in[i] = reactive.NewVariable[int](func(cur, nv int) int {
				if nv == 7 { // rejects one value
					return cur
				}
				return nv
			})
		case 3:
			carrier[i] = "derivedvariable"
			in[i] = reactive.NewDerivedVariable[int](func(_ int, x int) int { return x }, reactive.NewVariable[int]())
		default:
			carrier[i] = "counter"
			in[i] = reactive.NewCounter[int]()
		}
		if rng.Intn(2) == 0 {
			in[i].Init(val()) // the usual chaining right after the constructor
		}
		up[i] = reactive.NewVariable[int]()
		st.shape += "/" + carrier[i][:1]
		in[i].OnUpdate(func(_, _ int) {
			if f := teardownInside[i]; f != nil {
				teardownInside[i] = nil
				f()
				st.add("entry_var_teardowns_inside_update", 1)
			}
		})
	}
	ev := make([]reactive.Event, m)
	for j := range ev {
		ev[j] = reactive.NewEvent()
	}
	// ---- derived values, all attached before the writes
	f := func(x ...int) int {
		r, mul := 0, 1
		for _, v := range x {
			r += v * mul
			mul *= 100
		}
		return r
	}
	var nodes []*varNode
	add := func(nd *varNode) *varNode {
		nodes = append(nodes, nd)
		return nd
	}
	// re-attachable copies: InheritFrom / DeriveValueFrom targets of input i with their current teardown
	type reatt struct {
		node     *varNode
		teardown func()
		attach   func() func()
	}
	var reatts []*reatt
	inputOf := map[*reatt]int{}
	for i := range in {
		i := i
		d1 := reactive.NewDerivedVariable[int](func(_ int, x int) int { return 3*x + 1 }, in[i])
		add(&varNode{construct: "derivedvariable1", about: fmt.Sprintf("of input %d", i), v: d1, get: d1.Get, want: func() int { return 3*in[i].Get() + 1 }, parents: []func() int{in[i].Get}, hasSubscribers: true})
		ch := reactive.NewDerivedVariable[int](func(_ int, x int) int { return 2 * x }, d1)
		add(&varNode{construct: "derivedvariable1-chained", about: fmt.Sprintf("of the DerivedVariable of input %d", i), v: ch, get: ch.Get, want: func() int { return 2 * d1.Get() }, parents: []func() int{d1.Get}, hasSubscribers: true})
		ch2 := reactive.NewDerivedVariable2[int](func(_ int, x, y int) int { return x + 1000*y }, ch, d1)
		add(&varNode{construct: "derivedvariable2-chained-twice", about: fmt.Sprintf("of both DerivedVariables above input %d", i), get: ch2.Get, want: func() int { return ch.Get() + 1000*d1.Get() }})
		t := reactive.NewVariable[int]()
		if rng.Intn(2) == 0 {
			t.Init(77)
		}
		tn := add(&varNode{construct: "inheritfrom", about: fmt.Sprintf("copy of input %d", i), v: t, get: t.Get, want: in[i].Get, parents: []func() int{in[i].Get}, hasSubscribers: true})
		ra := &reatt{node: tn, attach: func() func() { return t.InheritFrom(in[i]) }}
		ra.teardown = ra.attach()
		reatts, inputOf[ra] = append(reatts, ra), i
		tt := reactive.NewVariable[int]()
		tt.InheritFrom(t)
		ttn := add(&varNode{construct: "inheritfrom-chained", about: fmt.Sprintf("copy of the copy of input %d", i), v: tt, get: tt.Get, want: t.Get, parents: []func() int{t.Get}, hasSubscribers: true})
		_ = ttn
		ttd := reactive.NewDerivedVariable[int](func(_ int, x int) int { return x + 9 }, tt)
		add(&varNode{construct: "derivedvariable1-of-inheritfrom-chain", about: fmt.Sprintf("of the copy of the copy of input %d", i), get: ttd.Get, want: func() int { return tt.Get() + 9 }})
		t2 := reactive.NewVariable[int]()
		t2n := add(&varNode{construct: "derivevaluefrom", about: fmt.Sprintf("of input %d", i), v: t2, get: t2.Get, want: func() int { return in[i].Get() + 5 }, parents: []func() int{in[i].Get}})
		ra2 := &reatt{node: t2n, attach: func() func() {
			return t2.DeriveValueFrom(reactive.NewDerivedVariable[int](func(_ int, x int) int { return x + 5 }, in[i]))
		}}
		ra2.teardown = ra2.attach()
		reatts, inputOf[ra2] = append(reatts, ra2), i
	}
	allIn := make([]func() int, n)
	for i := range in {
		allIn[i] = in[i].Get
	}
	var dN reactive.DerivedVariable[int]
	switch n {
	case 2:
		dN = reactive.NewDerivedVariable2[int](func(_ int, a, b int) int { return f(a, b) }, in[0], in[1])
	case 3:
		dN = reactive.NewDerivedVariable3[int](func(_ int, a, b, c int) int { return f(a, b, c) }, in[0], in[1], in[2])
	case 4:
		dN = reactive.NewDerivedVariable4[int](func(_ int, a, b, c, e int) int { return f(a, b, c, e) }, in[0], in[1], in[2], in[3])
	}
	if dN != nil {
		add(&varNode{construct: fmt.Sprintf("derivedvariable%d", n), about: "of all inputs", v: dN, get: dN.Get, parents: allIn, hasSubscribers: true, want: func() int {
			x := make([]int, n)
			for i := range in {
				x[i] = in[i].Get()
			}
			return f(x...)
		}})
		dNc := reactive.NewDerivedVariable[int](func(_ int, x int) int { return x + 3 }, dN)
		add(&varNode{construct: "derivedvariable1-chained", about: fmt.Sprintf("of the DerivedVariable%d of all inputs", n), get: dNc.Get, want: func() int { return dN.Get() + 3 }})
	}
	cname, cond, isDefault := counterCond(rng)
	var cnt reactive.Counter[int]
	if isDefault {
		cnt = reactive.NewCounter[int]()
	} else {
		cnt = reactive.NewCounter[int](cond)
	}
	monitored := make([]bool, n)
	for i := range in {
		if rng.Intn(4) != 0 {
			cnt.Monitor(in[i])
			monitored[i] = true
		}
	}
	add(&varNode{construct: "counter", about: "condition " + cname, v: cnt, get: cnt.Get, incremental: true, hasSubscribers: true, want: func() (w int) {
		for i := range in {
			if monitored[i] && cond(in[i].Get()) {
				w++
			}
		}
		return
	}})
	cntD := reactive.NewDerivedVariable[int](func(_ int, x int) int { return 10 * x }, cnt)
	add(&varNode{construct: "derivedvariable1-of-counter", about: "of the counter", get: cntD.Get, want: func() int { return 10 * cnt.Get() }})
	// SortedSet whose weight variables are the inputs
	sse := &ssEnv[int]{k: intKind, U: n, w: append([]reactive.Variable[int]{reactive.NewVariable[int]()}, in...)}
	sse.ss = reactive.NewSortedSet[int, int](func(el int) reactive.Variable[int] { return sse.w[el] })
	for i := 1; i <= n; i++ {
		if rng.Intn(4) != 0 {
			sse.ss.Add(i)
		}
	}
	// Events
	if m > 0 {
		ec := reactive.NewCounter[bool]()
		for j := range ev {
			j := j
			ec.Monitor(ev[j])
			d := reactive.NewDerivedVariable[int](func(_ int, b bool) int { return 7 * b2i(b) }, ev[j])
			add(&varNode{construct: "derivedvariable1-of-event", about: fmt.Sprintf("of event %d", j), get: d.Get, want: func() int { return 7 * b2i(ev[j].Get()) }})
			t := reactive.NewVariable[bool]()
			t.InheritFrom(ev[j])
			add(&varNode{construct: "inheritfrom-event", about: fmt.Sprintf("copy of event %d", j), get: func() int { return b2i(t.Get()) }, want: func() int { return b2i(ev[j].Get()) }})
			et := reactive.NewEvent()
			et.InheritFrom(ev[j])
			add(&varNode{construct: "event-inheritfrom-event", about: fmt.Sprintf("event following event %d", j), get: func() int { return b2i(et.WasTriggered()) }, want: func() int { return b2i(ev[j].WasTriggered()) }})
		}
		add(&varNode{construct: "counter-of-events", about: "default condition", get: ec.Get, want: func() (w int) {
			for j := range ev {
				w += b2i(ev[j].Get())
			}
			return
		}})
	}
	var middle []*varNode
	for _, nd := range nodes {
		if nd.v != nil && nd.hasSubscribers {
			middle = append(middle, nd)
		}
	}
	state := func() map[string]any {
		vals := make([]int, n)
		for i := range in {
			vals[i] = in[i].Get()
		}
		evs := make([]bool, m)
		for j := range ev {
			evs[j] = ev[j].Get()
		}
		var nv []string
		for _, nd := range nodes {
			nv = append(nv, fmt.Sprintf("%s %s = %d (directly written=%v, detached=%v)", nd.construct, nd.about, nd.get(), nd.tainted, nd.detached))
		}
		return map[string]any{"inputs": vals, "carriers": carrier, "events": evs, "counter_condition": cname, "monitored": monitored, "derived": nv}
	}
	// check returns the first derived value that differs from its defining function
	check := func() (construct, what string, det map[string]any) {
		for _, c := range nodes {
			if c.tainted || c.detached {
				continue
			}
			if got, want := c.get(), c.want(); got != want {
				det = state()
				det["construct"], det["got"], det["want"] = c.construct+" "+c.about, got, want
				return c.construct, fmt.Sprintf("%s %s holds %d, its defining function of the current values it is derived from is %d", c.construct, c.about, got, want), det
			}
		}
		if kind, what, sdet := sse.check(); kind != "" {
			det = state()
			det["sortedset"] = sdet
			return "sortedset/" + kind, "SortedSet whose weights are the inputs: " + what, det
		}
		return "", "", nil
	}
	if c, what, det := check(); c != "" {
		st.nontrivial = true
		return []viol{{c + "/diverges-at-creation", "right after attaching to inputs that were initialised with the chained Init: " + what, det}}, st
	}
	genStep := func(i int) entryStep {
		if i >= n {
			return entryStep{Input: fmt.Sprintf("event %d", i-n), EP: eventEntryPoints[rng.Intn(len(eventEntryPoints))], Val: b2i(rng.Intn(5) != 0), Yield: rng.Intn(4)}
		}
		return entryStep{Input: fmt.Sprintf("input %d", i), EP: varEntryPoints[rng.Intn(len(varEntryPoints))], Val: val(), Yield: rng.Intn(4)}
	}
	exec := func(i int, s entryStep) {
		if i >= n {
			writeEvent(ev[i-n], s.EP, s.Val != 0)
		} else {
			writeVar(in[i], s.EP, s.Val, maxVal)
		}
	}
	// toggleUp attaches / detaches the persistent upstream of input i (a structural change at a quiescent point)
	toggleUp := func(i int) string {
		st.structural++
		if unsubUp[i] != nil {
			unsubUp[i]()
			unsubUp[i] = nil
			return "unsubscribe-upstream"
		}
		unsubUp[i] = in[i].InheritFrom(up[i])
		return "InheritFrom(upstream)"
	}
	if seq {
		var hist []any
		sinceMiddleWrite := -1
		snapshot := func() {
			for _, nd := range nodes {
				nd.last = nd.last[:0]
				for _, p := range nd.parents {
					nd.last = append(nd.last, p())
				}
			}
		}
		// settle: a tainted node whose parent changed its value has been recomputed and has a defining function again
		settle := func() {
			for _, nd := range nodes {
				if !nd.tainted || nd.incremental {
					continue
				}
				for k, p := range nd.parents {
					if p() != nd.last[k] {
						nd.tainted = false
					}
				}
			}
		}
		fail := func(c, ep, on, what string, det map[string]any) ([]viol, runStats) {
			det["history"] = hist
			st.nontrivial = true
			return []viol{{c + "/diverges-after-write/" + ep, fmt.Sprintf("sequential history, derived values attached before the writes: after %s on %s: %s", ep, on, what), det}}, st
		}
		steps := 6 + rng.Intn(26)
		for k := 0; k <= steps; k++ {
			i := rng.Intn(n + m)
			ep, on := "", fmt.Sprintf("input/event %d", i)
			snapshot()
			var written *varNode
			switch r := rng.Intn(12); {
			case k == steps: // a write that aborts: Compute with a function that panics, on an input or a middle node
				if rng.Intn(2) == 0 {
					continue
				}
				v := in[rng.Intn(n)]
				on = "an input"
				if rng.Intn(2) == 0 {
					nd := middle[rng.Intn(len(middle))]
					v, on = nd.v, nd.construct+" "+nd.about
				}
				computePanics(v)
				ep = "Compute-function-panics"
				hist = append(hist, map[string]any{"on": on, "entry_point": ep})
				st.add("entry_failed_writes", 1)
			case r == 0 && i < n:
				ep = toggleUp(i)
				hist = append(hist, map[string]any{"input": i, "structural": ep})
			case r == 1 && i < n && unsubUp[i] != nil:
				v := val()
				up[i].Set(v)
				ep = "upstream.Set"
				hist = append(hist, map[string]any{"input": i, "upstream_set": v})
				st.ops++
			case r == 2: // tear an InheritFrom / DeriveValueFrom down from inside the next update of its input, or re-attach
				ra := reatts[rng.Intn(len(reatts))]
				st.structural++
				if ra.node.detached {
					ra.teardown = ra.attach()
					ra.node.detached, ra.node.tainted = false, false
					ep = "re-attach " + ra.node.construct
				} else {
					teardownInside[inputOf[ra]] = func() {
						ra.teardown()
						ra.node.detached = true
					}
					ep = "arm teardown of " + ra.node.construct + " inside the next update"
				}
				hist = append(hist, map[string]any{"input": inputOf[ra], "structural": ep})
			case r <= 5: // direct write on a middle node of a chain, mostly one that changes nothing
				nd := middle[rng.Intn(len(middle))]
				s := entryStep{Input: nd.construct + " " + nd.about, EP: varEntryPoints[rng.Intn(len(varEntryPoints))], Val: val()}
				if rng.Intn(3) != 0 {
					s.Note = "changes nothing"
					switch s.Val = nd.get(); s.EP {
					case "Compute":
						s.Val = 0
					case "ToggleValue+reset":
						s.EP = "ToggleValue"
					}
				}
				before := nd.get()
				writeVar(nd.v, s.EP, s.Val, maxVal)
				ep, on, written = s.EP, s.Input, nd
				hist = append(hist, s)
				st.ops++
				st.add("entry_var_middle_writes:"+ep, 1)
				if nd.get() == before {
					st.add("entry_var_middle_writes_without_effect", 1)
				}
				sinceMiddleWrite = 0
			default:
				s := genStep(i)
				before := 0
				if i < n {
					before = in[i].Get()
				}
				exec(i, s)
				ep = s.EP
				hist = append(hist, s)
				st.ops++
				st.add("entry_writes:"+ep, 1)
				if i >= n {
					st.add("entry_event_writes", 1)
				} else {
					st.add("entry_writes_on_carrier:"+carrier[i], 1)
					if sinceMiddleWrite >= 0 && in[i].Get() != before {
						if sinceMiddleWrite++; sinceMiddleWrite == 2 {
							st.add("entry_var_middle_write_then_two_input_changes", 1)
						}
					}
				}
			}
			settle()
			if written != nil {
				written.tainted = written.tainted || written.get() != written.want()
			}
			if c, what, det := check(); c != "" {
				return fail(c, ep, on, what, det)
			}
		}
		st.nontrivial = st.ops >= 3
		return
	}
	overl := 0
	for r, rounds := 0, 3+rng.Intn(8); r < rounds; r++ {
		g := newGroup()
		for i := 0; i < n+m; i++ {
			if i >= n && rng.Intn(3) != 0 {
				continue // events are one-shot: few writers suffice
			}
			for w, W := 0, 1+rng.Intn(2); w < W; w++ {
				i := i
				plan := make([]entryStep, 1+rng.Intn(3))
				for k := range plan {
					plan[k] = genStep(i)
					st.add("entry_writes:"+plan[k].EP, 1)
				}
				st.ops += len(plan)
				g.spawn("writer of "+plan[0].Input, func() {
					for _, s := range plan {
						yield(s.Yield)
						exec(i, s)
						progress.Add(1)
					}
				})
			}
			if i < n && unsubUp[i] != nil {
				v, y, u := val(), rng.Intn(4), up[i]
				st.ops++
				g.spawn(fmt.Sprintf("writer of the upstream of input %d", i), func() {
					yield(y)
					u.Set(v)
					progress.Add(1)
				})
			}
		}
		g.run()
		overl += overlapping(g.spans)
		st.nontrivial = overl > 0
		if len(g.pn.rec) > 0 {
			return nil, st
		}
		if c, what, det := check(); c != "" {
			det["round"] = r
			return []viol{{c + "/diverges/entry-point-mix", "concurrent writers using every exported write entry point; after all of them returned: " + what, det}}, st
		}
		if rng.Intn(3) == 0 {
			toggleUp(rng.Intn(n))
			if c, what, det := check(); c != "" {
				det["round"] = r
				return []viol{{c + "/diverges-after-write/InheritFrom(upstream)", "after attaching / detaching an upstream of an input between rounds: " + what, det}}, st
			}
		}
	}
	return
}

// ============================================================== entry-set

// Every exported way to write a reactive.Set (Clear is promoted from ds.ReadableSet).
var setEntryPoints = []string{"Add", "AddAll", "Delete", "DeleteAll", "Apply", "Compute", "Replace", "Clear", "Decode"}

func mask64(s ds.ReadableSet[int64]) (m uint32) {
	s.Range(func(e int64) { m |= 1 << uint(e) })
	return
}

func set64(m uint32) ds.Set[int64] {
	s := ds.NewSet[int64]()
	for e := 0; e < 32; e++ {
		if m&(1<<uint(e)) != 0 {
			s.Add(int64(e))
		}
	}
	return s
}

var serixAPI = serix.NewAPI()

func encode64(m uint32) []byte {
	b, err := set64(m).Encode(serixAPI)
	if err != nil {
		panic(err)
	}
	return b
}

type entrySetStep struct {
	On   string `json:"on"`
	EP   string `json:"entry_point"`
	A, B string
	Note string `json:"note,omitempty"`
	a, b uint32
	cut  int // Decode: number of payload bytes handed over (-1: all); -2: element count in the header inflated
}

// setNode is one level of a chain of reactive sets. want() is the defining function of the CURRENT contents of the
// parents, whatever these are. A node that was written directly with effect (a DerivedSet / SubtractReactive result is
// a writable Set, too) no longer has a defining function (tainted); everything derived from it still has.
type setNode struct {
	name, construct string
	set             reactive.Set[int64]
	want            func() uint32 // nil: a source
	tainted         bool
	depth           int
}

type thrown struct{}

// execEntrySetStep runs one write entry point; failed reports a Decode that returned an error / a factory that panicked.
func execEntrySetStep(set reactive.Set[int64], s entrySetStep) (failed bool) {
	switch s.EP {
	case "Add":
		set.Add(int64(trailing(s.a)))
	case "Delete":
		set.Delete(int64(trailing(s.a)))
	case "AddAll":
		set.AddAll(set64(s.a))
	case "DeleteAll":
		set.DeleteAll(set64(s.a))
	case "Apply":
		set.Apply(ds.NewSetMutations[int64]().WithAddedElements(set64(s.a)).WithDeletedElements(set64(s.b)))
	case "Compute":
		set.Compute(func(cur ds.ReadableSet[int64]) ds.SetMutations[int64] {
			return ds.NewSetMutations[int64]().WithAddedElements(set64(s.a &^ mask64(cur))).WithDeletedElements(set64(s.b & mask64(cur)))
		})
	case "Compute-factory-panics":
		func() {
			defer func() {
				if r := recover(); r != nil {
					if _, ok := r.(thrown); !ok {
						panic(r)
					}
					failed = true
				}
			}()
			set.Compute(func(ds.ReadableSet[int64]) ds.SetMutations[int64] { panic(thrown{}) })
		}()
	case "Replace":
		set.Replace(set64(s.a))
	case "Clear":
		set.Clear()
	case "Decode":
		b := encode64(s.a)
		switch {
		case s.cut == -2:
			b[0] += 3 // the header announces more elements than the payload holds: the error comes after the last element
		case s.cut >= 0 && s.cut < len(b):
			b = b[:s.cut]
		}
		_, err := set.Decode(serixAPI, b)
		failed = err != nil
	default:
		panic("unknown set entry point " + s.EP)
	}
	return
}

// runEntrySet: chains of reactive sets, three levels deep, in which EVERY writable level is written through every
// entry point - the sources, and the middle nodes (DerivedSet, chained DerivedSet, SubtractReactive result) directly,
// mostly with writes that change nothing (Delete of an absent element, Add of a present one, Replace by the same
// contents, an empty Apply, a Decode that fails ...), followed by further source mutations. Writes that fail or abort
// part-way (Decode of a payload cut at every position / with an inflated element count, a Compute whose factory
// panics, an InheritFrom torn down from inside a callback of the update that is being delivered) must leave every
// level equal to its defining function of whatever its parents hold afterwards. Oracle after every step, all levels.
func runEntrySet(rng *rand.Rand) (viols []viol, st runStats) {
	K := 1 + rng.Intn(3)
	U := 3 + rng.Intn(6)
	st.shape = fmt.Sprintf("entry-set/k%d", K)
	all := uint32(1<<uint(U)-1) << 1
	rmask := func() uint32 { return rng.Uint32() & all }
	src := make([]reactive.Set[int64], K)
	armed := make([]bool, K) // tear the inheritance of source i down from inside the next update of source i
	unsub := make([]func(), K)
	inherited := make([]bool, K)
	D := reactive.NewDerivedSet[int64]()
	for i := range src {
		i := i
		src[i] = reactive.NewSet[int64]()
		if rng.Intn(2) == 0 {
			src[i].AddAll(set64(rmask()))
		}
		// registered before D subscribes: runs first while an update of source i is being delivered
		src[i].OnUpdate(func(ds.SetMutations[int64]) {
			if armed[i] && inherited[i] {
				armed[i] = false
				unsub[i]()
				inherited[i] = false
				st.add("entry_set_teardowns_inside_update", 1)
			}
		})
	}
	for i := range src {
		if i == 0 || rng.Intn(4) != 0 {
			unsub[i] = D.InheritFrom(src[i])
			inherited[i] = true
		}
	}
	D2 := reactive.NewDerivedSet[int64]()
	D2.InheritFrom(D)
	D3 := reactive.NewDerivedSet[int64]()
	D3.InheritFrom(D2)
	others := make([]reactive.ReadableSet[int64], 0, K)
	for _, o := range src[1:] {
		others = append(others, o)
	}
	R := src[0].SubtractReactive(others...)
	RD := D.SubtractReactive(src[K-1]) // a derived set as the source of a further derived set
	DR := reactive.NewDerivedSet[int64]()
	DR.InheritFrom(R)
	R3 := D2.SubtractReactive(R)
	var nodes []*setNode
	for i := range src {
		nodes = append(nodes, &setNode{name: fmt.Sprintf("source %d", i), set: src[i]})
	}
	nD := &setNode{name: "D", construct: "derivedset", set: D, depth: 1, want: func() (w uint32) {
		for i := range src {
			if inherited[i] {
				w |= mask64(src[i])
			}
		}
		return
	}}
	nD2 := &setNode{name: "D2", construct: "derivedset-chained", set: D2, depth: 2, want: func() uint32 { return mask64(D) }}
	nD3 := &setNode{name: "D3", construct: "derivedset-chained-twice", set: D3, depth: 3, want: func() uint32 { return mask64(D2) }}
	nR := &setNode{name: "R", construct: "subtractreactive", set: R, depth: 1, want: func() uint32 {
		w := mask64(src[0])
		for _, o := range src[1:] {
			w &^= mask64(o)
		}
		return w
	}}
	nRD := &setNode{name: "RD", construct: "subtractreactive-of-derivedset", set: RD, depth: 2, want: func() uint32 { return mask64(D) &^ mask64(src[K-1]) }}
	nDR := &setNode{name: "DR", construct: "derivedset-of-subtractreactive", set: DR, depth: 2, want: func() uint32 { return mask64(R) }}
	nR3 := &setNode{name: "R3", construct: "subtractreactive-of-chained-sets", set: R3, depth: 3, want: func() uint32 { return mask64(D2) &^ mask64(R) }}
	derived := []*setNode{nD, nD2, nD3, nR, nRD, nDR, nR3}
	middle := []*setNode{nD, nD2, nR} // derived nodes that have subscribers of their own
	nodes = append(nodes, derived...)
	state := func() map[string]any {
		var ss []string
		for i := range src {
			ss = append(ss, fmt.Sprintf("source %d inherited=%v %s", i, inherited[i], mstr(mask64(src[i]))))
		}
		for _, n := range derived {
			ss = append(ss, fmt.Sprintf("%s (%s) directly_written_with_effect=%v %s", n.name, n.construct, n.tainted, mstr(mask64(n.set))))
		}
		return map[string]any{"sets": ss}
	}
	check := func() (construct, what string, det map[string]any) {
		for _, n := range derived {
			if n.tainted {
				continue
			}
			if got, want := mask64(n.set), n.want(); got != want {
				det = state()
				det["construct"], det["got"], det["want"] = n.construct, mstr(got), mstr(want)
				return n.construct, fmt.Sprintf("%s (%s) holds %s, its defining function of the current contents of its sources is %s", n.construct, n.name, mstr(got), mstr(want)), det
			}
		}
		return "", "", nil
	}
	if c, what, det := check(); c != "" {
		st.nontrivial = true
		return []viol{{c + "/diverges-at-creation", what, det}}, st
	}
	// genStep: a write on node n; noop: arguments chosen so that the contents cannot change
	genStep := func(n *setNode, noop bool) entrySetStep {
		s := entrySetStep{On: n.name, EP: setEntryPoints[rng.Intn(len(setEntryPoints))], cut: -1}
		cur := mask64(n.set)
		one := func(m uint32) uint32 { // one element of m
			if m == 0 {
				return 0
			}
			for {
				if e := uint32(1) << uint(1+rng.Intn(U)); m&e != 0 {
					return e
				}
			}
		}
		if noop {
			s.Note = "changes nothing"
			switch s.EP {
			case "Add":
				if s.a = one(cur); s.a == 0 {
					s.EP, s.a = "Delete", one(all)
				}
			case "Delete":
				if s.a = one(all &^ cur); s.a == 0 {
					s.EP, s.a = "Add", one(cur)
				}
			case "AddAll", "Decode":
				s.a = cur & rmask()
			case "DeleteAll":
				s.a = all &^ cur & rmask()
			case "Apply", "Compute":
				if rng.Intn(2) == 0 {
					s.a, s.b = cur&rmask(), all&^cur&rmask()
				}
			case "Replace":
				s.a = cur
			case "Clear":
				if cur != 0 {
					s.EP, s.a = "Replace", cur
				}
			}
		} else {
			switch s.EP {
			case "Add", "Delete":
				s.a = one(all)
			case "AddAll", "DeleteAll", "Replace", "Decode":
				s.a = rmask() & rmask()
				if rng.Intn(3) == 0 {
					s.a = rmask()
				}
			case "Apply", "Compute":
				s.a = rmask() & rmask()
				s.b = rmask() & rmask()
				if rng.Intn(4) != 0 {
					s.b &^= s.a // else: some elements are named as added AND deleted
				}
			}
			if s.EP == "Decode" && rng.Intn(2) == 0 { // a Decode that fails part-way
				s.a |= one(all &^ cur)
				s.Note = "fails"
				if s.cut = rng.Intn(4 + 8*bits32(s.a)); rng.Intn(4) == 0 {
					s.cut = -2
				}
			}
		}
		s.A, s.B = mstr(s.a), mstr(s.b)
		return s
	}
	var hist []any
	sinceMiddleWrite := -1 // source mutations that had an effect since the last direct write on a middle node
	// apply executes the step, maintains the taint marks and evaluates the oracle on every level
	apply := func(n *setNode, s entrySetStep) bool {
		before := mask64(n.set)
		failed := execEntrySetStep(n.set, s)
		hist = append(hist, s)
		st.ops++
		after := mask64(n.set)
		if n.want == nil {
			st.add("entry_set_writes:"+s.EP, 1)
			if sinceMiddleWrite >= 0 && after != before {
				if sinceMiddleWrite++; sinceMiddleWrite == 2 {
					st.add("entry_set_middle_write_then_two_source_mutations", 1)
				}
			}
		} else {
			st.add("entry_set_middle_writes:"+s.EP, 1)
			if after == before {
				st.add("entry_set_middle_writes_without_effect", 1)
			} else {
				n.tainted = true
			}
			sinceMiddleWrite = 0
		}
		if failed {
			st.add("entry_failed_writes", 1)
			if s.EP == "Decode" && (s.cut == -2 || s.cut >= 12) {
				st.add("entry_set_failed_decodes_after_a_complete_element", 1)
			}
		}
		if c, what, det := check(); c != "" {
			det["history"] = hist
			st.nontrivial = true
			ep := s.EP
			if failed {
				ep += "-fails"
			}
			on := "source"
			if n.want != nil {
				on = "middle-node"
			}
			viols = []viol{{c + "/diverges-after-" + on + "-write/" + ep, fmt.Sprintf("sequential history: after %s on %s: %s", ep, n.name, what), det}}
			return false
		}
		return true
	}
	for k, steps := 0, 6+rng.Intn(26); k < steps; k++ {
		switch r := rng.Intn(12); {
		case r == 0: // structural change at a quiescent point
			i := rng.Intn(K)
			kind := "inherit-source"
			if inherited[i] {
				unsub[i]()
				inherited[i] = false
				kind = "unsubscribe-source"
			} else {
				unsub[i] = D.InheritFrom(src[i])
				inherited[i] = true
			}
			st.structural++
			hist = append(hist, map[string]any{"structural": kind, "source": i})
			if c, what, det := check(); c != "" {
				det["history"] = hist
				st.nontrivial = true
				return []viol{{c + "/diverges-after/" + kind, "sequential history: after " + kind + ": " + what, det}}, st
			}
		case r == 1: // the next update of source i tears its inheritance down from inside
			i := rng.Intn(K)
			armed[i] = inherited[i]
			st.structural++
			hist = append(hist, map[string]any{"structural": "unsubscribe-source-inside-its-next-update", "source": i})
		case r <= 4: // direct write on a middle node, mostly without effect
			n := middle[rng.Intn(len(middle))]
			if !apply(n, genStep(n, rng.Intn(4) != 0)) {
				return
			}
		default:
			n := nodes[rng.Intn(K)]
			if !apply(n, genStep(n, rng.Intn(6) == 0)) {
				return
			}
		}
	}
	// failing writes, systematically: one payload cut at every position (and with an inflated element count), on a
	// source or on a middle node; then a Compute whose factory panics
	if rng.Intn(2) == 0 {
		n := nodes[rng.Intn(K)]
		if rng.Intn(3) == 0 {
			n = middle[rng.Intn(len(middle))]
		}
		payload := rmask() | all&^mask64(n.set)&rmask()
		for cut := -2; cut < 4+8*bits32(payload); cut++ {
			if cut == -1 {
				continue
			}
			s := entrySetStep{On: n.name, EP: "Decode", a: payload, A: mstr(payload), cut: cut, Note: fmt.Sprintf("payload cut after %d bytes (-2: element count inflated)", cut)}
			if !apply(n, s) {
				return
			}
		}
		st.add("entry_set_decode_cut_sweeps", 1)
	}
	if rng.Intn(3) == 0 {
		n := nodes[rng.Intn(len(nodes))]
		if !apply(n, entrySetStep{On: n.name, EP: "Compute-factory-panics", cut: -1}) {
			return
		}
	}
	st.nontrivial = true
	return
}

func bits32(m uint32) (n int) {
	for ; m != 0; m &= m - 1 {
		n++
	}
	return
}

func trailing(m uint32) int {
	for e := 0; e < 32; e++ {
		if m&(1<<uint(e)) != 0 {
			return e
		}
	}
	return 0
}
