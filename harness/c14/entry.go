// Write entry points. The statement quantifies over ALL histories of input changes, so an input that already has
// derived values attached must be driven through EVERY exported write entry point of its interface, not only through
// Set/Compute (Variable) or Add/Delete/Apply (Set). The lists below were enumerated from the exported interfaces
// (reactive.Variable + WritableVariable, reactive.Event, ds.WriteableSet and the Clear method of ds.ReadableSet):
//
//	Variable[T]: Init, Set, Compute, DefaultTo, ToggleValue (and the reset function it returns), InheritFrom,
//	             DeriveValueFrom                            (the carrier may be a plain Variable, a Variable with a
//	             transformation function, a DerivedVariable or a Counter: all of them export the same write methods)
//	Event:       the above on Variable[bool] + Trigger
//	Set[T]:      Add, AddAll, Delete, DeleteAll, Apply, Compute, Replace, Decode, Clear
//
// writeVar / writeEvent are used by the concurrent writer mixes of the older scenarios (dv, counter, SortedSet
// weights) and by the two scenarios of this file:
//
//	entry-var  inputs of every carrier kind with DerivedVariable1-4, chained DerivedVariable, InheritFrom,
//	           DeriveValueFrom, Counter.Monitor and SortedSet weights attached BEFORE the writes; Events with a
//	           Counter, a DerivedVariable and an InheritFrom copy attached. Sequential histories (oracle after every
//	           step, the fingerprint names the entry point) and concurrent rounds (oracle after the join).
//	entry-set  sources with a DerivedSet, a chained DerivedSet and SubtractReactive attached; sequential histories
//	           over all Set entry points.
package main

import (
	"fmt"
	"math/rand"
	"os"

	"github.com/iotaledger/hive.go/ds"
	"github.com/iotaledger/hive.go/ds/reactive"
	"github.com/iotaledger/hive.go/serializer/v2/serix"
)

// varEntryPoints: every exported way to write a reactive.Variable.
var varEntryPoints = []string{"Set", "Compute", "Init", "DefaultTo", "ToggleValue", "ToggleValue+reset", "InheritFrom", "DeriveValueFrom"}

// varEntryPointsBeyondSetCompute: what the original writer mixes did not use.
var varEntryPointsBeyondSetCompute = varEntryPoints[2:]

// writeVar writes through the named entry point. mod > 0 keeps Compute results in [0, mod). The InheritFrom and
// DeriveValueFrom forms subscribe v to a fresh source that holds val and unsubscribe at once: v has received val
// (the zero value included) by the time the call returns.
func writeVar(v reactive.Variable[int], ep string, val, mod int) {
	switch ep {
	case "Set":
		v.Set(val)
	case "Compute":
		v.Compute(func(c int) int {
			if mod > 0 {
				return ((c+val)%mod + mod) % mod
			}
			return c + val
		})
	case "Init":
		v.Init(val)
	case "DefaultTo":
		v.DefaultTo(val)
	case "ToggleValue":
		v.ToggleValue(val)
	case "ToggleValue+reset":
		v.ToggleValue(val)()
	case "InheritFrom":
		v.InheritFrom(reactive.NewVariable[int]().Init(val))()
	case "DeriveValueFrom":
		v.DeriveValueFrom(reactive.NewDerivedVariable[int](func(_ int, x int) int { return x }, reactive.NewVariable[int]().Init(val)))()
	default:
		panic("unknown variable entry point " + ep)
	}
}

// endsAtZero: the entry point leaves the zero value behind for certain (used for the zero-write windows of dv).
func endsAtZero(ep string, val int) bool {
	switch ep {
	case "Set", "Init", "ToggleValue", "InheritFrom", "DeriveValueFrom":
		return val == 0
	case "ToggleValue+reset":
		return true
	}
	return false
}

var eventEntryPoints = []string{"Trigger", "Set", "Init", "Compute", "DefaultTo", "ToggleValue", "ToggleValue+reset", "InheritFrom"}

func writeEvent(e reactive.Event, ep string, val bool) {
	switch ep {
	case "Trigger":
		e.Trigger()
	case "Set":
		e.Set(val)
	case "Init":
		e.Init(val)
	case "Compute":
		e.Compute(func(c bool) bool { return c || val })
	case "DefaultTo":
		e.DefaultTo(val)
	case "ToggleValue":
		e.ToggleValue(val)
	case "ToggleValue+reset":
		e.ToggleValue(val)() // an event cannot be reset: stays triggered
	case "InheritFrom":
		e.InheritFrom(reactive.NewVariable[bool]().Init(val))()
	default:
		panic("unknown event entry point " + ep)
	}
}

func b2i(b bool) int {
	if b {
		return 1
	}
	return 0
}

// derivedCheck is one derived value with its defining function of the current inputs.
type derivedCheck struct {
	construct string
	about     string
	get, want func() int
}

type entryStep struct {
	Input string `json:"input"`
	EP    string `json:"entry_point"`
	Val   int    `json:"value"`
	Yield int    `json:"-"`
}

// ============================================================== entry-var

func runEntryVar(rng *rand.Rand) (viols []viol, st runStats) {
	const maxVal = 10
	n := 1 + rng.Intn(4)
	m := rng.Intn(3)
	seq := rng.Intn(2) == 0
	st.shape = fmt.Sprintf("entry-var/n%d/ev%d/seq%v", n, m, seq)
	val := func() int {
		if rng.Intn(4) == 0 {
			return 0
		}
		return 1 + rng.Intn(maxVal-1)
	}
	// ---- inputs: every kind of object that exports the Variable write methods
	in := make([]reactive.Variable[int], n)
	up := make([]reactive.Variable[int], n) // optional upstream: in[i].InheritFrom(up[i]) while attached
	unsubUp := make([]func(), n)
	carrier := make([]string, n)
	for i := range in {
		switch rng.Intn(5) {
		case 0, 1:
			carrier[i] = "variable"
			in[i] = reactive.NewVariable[int]()
		case 2:
			carrier[i] = "variable-with-transformation"
			in[i] = reactive.NewVariable[int](func(cur, nv int) int {
				if nv == 7 { // rejects one value
					return cur
				}
				return nv
			})
		case 3:
			carrier[i] = "derivedvariable"
			in[i] = reactive.NewDerivedVariable[int](func(_ int, x int) int { return x }, reactive.NewVariable[int]())
		default:
			carrier[i] = "counter"
			in[i] = reactive.NewCounter[int]()
		}
		if rng.Intn(2) == 0 {
			in[i].Init(val()) // the usual chaining right after the constructor
		}
		up[i] = reactive.NewVariable[int]()
		st.shape += "/" + carrier[i][:1]
	}
	ev := make([]reactive.Event, m)
	for j := range ev {
		ev[j] = reactive.NewEvent()
	}
	// ---- derived values, all attached before the writes
	f := func(x ...int) int {
		r, mul := 0, 1
		for _, v := range x {
			r += v * mul
			mul *= 100
		}
		return r
	}
	var checks []derivedCheck
	add := func(construct, about string, get, want func() int) {
		checks = append(checks, derivedCheck{construct, about, get, want})
	}
	for i := range in {
		i := i
		d1 := reactive.NewDerivedVariable[int](func(_ int, x int) int { return 3*x + 1 }, in[i])
		add("derivedvariable1", fmt.Sprintf("of input %d", i), d1.Get, func() int { return 3*in[i].Get() + 1 })
		ch := reactive.NewDerivedVariable[int](func(_ int, x int) int { return 2 * x }, d1)
		add("derivedvariable1-chained", fmt.Sprintf("of the DerivedVariable of input %d", i), ch.Get, func() int { return 2 * (3*in[i].Get() + 1) })
		t := reactive.NewVariable[int]()
		if rng.Intn(2) == 0 {
			t.Init(77)
		}
		t.InheritFrom(in[i])
		add("inheritfrom", fmt.Sprintf("copy of input %d", i), t.Get, in[i].Get)
		t2 := reactive.NewVariable[int]()
		t2.DeriveValueFrom(reactive.NewDerivedVariable[int](func(_ int, x int) int { return x + 5 }, in[i]))
		add("derivevaluefrom", fmt.Sprintf("of input %d", i), t2.Get, func() int { return in[i].Get() + 5 })
	}
	switch n {
	case 2:
		d := reactive.NewDerivedVariable2[int](func(_ int, a, b int) int { return f(a, b) }, in[0], in[1])
		add("derivedvariable2", "of all inputs", d.Get, func() int { return f(in[0].Get(), in[1].Get()) })
	case 3:
		d := reactive.NewDerivedVariable3[int](func(_ int, a, b, c int) int { return f(a, b, c) }, in[0], in[1], in[2])
		add("derivedvariable3", "of all inputs", d.Get, func() int { return f(in[0].Get(), in[1].Get(), in[2].Get()) })
	case 4:
		d := reactive.NewDerivedVariable4[int](func(_ int, a, b, c, e int) int { return f(a, b, c, e) }, in[0], in[1], in[2], in[3])
		add("derivedvariable4", "of all inputs", d.Get, func() int { return f(in[0].Get(), in[1].Get(), in[2].Get(), in[3].Get()) })
	}
	cname, cond, isDefault := counterCond(rng)
	var cnt reactive.Counter[int]
	if isDefault {
		cnt = reactive.NewCounter[int]()
	} else {
		cnt = reactive.NewCounter[int](cond)
	}
	monitored := make([]bool, n)
	for i := range in {
		if rng.Intn(4) != 0 {
			cnt.Monitor(in[i])
			monitored[i] = true
		}
	}
	add("counter", "condition "+cname, cnt.Get, func() (w int) {
		for i := range in {
			if monitored[i] && cond(in[i].Get()) {
				w++
			}
		}
		return
	})
	// SortedSet whose weight variables are the inputs
	sse := &ssEnv[int]{k: intKind, U: n, w: append([]reactive.Variable[int]{reactive.NewVariable[int]()}, in...)}
	sse.ss = reactive.NewSortedSet[int, int](func(el int) reactive.Variable[int] { return sse.w[el] })
	for i := 1; i <= n; i++ {
		if rng.Intn(4) != 0 {
			sse.ss.Add(i)
		}
	}
	// Events
	if m > 0 {
		ec := reactive.NewCounter[bool]()
		for j := range ev {
			j := j
			ec.Monitor(ev[j])
			d := reactive.NewDerivedVariable[int](func(_ int, b bool) int { return 7 * b2i(b) }, ev[j])
			add("derivedvariable1-of-event", fmt.Sprintf("of event %d", j), d.Get, func() int { return 7 * b2i(ev[j].Get()) })
			t := reactive.NewVariable[bool]()
			t.InheritFrom(ev[j])
			add("inheritfrom-event", fmt.Sprintf("copy of event %d", j), func() int { return b2i(t.Get()) }, func() int { return b2i(ev[j].Get()) })
			et := reactive.NewEvent()
			et.InheritFrom(ev[j])
			add("event-inheritfrom-event", fmt.Sprintf("event following event %d", j), func() int { return b2i(et.WasTriggered()) }, func() int { return b2i(ev[j].WasTriggered()) })
		}
		add("counter-of-events", "default condition", ec.Get, func() (w int) {
			for j := range ev {
				w += b2i(ev[j].Get())
			}
			return
		})
	}
	state := func() map[string]any {
		vals := make([]int, n)
		for i := range in {
			vals[i] = in[i].Get()
		}
		evs := make([]bool, m)
		for j := range ev {
			evs[j] = ev[j].Get()
		}
		return map[string]any{"inputs": vals, "carriers": carrier, "events": evs, "counter_condition": cname, "monitored": monitored}
	}
	// check returns the first derived value that differs from its defining function
	check := func() (construct, what string, det map[string]any) {
		for _, c := range checks {
			if got, want := c.get(), c.want(); got != want {
				det = state()
				det["construct"], det["got"], det["want"] = c.construct+" "+c.about, got, want
				return c.construct, fmt.Sprintf("%s %s holds %d, its defining function of the current inputs is %d", c.construct, c.about, got, want), det
			}
		}
		if kind, what, sdet := sse.check(); kind != "" {
			det = state()
			det["sortedset"] = sdet
			return "sortedset/" + kind, "SortedSet whose weights are the inputs: " + what, det
		}
		return "", "", nil
	}
	if c, what, det := check(); c != "" {
		st.nontrivial = true
		return []viol{{c + "/diverges-at-creation", "right after attaching to inputs that were initialised with the chained Init: " + what, det}}, st
	}
	genStep := func(i int) entryStep {
		if i >= n {
			return entryStep{Input: fmt.Sprintf("event %d", i-n), EP: eventEntryPoints[rng.Intn(len(eventEntryPoints))], Val: b2i(rng.Intn(5) != 0), Yield: rng.Intn(4)}
		}
		return entryStep{Input: fmt.Sprintf("input %d", i), EP: varEntryPoints[rng.Intn(len(varEntryPoints))], Val: val(), Yield: rng.Intn(4)}
	}
	exec := func(i int, s entryStep) {
		if i >= n {
			writeEvent(ev[i-n], s.EP, s.Val != 0)
		} else {
			writeVar(in[i], s.EP, s.Val, maxVal)
		}
	}
	// toggleUp attaches / detaches the persistent upstream of input i (a structural change at a quiescent point)
	toggleUp := func(i int) string {
		st.structural++
		if unsubUp[i] != nil {
			unsubUp[i]()
			unsubUp[i] = nil
			return "unsubscribe-upstream"
		}
		unsubUp[i] = in[i].InheritFrom(up[i])
		return "InheritFrom(upstream)"
	}
	if seq {
		var hist []any
		for k, steps := 0, 4+rng.Intn(24); k < steps; k++ {
			i := rng.Intn(n + m)
			ep := ""
			switch r := rng.Intn(8); {
			case r == 0 && i < n:
				ep = toggleUp(i)
				hist = append(hist, map[string]any{"input": i, "structural": ep})
			case r == 1 && i < n && unsubUp[i] != nil:
				v := val()
				up[i].Set(v)
				ep = "upstream.Set"
				hist = append(hist, map[string]any{"input": i, "upstream_set": v})
				st.ops++
			default:
				s := genStep(i)
				exec(i, s)
				ep = s.EP
				hist = append(hist, s)
				st.ops++
				st.add("entry_writes:"+ep, 1)
				if i >= n {
					st.add("entry_event_writes", 1)
				} else {
					st.add("entry_writes_on_carrier:"+carrier[i], 1)
				}
			}
			if c, what, det := check(); c != "" {
				det["history"] = hist
				st.nontrivial = true
				return []viol{{c + "/diverges-after-write/" + ep, fmt.Sprintf("sequential history, derived values attached before the writes: after %s on input/event %d: %s", ep, i, what), det}}, st
			}
		}
		st.nontrivial = st.ops >= 3
		return
	}
	overl := 0
	for r, rounds := 0, 3+rng.Intn(8); r < rounds; r++ {
		g := newGroup()
		for i := 0; i < n+m; i++ {
			if i >= n && rng.Intn(3) != 0 {
				continue // events are one-shot: few writers suffice
			}
			for w, W := 0, 1+rng.Intn(2); w < W; w++ {
				i := i
				plan := make([]entryStep, 1+rng.Intn(3))
				for k := range plan {
					plan[k] = genStep(i)
					st.add("entry_writes:"+plan[k].EP, 1)
				}
				st.ops += len(plan)
				g.spawn("writer of "+plan[0].Input, func() {
					for _, s := range plan {
						yield(s.Yield)
						exec(i, s)
						progress.Add(1)
					}
				})
			}
			if i < n && unsubUp[i] != nil {
				v, y, u := val(), rng.Intn(4), up[i]
				st.ops++
				g.spawn(fmt.Sprintf("writer of the upstream of input %d", i), func() {
					yield(y)
					u.Set(v)
					progress.Add(1)
				})
			}
		}
		g.run()
		overl += overlapping(g.spans)
		st.nontrivial = overl > 0
		if len(g.pn.rec) > 0 {
			return nil, st
		}
		if c, what, det := check(); c != "" {
			det["round"] = r
			return []viol{{c + "/diverges/entry-point-mix", "concurrent writers using every exported write entry point; after all of them returned: " + what, det}}, st
		}
		if rng.Intn(3) == 0 {
			toggleUp(rng.Intn(n))
			if c, what, det := check(); c != "" {
				det["round"] = r
				return []viol{{c + "/diverges-after-write/InheritFrom(upstream)", "after attaching / detaching an upstream of an input between rounds: " + what, det}}, st
			}
		}
	}
	return
}

// ============================================================== entry-set

// demandClearAndDecode: reactive.Set exports Clear (through ds.ReadableSet) and Decode; on the pinned tree both change
// the elements without telling the subscribers (see proposed_fixes/C14-reactive-set-clear-decode-bypass-subscribers).
// While false, the two entry points are driven as the LAST step of a history and a stale derived set after them is
// only noted and counted (entry_set_stale_after_clear_or_decode_not_demanded). Make it true by default once the fix
// is in /repo or the finding is registered as known; C14_DEMAND_CLEAR_DECODE=1 switches it on for a development run
// against a scratch worktree that has the fix.
// The fix is in /repo (77f8d8d), so the rule is on by default; C14_DEMAND_CLEAR_DECODE=0 switches it off for a development run.
var demandClearAndDecode = os.Getenv("C14_DEMAND_CLEAR_DECODE") != "0"

var setEntryPoints = []string{"Add", "AddAll", "Delete", "DeleteAll", "Apply", "Compute", "Replace"}

func mask64(s ds.ReadableSet[int64]) (m uint32) {
	s.Range(func(e int64) { m |= 1 << uint(e) })
	return
}

func set64(m uint32) ds.Set[int64] {
	s := ds.NewSet[int64]()
	for e := 0; e < 32; e++ {
		if m&(1<<uint(e)) != 0 {
			s.Add(int64(e))
		}
	}
	return s
}

var serixAPI = serix.NewAPI()

type entrySetStep struct {
	Src  int    `json:"src"`
	EP   string `json:"entry_point"`
	A, B string
	a, b uint32
}

func runEntrySet(rng *rand.Rand) (viols []viol, st runStats) {
	K := 1 + rng.Intn(3)
	U := 3 + rng.Intn(6)
	st.shape = fmt.Sprintf("entry-set/k%d", K)
	rmask := func() uint32 { return (rng.Uint32() & (1<<uint(U) - 1)) << 1 }
	src := make([]reactive.Set[int64], K)
	for i := range src {
		src[i] = reactive.NewSet[int64]()
		if rng.Intn(2) == 0 {
			src[i].AddAll(set64(rmask()))
		}
	}
	D := reactive.NewDerivedSet[int64]()
	inherited := make([]bool, K)
	for i := range src {
		if i == 0 || rng.Intn(4) != 0 {
			D.InheritFrom(src[i])
			inherited[i] = true
		}
	}
	D2 := reactive.NewDerivedSet[int64]()
	D2.InheritFrom(D)
	others := make([]reactive.ReadableSet[int64], 0, K)
	for _, o := range src[1:] {
		others = append(others, o)
	}
	R := src[0].SubtractReactive(others...)
	RD := D.SubtractReactive(src[K-1]) // a derived set as the source of a further derived set
	union := func() (w uint32) {
		for i := range src {
			if inherited[i] {
				w |= mask64(src[i])
			}
		}
		return
	}
	type sc struct {
		construct string
		get, want func() uint32
	}
	checks := []sc{
		{"derivedset", func() uint32 { return mask64(D) }, union},
		{"derivedset-chained", func() uint32 { return mask64(D2) }, union},
		{"subtractreactive", func() uint32 { return mask64(R) }, func() uint32 {
			w := mask64(src[0])
			for _, o := range src[1:] {
				w &^= mask64(o)
			}
			return w
		}},
		{"subtractreactive-of-derivedset", func() uint32 { return mask64(RD) }, func() uint32 { return union() &^ mask64(src[K-1]) }},
	}
	state := func() map[string]any {
		var ss []string
		for i := range src {
			ss = append(ss, fmt.Sprintf("source %d inherited=%v %s", i, inherited[i], mstr(mask64(src[i]))))
		}
		return map[string]any{"sources": ss}
	}
	check := func() (construct, what string, det map[string]any) {
		for _, c := range checks {
			if got, want := c.get(), c.want(); got != want {
				det = state()
				det["construct"], det["got"], det["want"] = c.construct, mstr(got), mstr(want)
				return c.construct, fmt.Sprintf("%s holds %s, its defining function of the current sources is %s", c.construct, mstr(got), mstr(want)), det
			}
		}
		return "", "", nil
	}
	if c, what, det := check(); c != "" {
		st.nontrivial = true
		return []viol{{c + "/diverges-at-creation", what, det}}, st
	}
	exec := func(s entrySetStep) {
		set := src[s.Src]
		switch s.EP {
		case "Add":
			set.Add(int64(trailing(s.a)))
		case "Delete":
			set.Delete(int64(trailing(s.a)))
		case "AddAll":
			set.AddAll(set64(s.a))
		case "DeleteAll":
			set.DeleteAll(set64(s.a))
		case "Apply":
			set.Apply(ds.NewSetMutations[int64]().WithAddedElements(set64(s.a)).WithDeletedElements(set64(s.b)))
		case "Compute":
			e := int64(trailing(s.a))
			set.Compute(func(cur ds.ReadableSet[int64]) ds.SetMutations[int64] {
				if cur.Has(e) {
					return ds.NewSetMutations[int64]().WithDeletedElements(ds.NewSet(e))
				}
				return ds.NewSetMutations[int64](e)
			})
		case "Replace":
			set.Replace(set64(s.a))
		case "Clear":
			set.Clear()
		case "Decode":
			b, err := set64(s.a).Encode(serixAPI)
			if err != nil {
				panic(err)
			}
			if _, err = set.Decode(serixAPI, b); err != nil {
				panic(err)
			}
		}
	}
	var hist []entrySetStep
	for k, steps := 0, 4+rng.Intn(24); k <= steps; k++ {
		s := entrySetStep{Src: rng.Intn(K), EP: setEntryPoints[rng.Intn(len(setEntryPoints))]}
		last := k == steps
		if last {
			s.EP = []string{"Clear", "Decode"}[rng.Intn(2)]
		}
		switch s.EP {
		case "Add", "Delete", "Compute":
			s.a = 1 << uint(1+rng.Intn(U))
		case "AddAll", "DeleteAll", "Replace", "Decode":
			s.a = rmask() & rmask()
			if rng.Intn(3) == 0 {
				s.a = rmask()
			}
		case "Apply":
			s.a = rmask() & rmask()
			s.b = rmask() & rmask() &^ s.a
		}
		s.A, s.B = mstr(s.a), mstr(s.b)
		before := mask64(src[s.Src])
		exec(s)
		hist = append(hist, s)
		st.ops++
		st.add("entry_set_writes:"+s.EP, 1)
		if last && mask64(src[s.Src]) != before {
			st.add("entry_set_effective_clear_or_decode", 1)
		}
		if c, what, det := check(); c != "" {
			if last && !demandClearAndDecode {
				st.add("entry_set_stale_after_clear_or_decode_not_demanded", 1)
				break
			}
			det["history"] = hist
			st.nontrivial = true
			return []viol{{c + "/diverges-after-write/" + s.EP, fmt.Sprintf("sequential history: after %s on source %d: %s", s.EP, s.Src, what), det}}, st
		}
	}
	st.nontrivial = true
	return
}

func trailing(m uint32) int {
	for e := 0; e < 32; e++ {
		if m&(1<<uint(e)) != 0 {
			return e
		}
	}
	return 0
}
