// disc / EvictionState and WaitGroup – see disc.go.
package main

import (
	"fmt"
	"math/rand"

	"github.com/iotaledger/hive.go/ds"
	"github.com/iotaledger/hive.go/ds/reactive"
)

// runDiscEvict: eviction handlers that evict further / earlier slots, ask for events of evicted and later slots and
// register handlers on them, read LastEvictedSlot - from inside the Evict call that triggers them; handlers that
// panic. Model: the last evicted slot is the maximum over all Evict calls that were made (nested ones included); an
// event is triggered iff its slot is <= that maximum, its handlers ran exactly once iff it is triggered.
func runDiscEvict(rng *rand.Rand) (viols []viol, st runStats) {
	const maxSlot = 40
	st.shape = "disc/evict"
	es := reactive.NewEvictionState[int]()
	type handle struct {
		Slot    int
		ev      reactive.Event
		runs    int
		Action  string
		exempt  bool // requested before a handler of the same Evict call panicked
		Nested  bool
		created int
	}
	var handles []*handle
	var hist []string
	maxEvicted := -1  // model
	returnedMax := -1 // max slot whose Evict has returned
	var early *viol   // found inside a handler
	depth := 0        // nesting of handlers
	var get func(slot int, action string) *handle
	evict := func(s int) {
		if s > maxEvicted {
			maxEvicted = s
		}
		es.Evict(s)
	}
	act := func(h *handle) {
		h.runs++
		a := h.Action
		if a == "" || h.runs > 1 {
			return
		}
		h.Action = "" // once
		st.add("disc_reentrant_calls:evict/handler", 1)
		st.add("disc_reentrant_calls", 1)
		hist = append(hist, fmt.Sprintf("  handler of slot %d: %s", h.Slot, a))
		discEnter("evict/handler/" + a)
		depth++
		defer func() { depth-- }()
		switch a {
		case "evict-further":
			evict(min(maxSlot, h.Slot+1+rng.Intn(6)))
		case "evict-lower":
			evict(rng.Intn(h.Slot + 1))
		case "evict-same":
			evict(es.LastEvictedSlot())
		case "event-evicted":
			if returnedMax >= 0 {
				s := rng.Intn(returnedMax + 1)
				if !es.EvictionEvent(s).WasTriggered() && early == nil {
					early = &viol{"disc/evictionstate/event-of-evicted-slot-not-triggered/inside-handler", fmt.Sprintf("EvictionEvent(%d) requested inside an eviction handler after Evict(%d) had returned is not triggered", s, returnedMax), nil}
				}
			}
		case "event-later+handler":
			get(h.Slot+rng.Intn(8), "").Nested = true
			get(rng.Intn(h.Slot+1), "").Nested = true
		case "last":
			es.LastEvictedSlot()
		case "panic":
			panic(thrown{})
		}
	}
	get = func(slot int, action string) *handle {
		h := &handle{Slot: slot, Action: action, created: len(hist)}
		h.ev = es.EvictionEvent(slot)
		handles = append(handles, h)
		if slot <= returnedMax && !h.ev.WasTriggered() && early == nil {
			early = &viol{"disc/evictionstate/event-of-evicted-slot-not-triggered", fmt.Sprintf("EvictionEvent(%d) requested after Evict(%d) had returned is not triggered", slot, returnedMax), nil}
		}
		h.ev.OnTrigger(func() { act(h) })
		return h
	}
	check := func(after string) *viol {
		det := map[string]any{"history": hist, "max_evicted_slot": maxEvicted}
		if early != nil {
			early.detail = det
			return early
		}
		if maxEvicted >= 0 && es.LastEvictedSlot() != maxEvicted {
			return &viol{"disc/evictionstate/last-evicted-slot-after/" + after, fmt.Sprintf("LastEvictedSlot() = %d, the highest evicted slot is %d (after %s)", es.LastEvictedSlot(), maxEvicted, after), det}
		}
		for _, h := range handles {
			want := h.Slot <= maxEvicted
			got := h.ev.WasTriggered()
			if h.exempt {
				if h.runs > 1 || got && !want {
					return &viol{"disc/evictionstate/handler-count-after/" + after, fmt.Sprintf("handler of EvictionEvent(%d) ran %d times, triggered=%v (after %s)", h.Slot, h.runs, got, after), det}
				}
				continue
			}
			switch {
			case want && !got:
				return &viol{"disc/evictionstate/event-not-triggered-after/" + after, fmt.Sprintf("EvictionEvent(%d) is not triggered although slot %d was evicted (after %s)", h.Slot, maxEvicted, after), det}
			case got && !want:
				return &viol{"disc/evictionstate/event-triggered-for-unevicted-slot-after/" + after, fmt.Sprintf("EvictionEvent(%d) is triggered although the last evicted slot is %d (after %s)", h.Slot, maxEvicted, after), det}
			case want && h.runs != 1, !want && h.runs != 0:
				return &viol{"disc/evictionstate/handler-count-after/" + after, fmt.Sprintf("handler of EvictionEvent(%d) ran %d times, triggered=%v (after %s)", h.Slot, h.runs, got, after), det}
			}
		}
		return nil
	}
	fail := func(v *viol) ([]viol, runStats) {
		st.nontrivial = true
		return []viol{*v}, st
	}
	base := 0
	for step, n := 0, 6+rng.Intn(30); step < n; step++ {
		label := ""
		switch c := rng.Intn(10); {
		case c < 3:
			get(base+rng.Intn(10)-2+2*b2i(base < 2), "")
			label = "EvictionEvent"
		case c < 6:
			a := reentryTable["evict/handler"][rng.Intn(len(reentryTable["evict/handler"]))]
			s := base + rng.Intn(8)
			if s <= maxEvicted {
				s = maxEvicted + 1 + rng.Intn(4)
			}
			hist = append(hist, fmt.Sprintf("EvictionEvent(%d) with a handler that does: %s", s, a))
			get(s, a)
			label = "EvictionEvent+reentrant-handler"
		case c < 7:
			s := maxEvicted + 1 + rng.Intn(5)
			hist = append(hist, fmt.Sprintf("EvictionEvent(%d) with a handler that panics", s))
			get(s, "panic")
			label = "EvictionEvent+panicking-handler"
		default:
			if rng.Intn(4) != 0 {
				base = min(maxSlot, base+rng.Intn(5))
			}
			s := base
			if rng.Intn(5) == 0 {
				s = rng.Intn(maxSlot + 1)
			}
			hist = append(hist, fmt.Sprintf("Evict(%d)", s))
			label = "Evict"
			panicked := false
			func() {
				defer func() {
					if r := recover(); r != nil {
						if _, ok := r.(thrown); !ok {
							panic(r)
						}
						panicked = true
					}
				}()
				evict(s)
			}()
			discLeave()
			if panicked {
				// the unchanged tree abandons the remaining events of this Evict call (they are never triggered
				// although their slots count as evicted): handles that existed are exempt up to the slot reached
				st.add("disc_failing_user_code_followed_by_use", 1)
				st.add("disc_eviction_handler_panics", 1)
				hist = append(hist, "  (a handler panicked; the panic was recovered by the caller of Evict)")
				depth = 0
				for _, h := range handles {
					if h.Slot <= maxEvicted {
						h.exempt = true
					}
				}
				label = "Evict-handler-panics"
			}
			returnedMax = max(returnedMax, maxEvicted)
			st.ops++
		}
		if v := check(label); v != nil {
			return fail(v)
		}
	}
	// fresh handles for every slot
	for s := 0; s <= maxSlot+3; s++ {
		get(s, "")
	}
	if v := check("final-handles"); v != nil {
		return fail(v)
	}
	st.add("eviction_handles", len(handles))
	st.nontrivial = true
	return
}

// runDiscWG: sequential WaitGroup histories with caller-owned variadic slices, held PendingElements().ToSlice()
// results, OnTrigger handlers that Add / Done / read / Wait and PendingElements subscribers that read. Model: the
// pending set; the group triggers at the first Done that empties the pending set.
func runDiscWG(rng *rand.Rand) (viols []viol, st runStats) {
	U := 3 + rng.Intn(5)
	st.shape = fmt.Sprintf("disc/wg/u%d", U)
	bag := &heldBag{st: &st, rng: rng}
	var filler []int
	for e := 0; e <= U+2; e++ {
		filler = append(filler, e)
	}
	var hist []string
	var pending uint32
	triggered := false
	handlerRuns := 0
	action := reentryTable["wg/ontrigger"][rng.Intn(4)]
	addOnTrigger := 1 + rng.Intn(U)
	var armed *reent
	randList := func() (l []int) {
		for k := rng.Intn(4); k >= 0; k-- {
			l = append(l, 1+rng.Intn(U))
		}
		return
	}
	scrib := func(l []int) {
		for i := range l {
			l[i] = 1 + rng.Intn(U)
		}
		st.add("disc_arguments_changed_after_the_call", 1)
	}
	init := randList()
	if rng.Intn(3) == 0 {
		init = nil
	}
	for _, e := range init {
		pending |= 1 << uint(e)
	}
	hist = append(hist, fmt.Sprintf("NewWaitGroup(%v...)", init))
	wg := reactive.NewWaitGroup[int](init...)
	scrib(init)
	wg.OnTrigger(func() {
		handlerRuns++
		st.add("disc_reentrant_calls:wg/ontrigger", 1)
		st.add("disc_reentrant_calls", 1)
		hist = append(hist, "  OnTrigger handler: "+action)
		discEnter("wg/ontrigger/" + action)
		switch action {
		case "add":
			wg.Add(addOnTrigger)
		case "done":
			wg.Done(addOnTrigger)
		case "pending":
			holdSlice(bag, "PendingElements.ToSlice:in-callback", wg.PendingElements().ToSlice(), ident, filler)
		case "wait":
			wg.Wait()
		}
	})
	wg.PendingElements().OnUpdate(func(m ds.SetMutations[int]) {
		st.add("disc_callback_mutations_held", 1)
		holdSet(bag, "PendingElements-OnUpdate-mutations:added", m.AddedElements(), ident, filler)
		holdSet(bag, "PendingElements-OnUpdate-mutations:deleted", m.DeletedElements(), ident, filler)
		if r := armed; r != nil {
			armed = nil
			st.add("disc_reentrant_calls:wg/pending-subscriber", 1)
			st.add("disc_reentrant_calls", 1)
			if r.action == "pending" {
				wg.PendingElements().ToSlice()
			} else {
				wg.WasTriggered()
			}
		}
	})
	// the model of Done: element by element; the first time the pending set becomes empty the group triggers and
	// the handler's own Add / Done takes effect at that point
	done := func(l []int) {
		for _, e := range l {
			if pending&(1<<uint(e)) == 0 {
				continue
			}
			pending &^= 1 << uint(e)
			if pending == 0 && !triggered {
				triggered = true
				if action == "add" {
					pending |= 1 << uint(addOnTrigger)
				}
			}
		}
	}
	verify := func(after string) *viol {
		det := map[string]any{"history": hist}
		if which, what := bag.recheck(); which != "" {
			return &viol{"disc/waitgroup/held-result-changed/" + which, what + " (after " + after + ")", det}
		}
		if got := maskOf(wg.PendingElements()); got != pending {
			return &viol{"disc/waitgroup/pending-elements-differ-from-model-after/" + fpLabel(after), fmt.Sprintf("PendingElements() = %s, the history gives %s (after %s)", mstr(got), mstr(pending), after), det}
		}
		if got := wg.WasTriggered(); got != triggered {
			fp := "disc/waitgroup/triggered-although-last-pending-element-not-done-after/"
			if triggered {
				fp = "disc/waitgroup/not-triggered-although-last-pending-element-done-after/"
			}
			return &viol{fp + fpLabel(after), fmt.Sprintf("WasTriggered() = %v, the history gives %v; pending %s (after %s)", got, triggered, mstr(pending), after), det}
		}
		if handlerRuns != b2i(triggered) {
			return &viol{"disc/waitgroup/handler-count-after/" + fpLabel(after), fmt.Sprintf("the OnTrigger handler ran %d times, triggered=%v (after %s)", handlerRuns, triggered, after), det}
		}
		return nil
	}
	fail := func(v *viol) ([]viol, runStats) {
		st.nontrivial = true
		return []viol{*v}, st
	}
	if v := verify("construction"); v != nil {
		return fail(v)
	}
	for step, n := 0, 6+rng.Intn(30); step < n; step++ {
		l := randList()
		label := "Add"
		if rng.Intn(3) == 0 {
			armed = pickReentry(rng, "wg/pending-subscriber")
			discEnter("wg/pending-subscriber/" + armed.action)
		}
		if rng.Intn(2) == 0 {
			hist = append(hist, fmt.Sprintf("Add(%v...)", l))
			for _, e := range l {
				pending |= 1 << uint(e)
			}
			wg.Add(l...)
		} else {
			label = "Done"
			hist = append(hist, fmt.Sprintf("Done(%v...)", l))
			done(l)
			wg.Done(l...)
		}
		armed = nil
		discLeave()
		scrib(l)
		st.ops++
		if v := verify(label); v != nil {
			return fail(v)
		}
		if rng.Intn(2) == 0 {
			holdSlice(bag, "PendingElements.ToSlice", wg.PendingElements().ToSlice(), ident, filler)
		}
		var sv *viol
		bag.tick(func(s string) bool {
			hist = append(hist, "caller scribbles on "+s)
			sv = verify("scribbling:" + s)
			return sv == nil
		})
		if sv != nil {
			return fail(sv)
		}
	}
	if triggered {
		st.add("disc_waitgroups_triggered", 1)
	}
	st.nontrivial = true
	return
}
