// Scenario "disc" – the three workload disciplines of harness/DISCIPLINES.md applied to the derived constructs of
// C14 (the raw reactive Set / Variable / Event are C13's): SortedSet, DerivedSet / SubtractReactive (+ chains),
// DerivedVariable / Counter / InheritFrom, EvictionState, WaitGroup. A run is ONE sequential history on fresh
// objects; the ordinary oracle of the construct (defining function of the current inputs) is evaluated after every
// step, so the model is exact and the fingerprint names the step that broke it.
//
//	held results + scribbling: every slice / set the constructs return (SortedSet Ascending / Descending / ToSlice /
//	  Clone, DerivedSet / SubtractReactive ToSlice / Clone / ReadOnly().ToSlice, the sets returned by AddAll / DeleteAll /
//	  Replace and the mutation sets returned by Apply / Compute, WaitGroup PendingElements().ToSlice) and every mutation
//	  set handed to an OnUpdate subscriber is kept with a deep copy, compared with the copy after each of the next
//	  steps (…/held-result-changed/…) and then overwritten by the "caller" (sorted, reversed, filled, appended into a
//	  sub-slice; sets: Add / Delete / Clear) – after which the oracle runs again at once (…-after/scribbling:…).
//	  Arguments (sets given to AddAll / DeleteAll / Replace / Apply, mutations returned by a Compute factory, the
//	  variadic slices of InheritFrom / SubtractReactive / WaitGroup.Add / Done / NewWaitGroup) must not be changed by the
//	  call and are changed by the caller afterwards. Mutation sets delivered to subscribers are only scribbled AFTER
//	  the write has returned: on the unchanged tree the same object is handed to all subscribers and returned to the
//	  writer (WaitGroup.Done consumes it), so scribbling inside the callback is a weakness outside the statement.
//	  Variable / Counter values are comparable value types, references stored in a Variable are shared by design:
//	  nothing is demanded there.
//	re-entrant user code: weight functions, Less methods, Compute factories, compute functions, Counter conditions,
//	  eviction / wait-group handlers and subscribers (of the inputs – registered before and after the derived
//	  construct –, of the derived value, of HeaviestElement) call back into the same construct or its inputs. Only
//	  the (site, action) pairs that RETURN on the unchanged tree are used (established with a throw-away probe; the
//	  rest self-dead-locks there because user code runs under the write-order mutex of the object it is called
//	  for – see reentryTable); a pair that stops returning parks the only goroutine of the child => Go runtime
//	  dead-lock detector => violation named after the pair. The oracle after the step demands the defining function
//	  of the inputs as the nested calls left them.
//	failing user code followed by further use: Compute factories / compute functions that panic (nothing applied, all
//	  later calls return), a Counter condition that panics at Monitor time, a DerivedVariable constructor whose
//	  compute function panics (inputs stay usable, everything else still converges), an eviction handler that panics
//	  (later calls return; fresh handles and later slots are exact; handles of the SAME Evict call are exempt: the
//	  unchanged tree never triggers them – noted, not demanded). Panics inside a callback of an update round leave
//	  the callback's execution lock held on the unchanged tree (C13's proposed fix) – nothing is demanded after
//	  those, so they are not driven.
package main

import (
	"fmt"
	"math/bits"
	"math/rand"
	"sort"
	"strings"

	"github.com/iotaledger/hive.go/ds"
)

// ---------------------------------------------------------------- marks: which user-code site is being driven

// discRequire: a run that did not exercise the three disciplines on every construct is INCONCLUSIVE. nd = number of
// disc runs of the tier.
func discRequire(require func(string, int), note func(string), nd int) {
	require("runs:disc", nd*8/10)
	require("disc_held_results_rechecked", nd*20)
	require("disc_results_scribbled", nd*5)
	for _, w := range []string{"Descending", "Ascending", "ToSlice", "Clone", "OnUpdate-mutations", "DerivedSet.ToSlice", "DerivedSet.Clone", "SubtractReactive.ToSlice", "SubtractReactive.Clone", "source-OnUpdate-mutations", "derivedset-OnUpdate-mutations", "subtractreactive-OnUpdate-mutations", "PendingElements.ToSlice"} {
		require("disc_results_scribbled:"+w, nd/20)
	}
	for _, w := range []string{"AddAll-result", "DeleteAll-result", "Replace-result", "Apply-result", "Compute-result"} {
		require("disc_results_scribbled:"+w, nd/40)
	}
	require("disc_arguments_changed_after_the_call", nd)
	require("disc_callback_mutations_held", nd*5)
	require("disc_reentrant_calls", nd*2)
	for site := range reentryTable {
		require("disc_reentrant_calls:"+site, nd/50)
	}
	require("disc_failing_user_code_followed_by_use", nd/2)
	require("disc_eviction_handler_panics", nd/50)
	note("disc: user code that panics inside a callback of an update round (a subscriber, a DerivedVariable compute function or Counter condition at an update, a SortedSet weight function / Less method, a HeaviestElement subscriber) leaves the callback's execution lock held on the unchanged tree - the next write of that input parks for ever (C13's proposed fix callback-panic-in-update-round-leaves-execution-lock-held); a SortedSet whose weight function panicked keeps the half-registered element. The statement does not quantify over panicking user code: nothing is demanded after such panics and they are not driven")
	note("disc: an eviction handler that panics makes Evict abandon the remaining events of the same call; handles obtained before stay untriggered although LastEvictedSlot() covers their slots (robustness weakness outside the statement: those handles are exempt, fresh handles and later slots are checked)")
	note("disc: a subscriber that modifies the mutation set it is handed changes what later subscribers (DerivedSet, SubtractReactive, the SortedSet's own bookkeeping) and the writer (WaitGroup.Done) see, because the tree hands the same object to all of them: delivered mutation sets are scribbled on only after the write has returned")
}

// discEnter names the (site, action) pair that is about to run re-entrantly (or the failing user code): a child that
// dies in a dead-lock is attributed to it by the parent (LastMark) / the in-process snapshot monitor (curScenario).
func discEnter(site string) {
	curScenario.Store("disc:" + site)
	if theCtx != nil {
		theCtx.Mark(fmt.Sprintf("disc:%s %d", site, curRun.Load()))
	}
}

func discLeave() {
	curScenario.Store("disc")
	if theCtx != nil {
		theCtx.Mark(fmt.Sprintf("disc %d", curRun.Load()))
	}
}

// ---------------------------------------------------------------- held results

type heldItem struct {
	which    string
	changed  func() (now, was string, ch bool)
	scribble func(rng *rand.Rand) string
	age, due int
	ident    any // sets: the object itself (the tree hands the same mutation object to subscribers and to the writer)
}

type heldBag struct {
	items []*heldItem
	st    *runStats
	rng   *rand.Rand
}

func fmtSlice[E any](s []E) string { return fmt.Sprint(s) }

// holdSlice keeps a returned slice together with a copy. key orders the elements (for the "sort" scribble), filler
// are values to overwrite with.
func holdSlice[E comparable](b *heldBag, which string, s []E, key func(E) int, filler []E) {
	if len(s) == 0 || b.rng.Intn(3) == 0 {
		return
	}
	cp := append([]E(nil), s...)
	it := &heldItem{which: which, due: 1 + b.rng.Intn(3)}
	it.changed = func() (string, string, bool) {
		for i := range cp {
			if s[i] != cp[i] {
				return fmtSlice(s), fmtSlice(cp), true
			}
		}
		return "", "", false
	}
	it.scribble = func(rng *rand.Rand) string {
		var zero E
		switch k := rng.Intn(6); k {
		case 0:
			for i, j := 0, len(s)-1; i < j; i, j = i+1, j-1 {
				s[i], s[j] = s[j], s[i]
			}
			if len(s) == 1 {
				s[0] = filler[rng.Intn(len(filler))]
			}
			return "reverse"
		case 1:
			sort.Slice(s, func(i, j int) bool { return key(s[i]) < key(s[j]) })
			if sort.SliceIsSorted(cp, func(i, j int) bool { return key(cp[i]) < key(cp[j]) }) {
				sort.Slice(s, func(i, j int) bool { return key(s[i]) > key(s[j]) })
				if len(s) == 1 {
					s[0] = zero
				}
			}
			return "sort"
		case 2:
			f := filler[rng.Intn(len(filler))]
			for i := range s {
				s[i] = f
			}
			return "fill"
		case 3:
			for i := range s {
				s[i] = zero
			}
			return "zero"
		case 4:
			// append into a sub-slice: stays within the capacity and overwrites the tail
			t := s[:len(s)/2]
			for i := len(s) / 2; i < len(s); i++ {
				t = append(t, filler[rng.Intn(len(filler))])
			}
			if len(s) == 1 {
				s[0] = zero
			}
			return "append-into-subslice"
		default:
			// append beyond the capacity (a copy), then overwrite the original's head
			t := append(s[:len(s):len(s)], filler...)
			t[0] = zero
			s[0] = filler[rng.Intn(len(filler))]
			if len(s) > 1 {
				s[len(s)-1] = s[0]
			}
			return "append-beyond-capacity+overwrite"
		}
	}
	b.items = append(b.items, it)
}

// holdSet keeps a returned / delivered set together with a copy of its elements.
func holdSet[E comparable](b *heldBag, which string, s ds.Set[E], key func(E) int, filler []E) {
	if s == nil || b.rng.Intn(3) == 0 {
		return
	}
	for _, it := range b.items {
		if it.ident == any(s) {
			return
		}
	}
	snap := func() []int {
		var l []int
		s.Range(func(e E) { l = append(l, key(e)) })
		sort.Ints(l)
		return l
	}
	cp := snap()
	it := &heldItem{which: which, due: 1 + b.rng.Intn(3), ident: any(s)}
	it.changed = func() (string, string, bool) {
		now := snap()
		if len(now) != len(cp) {
			return fmt.Sprint(now), fmt.Sprint(cp), true
		}
		for i := range cp {
			if now[i] != cp[i] {
				return fmt.Sprint(now), fmt.Sprint(cp), true
			}
		}
		return "", "", false
	}
	it.scribble = func(rng *rand.Rand) string {
		switch rng.Intn(3) {
		case 0:
			for _, f := range filler {
				s.Add(f)
			}
			return "add"
		case 1:
			for _, e := range s.ToSlice() {
				s.Delete(e)
			}
			s.Add(filler[rng.Intn(len(filler))])
			return "delete-all+add"
		default:
			s.Clear()
			return "clear"
		}
	}
	b.items = append(b.items, it)
}

// recheck compares every held object with its copy.
func (b *heldBag) recheck() (which, what string) {
	for _, it := range b.items {
		b.st.add("disc_held_results_rechecked", 1)
		if now, was, ch := it.changed(); ch {
			return it.which, fmt.Sprintf("the %s result / delivered object the caller kept was %s when it was handed out and is %s now although the caller did not touch it", it.which, was, now)
		}
	}
	return "", ""
}

// tick ages the held objects; those that are due leave the bag and are scribbled on (or dropped) one at a time: after
// each one f runs the ordinary oracle again (f returns false to stop).
func (b *heldBag) tick(f func(scribbled string) bool) {
	keep := b.items[:0]
	var due []*heldItem
	for _, it := range b.items {
		it.age++
		if it.age >= it.due {
			due = append(due, it)
		} else {
			keep = append(keep, it)
		}
	}
	b.items = keep
	for _, it := range due {
		if b.rng.Intn(4) == 0 {
			continue
		}
		how := it.scribble(b.rng)
		b.st.add("disc_results_scribbled", 1)
		b.st.add("disc_results_scribbled:"+strings.SplitN(it.which, ":", 2)[0], 1)
		if !f(it.which + "/" + how) {
			return
		}
	}
}

// scribbleArg: the caller re-uses a set it passed as an argument.
func scribbleArg[E comparable](rng *rand.Rand, st *runStats, s ds.Set[E], filler []E) {
	if rng.Intn(3) == 0 {
		return
	}
	st.add("disc_arguments_changed_after_the_call", 1)
	switch rng.Intn(3) {
	case 0:
		for _, f := range filler {
			s.Add(f)
		}
	case 1:
		s.Clear()
	default:
		for _, e := range s.ToSlice() {
			s.Delete(e)
		}
		s.Add(filler[rng.Intn(len(filler))])
	}
}

func keysOf[E comparable](s ds.ReadableSet[E], key func(E) int) (m uint32) {
	s.Range(func(e E) { m |= 1 << uint(key(e)) })
	return
}

func pickBit(rng *rand.Rand, m uint32) int {
	if m == 0 {
		return -1
	}
	n := rng.Intn(bits.OnesCount32(m))
	for i := 0; i < 32; i++ {
		if m&(1<<uint(i)) != 0 {
			if n == 0 {
				return i
			}
			n--
		}
	}
	return -1
}

// fpLabel: the step label as it appears in a fingerprint (how a result was scribbled on is left to the text).
func fpLabel(after string) string {
	if strings.HasPrefix(after, "scribbling:") {
		if i := strings.IndexByte(after, '/'); i > 0 {
			return after[:i]
		}
	}
	return after
}

type reent struct{ site, action string }

// reentryTable: the (site, action) pairs that return on the unchanged tree. Everything else was observed to
// self-dead-lock there (probe, 2026-10): user code runs under the write-order mutex of the object it is invoked for
// (a subscriber of X cannot write X; a subscriber of a derived value cannot write its inputs; weight functions, Less
// and HeaviestElement subscribers run under the SortedSet mutex and cannot call Ascending / Descending or change
// weights of present elements; compute functions / conditions cannot read their own derived value).
var reentryTable = map[string][]string{
	"ss/weightfn":                {"has", "size", "toslice", "heavy", "wget", "wset-other-absent", "wset-own"},
	"ss/subscriber":              {"has", "toslice", "desc", "asc", "heavy", "wset-other-present", "wset-own"},
	"ss/heaviest-subscriber":     {"has", "toslice", "heavy", "light"},
	"ss/weight-subscriber-early": {"has", "desc", "heavy", "wset-other-present", "add-other", "delete-other", "delete-own", "delete-add-own"},
	"ss/weight-subscriber-late":  {"has", "desc", "heavy", "wset-other-present", "add-other", "delete-other", "delete-own", "delete-add-own"},
	"ss/compute-factory":         {"has", "desc", "heavy", "wset-other-present"},
	"ss/less":                    {"has", "heavy", "wget"},

	"dset/source-sub-early": {"read-derived", "read-source", "write-other-source", "inherit-new", "unsubscribe-other", "unsubscribe-same"},
	"dset/source-sub-late":  {"read-derived", "read-source", "write-other-source", "inherit-new", "unsubscribe-other", "unsubscribe-same"},
	"dset/derived-sub":      {"read-derived", "read-source"},
	"dset/result-sub":       {"read-derived", "read-source"},

	"dv/compute-fn":      {"read-inputs", "write-unrelated"},
	"dv/condition":       {"read-inputs", "write-unrelated"},
	"dv/input-sub-early": {"read-derived", "write-other-input", "write-unrelated"},
	"dv/input-sub-late":  {"read-derived", "write-other-input", "write-unrelated"},
	"dv/derived-sub":     {"read-derived", "write-unrelated"},

	"evict/handler": {"evict-further", "evict-lower", "evict-same", "event-evicted", "event-later+handler", "last"},

	"wg/ontrigger":          {"add", "done", "pending", "wait"},
	"wg/pending-subscriber": {"pending", "triggered"},
}

func pickReentry(rng *rand.Rand, sites ...string) *reent {
	s := sites[rng.Intn(len(sites))]
	a := reentryTable[s]
	return &reent{s, a[rng.Intn(len(a))]}
}

func runDisc(rng *rand.Rand) (viols []viol, st runStats) {
	defer discLeave()
	switch rng.Intn(13) {
	case 0, 1:
		return runDiscSS(intKind, rng)
	case 2, 3:
		return runDiscSS(hlelKind, rng)
	case 4, 5, 6:
		return runDiscDSet(rng)
	case 7, 8:
		return runDiscDV(rng)
	case 9, 10:
		return runDiscEvict(rng)
	default:
		return runDiscWG(rng)
	}
}
