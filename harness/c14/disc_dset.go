// disc / DerivedSet, SubtractReactive and chains of them – see disc.go.
package main

import (
	"fmt"
	"math/rand"

	"github.com/iotaledger/hive.go/ds"
	"github.com/iotaledger/hive.go/ds/reactive"
)

type discGroup struct {
	members uint32 // sources inherited by one InheritFrom call
	unsub   func()
}

type discDSet struct {
	rng  *rand.Rand
	st   *runStats
	bag  *heldBag
	U, n int
	src  []reactive.Set[int]
	m    []uint32 // model of the sources
	// D inherits the sources of the live groups; D2 inherits D (and the last source while inh2); R = src0 minus
	// (src1, src2); R2 = D minus src1
	D, D2     reactive.DerivedSet[int]
	R, R2     reactive.Set[int]
	groups    []*discGroup
	inh2      func()
	armed     *reent
	cur       int // the source the armed step writes
	hist      []string
	filler    []int
	argViol   *viol
	lateSubs  bool
	universe  uint32
	nestedLog string
}

func ident(i int) int { return i }

func (d *discDSet) inherited() (m uint32) {
	for _, g := range d.groups {
		m |= g.members
	}
	return
}

func (d *discDSet) wantD() (m uint32) {
	inh := d.inherited()
	for i := range d.src {
		if inh&(1<<uint(i)) != 0 {
			m |= d.m[i]
		}
	}
	return
}

func (d *discDSet) wantD2() uint32 {
	m := d.wantD()
	if d.inh2 != nil {
		m |= d.m[d.n-1]
	}
	return m
}

func (d *discDSet) wantR() uint32 { return d.m[0] &^ (d.m[1] | d.m[2]) }

func (d *discDSet) wantR2() uint32 { return d.wantD() &^ d.m[1] }

func (d *discDSet) hook(site string, i int) {
	r := d.armed
	if r == nil || r.site != site {
		return
	}
	d.armed = nil
	d.st.add("disc_reentrant_calls:"+site, 1)
	d.st.add("disc_reentrant_calls", 1)
	d.hist = append(d.hist, fmt.Sprintf("  re-entrant %s/%s (inside the update of source %d)", site, r.action, i))
	rng := d.rng
	switch r.action {
	case "read-derived":
		holdSlice(d.bag, "DerivedSet.ToSlice:in-callback", d.D.ToSlice(), ident, d.filler)
		d.D2.Has(1)
		holdSlice(d.bag, "SubtractReactive.ToSlice:in-callback", d.R.ToSlice(), ident, d.filler)
		d.R2.Size()
	case "read-source":
		d.src[rng.Intn(d.n)].ToSlice()
		d.src[rng.Intn(d.n)].Has(2)
	case "write-other-source":
		j := (i + 1 + rng.Intn(d.n-1)) % d.n
		e := 1 + rng.Intn(d.U)
		if d.m[j]&(1<<uint(e)) != 0 {
			d.src[j].Delete(e)
			d.m[j] &^= 1 << uint(e)
		} else {
			d.src[j].Add(e)
			d.m[j] |= 1 << uint(e)
		}
	case "inherit-new":
		free := (uint32(1)<<uint(d.n) - 1) &^ d.inherited() &^ (1 << uint(i))
		if j := pickBit(rng, free); j >= 0 {
			d.groups = append(d.groups, &discGroup{1 << uint(j), d.D.InheritFrom(d.src[j])})
		}
	case "unsubscribe-other", "unsubscribe-same":
		for gi, g := range d.groups {
			if (g.members&(1<<uint(i)) != 0) == (r.action == "unsubscribe-same") {
				g.unsub()
				d.groups = append(d.groups[:gi], d.groups[gi+1:]...)
				break
			}
		}
	default:
		panic("unknown re-entrant action " + r.action)
	}
}

func (d *discDSet) verify(after string) *viol {
	det := map[string]any{"history": d.hist}
	if d.argViol != nil {
		return d.argViol
	}
	if which, what := d.bag.recheck(); which != "" {
		return &viol{"disc/derivedset/held-result-changed/" + which, what + " (after " + after + ")", det}
	}
	for i, s := range d.src {
		if got := maskOf(s); got != d.m[i] {
			return &viol{"disc/derivedset/source-differs-from-model-after/" + fpLabel(after), fmt.Sprintf("source %d holds %s, the history of writes gives %s (after %s)", i, mstr(got), mstr(d.m[i]), after), det}
		}
	}
	for _, c := range []struct {
		name string
		set  ds.ReadableSet[int]
		want uint32
	}{{"derivedset", d.D, d.wantD()}, {"derivedset-chained", d.D2, d.wantD2()}, {"subtractreactive", d.R, d.wantR()}, {"subtractreactive-of-derivedset", d.R2, d.wantR2()}} {
		if got := maskOf(c.set); got != c.want {
			det["sources"] = fmt.Sprint(func() (l []string) {
				for _, m := range d.m {
					l = append(l, mstr(m))
				}
				return
			}())
			det["inherited_sources"] = mstr(d.inherited())
			return &viol{"disc/" + c.name + "/diverges-after/" + fpLabel(after), fmt.Sprintf("%s holds %s, its defining function of the current sources gives %s (after %s)", c.name, mstr(got), mstr(c.want), after), det}
		}
	}
	return nil
}

func (d *discDSet) capture() {
	switch d.rng.Intn(9) {
	case 0:
		holdSlice(d.bag, "DerivedSet.ToSlice", d.D.ToSlice(), ident, d.filler)
	case 1:
		holdSet(d.bag, "DerivedSet.Clone", d.D.Clone(), ident, d.filler)
	case 2:
		holdSlice(d.bag, "DerivedSet.ReadOnly.ToSlice", d.D.ReadOnly().ToSlice(), ident, d.filler)
	case 3:
		holdSlice(d.bag, "SubtractReactive.ToSlice", d.R.ToSlice(), ident, d.filler)
	case 4:
		holdSet(d.bag, "SubtractReactive.Clone", d.R.Clone(), ident, d.filler)
	case 5:
		holdSlice(d.bag, "DerivedSet-chained.ToSlice", d.D2.ToSlice(), ident, d.filler)
		holdSet(d.bag, "SubtractReactive-of-derivedset.Clone", d.R2.Clone(), ident, d.filler)
	case 6:
		holdSlice(d.bag, "source.ToSlice", d.src[d.rng.Intn(d.n)].ToSlice(), ident, d.filler)
	}
}

func (d *discDSet) randMask(p int) (m uint32) {
	for e := 1; e <= d.U; e++ {
		if d.rng.Intn(p) == 0 {
			m |= 1 << uint(e)
		}
	}
	return
}

// write: one write of source i through an exported entry point with caller-owned arguments.
func (d *discDSet) write(i int, ep string) {
	rng, s := d.rng, d.src[i]
	argCheck := func(arg ds.Set[int], want uint32) {
		if got := maskOf(arg); got != want {
			d.argViol = &viol{"disc/derivedset/argument-changed-by-call/" + ep, fmt.Sprintf("the set passed to %s held %s before the call and holds %s when it returns", ep, mstr(want), mstr(got)), map[string]any{"history": d.hist}}
		}
		scribbleArg(rng, d.st, arg, d.filler)
	}
	a, b := d.randMask(3), d.randMask(4)
	b &^= a
	e := 1 + rng.Intn(d.U)
	d.hist = append(d.hist, fmt.Sprintf("source %d: %s a=%s b=%s e=%d", i, ep, mstr(a), mstr(b), e))
	switch ep {
	case "Add":
		s.Add(e)
		d.m[i] |= 1 << uint(e)
	case "Delete":
		s.Delete(e)
		d.m[i] &^= 1 << uint(e)
	case "AddAll":
		arg := setOf(a)
		ret := s.AddAll(arg)
		d.m[i] |= a
		argCheck(arg, a)
		holdSet(d.bag, "AddAll-result", ret, ident, d.filler)
	case "DeleteAll":
		arg := setOf(a)
		ret := s.DeleteAll(arg)
		d.m[i] &^= a
		argCheck(arg, a)
		holdSet(d.bag, "DeleteAll-result", ret, ident, d.filler)
	case "Replace":
		arg := setOf(a)
		ret := s.Replace(arg)
		d.m[i] = a
		argCheck(arg, a)
		holdSet(d.bag, "Replace-result", ret, ident, d.filler)
	case "Apply":
		sa, sb := setOf(a), setOf(b)
		ret := s.Apply(ds.NewSetMutations[int]().WithAddedElements(sa).WithDeletedElements(sb))
		d.m[i] = (d.m[i] | a) &^ b
		argCheck(sa, a)
		argCheck(sb, b)
		holdSet(d.bag, "Apply-result:added", ret.AddedElements(), ident, d.filler)
		holdSet(d.bag, "Apply-result:deleted", ret.DeletedElements(), ident, d.filler)
	case "Compute":
		var sa, sb ds.Set[int]
		ret := s.Compute(func(cur ds.ReadableSet[int]) ds.SetMutations[int] {
			sa, sb = setOf(a), setOf(b)
			return ds.NewSetMutations[int]().WithAddedElements(sa).WithDeletedElements(sb)
		})
		d.m[i] = (d.m[i] | a) &^ b
		argCheck(sa, a)
		argCheck(sb, b)
		holdSet(d.bag, "Compute-result:added", ret.AddedElements(), ident, d.filler)
		holdSet(d.bag, "Compute-result:deleted", ret.DeletedElements(), ident, d.filler)
	case "Clear":
		s.Clear()
		d.m[i] = 0
	case "Compute-factory-panics":
		d.st.add("disc_failing_user_code_followed_by_use", 1)
		discEnter("dset/compute-factory-panics")
		func() {
			defer func() {
				if r := recover(); r != nil {
					if _, ok := r.(thrown); !ok {
						panic(r)
					}
				}
			}()
			s.Compute(func(ds.ReadableSet[int]) ds.SetMutations[int] { panic(thrown{}) })
		}()
	default:
		panic("unknown entry point " + ep)
	}
}

var discSetEPs = []string{"Add", "Add", "Delete", "Delete", "AddAll", "DeleteAll", "Replace", "Apply", "Compute", "Clear", "Compute-factory-panics"}

func (d *discDSet) subscribe(s reactive.ReadableSet[int], name, site string, i int) {
	s.OnUpdate(func(m ds.SetMutations[int]) {
		d.st.add("disc_callback_mutations_held", 1)
		holdSet(d.bag, name+"-OnUpdate-mutations:added", m.AddedElements(), ident, d.filler)
		holdSet(d.bag, name+"-OnUpdate-mutations:deleted", m.DeletedElements(), ident, d.filler)
		d.hook(site, i)
	})
}

func runDiscDSet(rng *rand.Rand) (viols []viol, st runStats) {
	d := &discDSet{rng: rng, st: &st, U: 3 + rng.Intn(5), n: 3 + rng.Intn(2)}
	st.shape = fmt.Sprintf("disc/dset/n%d/u%d", d.n, d.U)
	d.bag = &heldBag{st: &st, rng: rng}
	for e := 0; e <= d.U+2; e++ {
		d.filler = append(d.filler, e)
	}
	d.m = make([]uint32, d.n)
	for i := 0; i < d.n; i++ {
		s := reactive.NewSet[int]()
		if rng.Intn(2) == 0 {
			d.m[i] = d.randMask(3)
			s.AddAll(setOf(d.m[i]))
		}
		d.src = append(d.src, s)
		d.subscribe(s, "source", "dset/source-sub-early", i)
	}
	d.D, d.D2 = reactive.NewDerivedSet[int](), reactive.NewDerivedSet[int]()
	// variadic arguments stay the caller's: the slices are overwritten after the calls
	others := []reactive.ReadableSet[int]{d.src[1], d.src[2]}
	d.R = d.src[0].SubtractReactive(others...)
	others[0], others[1] = d.src[0], d.src[0]
	d.D2.InheritFrom(d.D)
	d.R2 = d.D.SubtractReactive(d.src[1])
	d.subscribe(d.D, "derivedset", "dset/derived-sub", -1)
	d.subscribe(d.D2, "derivedset-chained", "dset/derived-sub", -1)
	d.subscribe(d.R, "subtractreactive", "dset/result-sub", -1)
	d.subscribe(d.R2, "subtractreactive-of-derivedset", "dset/result-sub", -1)

	fail := func(v *viol) ([]viol, runStats) {
		st.nontrivial = true
		return []viol{*v}, st
	}
	if v := d.verify("construction"); v != nil {
		return fail(v)
	}
	n := 8 + rng.Intn(40)
	for step := 0; step < n; step++ {
		var label string
		switch c := rng.Intn(10); {
		case c < 3:
			label = d.reentrantStep()
		case c < 5:
			label = d.structuralStep()
		default:
			ep := discSetEPs[rng.Intn(len(discSetEPs))]
			d.write(rng.Intn(d.n), ep)
			label = "source-write/" + ep
		}
		if label == "" {
			continue
		}
		d.armed = nil
		discLeave()
		st.ops++
		if v := d.verify(label); v != nil {
			return fail(v)
		}
		if step == n/3 && !d.lateSubs {
			d.lateSubs = true
			for i, s := range d.src {
				d.subscribe(s, "source", "dset/source-sub-late", i)
			}
		}
		d.capture()
		var sv *viol
		d.bag.tick(func(s string) bool {
			d.hist = append(d.hist, "caller scribbles on "+s)
			sv = d.verify("scribbling:" + s)
			return sv == nil
		})
		if sv != nil {
			return fail(sv)
		}
	}
	st.nontrivial = true
	return
}

// structuralStep: inherit further sources (one call, variadic) / tear an inheritance down / toggle the chain's source.
func (d *discDSet) structuralStep() string {
	rng := d.rng
	d.st.structural++
	switch c := rng.Intn(5); {
	case c < 2:
		free := (uint32(1)<<uint(d.n) - 1) &^ d.inherited()
		if free == 0 {
			return ""
		}
		var g discGroup
		var args []reactive.ReadableSet[int]
		for k := 0; k < 1+rng.Intn(2); k++ {
			if j := pickBit(rng, free&^g.members); j >= 0 {
				g.members |= 1 << uint(j)
				args = append(args, d.src[j])
			}
		}
		d.hist = append(d.hist, "DerivedSet.InheritFrom(sources "+mstr(g.members)+"...)")
		g.unsub = d.D.InheritFrom(args...)
		for k := range args { // the caller re-uses its slice
			args[k] = d.src[rng.Intn(d.n)]
		}
		d.st.add("disc_arguments_changed_after_the_call", 1)
		d.groups = append(d.groups, &g)
		return "inherit-source"
	case c < 4:
		if len(d.groups) == 0 {
			return ""
		}
		gi := rng.Intn(len(d.groups))
		d.hist = append(d.hist, "unsubscribe sources "+mstr(d.groups[gi].members))
		d.groups[gi].unsub()
		d.groups = append(d.groups[:gi], d.groups[gi+1:]...)
		return "unsubscribe-source"
	default:
		if d.inh2 == nil {
			d.hist = append(d.hist, "chained DerivedSet.InheritFrom(last source)")
			d.inh2 = d.D2.InheritFrom(d.src[d.n-1])
			return "inherit-source"
		}
		d.hist = append(d.hist, "chained DerivedSet: unsubscribe the last source")
		d.inh2()
		d.inh2 = nil
		return "unsubscribe-source"
	}
}

// reentrantStep arms one (site, action) pair and performs an effective write that reaches the site.
func (d *discDSet) reentrantStep() string {
	rng := d.rng
	sites := []string{"dset/source-sub-early", "dset/source-sub-early", "dset/derived-sub", "dset/result-sub"}
	if d.lateSubs {
		sites = append(sites, "dset/source-sub-late", "dset/source-sub-late")
	}
	r := pickReentry(rng, sites...)
	label := "reentrant:" + r.site + "/" + r.action
	i, e, add := -1, 0, true
	all := (uint32(1)<<uint(d.U+1) - 1) &^ 1
	switch r.site {
	case "dset/derived-sub":
		// an element no inherited source holds yet, added to an inherited source: the DerivedSet changes
		if i = pickBit(rng, d.inherited()); i < 0 {
			return ""
		}
		e = pickBit(rng, all&^d.wantD())
	case "dset/result-sub":
		i = 0
		e = pickBit(rng, all&^(d.m[0]|d.m[1]|d.m[2]))
	default:
		i = rng.Intn(d.n)
		if rng.Intn(2) == 0 && d.m[i] != 0 {
			e, add = pickBit(rng, d.m[i]), false
		} else {
			e = pickBit(rng, all&^d.m[i])
		}
	}
	if e <= 0 {
		return ""
	}
	d.armed, d.cur = r, i
	discEnter(r.site + "/" + r.action)
	d.hist = append(d.hist, fmt.Sprintf("armed %s; source %d add=%v element %d", label, i, add, e))
	if add {
		d.src[i].Add(e)
		d.m[i] |= 1 << uint(e)
	} else {
		d.src[i].Delete(e)
		d.m[i] &^= 1 << uint(e)
	}
	if d.armed != nil {
		d.armed = nil
		d.st.add("disc_reentry_site_not_reached", 1)
	}
	return label
}
