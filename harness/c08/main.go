// C08 – kvstore.BatchedWriter never loses or half-writes an enqueued object,
// and neither Enqueue nor StopBatchWriter blocks for ever.
//
// The real BatchedWriter runs against mapdb behind a logging wrapper; harness
// BatchWriteObjects log every call they receive. One linearizable event log per
// run (tick = index) is checked after the run reached its end (all callers
// returned or were decided to be blocked for ever, writer goroutine gone):
//
//	1/3 every Enqueue that returned before Stop was invoked has a BatchWrite that
//	    saw a version >= the one at the Enqueue, committed and Done before Stop returned
//	2   Done only after the end of the Commit holding the matching BatchWrite; #Done = #BatchWrite
//	4   store[obj] = version of the last BatchWrite(obj)
//	5   an object whose Enqueue raced with Stop is written completely or not touched
//	    (its scheduled flag is not left set)
//	6   permanence rules on goroutine snapshots (DESIGN §1.4 rule 3)
//	7   store faults (one Commit / Batched / BatchWrite call fails once): the process dies
//	    (fail-stop: the unchanged writer panics on a store error) or everything above still holds,
//	    the writes of the failed batch counting as not happened
//
// Schedules: gated (hooks bw.enqueue.afterRunningCheck / bw.enqueue.beforeSend),
// "Enqueue immediately followed by Stop", and seeded stress with jittered yields;
// plain and -race builds. One run at a time per process (the permanence rules
// look at the whole process); parallelism comes from child processes.
package main

import (
	"encoding/binary"
	"encoding/json"
	"errors"
	"fmt"
	"math/rand"
	"os"
	"regexp"
	"runtime"
	"sort"
	"strings"
	"sync"
	"sync/atomic"
	"time"

	"github.com/iotaledger/hive.go/kvstore"
	"github.com/iotaledger/hive.go/kvstore/mapdb"
	"verif/harness/internal/gdump"
	"verif/harness/internal/vf"
)

const (
	pointA = "bw.enqueue.afterRunningCheck"
	pointB = "bw.enqueue.beforeSend"

	fpStopEarly   = "stop-returned-before-write-done"
	fpLost        = "enqueued-before-stop-never-written"
	fpFlagged     = "enqueue-stop-race:scheduled-never-written"
	fpEnqBlocked  = "enqueue-stop-race:enqueue-blocked-forever"
	fpStopBlocked = "stop-blocked-forever:no-writer"
	fpStopIdle    = "stop-blocked-forever:writer-idle-without-timer"
	fpStopRecv    = "stop-blocked-forever:writer-blocked-in-receive"
	fpStopSpin    = "stop-blocked-forever:writer-spins-on-empty-batches"

	// spinBound (rule R5): empty Batched/Cancel cycles the writer may still perform once nothing is
	// left to do. On the unchanged tree the writer leaves its loop at the first check that finds
	// running == false and scheduledCount == 0, i.e. after at most one more cycle; 200 is two
	// orders of magnitude of slack and counts logical steps of the writer, not time, so it does
	// not depend on machine load.
	spinBound     = 200
	fpDoneEarly   = "done-before-commit"
	fpDoneNoWrite = "done-without-write"
	fpHalf        = "write-without-commit-or-done"
	fpStore       = "store-differs-from-last-batchwrite"
	fpRegress     = "store-regressed-to-older-version"
	fpForeignDone = "batchwritedone-from-another-writer"
	fpDoneFailed  = "done-after-failed-commit"
	fpHandle      = "handle-used-after-commit"
	fpStopReent   = "stop-blocked-forever:writer-blocked-in-call-from-callback"

	// store-fault family: every finding of a run in which the injected store fault fired and the
	// process carried on gets this prefix (a swallowed store error is a defect of its own)
	fpFaultPrefix = "store-fault-survived:"
)

// errInjected is what the k-th faulted call returns (Commit, Batched) or panics with (BatchWrite).
// Its text is the harness's own marker; it is only used to annotate a fail-stop death, never to
// decide one.
var errInjected = errors.New("c08-injected-store-fault-5d1e7")

// caseGuard bounds the time one run may go WITHOUT observable progress (no harness event logged,
// no writer-side call) before it is given up as INCONCLUSIVE – never a verdict. While progress is
// observed the run is not stuck (on one core a writer spinning on a 0/1ns time-out can starve the
// callers for a long time), so the guard is re-armed, up to caseGuardCap in total.
const (
	caseGuard    = 30 * time.Second
	caseGuardCap = 10 * time.Minute
)

// lowParallelism: fewer than 4 usable CPUs (runtime.NumCPU honours the affinity mask).
var lowParallelism = runtime.NumCPU() < 4

type caseRec struct {
	Kind       string `json:"kind"` // gated | enqstop | stress
	Idx        int    `json:"idx"`
	Race       bool   `json:"race"`
	Bare       bool   `json:"bare,omitempty"` // no event log (keeps the harness from adding happens-before edges in -race runs)
	Q          int    `json:"queue_size"`
	B          int    `json:"batch_size"`
	TimeoutNs  int64  `json:"batch_timeout_ns"` // 0 and negative are legal: time.NewTimer(d<=0) fires at once
	Point      string `json:"point,omitempty"`
	Release    string `json:"release,omitempty"` // early: as soon as Stop stored running=false; late: once Stop completed+writer gone, or Stop durably parked
	InFlight   int    `json:"in_flight,omitempty"`
	Producers  int    `json:"producers,omitempty"`
	Objects    int    `json:"objects,omitempty"`
	Ops        int    `json:"ops,omitempty"`
	StopAt     int    `json:"stop_at,omitempty"`
	FlushPct   int    `json:"flush_pct,omitempty"`
	JitterPct  int    `json:"jitter_pct,omitempty"`
	DoubleStop bool   `json:"double_stop,omitempty"`
	SameObj    bool   `json:"same_object,omitempty"` // coldstart: all first Enqueues on one object
	// multi-writer family
	Opts       string    `json:"opts,omitempty"`        // which options the constructor gets: "" = all three, "timeout", "timeout+batch"
	Extreme    bool      `json:"extreme,omitempty"`     // huge time-out and batch size: only Flush can commit; never stopped (Stop waits one batch time-out on the unchanged tree)
	Subs       []caseRec `json:"writers,omitempty"`     // kind multi: the writers, in construction order
	MultiOf    *caseRec  `json:"multi_of,omitempty"`    // set on a writer's record: the multi case to replay
	OneP       bool      `json:"one_p,omitempty"`       // run in a child with GOMAXPROCS=1 (per-P state such as sync.Pool is shared between writers)
	HoldSecond bool      `json:"hold_second,omitempty"` // pair: the writer constructed second is the one held in BatchWriteDone
	// flush-boundary family
	FlushK, FlushD, After int   `json:",omitempty"` // Flush while k*batchSize+d objects are collected/queued (incl. one re-enqueue); further objects afterwards
	CaseSeed              int64 `json:"case_seed"`
	// store-fault family: the FaultAt-th call (1-based) of the kind fails once – "commit": that
	// BatchedMutations.Commit returns an error and applies nothing; "batched": that store.Batched()
	// returns an error; "batchwrite": the object's own BatchWrite panics
	Fault   string `json:"fault,omitempty"`
	FaultAt int    `json:"fault_at,omitempty"`
	// observations of a violating run
	Fingerprint string   `json:"fingerprint,omitempty"`
	Log         []string `json:"log,omitempty"`
	Dump        string   `json:"dump,omitempty"`
}

func (cs *caseRec) name() string {
	b := ""
	if cs.Race {
		b = "/race"
	}
	if cs.Bare {
		b += "/bare"
	}
	if cs.Fault != "" {
		b += fmt.Sprintf("/fault:%s@%d", cs.Fault, cs.FaultAt)
	}
	return fmt.Sprintf("%s#%d%s q=%d b=%d t=%s", cs.Kind, cs.Idx, b, cs.Q, cs.B, cs.timeout())
}

// label is the family name used in evidence counters: store-fault runs are kept apart from the
// family whose schedule they borrow.
func (cs *caseRec) label() string {
	if cs.Fault != "" {
		return "fault-" + cs.Kind
	}
	return cs.Kind
}

func (cs *caseRec) timeout() time.Duration { return time.Duration(cs.TimeoutNs) }

// idleBound is how long the writer must be seen parked in collectValues' select, without a
// single writer-side event, before "no timer is pending" is concluded: 500x the configured
// batch time-out, at least 2 s. The timer is armed when collectValues is entered (before the
// first observation) with the configured duration, so a pending timer is overdue by that
// factor. This is a bound relative to the configured time-out, not a proof: it assumes the
// process is not starved for that long.
func (cs *caseRec) idleBound() time.Duration {
	d := cs.timeout()
	if d < 0 {
		d = -d
	}
	if d > 24*time.Hour {
		return 500 * 24 * time.Hour // undecidable in practice: such writers are never judged by R3
	}
	if d *= 500; d < 2*time.Second {
		d = 2 * time.Second
	}
	return d
}

// ---------------------------------------------------------------- event log

type ev struct {
	K byte  // see kinds below
	P int   // actor index (-1: writer goroutine)
	O int   // object
	V int64 // version
	B int   // batch id
}

// kinds: E/e Enqueue call/return, A/B yield points, G scheduled flag set, g flag
// reset, S/s Stop call/return, F Flush, N store.Batched, W BatchWrite, C/c Commit
// start/end, X Cancel (empty batch), D BatchWriteDone; store-fault family: f Commit returned the
// injected error (nothing applied), n store.Batched returned it, P BatchWrite panicked with it.

type mon struct {
	bare bool
	mu   sync.Mutex
	evs  []ev
	// writer-side progress, kept in bare runs too
	wev        atomic.Int64 // number of writer-side calls observed (Batched, BatchWrite, Reset, Commit, Cancel, Done)
	emptyLoops atomic.Int64 // empty collection rounds: Cancel calls on an empty batch
	lastWK     byte         // last writer-side kind; only touched by the writer goroutine
	nW, nD     atomic.Int64 // BatchWrite / BatchWriteDone calls
	hev        atomic.Int64 // caller-side events (Enqueue/Stop/Flush calls and returns, yield points)
	regress    []string     // findings of the per-Commit store check (under mu)
	foreign    []string     // BatchWriteDone calls that came from another writer's goroutine (under mu)
	misuse     []string     // uses of a batch handle after its owner gave it back by Commit/Cancel (under mu)
	compacted  int          // empty N/X pairs dropped from the log (a time-out <= 0 makes an idle writer spin)
	// store-fault family: what the callers had done when the fault fired (evidence only)
	flushCalled, stopCalled atomic.Bool
}

func (m *mon) log(e ev) {
	if e.P >= 0 {
		m.hev.Add(1)
	}
	switch e.K {
	case 'F':
		m.flushCalled.Store(true)
	case 'S':
		m.stopCalled.Store(true)
	}
	if m.bare {
		return
	}
	m.mu.Lock()
	if n := len(m.evs); (e.K == 'N' || e.K == 'X') && n >= 4 && idleKind(m.evs[n-1].K) && idleKind(m.evs[n-2].K) && idleKind(m.evs[n-3].K) && idleKind(m.evs[n-4].K) {
		// an idle writer cycling through empty batches (it spins with a time-out <= 1ns): the log
		// keeps the first four such events of a streak, the rest is only counted
		if e.K == 'X' {
			m.compacted++
		}
		m.mu.Unlock()
		return
	}
	m.evs = append(m.evs, e)
	m.mu.Unlock()
}

func idleKind(k byte) bool { return k == 'N' || k == 'X' }

// wlog records a writer-side event.
func (m *mon) wlog(e ev) {
	if e.K == 'X' {
		// an empty batch was cancelled = one empty collection round ended (whether or not the
		// writer asks the store for a new batch afterwards)
		m.emptyLoops.Add(1)
	}
	m.lastWK = e.K
	switch e.K {
	case 'W':
		m.nW.Add(1)
	case 'D':
		m.nD.Add(1)
	}
	m.wev.Add(1)
	m.log(e)
}

func (m *mon) tick() int {
	m.mu.Lock()
	defer m.mu.Unlock()
	return len(m.evs)
}

func (m *mon) copyEvs() []ev {
	m.mu.Lock()
	defer m.mu.Unlock()
	return append([]ev(nil), m.evs...)
}

// loopedEmptySince: since emptyLoops had the value l0 the writer ended two empty collection rounds
// (the second one began after the first Cancel, which came after l0 was read), i.e. in between it
// evaluated its loop condition with nothing collectable and stayed: it is waiting for a counted
// object that is not in the queue.
func (m *mon) loopedEmptySince(l0 int64) bool { return m.emptyLoops.Load() >= l0+2 }

func fmtEv(t int, e ev) string {
	if e.P == -3 {
		// user code on the writer goroutine (BatchWrite/BatchWriteDone of an object)
		switch e.K {
		case 'E':
			return fmt.Sprintf("%d writer/callback Enqueue(obj%d) called, version %d", t, e.O, e.V)
		case 'e':
			return fmt.Sprintf("%d writer/callback Enqueue(obj%d) returned", t, e.O)
		case 'F':
			return fmt.Sprintf("%d writer/callback Flush", t)
		}
	}
	switch e.K {
	case 'E':
		return fmt.Sprintf("%d actor%d Enqueue(obj%d) called, version %d", t, e.P, e.O, e.V)
	case 'e':
		return fmt.Sprintf("%d actor%d Enqueue(obj%d) returned", t, e.P, e.O)
	case 'A':
		return fmt.Sprintf("%d actor%d at %s", t, e.P, pointA)
	case 'B':
		return fmt.Sprintf("%d actor%d at %s", t, e.P, pointB)
	case 'G':
		return fmt.Sprintf("%d actor%d obj%d.BatchWriteScheduled() set the flag", t, e.P, e.O)
	case 'g':
		return fmt.Sprintf("%d writer obj%d.ResetBatchWriteScheduled()", t, e.O)
	case 'S':
		return fmt.Sprintf("%d actor%d StopBatchWriter called", t, e.P)
	case 's':
		return fmt.Sprintf("%d actor%d StopBatchWriter returned", t, e.P)
	case 'F':
		return fmt.Sprintf("%d actor%d Flush", t, e.P)
	case 'N':
		return fmt.Sprintf("%d writer store.Batched() -> batch%d", t, e.B)
	case 'W':
		return fmt.Sprintf("%d writer obj%d.BatchWrite(batch%d) version %d", t, e.O, e.B, e.V)
	case 'C':
		return fmt.Sprintf("%d writer batch%d.Commit() start", t, e.B)
	case 'c':
		return fmt.Sprintf("%d writer batch%d.Commit() end", t, e.B)
	case 'X':
		return fmt.Sprintf("%d writer batch%d.Cancel() (empty)", t, e.B)
	case 'D':
		return fmt.Sprintf("%d writer obj%d.BatchWriteDone()", t, e.O)
	case 'f':
		return fmt.Sprintf("%d writer batch%d.Commit() returned the INJECTED error, nothing applied", t, e.B)
	case 'n':
		return fmt.Sprintf("%d writer store.Batched() returned the INJECTED error", t)
	case 'P':
		return fmt.Sprintf("%d writer obj%d.BatchWrite(batch%d) PANICKED with the injected error", t, e.O, e.B)
	}
	return fmt.Sprintf("%d ?%c", t, e.K)
}

// ---------------------------------------------------------------- objects and store wrapper

type obj struct {
	s         *scen
	id        int
	key       []byte
	version   atomic.Int64
	scheduled atomic.Bool
	fmu       sync.Mutex
	dup       *gate // set before the goroutines that may reach it are started
	// cb, when set, is user code run at the end of BatchWrite ("write") and of BatchWriteDone
	// ("done"), i.e. on the writer goroutine (re-entrancy family)
	cb func(o *obj, where string)
}

func (o *obj) BatchWrite(bm kvstore.BatchedMutations) {
	if o.s.multi {
		o.s.writerGid.CompareAndSwap(0, gdump.GoID())
	}
	v := o.version.Load()
	b := 0
	if w, ok := bm.(*wmuts); ok {
		b = w.id
	}
	if o.s.faultHit("batchwrite") {
		o.s.m.wlog(ev{K: 'P', P: -1, O: o.id, V: v, B: b})
		o.s.fireFault("batchwrite", 0)
		if g := o.s.writeGate; g != nil && g.used.CompareAndSwap(false, true) {
			close(g.reached) // a script waiting for the first BatchWrite goes on (the writer is not held)
		}
		panic(errInjected)
	}
	o.s.m.wlog(ev{K: 'W', P: -1, O: o.id, V: v, B: b})
	if g := o.s.writeGate; g != nil && g.used.CompareAndSwap(false, true) {
		close(g.reached) // the writer is held between reading the version and adding the mutation
		<-g.release
	}
	var buf [8]byte
	binary.BigEndian.PutUint64(buf[:], uint64(v))
	if err := bm.Set(o.key, buf[:]); err != nil {
		panic(err)
	}
	if o.cb != nil {
		o.cb(o, "write")
	}
}
func (o *obj) BatchWriteDone() {
	// a gated schedule may hold the writer inside the first acknowledgement of a run (a slow
	// BatchWriteDone); the event is logged when the call is entered, as always
	if o.s.multi {
		// several writers are alive: an acknowledgement must come from the goroutine that wrote this
		// writer's objects
		if w, me := o.s.writerGid.Load(), gdump.GoID(); w != 0 && w != me {
			o.s.m.mu.Lock()
			o.s.m.foreign = append(o.s.m.foreign, fmt.Sprintf("obj%d.BatchWriteDone() called by goroutine %d, this writer's BatchWrite calls come from goroutine %d", o.id, me, w))
			o.s.m.mu.Unlock()
		}
	}
	o.s.m.wlog(ev{K: 'D', P: -1, O: o.id})
	if g := o.s.doneGate; g != nil && g.used.CompareAndSwap(false, true) {
		close(g.reached)
		<-g.release
	}
	if o.cb != nil {
		o.cb(o, "done")
	}
}
func (o *obj) BatchWriteScheduled() bool {
	if o.s.m.bare {
		return !o.scheduled.CompareAndSwap(false, true)
	}
	// fmu makes the log order of flag events equal to their real order
	o.fmu.Lock()
	swapped := o.scheduled.CompareAndSwap(false, true)
	if swapped {
		o.s.m.log(ev{K: 'G', P: o.s.actorIdx(), O: o.id})
	}
	o.fmu.Unlock()
	if swapped {
		return false
	}
	// "already scheduled": a gated schedule may hold the caller here, i.e. between Enqueue's
	// accounting of the object and its early return (the object's method is simply slow)
	if g := o.dup; g != nil && g.used.CompareAndSwap(false, true) {
		close(g.reached)
		<-g.release
	}
	return true
}
func (o *obj) ResetBatchWriteScheduled() {
	if o.s.m.bare {
		o.s.m.wev.Add(1)
		o.scheduled.Store(false)
		return
	}
	o.fmu.Lock()
	o.s.m.wlog(ev{K: 'g', P: -1, O: o.id})
	o.scheduled.Store(false)
	o.fmu.Unlock()
}

type wstore struct {
	kvstore.KVStore
	m  *mon
	s  *scen
	nb atomic.Int32
	// highest version committed per key; only touched by the writer goroutine (inside Commit)
	maxCommitted map[string]int64
	// The store recycles its batch handles, as a pooling store may: a handle given back by a
	// successful Commit or by Cancel goes to the free list and the next Batched() hands the same
	// handle out again. Whoever touches a handle after giving it back touches somebody else's batch.
	fmu  sync.Mutex
	free []*wmuts
}

func (w *wstore) Batched() (kvstore.BatchedMutations, error) {
	if w.s.faultHit("batched") {
		w.m.wlog(ev{K: 'n', P: -1})
		w.s.fireFault("batched", 0)
		return nil, errInjected
	}
	inner, err := w.KVStore.Batched()
	if err != nil {
		return nil, err
	}
	id := int(w.nb.Add(1))
	w.m.wlog(ev{K: 'N', P: -1, B: id})
	w.fmu.Lock()
	defer w.fmu.Unlock()
	if n := len(w.free); n > 0 {
		h := w.free[n-1]
		w.free = w.free[:n-1]
		h.BatchedMutations, h.id, h.nset, h.released = inner, id, 0, false
		clear(h.sets)
		w.s.recycled.Add(1)
		return h, nil
	}
	return &wmuts{BatchedMutations: inner, id: id, m: w.m, st: w, sets: map[string]int64{}}, nil
}

// giveBack: the owner is done with the handle (successful Commit, or Cancel).
func (w *wmuts) giveBack() {
	w.st.fmu.Lock()
	w.released = true
	w.st.free = append(w.st.free, w)
	w.st.fmu.Unlock()
}

// stale reports a call on a handle its owner had already given back.
func (w *wmuts) stale(call string) bool {
	w.st.fmu.Lock()
	rel, id := w.released, w.id
	w.st.fmu.Unlock()
	if !rel {
		return false
	}
	w.m.mu.Lock()
	w.m.misuse = append(w.m.misuse, fmt.Sprintf("%s on the handle of batch%d after that batch had been committed/cancelled and the handle given back to the store (a store that recycles its handles hands it to the next Batched() caller)", call, id))
	w.m.mu.Unlock()
	return true
}

func (w *wmuts) Delete(key kvstore.Key) error {
	if w.stale("Delete") {
		return nil
	}
	delete(w.sets, string(key))
	return w.BatchedMutations.Delete(key)
}

type wmuts struct {
	kvstore.BatchedMutations
	id   int
	m    *mon
	st   *wstore
	sets map[string]int64 // mirrors the mutations object: key -> version to be written by Commit
	nset int              // Set calls received
	released bool         // under st.fmu
}

func (w *wmuts) Set(key kvstore.Key, value kvstore.Value) error {
	if w.stale("Set") {
		return nil
	}
	w.nset++
	if len(value) == 8 {
		w.sets[string(key)] = int64(binary.BigEndian.Uint64(value))
	}
	return w.BatchedMutations.Set(key, value)
}

func (w *wmuts) Commit() error {
	if w.stale("Commit") {
		return nil
	}
	w.m.wlog(ev{K: 'C', P: -1, B: w.id})
	if w.st.s.faultHit("commit") {
		// this one Commit call fails: nothing is applied; the mutations object itself stays usable
		// (a library that tries the same Commit again succeeds)
		w.m.wlog(ev{K: 'f', P: -1, B: w.id})
		w.st.s.fireFault("commit", w.nset)
		return errInjected
	}
	err := w.BatchedMutations.Commit()
	if err != nil {
		panic(fmt.Sprintf("mapdb commit failed: %v", err))
	}
	// check 4 right after each Commit: a commit must not put an older version of an object over a
	// newer one that was committed before (e.g. a mutations object committed a second time)
	for k, v := range w.sets {
		if old := w.st.maxCommitted[k]; v < old {
			w.m.mu.Lock()
			w.m.regress = append(w.m.regress, fmt.Sprintf("Commit of batch%d wrote %s = version %d over version %d committed earlier", w.id, k, v, old))
			w.m.mu.Unlock()
		} else {
			w.st.maxCommitted[k] = v
		}
	}
	w.m.wlog(ev{K: 'c', P: -1, B: w.id})
	w.giveBack()
	return nil
}
func (w *wmuts) Cancel() {
	if w.stale("Cancel") {
		return
	}
	defer w.giveBack()
	clear(w.sets)
	w.m.wlog(ev{K: 'X', P: -1, B: w.id})
	w.BatchedMutations.Cancel()
}

// ---------------------------------------------------------------- scenario runtime

type actor struct {
	s         *scen
	idx       int
	role      string // main | producer | stopper
	gid       atomic.Uint64
	rng       *rand.Rand
	done      chan struct{}
	hung      string // fingerprint once a permanence rule matched
	dump      string
	longSleep int
}

type gate struct {
	a       *actor
	point   string
	used    atomic.Bool
	reached chan struct{}
	release chan struct{}
}

type scen struct {
	c      *vf.Ctx
	cs     *caseRec
	m      *mon
	bw     *kvstore.BatchedWriter
	inner  kvstore.KVStore
	objs   []*obj
	byGid  sync.Map // uint64 -> *actor
	actors []*actor
	gate   *gate
	snaps  int
	start  time.Time
	// writerIdle: the run ended by rule R3 with the writer goroutine alive but idle for ever
	writerIdle bool
	abortAfter bool
	doneGate   *gate         // set before the first Enqueue
	writeGate  *gate         // holds the writer inside the first BatchWrite of the run (after it read the version)
	multi      bool          // other BatchedWriters are alive in this process, see mine()
	writerGid  atomic.Uint64 // multi: goroutine that calls BatchWrite on this writer's objects
	noEnd      bool          // the writer was not stopped: no end-of-run demands (see extremeBody)
	// beforeStop, when set, is waited for by every Stop caller (multi-writer family: all writers
	// have been constructed)
	beforeStop <-chan struct{}
	// store-fault family
	faultCalls atomic.Int32 // calls of the faulted kind so far
	recycled   atomic.Int64 // Batched() calls served with a recycled handle
	// re-entrancy family: calls made from BatchWrite/BatchWriteDone (writer goroutine)
	reent [6]atomic.Int64
	faultFired atomic.Bool
}

// faultHit counts one call of the given kind and says whether it is the one that has to fail.
func (s *scen) faultHit(kind string) bool {
	if s.cs.Fault != kind || int(s.faultCalls.Add(1)) != s.cs.FaultAt {
		return false
	}
	s.faultFired.Store(true)
	return true
}

// faultRec is sent to the parent just before the faulted call fails: the unchanged writer panics on
// a store error in its own goroutine, so the process is probably about to die.
type faultRec struct {
	I     int    `json:"i"`   // position of the case in this child's list
	Idx   int    `json:"idx"` // caseRec.Idx
	Kind  string `json:"kind"`
	Class string `json:"class"`
	Stop  bool   `json:"stop_invoked"`
}

var curBatchPos atomic.Int64

// fireFault runs in the writer goroutine, inside the call that is about to fail. The class names
// what could be observed from outside at that moment (evidence: which of the writer's commit sites
// were exercised is not visible from outside, their triggers are).
func (s *scen) fireFault(kind string, nset int) {
	class := kind
	if kind == "commit" {
		class += map[bool]string{true: "/batch-full", false: "/batch-partial"}[nset >= s.cs.B]
	}
	class += map[bool]string{true: "/flush-requested", false: "/no-flush"}[s.m.flushCalled.Load()]
	class += map[bool]string{true: "/stop-invoked", false: "/before-stop"}[s.m.stopCalled.Load()]
	// only a record (vf.Emit is safe from any goroutine; the counters are not: the main goroutine
	// keeps counting while this one runs) - the parent counts
	s.c.Emit("fault-fired", faultRec{I: int(curBatchPos.Load()), Idx: s.cs.Idx, Kind: kind, Class: class, Stop: s.m.stopCalled.Load()})
}

var cur atomic.Pointer[scen] // informational only; the hook dispatches by goroutine id

// allActors: goroutine id -> *actor for every caller goroutine of every live scenario (several
// scenarios run concurrently in the multi-writer family).
var allActors sync.Map

func hook(point string) {
	if v, ok := allActors.Load(gdump.GoID()); ok {
		a := v.(*actor)
		a.s.yield(a, point)
	}
}

func (s *scen) actorIdx() int {
	if a, ok := s.byGid.Load(gdump.GoID()); ok {
		return a.(*actor).idx
	}
	return -2
}

func (s *scen) yield(a *actor, point string) {
	k := byte('A')
	if point == pointB {
		k = 'B'
	}
	s.m.log(ev{K: k, P: a.idx})
	if g := s.gate; g != nil && g.a == a && g.point == point && g.used.CompareAndSwap(false, true) {
		close(g.reached)
		<-g.release
		return
	}
	if a.rng == nil || s.cs.JitterPct == 0 || a.rng.Intn(100) >= s.cs.JitterPct {
		return
	}
	// seeded jitter only; nothing is decided by these durations
	switch r := a.rng.Intn(10); {
	case r < 5:
		for i := a.rng.Intn(4) + 1; i > 0; i-- {
			runtime.Gosched()
		}
	case r < 8 || a.longSleep >= 2:
		time.Sleep(time.Duration(a.rng.Intn(100)) * time.Microsecond)
	default:
		a.longSleep++
		time.Sleep(s.cs.timeout() * time.Duration(5+a.rng.Intn(20)) / 10)
	}
}

func newScen(c *vf.Ctx, cs *caseRec, nobj int) *scen {
	s := &scen{c: c, cs: cs, m: &mon{bare: cs.Bare}, inner: mapdb.NewMapDB(), start: time.Now()}
	var opts []kvstore.Option
	switch cs.Opts {
	case "timeout":
		opts = []kvstore.Option{kvstore.WithBatchTimeout(cs.timeout())}
	case "timeout+batch":
		opts = []kvstore.Option{kvstore.WithBatchTimeout(cs.timeout()), kvstore.WithBatchSize(cs.B)}
	default:
		opts = []kvstore.Option{kvstore.WithQueueSize(cs.Q), kvstore.WithBatchSize(cs.B), kvstore.WithBatchTimeout(cs.timeout())}
	}
	s.bw = kvstore.NewBatchedWriter(&wstore{KVStore: s.inner, m: s.m, s: s, maxCommitted: map[string]int64{}}, opts...)
	for i := 0; i < nobj; i++ {
		s.objs = append(s.objs, &obj{s: s, id: i, key: []byte(fmt.Sprintf("obj%d", i))})
	}
	return s
}

// self registers the calling goroutine as an actor.
func (s *scen) self(role string) *actor {
	a := &actor{s: s, idx: len(s.actors), role: role, done: make(chan struct{})}
	a.gid.Store(gdump.GoID())
	s.byGid.Store(a.gid.Load(), a)
	allActors.Store(a.gid.Load(), a)
	harnessGids.Store(a.gid.Load(), true)
	s.actors = append(s.actors, a)
	return a
}

// spawn starts a registered actor goroutine; it runs f after start is closed.
func (s *scen) spawn(role string, seed int64, start <-chan struct{}, f func(a *actor)) *actor {
	a := &actor{s: s, idx: len(s.actors), role: role, done: make(chan struct{})}
	if seed != 0 {
		a.rng = rand.New(rand.NewSource(seed))
	}
	s.actors = append(s.actors, a)
	reg := make(chan struct{})
	go func() {
		defer close(a.done)
		id := gdump.GoID()
		a.gid.Store(id)
		s.byGid.Store(id, a)
		allActors.Store(id, a)
		harnessGids.Store(id, true)
		close(reg)
		if start != nil {
			<-start
		}
		f(a)
	}()
	<-reg
	return a
}

func (s *scen) enqueue(a *actor, o *obj) {
	v := o.version.Add(1)
	s.m.log(ev{K: 'E', P: a.idx, O: o.id, V: v})
	s.bw.Enqueue(o)
	s.m.log(ev{K: 'e', P: a.idx, O: o.id})
}

func (s *scen) stop(a *actor) {
	if s.beforeStop != nil {
		<-s.beforeStop
	}
	s.m.log(ev{K: 'S', P: a.idx})
	s.bw.StopBatchWriter()
	s.m.log(ev{K: 's', P: a.idx})
}

func closed(ch chan struct{}) bool {
	select {
	case <-ch:
		return true
	default:
		return false
	}
}

type waiter struct {
	m        *mon // progress source (may be nil)
	n        int
	first    time.Time
	since    time.Time // last observed progress
	progress int64
}

// pause is a polling pause; returns false when the per-case guard expired.
func (w *waiter) pause() bool {
	now := time.Now()
	if w.n == 0 {
		w.first, w.since = now, now
	}
	if w.m != nil {
		if p := w.m.wev.Load() + w.m.hev.Load(); p != w.progress {
			w.progress, w.since = p, now
		}
	}
	w.n++
	if w.n < 10 {
		runtime.Gosched()
	} else {
		d := time.Duration(w.n) * 10 * time.Microsecond
		if d > time.Millisecond {
			d = time.Millisecond
		}
		time.Sleep(d)
		canarySleeps.Add(1)
	}
	return time.Since(w.since) < caseGuard && time.Since(w.first) < caseGuardCap
}

// Blindness self-check. The keying of "writer" is a property of the build. Every child process
// starts with a calibration run (calibrate) and every gated/stress run and most enqueue-then-stop
// runs call probeWriter at a point where a writer must exist (an Enqueue has returned or reached a
// yield point, Stop not yet invoked): if the rules see none there, they are blind for this build
// (or the writer vanished without Stop) and nothing may be decided – the process reports
// INCONCLUSIVE and stops, it never reports a violation.
var writerSightings atomic.Int64

func (s *scen) probeWriter() bool {
	s.c.Count("writer_probes_where_one_must_exist", 1)
	s.c.Count("snapshots", 1)
	if _, ok := s.liveWriter(gdump.Snapshot()); ok {
		if writerSightings.Add(1) == 1 {
			s.c.Emit("sighting", 1)
		}
		s.c.Count("writer_probes_seen", 1)
		return true
	}
	s.c.Inconclusive(s.cs.name() + ": a writer goroutine must exist (Enqueue returned/at a yield point, Stop not yet invoked) but the snapshot rules identify none – the rules are blind for this build, nothing decided")
	return false
}

// calibrate: one throw-away run at process start; false = blind.
func calibrate(c *vf.Ctx) bool {
	cs := &caseRec{Kind: "calibration", Q: 1, B: 1, TimeoutNs: int64(time.Millisecond)}
	s := newScen(c, cs, 1)
	cur.Store(s)
	defer cur.Store(nil)
	s.enqueue(s.self("main"), s.objs[0])
	if !s.probeWriter() {
		return false
	}
	s.spawn("stopper", 0, nil, func(a *actor) { s.stop(a) })
	return s.finishWait()
}

func (s *scen) snapshot() []gdump.G {
	s.snaps++
	return gdump.Snapshot()
}

// leakedWriters: writer goroutines of earlier runs of this process that rule R3 decided to be
// idle for ever (they stay parked in their select); later runs must not mistake them for their own.
var (
	leakedMu      sync.Mutex
	leakedWriters = map[uint64]bool{}
)

func isLeaked(id uint64) bool { leakedMu.Lock(); defer leakedMu.Unlock(); return leakedWriters[id] }
func markLeaked(id uint64)    { leakedMu.Lock(); leakedWriters[id] = true; leakedMu.Unlock() }

// harnessGids: ids of every goroutine this process created for (or used as) a caller.
var harnessGids sync.Map

const kvPkg = "github.com/iotaledger/hive.go/kvstore."

// isHarnessGoroutine: the main goroutine, the registered actors, and anything started by package main.
func isHarnessGoroutine(g gdump.G) bool {
	if _, ok := harnessGids.Load(g.ID); ok {
		return true
	}
	return g.ID == 1 || strings.Contains(g.Raw, "\ncreated by main.") || g.Has("main.main")
}

// liveWriter: a "writer" is any goroutine that the harness did not create and that has at least one
// frame of package kvstore – any function name, so renaming unexported functions does not blind the
// rules – or that was created by a function of that package (a goroutine that has not run yet shows
// only a compiler-generated wrapper frame plus its "created by" line; both are in the package).
// Callers are told apart by id/creator, never by unexported names.
func liveWriter(gs []gdump.G) (gdump.G, bool) {
	for _, g := range gs {
		if strings.Contains(g.Raw, kvPkg) && !isHarnessGoroutine(g) && !isLeaked(g.ID) {
			return g, true
		}
	}
	return gdump.G{}, false
}

func liveWriters(gs []gdump.G) (out []gdump.G) {
	for _, g := range gs {
		if strings.Contains(g.Raw, kvPkg) && !isHarnessGoroutine(g) && !isLeaked(g.ID) {
			out = append(out, g)
		}
	}
	return
}

// settled: nothing is left to do for the writer – no object has its scheduled flag set (every
// accepted scheduling was collected) and every BatchWrite was acknowledged by BatchWriteDone.
// Only meaningful while no Enqueue is in progress.
func (s *scen) settled() bool {
	for _, o := range s.objs {
		if o.scheduled.Load() {
			return false
		}
	}
	return s.m.nW.Load() == s.m.nD.Load()
}

func writerAlive(gs []gdump.G) bool { _, ok := liveWriter(gs); return ok }

var createdInRe = regexp.MustCompile(`\ncreated by [^\n]* in goroutine (\d+)`)

// mine: in the multi-writer family several BatchedWriters are alive in one process; a writer
// goroutine belongs to the scenario whose actor created it ("created by ... in goroutine N": the
// goroutine that made this writer's first Enqueue). Single-writer runs take every writer goroutine.
func (s *scen) mine(g gdump.G) bool {
	if !s.multi {
		return true
	}
	m := createdInRe.FindStringSubmatch(g.Raw)
	if m == nil {
		return false
	}
	for _, a := range s.actors {
		if fmt.Sprint(a.gid.Load()) == m[1] {
			return true
		}
	}
	return false
}

func (s *scen) liveWriters(gs []gdump.G) (out []gdump.G) {
	for _, g := range liveWriters(gs) {
		if s.mine(g) {
			out = append(out, g)
		}
	}
	return
}

func (s *scen) liveWriter(gs []gdump.G) (gdump.G, bool) {
	if ws := s.liveWriters(gs); len(ws) > 0 {
		return ws[0], true
	}
	return gdump.G{}, false
}

func (s *scen) writerAlive(gs []gdump.G) bool { _, ok := s.liveWriter(gs); return ok }

// idleTracker measures for how long the writer goroutine has been parked in the select of
// its own select (innermost non-runtime frame in package kvstore) without any writer-side event. Every way out of that
// select is followed by such an event (an object received: ResetBatchWriteScheduled/BatchWrite;
// flush or time-out: Commit or Cancel, then Batched), so an unchanged event count between two
// observations means the writer never left the select in between.
type idleTracker struct {
	since  time.Time
	wev    int64
	gid    uint64
	sleeps int64
}

// canarySleeps counts the polling sleeps (waiter.pause) that have returned in this process, i.e.
// harness timers that were armed and fired. An idle period only counts once idleCanary of them,
// all armed after the period began, have fired: elapsed wall time alone also passes while the whole
// process is starved of CPU (seen once at a load average of ~170 on 16 cores: a writer with a 1 ms
// time-out looked idle for 2 s), and then no timer of the process fires, the writer's included.
var canarySleeps atomic.Int64

const idleCanary = 300

// parked: the goroutine is in a blocking wait of user level, of any kind – channel send/receive,
// select, mutex, RWMutex, Cond, WaitGroup, semaphore below package sync, … No rule depends on WHICH
// primitive it is. Known by the state prefix ("chan ", "select", "sync.") or, for any other wait
// reason (e.g. "semacquire", or one this code has never seen), by the innermost visible frame being
// a function of package sync. Waits that the runtime imposes on a goroutine in the middle of user
// code (a goroutine that starts a GC cycle blocks in "semacquire" on the world semaphore, GC assist,
// …) have no such frame: they are transient and count as not parked, which only defers a decision.
func parked(g gdump.G) bool {
	switch st := g.State; {
	case st == "", st == "running", st == "runnable", st == "syscall", st == "sleep", st == "IO wait",
		st == "preempted", st == "copystack", strings.HasPrefix(st, "GC "), strings.HasPrefix(st, "finalizer"):
		return false
	case strings.HasPrefix(st, "chan "), strings.HasPrefix(st, "select"), strings.HasPrefix(st, "sync."):
		return true
	}
	return len(g.Frames) > 0 && strings.HasPrefix(g.Frames[0], "sync.")
}

// libParked: parked, and the innermost frame that belongs to the harness or to hive.go is a function
// of package kvstore – i.e. the wait is the library's own (directly or through sync/runtime), not a
// gate, hook, object method or store of the harness, nor the backing store.
func libParked(g gdump.G) bool {
	if !parked(g) {
		return false
	}
	for _, f := range g.Frames {
		if strings.HasPrefix(f, "main.") || strings.Contains(f, "iotaledger/hive.go/") {
			return strings.HasPrefix(f, kvPkg)
		}
	}
	return false
}

// inCall: the goroutine is inside the exported BatchedWriter method (identified by the exported
// frame only; callers are harness goroutines known by id).
func inCall(g gdump.G, method string) bool { return g.Has("kvstore.(*BatchedWriter)." + method) }

func (it *idleTracker) observe(m *mon, wg gdump.G, alive bool) time.Duration {
	if !alive || !libParked(wg) {
		it.since = time.Time{}
		return 0
	}
	n := m.wev.Load()
	if it.since.IsZero() || n != it.wev || wg.ID != it.gid {
		it.since, it.wev, it.gid, it.sleeps = time.Now(), n, wg.ID, canarySleeps.Load()
		return 0
	}
	if canarySleeps.Load()-it.sleeps < idleCanary {
		return 0
	}
	return time.Since(it.since)
}

// inEnqueueSend: parked inside Enqueue, in library code (the queue send, or any other wait of the call).
func inEnqueueSend(g gdump.G) bool { return libParked(g) && inCall(g, "Enqueue") }

// inStopWait: parked inside StopBatchWriter, in library code (waiting for the writer to finish or
// for the start/stop lock – whatever primitive the library uses for either).
func inStopWait(g gdump.G) bool { return libParked(g) && inCall(g, "StopBatchWriter") }

// applyNoWriterRules applies R1/R2 to a snapshot that shows no writer goroutine. The decision is
// deferred while any actor is still executing (not parked) inside Enqueue: the caller that starts
// the writer is in Enqueue from before the writer goroutine exists until after it was created, so
// "no writer in the snapshot" could otherwise mean "not created yet" during a cold start.
func (s *scen) applyNoWriterRules(gs []gdump.G, stopHung *bool) {
	for _, a := range s.actors {
		// (no look at a.done here: it may have been closed AFTER the snapshot was taken; an actor
		// that has exited is simply not in the snapshot)
		if a.role == "main" || a.hung != "" {
			continue
		}
		if g, found := gdump.Find(gs, a.gid.Load()); found && !parked(g) &&
			(inCall(g, "Enqueue") || inCall(g, "StopBatchWriter") || inCall(g, "Flush")) {
			return
		}
	}
	for _, a := range s.actors {
		// (no look at a.done here: it may have been closed AFTER the snapshot was taken; an actor
		// that has exited is simply not in the snapshot)
		if a.role == "main" || a.hung != "" {
			continue
		}
		g, found := gdump.Find(gs, a.gid.Load())
		if !found {
			continue
		}
		var all strings.Builder
		for _, x := range gs {
			if strings.Contains(x.Raw, "main.(") || strings.Contains(x.Raw, kvPkg) {
				all.WriteString("\n\n" + x.Raw)
			}
		}
		switch {
		case inEnqueueSend(g):
			a.hung, a.dump = fpEnqBlocked, g.Raw+"\n\n--- all harness/kvstore goroutines of the deciding snapshot:"+all.String()
		case inStopWait(g):
			a.hung, a.dump = fpStopBlocked, g.Raw+"\n\n--- all harness/kvstore goroutines of the deciding snapshot:"+all.String()
			*stopHung = true
		}
	}
}

// finishWait waits until every actor has returned or is blocked for ever by a
// permanence rule, and the writer goroutine is gone. Rules (one consistent
// snapshot each; autoStartOnce guarantees that no second writer can ever be
// started, and only the writer goroutine receives from batchQueue / calls writeWg.Done;
// "writer" = any kvstore-package goroutine the harness did not create, see liveWriter):
//
//	R1 actor in BatchedWriter.Enqueue, state "chan send", no writer goroutine alive
//	R2 actor in StopBatchWriter→WaitGroup.Wait, no writer goroutine alive
//	R3 every caller has returned except Stop callers parked inside StopBatchWriter, and the writer is parked in collectValues' select with no writer-side
//	   event for idleBound() (>= 500x the configured batch time-out, >= 2 s): nobody is left to send
//	   on batchQueue or flushChan, and a pending batch timer would be overdue by that factor, so no
//	   timer is pending and the select never returns. Unlike R1/R2 this is relative to the
//	   configured time-out; anything short of it ends as INCONCLUSIVE through the case guard.
//	R4 is R3 with the writer seen in a plain channel receive instead of a select (a receive may be a
//	   timer wait, so it needs the same idleBound); only the fingerprint differs.
//	No rule looks at which primitive a goroutine waits on: callers are "parked in library code inside
//	the exported call" (libParked + inCall), the writer is "parked in library code" (libParked).
//	R5 bounded progress in logical steps: Stop is parked in WaitGroup.Wait, every other caller has
//	   returned, nothing is left to do (settled: no scheduled flag set, #BatchWrite == #Done), and
//	   the writer has since gone through more than spinBound empty Batched/Cancel cycles without
//	   exiting – see spinBound for why that cannot happen on a tree where the property holds.
//	All rules are evaluated on every poll, so a run that ends in the case guard has tried them all
//	on its last snapshot and log.
func (s *scen) finishWait() (ok bool) {
	w := waiter{m: s.m}
	var idle idleTracker
	stopHung := false
	spinBase := int64(-1)
	for {
		all := true
		for _, a := range s.actors {
			if a.role != "main" && a.hung == "" && !closed(a.done) {
				all = false
			}
		}
		gs := s.snapshot()
		wg, wa := s.liveWriter(gs)
		if all && !wa {
			return true
		}
		if wa {
			onlyStops := true
			var waiting []*actor
			for _, a := range s.actors {
				if a.role == "main" || a.hung != "" {
					continue
				}
				// the snapshot decides who is still there (a.done may be closed after it was taken)
				g, found := gdump.Find(gs, a.gid.Load())
				switch {
				case !found:
				case found && inStopWait(g):
					waiting = append(waiting, a)
					a.dump = g.Raw
				default:
					onlyStops = false
				}
			}
			decided := ""
			if !onlyStops {
				idle.observe(s.m, wg, false)
				spinBase = -1
			} else {
				ws := s.liveWriters(gs)
				switch {
				case idle.observe(s.m, wg, true) >= s.cs.idleBound():
					// R3/R4: same rule, the fingerprint only names the kind of wait that was seen
					decided = fpStopIdle
					if strings.HasPrefix(wg.State, "chan receive") {
						decided = fpStopRecv
					}
					if inCall(wg, "Flush") || inCall(wg, "Enqueue") {
						// the writer goroutine itself sits inside an exported call made by user code
						// (BatchWrite/BatchWriteDone) and never comes back
						decided = fpStopReent
					}
				case len(waiting) > 0 && s.settled():
					// R5
					if n := s.m.emptyLoops.Load(); spinBase < 0 {
						spinBase = n
					} else if n-spinBase > spinBound {
						decided = fpStopSpin
					}
				default:
					spinBase = -1
				}
				if decided != "" {
					var dump strings.Builder
					for _, g := range ws {
						dump.WriteString("\n\n" + g.Raw)
						markLeaked(g.ID)
					}
					for _, a := range waiting {
						a.hung, a.dump = decided, a.dump+dump.String()
					}
					s.writerIdle = true
					// a writer that keeps cycling stays behind: this process stops after the run, the
					// parent resumes the remaining cases in a fresh one
					s.abortAfter = decided == fpStopSpin
					s.c.Count("decided:"+decided, 1)
					return true
				}
			}
		}
		if !wa {
			s.applyNoWriterRules(gs, &stopHung)
		}
		if !w.pause() {
			var sb strings.Builder
			for _, g := range gs {
				if strings.Contains(g.Raw, "hive.go/kvstore") {
					fmt.Fprintf(&sb, " | g%d [%s] %s", g.ID, g.State, strings.Join(g.Frames[:min(len(g.Frames), 6)], " < "))
				}
			}
			bs, _ := json.Marshal(s.cs)
			s.c.Inconclusive(fmt.Sprintf("case guard expired waiting for the end of %s (writer alive: %v) case=%s goroutines:%s", s.cs.name(), wa, bs, sb.String()))
			return false
		}
	}
}

// ---------------------------------------------------------------- analysis

type enq struct {
	p, o      int
	v         int64
	call, ret int
}
type wr struct {
	o               int
	v               int64
	b               int
	t, commit, done int
	// failed: the Commit holding this write returned the injected error (and no later Commit of the
	// same mutations object succeeded): the write does not count, as if it had not happened
	failed bool
}

type finding struct{ fp, what string }

type analysis struct {
	findings    []finding
	overlapping int
	pendingAtS  int
	checkedEnq  int
	enqCalls    int
	writes      int
	dones       int
	full        int
	partial     int
	partialNoFl int
	empty       int
	flushes     int
	key         string
	nontrivial  bool
	flagLeftSet int
}

func (s *scen) analyze() *analysis {
	evs := s.m.copyEvs()
	an := &analysis{}
	add := func(fp, format string, a ...any) {
		for _, f := range an.findings {
			if f.fp == fp {
				return
			}
		}
		an.findings = append(an.findings, finding{fp, fmt.Sprintf(format, a...)})
	}
	var enqs []*enq
	open := map[int]*enq{}
	var writes []*wr
	byBatch := map[int][]*wr{}
	flag := map[int]bool{}
	flagOwner := map[int]*enq{}
	lastG := map[int]int{}
	exempt := map[int]bool{}
	S, R := -1, -1
	for t, e := range evs {
		switch e.K {
		case 'E':
			q := &enq{p: e.P, o: e.O, v: e.V, call: t, ret: -1}
			open[e.P] = q
			enqs = append(enqs, q)
		case 'e':
			if q := open[e.P]; q != nil {
				q.ret = t
				delete(open, e.P)
			}
		case 'G':
			flag[e.O] = true
			flagOwner[e.O] = open[e.P]
			lastG[e.O] = t
		case 'g':
			flag[e.O] = false
			delete(flagOwner, e.O)
		case 'S':
			if S < 0 {
				S = t
			}
		case 's':
			if R < 0 {
				R = t
			}
		case 'F':
			an.flushes++
		case 'W':
			w := &wr{o: e.O, v: e.V, b: e.B, t: t, commit: -1, done: -1}
			writes = append(writes, w)
			byBatch[e.B] = append(byBatch[e.B], w)
		case 'f':
			for _, w := range byBatch[e.B] {
				w.failed = true
			}
		case 'P':
			// the object's own BatchWrite panicked: nothing is demanded for this object
			exempt[e.O] = true
		case 'c':
			for _, w := range byBatch[e.B] {
				w.commit, w.failed = t, false
			}
			if n := len(byBatch[e.B]); n >= s.cs.B {
				an.full++
			} else if n > 0 {
				an.partial++
				if an.flushes == 0 {
					an.partialNoFl++
				}
			}
		case 'X':
			an.empty++
		case 'D':
			an.dones++
			var m, mf *wr
			for _, w := range writes {
				if w.o == e.O && w.done < 0 && w.failed && mf == nil {
					mf = w
				}
				if w.o == e.O && w.done < 0 && !w.failed {
					m = w
					break
				}
			}
			switch {
			case m == nil && mf != nil:
				add(fpDoneFailed, "obj%d.BatchWriteDone() at tick %d although the Commit of batch%d (holding its BatchWrite of tick %d) had returned an error and nothing was stored", e.O, t, mf.b, mf.t)
				mf.done = t
			case m == nil:
				add(fpDoneNoWrite, "obj%d.BatchWriteDone() at tick %d without a preceding BatchWrite that was not yet done", e.O, t)
			case m.commit < 0:
				add(fpDoneEarly, "obj%d.BatchWriteDone() at tick %d before Commit of batch%d (holding its BatchWrite of tick %d) had ended", e.O, t, m.b, m.t)
				m.done = t
			default:
				m.done = t
			}
		}
	}
	an.enqCalls, an.writes = len(enqs), len(writes)
	s.m.mu.Lock()
	an.empty += s.m.compacted
	regress := append([]string(nil), s.m.regress...)
	foreign := append([]string(nil), s.m.foreign...)
	misuse := append([]string(nil), s.m.misuse...)
	s.m.mu.Unlock()
	if len(misuse) > 0 {
		add(fpHandle, "%s; %d such calls in this run", misuse[0], len(misuse))
	}
	if len(foreign) > 0 {
		add(fpForeignDone, "%s; %d such calls in this run", foreign[0], len(foreign))
	}
	if len(regress) > 0 {
		add(fpRegress, "%s (BatchWriteDone had been delivered for the newer write); %d such commits in this run", regress[0], len(regress))
	}
	for _, w := range writes {
		if s.noEnd {
			break
		}
		if w.failed {
			continue
		}
		if w.commit < 0 || w.done < 0 {
			add(fpHalf, "obj%d.BatchWrite at tick %d (batch%d) but at the end of the run commit=%v done=%v (writer goroutine gone or idle for ever)", w.o, w.t, w.b, w.commit >= 0, w.done >= 0)
		}
	}
	hungActor := map[int]bool{}
	for _, a := range s.actors {
		if a.hung != "" {
			hungActor[a.idx] = true
		}
	}
	if S >= 0 {
		for _, q := range enqs {
			if q.ret >= 0 && q.ret < S && !exempt[q.o] {
				an.checkedEnq++
				best := -1
				for _, w := range writes {
					if w.o == q.o && w.v >= q.v && w.commit >= 0 && w.done >= 0 {
						best = w.done
						break
					}
				}
				if best < 0 || best > S {
					an.pendingAtS++
				}
				switch {
				case best < 0:
					add(fpLost, "Enqueue(obj%d, version %d) returned at tick %d, StopBatchWriter was invoked at tick %d, but no BatchWrite of a version >= %d was ever committed and done (writer goroutine gone or idle for ever)", q.o, q.v, q.ret, S, q.v)
				case R >= 0 && best > R:
					add(fpStopEarly, "Enqueue(obj%d, version %d) returned at tick %d < Stop invoked at %d; StopBatchWriter returned at tick %d but the object's BatchWriteDone came at tick %d", q.o, q.v, q.ret, S, R, best)
				}
			} else if (q.ret < 0 || q.ret > S) && (R < 0 || q.call < R) {
				an.overlapping++
			}
		}
	}
	var objs []int
	for _, o := range s.objs {
		if o.scheduled.Load() && !s.noEnd { // the real flag at the end of the run
			objs = append(objs, o.id)
		}
	}
	_ = flag
	for _, o := range objs {
		if exempt[o] {
			continue
		}
		q := flagOwner[o]
		written := false
		for _, w := range writes {
			if w.o == o && w.t > lastG[o] {
				written = true
			}
		}
		if written {
			// the object was written after the flag was set but the flag was not reset: the
			// statement does not mention the flag itself, its consequence (a later Enqueue is
			// skipped and its version never written) is check 1
			an.flagLeftSet++
			continue
		}
		if q != nil && q.ret >= 0 && S >= 0 && q.ret < S {
			continue // reported as fpLost
		}
		if q != nil && hungActor[q.p] {
			continue // reported by the permanence rule
		}
		call, ret := -1, -1
		if q != nil {
			call, ret = q.call, q.ret
		}
		add(fpFlagged, "obj%d: an Enqueue (called at tick %d, returned at %d) racing with StopBatchWriter (invoked %d, returned %d) set the scheduled flag, but the object was never passed to BatchWrite; flag still set with the writer goroutine gone or idle for ever", o, call, ret, S, R)
	}
	// 4: store contents
	last := map[int]*wr{}
	for _, w := range writes {
		if w.commit >= 0 {
			last[w.o] = w
		}
	}
	for _, o := range s.objs {
		val, err := s.inner.Get(o.key)
		w := last[o.id]
		switch {
		case exempt[o.id]:
		case w == nil && err == nil:
			add(fpStore, "store holds obj%d although no BatchWrite of it was committed", o.id)
		case w != nil && (err != nil || len(val) != 8 || int64(binary.BigEndian.Uint64(val)) != w.v):
			add(fpStore, "store[obj%d] = %x (err %v), last committed BatchWrite had version %d", o.id, val, err, w.v)
		}
	}
	// order key of the run: events from Stop's invocation on
	if S >= 0 {
		var sb strings.Builder
		var lastK byte
		for t := S; t < len(evs) && sb.Len() < 24; t++ {
			k := evs[t].K
			if k == 'E' || k == 'F' || k == 'C' || k == 'g' {
				continue
			}
			if k != lastK {
				sb.WriteByte(k)
				lastK = k
			}
		}
		an.key = sb.String()
	}
	an.nontrivial = an.overlapping > 0 || an.pendingAtS > 0
	return an
}

func (s *scen) logStrings(max int) []string {
	evs := s.m.copyEvs()
	var out []string
	from := 0
	if len(evs) > max {
		from = len(evs) - max
		out = append(out, fmt.Sprintf("... %d earlier events omitted", from))
	}
	for t := from; t < len(evs); t++ {
		out = append(out, fmtEv(t, evs[t]))
	}
	return out
}

// report analyses the finished run, reports violations and evidence.
func (s *scen) report(extraKey string) []string {
	c, cs := s.c, s.cs
	var fps []string
	survived := s.faultFired.Load()
	if survived {
		c.Count("fault_survived_runs", 1)
	}
	viol := func(fp, what, dump string) {
		if survived {
			// the faulted call returned its error / panicked and the process is still here
			fp = fpFaultPrefix + fp
			what = fmt.Sprintf("after the injected store fault (call %d of kind %q failed once) the writer carried on instead of failing, and then: %s", cs.FaultAt, cs.Fault, what)
		}
		r := *cs
		r.Fingerprint, r.Log, r.Dump = fp, s.logStrings(300), dump
		if writerSightings.Load() == 0 {
			c.Inconclusive(cs.name() + ": finding " + fp + " dropped, no writer goroutine was ever identified in this process")
			return
		}
		c.Violation(fp, cs.name()+": "+what, r)
		c.Count("viol:"+cs.label()+":"+fp, 1)
		fps = append(fps, fp)
	}
	for _, a := range s.actors {
		switch a.hung {
		case fpEnqBlocked:
			viol(a.hung, fmt.Sprintf("actor%d is blocked for ever in BatchedWriter.Enqueue (parked in library code inside the call, e.g. the queue send) – no writer goroutine (any goroutine of package kvstore that the harness did not create) is alive and autoStartOnce prevents a restart", a.idx), a.dump)
		case fpStopBlocked:
			viol(a.hung, fmt.Sprintf("actor%d is blocked for ever in StopBatchWriter (parked waiting for the writer) – no writer goroutine alive to call Done", a.idx), a.dump)
		case fpStopRecv:
			viol(a.hung, fmt.Sprintf("actor%d is blocked for ever in StopBatchWriter (parked waiting for the writer): every other caller has returned and the writer goroutine sat in a plain channel receive inside package kvstore without any writer-side event for more than %s (500x the configured batch time-out, at least 2 s) – nobody is left who could send and a timer would have fired long ago", a.idx, s.cs.idleBound()), a.dump)
		case fpStopSpin:
			viol(a.hung, fmt.Sprintf("actor%d is blocked for ever in StopBatchWriter (parked waiting for the writer): every other caller has returned, no object is scheduled and every BatchWrite was committed and acknowledged, yet the writer went through more than %d further empty Batched/Cancel cycles without exiting (unchanged tree: at most one)", a.idx, spinBound), a.dump)
		case fpStopReent:
			viol(a.hung, fmt.Sprintf("actor%d is blocked for ever in StopBatchWriter (parked waiting for the writer): every other caller has returned and the writer goroutine is parked in library code inside Flush/Enqueue called by an object's BatchWrite/BatchWriteDone, without any writer-side event for more than %s – on the unchanged tree such a call returns (Flush never blocks; Enqueue with room in the queue does not either)", a.idx, s.cs.idleBound()), a.dump)
		case fpStopIdle:
			viol(a.hung, fmt.Sprintf("actor%d is blocked for ever in StopBatchWriter (parked waiting for the writer): every other caller has returned and the writer goroutine sat in the select of collectValues without any writer-side event for more than %s (500x the configured batch time-out %s, at least 2 s) – a batch timer would have fired long ago, so none is pending", a.idx, s.cs.idleBound(), s.cs.timeout()), a.dump)
		}
	}
	c.Count("evaluations", 1)
	c.Count("runs_"+cs.label(), 1)
	c.Count("runs_timeout="+cs.timeout().String(), 1)
	if cs.OneP {
		c.Count("runs_gomaxprocs1", 1)
	}
	c.Count("runs_"+cs.label()+"_timeout="+cs.timeout().String(), 1)
	if cs.B >= 1000 {
		c.Count("runs_batch_larger_than_objects", 1)
	}
	if cs.Q >= 256 {
		c.Count("runs_queue_large", 1)
	}
	c.Count("snapshots", s.snaps)
	c.Count("batch_handles_recycled", int(s.recycled.Load()))
	for i, n := range []string{"flush", "enqueue-other", "enqueue-self"} {
		c.Count("reentrant_calls_from_callback:"+n+":writer-running", int(s.reent[2*i].Load()))
		c.Count("reentrant_calls_from_callback:"+n+":stop-invoked", int(s.reent[2*i+1].Load()))
	}
	if cs.Bare {
		// no log: final store check only for the single-goroutine enqstop shape
		if cs.Kind == "enqstop" {
			for i := 0; i < cs.InFlight; i++ {
				o := s.objs[i]
				val, err := s.inner.Get(o.key)
				if err != nil || len(val) != 8 || int64(binary.BigEndian.Uint64(val)) != o.version.Load() {
					viol(fpLost, fmt.Sprintf("obj%d enqueued before Stop, store holds %x (err %v) after the writer goroutine exited, expected version %d", i, val, err, o.version.Load()), "")
				}
			}
		}
		return fps
	}
	an := s.analyze()
	for _, f := range an.findings {
		viol(f.fp, f.what, "")
	}
	c.Count("enqueue_calls", an.enqCalls)
	c.Count("enqueues_returned_before_stop_checked", an.checkedEnq)
	c.Count("enqueues_overlapping_stop", an.overlapping)
	c.Count("objects_pending_at_stop", an.pendingAtS)
	c.Count("batchwrites", an.writes)
	c.Count("batchwritedone_calls", an.dones)
	c.Count("batches_full_size_trigger", an.full)
	c.Count("batches_partial_timeout_or_flush", an.partial)
	c.Count("batches_partial_timeout_certain", an.partialNoFl)
	c.Count("batches_empty_cancelled", an.empty)
	c.Count("flush_calls", an.flushes)
	if an.flagLeftSet > 0 {
		c.Count("note_flag_left_set_after_write", an.flagLeftSet)
	}
	key := fmt.Sprintf("%s/%s/q%d/%s", cs.label(), extraKey, min(cs.Q, 2), an.key)
	c.Distinct("orders", key)
	if an.nontrivial {
		c.Distinct("nontrivial", key)
	}
	if c.WantSample() && an.nontrivial && len(fps) == 0 {
		r := *cs
		r.Log = s.logStrings(40)
		c.Sample(r)
	}
	return fps
}

// ---------------------------------------------------------------- scenarios

func runCase(c *vf.Ctx, cs *caseRec) (fps []string, ok bool) {
	switch cs.Kind {
	case "gated":
		return runGated(c, cs)
	case "enqstop":
		return runEnqStop(c, cs)
	case "dupflush":
		return runDupFlush(c, cs)
	case "coldstart":
		return runColdStart(c, cs)
	case "slowdone":
		return runSlowDone(c, cs)
	case "multi":
		return runMulti(c, cs)
	case "pair":
		return runPair(c, cs)
	case "flushk":
		return runFlushK(c, cs)
	case "reent":
		return runReent(c, cs)
	case "stress":
		return runStress(c, cs)
	}
	return nil, true
}

func runGated(c *vf.Ctx, cs *caseRec) ([]string, bool) {
	s := newScen(c, cs, 1+cs.InFlight)
	cur.Store(s)
	defer cur.Store(nil)
	mainA := s.self("main")
	for i := 0; i < cs.InFlight; i++ {
		s.enqueue(mainA, s.objs[1+i])
	}
	g := &gate{point: cs.Point, reached: make(chan struct{}), release: make(chan struct{})}
	start := make(chan struct{})
	p := s.spawn("producer", 0, start, func(a *actor) { s.enqueue(a, s.objs[0]) })
	g.a = p
	s.gate = g
	close(start)
	select {
	case <-g.reached:
		if !s.probeWriter() {
			close(g.release)
			return nil, false
		}
	case <-p.done:
		c.Count("gate_not_reached", 1)
		c.Inconclusive(fmt.Sprintf("%s: Enqueue returned without reaching yield point %s", cs.name(), cs.Point))
		return nil, true
	}
	st := s.spawn("stopper", 0, nil, func(a *actor) { s.stop(a) })
	w := waiter{m: s.m}
	for !closed(st.done) {
		if sg, found := gdump.Find(s.snapshot(), st.gid.Load()); found && inStopWait(sg) {
			break
		}
		if !w.pause() {
			c.Inconclusive(cs.name() + ": case guard expired waiting for StopBatchWriter to return or park")
			close(g.release)
			return nil, false
		}
	}
	// Stop has stored running=false. early: release now. late: release once Stop has run to
	// completion and the writer is gone, or once Stop is durably parked (the writer went round
	// its loop with an empty batch, so it is waiting for the parked producer's object).
	l0 := s.m.emptyLoops.Load()
	state := ""
	var idle idleTracker
	for {
		ret := closed(st.done)
		gs := s.snapshot()
		wg, wa := s.liveWriter(gs)
		sg, found := gdump.Find(gs, st.gid.Load())
		parkedNoWriter := !wa && found && inStopWait(sg) // rule R2 will decide
		// release decision only (no verdict): a writer that sits in its select without events for
		// idleBound() will not move before the producer is released either
		writerIdle := idle.observe(s.m, wg, wa) >= cs.idleBound()
		if cs.Release == "early" || (ret && !wa) || parkedNoWriter || writerIdle || s.m.loopedEmptySince(l0) {
			state = map[bool]string{true: "stop-returned", false: "stop-parked"}[ret] + "," + map[bool]string{true: "writer-alive", false: "writer-gone"}[wa]
			if writerIdle {
				state += "-idle"
			}
			break
		}
		if !w.pause() {
			c.Inconclusive(cs.name() + ": case guard expired waiting for Stop to complete or park durably")
			close(g.release)
			return nil, false
		}
	}
	c.Count("gated_windows_entered", 1)
	c.Count("gate_release:"+shortPoint(cs.Point)+":"+state, 1)
	close(g.release)
	if !s.finishWait() {
		return nil, false
	}
	return s.report(shortPoint(cs.Point) + "/" + cs.Release + "/" + state), !s.abortAfter
}

// runDupFlush: a Flush is served while Enqueues that have accounted for their object have not sent
// it yet, and one of them retracts. F enqueues X and is held at bw.enqueue.beforeSend (flag set,
// counted, not sent); P enqueues the same X and is held inside X.BatchWriteScheduled() after it
// found the flag set (counted, about to return early); Flush; once the writer has served the
// flush (it cycled through empty batches, or it parked in a channel receive of its own, or it
// sat idle for idleBound), F is released (X is sent and collected), then P (retracts), then Stop.
func runDupFlush(c *vf.Ctx, cs *caseRec) ([]string, bool) {
	s := newScen(c, cs, 1+cs.InFlight)
	cur.Store(s)
	defer cur.Store(nil)
	mainA := s.self("main")
	for i := 0; i < cs.InFlight; i++ {
		s.enqueue(mainA, s.objs[1+i])
	}
	x := s.objs[0]
	guard := func(what string, gates ...*gate) ([]string, bool) {
		c.Inconclusive(cs.name() + ": case guard expired waiting for " + what)
		for _, g := range gates {
			close(g.release)
		}
		return nil, false
	}
	gF := &gate{point: pointB, reached: make(chan struct{}), release: make(chan struct{})}
	gP := &gate{reached: make(chan struct{}), release: make(chan struct{})}
	x.dup = gP
	start := make(chan struct{})
	f := s.spawn("producer", 0, start, func(a *actor) { s.enqueue(a, x) })
	gF.a = f
	s.gate = gF
	close(start)
	select {
	case <-gF.reached:
		if !s.probeWriter() {
			close(gF.release)
			return nil, false
		}
	case <-f.done:
		c.Inconclusive(fmt.Sprintf("%s: Enqueue returned without reaching yield point %s", cs.name(), pointB))
		return nil, true
	}
	p := s.spawn("producer", 0, nil, func(a *actor) { s.enqueue(a, x) })
	select {
	case <-gP.reached:
	case <-p.done:
		c.Inconclusive(cs.name() + ": duplicate Enqueue returned without calling BatchWriteScheduled on a scheduled object")
		close(gF.release)
		return nil, true
	}
	l0 := s.m.emptyLoops.Load()
	s.m.log(ev{K: 'F', P: mainA.idx})
	s.bw.Flush()
	w := waiter{m: s.m}
	var idle idleTracker
	served := ""
	for served == "" {
		gs := s.snapshot()
		wg, wa := s.liveWriter(gs)
		switch {
		case !wa:
			served = "writer-gone"
		case s.m.emptyLoops.Load() >= l0+2:
			served = "writer-cycled"
		case idle.observe(s.m, wg, true) >= cs.idleBound():
			served = "writer-idle"
		default:
			if !w.pause() {
				return guard("the Flush to be served", gF, gP)
			}
		}
	}
	c.Count("dupflush_windows_entered", 1)
	c.Count("dupflush_flush_served:"+served, 1)
	close(gF.release)
	for !closed(f.done) || x.scheduled.Load() {
		// F's send is received by the writer, which resets X's flag when it collects it
		gs := s.snapshot()
		if fg, found := gdump.Find(gs, f.gid.Load()); !s.writerAlive(gs) && found && inEnqueueSend(fg) {
			break // rule R1 will decide
		}
		if !w.pause() {
			return guard("X to be sent and collected", gP)
		}
	}
	close(gP.release)
	for !closed(p.done) {
		if !w.pause() {
			return guard("the duplicate Enqueue to return")
		}
	}
	s.spawn("stopper", 0, nil, func(a *actor) { s.stop(a) })
	if !s.finishWait() {
		return nil, false
	}
	return s.report("dupflush/" + served), !s.abortAfter
}

// runColdStart: a fresh BatchedWriter whose very first Enqueue calls are made concurrently by
// 2-8 producers released together (distinct objects, or one shared object), with Gosched and
// yield-hook jitter; each may follow up with a few more Enqueues. Stop is invoked only after all
// producers have returned, so every one of these Enqueues returned before Stop was invoked and
// must be written, committed and acknowledged before Stop returns (checks 1-4 unchanged).
// runSlowDone: 2-4 objects are enqueued, the writer is held inside the first BatchWriteDone of the
// run (objects of the same batch are committed but not yet acknowledged, later ones not written
// yet), StopBatchWriter is invoked and must not return before all of them are acknowledged; the
// writer is released once Stop has returned or parked in WaitGroup.Wait.
func runSlowDone(c *vf.Ctx, cs *caseRec) ([]string, bool) {
	s := newScen(c, cs, cs.InFlight)
	g := &gate{reached: make(chan struct{}), release: make(chan struct{})}
	s.doneGate = g
	cur.Store(s)
	defer cur.Store(nil)
	s.self("main")
	p := s.spawn("producer", 0, nil, func(a *actor) {
		for _, o := range s.objs {
			s.enqueue(a, o)
		}
	})
	w := waiter{m: s.m}
	for !closed(g.reached) {
		if !w.pause() {
			c.Inconclusive(cs.name() + ": case guard expired waiting for the first BatchWriteDone")
			return nil, false
		}
	}
	if !s.probeWriter() {
		close(g.release)
		return nil, false
	}
	// with queue size 0 the producer may still be sending to the held writer: its remaining
	// Enqueues then overlap Stop, which is fine (they are not demanded)
	st := s.spawn("stopper", 0, nil, func(a *actor) { s.stop(a) })
	for !closed(st.done) {
		if sg, found := gdump.Find(s.snapshot(), st.gid.Load()); found && inStopWait(sg) {
			break
		}
		if !w.pause() {
			c.Inconclusive(cs.name() + ": case guard expired waiting for StopBatchWriter to return or park")
			close(g.release)
			return nil, false
		}
	}
	if cs.Fault == "" {
		c.Count("slowdone_windows_entered", 1)
	}
	c.Count("slowdone_stop:"+map[bool]string{true: "returned-while-writer-held", false: "parked"}[closed(st.done)], 1)
	close(g.release)
	_ = p
	if !s.finishWait() {
		return nil, false
	}
	return s.report("slowdone"), !s.abortAfter
}

// runReent: user code on the writer goroutine calls back into the SAME writer. Every primary
// object's BatchWrite (Point "write") or BatchWriteDone (Point "done") calls, by a seeded plan,
// Flush(), Enqueue(another, fresh object) and/or Enqueue(itself, new version) – each at most once.
// The queue is large (256), so on the unchanged tree all of these return: Flush never blocks, Enqueue
// only sends into a queue with room (with a full queue the writer would wait for itself – not
// driven, not demanded), and after StopBatchWriter was invoked Enqueue returns without touching the
// object. Release "free": the callbacks run while the writer is running, Stop follows once the
// writer has settled. Release "held": the writer is held inside the first BatchWriteDone until Stop
// is parked waiting for it, so the remaining callbacks run while Stop drains. Verdict: the ordinary
// log oracle (an Enqueue made by a callback that returned before Stop counts like any other) and
// the permanence rules (a writer goroutine that never comes back from such a call: R3).
func runReent(c *vf.Ctx, cs *caseRec) ([]string, bool) {
	n := cs.InFlight
	s := newScen(c, cs, 2*n)
	held := cs.Release == "held"
	g := &gate{reached: make(chan struct{}), release: make(chan struct{})}
	if held {
		s.doneGate = g
	}
	cur.Store(s)
	defer cur.Store(nil)
	rng := rand.New(rand.NewSource(cs.CaseSeed))
	type plan struct {
		flush, other, self bool
		otherDone, selfDone bool // writer goroutine only
	}
	plans := make([]*plan, n)
	for i := range plans {
		pl := &plan{flush: rng.Intn(2) == 0, other: rng.Intn(2) == 0, self: rng.Intn(3) == 0}
		if !pl.flush && !pl.other && !pl.self {
			pl.flush = true
		}
		plans[i] = pl
	}
	fromCb := func(o *obj) {
		v := o.version.Add(1)
		s.m.log(ev{K: 'E', P: -3, O: o.id, V: v})
		s.bw.Enqueue(o)
		s.m.log(ev{K: 'e', P: -3, O: o.id})
	}
	cb := func(o *obj, where string) {
		if o.id >= n || where != cs.Point {
			return
		}
		pl, k := plans[o.id], 0
		if s.m.stopCalled.Load() {
			k = 1
		}
		if pl.flush {
			s.m.log(ev{K: 'F', P: -3})
			s.bw.Flush()
			s.reent[0+k].Add(1)
		}
		if pl.other && !pl.otherDone {
			pl.otherDone = true
			fromCb(s.objs[n+o.id])
			s.reent[2+k].Add(1)
		}
		if pl.self && !pl.selfDone {
			pl.selfDone = true
			fromCb(o)
			s.reent[4+k].Add(1)
		}
	}
	for _, o := range s.objs {
		o.cb = cb
	}
	s.self("main")
	p := s.spawn("producer", 0, nil, func(a *actor) {
		for i := 0; i < n; i++ {
			s.enqueue(a, s.objs[i])
		}
	})
	w := waiter{m: s.m}
	if held {
		for !closed(g.reached) {
			if !w.pause() {
				c.Inconclusive(cs.name() + ": case guard expired waiting for the first BatchWriteDone")
				return nil, false
			}
		}
		if !s.probeWriter() {
			close(g.release)
			return nil, false
		}
		st := s.spawn("stopper", 0, nil, func(a *actor) { s.stop(a) })
		for !closed(st.done) {
			if sg, found := gdump.Find(s.snapshot(), st.gid.Load()); found && inStopWait(sg) {
				break
			}
			if !w.pause() {
				c.Inconclusive(cs.name() + ": case guard expired waiting for StopBatchWriter to return or park")
				close(g.release)
				return nil, false
			}
		}
		close(g.release)
	} else {
		for !closed(p.done) {
			if !w.pause() {
				c.Inconclusive(cs.name() + ": case guard expired waiting for the producer")
				return nil, false
			}
		}
		if !s.probeWriter() || !s.waitSettled(&w) {
			return nil, false
		}
		s.spawn("stopper", 0, nil, func(a *actor) { s.stop(a) })
	}
	c.Count("reent_rounds", 1)
	if !s.finishWait() {
		return nil, false
	}
	return s.report("reent/" + cs.Point + "/" + cs.Release), !s.abortAfter
}

// runMulti: 2-3 BatchedWriters over separate stores are alive at the same time, constructed one
// after the other (each only after the previous one is running) with DIFFERENT options; one of
// them may be "extreme" (huge time-out and batch size, constructed with a subset of the options).
// Every writer has its own producers, log and oracles and is judged with ITS OWN configured
// options (idle/spin bounds relative to its own time-out); no writer is stopped before all have
// been constructed. The extreme writer is flushed and then left alone (StopBatchWriter does not
// wake the writer, so on the unchanged tree it waits up to one batch time-out – out of scope).
func runMulti(c *vf.Ctx, cs *caseRec) ([]string, bool) {
	n := len(cs.Subs)
	constructed := make(chan struct{})
	started := make([]chan struct{}, n)
	for i := range started {
		started[i] = make(chan struct{})
	}
	type result struct {
		fps []string
		ok  bool
	}
	res := make([]result, n)
	var wg sync.WaitGroup
	for i := 0; i < n; i++ {
		i := i
		wg.Add(1)
		go func() {
			defer wg.Done()
			if i > 0 {
				<-started[i-1] // the previous writer is running and has accepted an object
			}
			sub := cs.Subs[i]
			parent := *cs
			sub.MultiOf = &parent
			s := newScen(c, &sub, max(sub.Objects, 1))
			s.multi = true
			s.beforeStop = constructed
			var once sync.Once
			signal := func() {
				once.Do(func() {
					close(started[i])
					if i == n-1 {
						close(constructed)
					}
				})
			}
			defer signal() // also on early returns, so that nobody waits for ever
			if sub.Extreme {
				res[i].fps, res[i].ok = s.extremeBody(signal)
			} else {
				st := make(chan struct{})
				go func() { <-st; signal() }()
				res[i].fps, res[i].ok = s.stressBody(st)
				select {
				case <-st:
				default:
					close(st)
				}
			}
		}()
	}
	wg.Wait()
	c.Count("multi_rounds", 1)
	c.Count("multi_writers", n)
	ok := true
	var fps []string
	for _, r := range res {
		ok = ok && r.ok
		fps = append(fps, r.fps...)
	}
	return fps, ok
}

// waitSettled waits until nothing is left to do for the writer, or – on a tree where that never
// becomes true – until the writer has gone, has ended three empty collection rounds (logical steps),
// or has been idle for idleBound. false = case guard.
func (s *scen) waitSettled(w *waiter) bool {
	var idle idleTracker
	base := s.m.emptyLoops.Load()
	for !s.settled() {
		wg, wa := s.liveWriter(s.snapshot())
		if !wa || idle.observe(s.m, wg, true) >= s.cs.idleBound() || s.m.emptyLoops.Load() >= base+3 {
			return true
		}
		if !w.pause() {
			return false
		}
	}
	return true
}

// runPair: two live writers (own stores, own objects). The held one commits a batch of 2-5 objects
// and is parked inside the FIRST BatchWriteDone of that batch (committed, acknowledgements
// outstanding); meanwhile the other one collects, commits and acknowledges a batch of 2-5 objects
// of its own; then the held one is released. Both are judged by the usual per-writer oracles
// (BatchWriteDone exactly once per committed BatchWrite of that object, after its commit, by its
// own writer). Either the first or the second constructed writer is the held one.
func runPair(c *vf.Ctx, cs *caseRec) ([]string, bool) {
	parent := *cs
	var ss [2]*scen
	for i := range ss {
		sub := cs.Subs[i]
		sub.MultiOf = &parent
		ss[i] = newScen(c, &sub, sub.Objects)
		ss[i].multi = true
	}
	held, other := ss[0], ss[1]
	if cs.HoldSecond {
		held, other = other, held
	}
	g := &gate{reached: make(chan struct{}), release: make(chan struct{})}
	held.doneGate = g
	held.self("main")
	other.self("main")
	fail := func(what string) ([]string, bool) {
		c.Inconclusive(cs.name() + ": case guard expired waiting for " + what)
		if !closed(g.release) {
			close(g.release)
		}
		return nil, false
	}
	feed := func(s *scen) *actor {
		return s.spawn("producer", 0, nil, func(a *actor) {
			for _, o := range s.objs {
				s.enqueue(a, o)
			}
		})
	}
	w := waiter{m: held.m}
	hp := feed(held)
	for !closed(g.reached) {
		if !w.pause() {
			return fail("the held writer's first BatchWriteDone")
		}
	}
	if !held.probeWriter() {
		close(g.release)
		return nil, false
	}
	w2 := waiter{m: other.m}
	op := feed(other)
	for !closed(op.done) {
		if !w2.pause() {
			return fail("the other writer's Enqueues")
		}
	}
	if !other.probeWriter() {
		close(g.release)
		return nil, false
	}
	if !other.waitSettled(&w2) {
		return fail("the other writer's batch")
	}
	c.Count("pair_rounds", 1)
	if cs.OneP {
		c.Count("pair_rounds_one_p", 1)
	}
	close(g.release)
	for !closed(hp.done) {
		if !w.pause() {
			return fail("the held writer's Enqueues")
		}
	}
	if !held.waitSettled(&w) {
		return fail("the held writer's batch")
	}
	ok := true
	var fps []string
	for _, s := range ss {
		s := s
		s.spawn("stopper", 0, nil, func(a *actor) { s.stop(a) })
	}
	for _, s := range ss {
		if !s.finishWait() {
			return fps, false
		}
		fps = append(fps, s.report(fmt.Sprintf("pair/held=%v", s == held))...)
		ok = ok && !s.abortAfter
	}
	return fps, ok
}

// extremeBody: a writer that only a Flush can make commit.
func (s *scen) extremeBody(signal func()) ([]string, bool) {
	cs := s.cs
	mainA := s.self("main")
	s.enqueue(mainA, s.objs[0])
	if !s.probeWriter() {
		return nil, false
	}
	signal()
	for i := 0; i < cs.Ops; i++ {
		s.enqueue(mainA, s.objs[i%len(s.objs)])
	}
	if s.beforeStop != nil {
		<-s.beforeStop
	}
	s.m.log(ev{K: 'F', P: mainA.idx})
	s.bw.Flush()
	// served: nothing left to do, or the writer has been sitting in its select without an event for
	// 2 s after the Flush signal (which wakes it at once). No verdict depends on this wait: a writer
	// that is never stopped has no "end of run", so only the order checks (Done after Commit, one
	// Done per BatchWrite so far, store never regresses) are applied to it.
	w := waiter{m: s.m}
	var idle idleTracker
	for !s.settled() {
		wg, wa := s.liveWriter(s.snapshot())
		if !wa || idle.observe(s.m, wg, true) >= 2*time.Second {
			break
		}
		if !w.pause() {
			s.c.Inconclusive(cs.name() + ": case guard expired waiting for the Flush of the extreme writer to be served")
			return nil, false
		}
	}
	s.noEnd = true
	// the writer stays behind, parked in its select until its (huge) time-out
	for _, g := range s.liveWriters(s.snapshot()) {
		markLeaked(g.ID)
	}
	s.writerIdle = true
	return s.report("extreme"), true
}

// runFlushK: a Flush that drains several batches and ends on (or next to) a batch boundary while an
// object of its first batch is updated and enqueued again during the drain, followed by further
// Enqueues. The writer is held inside the first BatchWrite of the run (object Z, version 1 read);
// meanwhile k*b+d-2 fresh objects are queued, Z is bumped and enqueued again (its flag was reset
// before BatchWrite), Flush is called and the writer released: it collects k*b+d objects in total.
// Once Z's second write is acknowledged, more objects are enqueued; then Stop. Oracles unchanged,
// in particular check 4 after every Commit (store-regressed-to-older-version) and at the end.
func runFlushK(c *vf.Ctx, cs *caseRec) ([]string, bool) {
	total := cs.FlushK*cs.B + cs.FlushD
	fresh := max(total-2, 0)
	s := newScen(c, cs, 1+fresh+cs.After)
	g := &gate{reached: make(chan struct{}), release: make(chan struct{})}
	s.writeGate = g
	cur.Store(s)
	defer cur.Store(nil)
	mainA := s.self("main")
	z := s.objs[0]
	w := waiter{m: s.m}
	guard := func(what string) ([]string, bool) {
		c.Inconclusive(cs.name() + ": case guard expired waiting for " + what)
		if !closed(g.release) {
			close(g.release)
		}
		return nil, false
	}
	// a feeder goroutine, so that a small queue (its sends then block until the drain) does not block the script
	feeder := s.spawn("producer", 0, nil, func(a *actor) {
		s.enqueue(a, z)
		<-g.reached
		for i := 0; i < fresh; i++ {
			s.enqueue(a, s.objs[1+i])
		}
		if total >= 2 {
			s.enqueue(a, z) // version 2, behind the fresh objects
		}
	})
	for !closed(g.reached) {
		if !w.pause() {
			return guard("the first BatchWrite")
		}
	}
	if !s.probeWriter() {
		close(g.release)
		return nil, false
	}
	// with a queue that holds them all, wait until everything is queued before the Flush; with a
	// small queue the feeder keeps sending during the drain
	if cs.Q >= fresh+1 {
		for !closed(feeder.done) {
			if !w.pause() {
				return guard("the objects to be queued")
			}
		}
	}
	s.m.log(ev{K: 'F', P: mainA.idx})
	s.bw.Flush()
	close(g.release)
	// the drain is over when nothing is left to do (settled), or – on a tree where that never
	// becomes true – when the writer has ended three empty collection rounds after the feeder
	// returned (logical steps), has gone, or sits idle for idleBound: Stop and the usual rules follow
	var idle idleTracker
	emptyBase := int64(-1)
	for !closed(feeder.done) || !s.settled() {
		gs := s.snapshot()
		wg, wa := s.liveWriter(gs)
		if !wa || idle.observe(s.m, wg, true) >= cs.idleBound() {
			break
		}
		if closed(feeder.done) {
			if n := s.m.emptyLoops.Load(); emptyBase < 0 {
				emptyBase = n
			} else if n >= emptyBase+3 {
				break
			}
		}
		if !w.pause() {
			return guard("the flush to drain")
		}
	}
	if cs.Fault == "" {
		c.Count("flushk_rounds", 1)
		c.Count(fmt.Sprintf("flushk_total=k*b%+d", cs.FlushD), 1)
	}
	for i := 0; i < cs.After; i++ {
		s.enqueue(mainA, s.objs[1+fresh+i])
	}
	s.spawn("stopper", 0, nil, func(a *actor) { s.stop(a) })
	if !s.finishWait() {
		return nil, false
	}
	return s.report(fmt.Sprintf("flushk/k%d/d%+d", cs.FlushK, cs.FlushD)), !s.abortAfter
}

var sink atomic.Int64

func runColdStart(c *vf.Ctx, cs *caseRec) ([]string, bool) {
	nobj := cs.Producers
	if cs.SameObj {
		nobj = 1
	}
	s := newScen(c, cs, nobj)
	cur.Store(s)
	defer cur.Store(nil)
	s.self("main")
	start := make(chan struct{})
	var ready atomic.Int32
	var prods []*actor
	for p := 0; p < cs.Producers; p++ {
		p := p
		prods = append(prods, s.spawn("producer", cs.CaseSeed*131+int64(p)+1, start, func(a *actor) {
			// the barrier sits directly in front of the call (after the harness' own logging, whose
			// mutex would otherwise stagger the producers)
			o := s.objs[p%nobj]
			v := o.version.Add(1)
			s.m.log(ev{K: 'E', P: a.idx, O: o.id, V: v})
			spin := a.rng.Intn(4) * a.rng.Intn(60)
			ready.Add(1)
			yield := lowParallelism || runtime.GOMAXPROCS(0) < 4
			for ready.Load() < int32(cs.Producers) {
				if yield {
					runtime.Gosched()
				}
			}
			for i := 0; i < spin; i++ {
				sink.Add(1) // a few to a few hundred nanoseconds of skew
			}
			s.bw.Enqueue(o)
			s.m.log(ev{K: 'e', P: a.idx, O: o.id})
			for i := a.rng.Intn(3); i > 0; i-- {
				s.enqueue(a, s.objs[a.rng.Intn(nobj)])
			}
		}))
	}
	close(start)
	w := waiter{m: s.m}
	stopHung := false
	for {
		pending := false
		for _, a := range prods {
			if a.hung == "" && !closed(a.done) {
				pending = true
			}
		}
		if !pending {
			break
		}
		if gs := s.snapshot(); !s.writerAlive(gs) {
			s.applyNoWriterRules(gs, &stopHung)
		}
		if !w.pause() {
			c.Inconclusive(cs.name() + ": case guard expired waiting for the first Enqueue calls to return")
			return nil, false
		}
	}
	c.Count("coldstart_rounds", 1)
	hung := false
	for _, a := range prods {
		hung = hung || a.hung != ""
	}
	if !hung && !s.probeWriter() {
		return nil, false
	}
	s.spawn("stopper", 0, nil, func(a *actor) { s.stop(a) })
	if !s.finishWait() {
		return nil, false
	}
	// first-Enqueue overlaps by ticks: producers whose first Enqueue interval intersects another one's
	if !cs.Bare {
		type iv struct{ call, ret int }
		first := map[int]*iv{}
		for t, e := range s.m.copyEvs() {
			switch e.K {
			case 'E':
				if first[e.P] == nil {
					first[e.P] = &iv{t, -1}
				}
			case 'e':
				if f := first[e.P]; f != nil && f.ret < 0 {
					f.ret = t
				}
			}
		}
		n := 0
		for p, a := range first {
			for q, b := range first {
				if p != q && a.ret >= 0 && b.ret >= 0 && a.call < b.ret && b.call < a.ret {
					n++
					break
				}
			}
		}
		c.Count("coldstart_first_enqueues", len(first))
		c.Count("coldstart_first_enqueues_overlapping_another", n)
		if n > 0 {
			c.Count("coldstart_rounds_with_overlap", 1)
		}
	}
	return s.report(fmt.Sprintf("cold/p%d/same=%v", cs.Producers, cs.SameObj)), !s.abortAfter
}

func shortPoint(p string) string {
	if p == pointA {
		return "afterRunningCheck"
	}
	return "beforeSend"
}

func runEnqStop(c *vf.Ctx, cs *caseRec) ([]string, bool) {
	s := newScen(c, cs, cs.InFlight)
	cur.Store(s)
	defer cur.Store(nil)
	rng := rand.New(rand.NewSource(cs.CaseSeed))
	s.self("main")
	variant := rng.Intn(4)
	// Enqueue(s) and Stop are issued back to back by one goroutine (not the polling main goroutine,
	// so that a Stop that never returns is decided by rule R2)
	var blind atomic.Bool
	es := s.spawn("enqueue-then-stop", 0, nil, func(mainA *actor) {
		for i := 0; i < cs.InFlight; i++ {
			s.enqueue(mainA, s.objs[i])
		}
		if variant != 0 && !s.probeWriter() {
			blind.Store(true)
			return
		}
		switch variant { // jitter between the last Enqueue and Stop
		case 1:
			for i := rng.Intn(8) + 1; i > 0; i-- {
				runtime.Gosched()
			}
		case 2:
			time.Sleep(time.Duration(rng.Intn(200)) * time.Microsecond)
		case 3:
			time.Sleep(cs.timeout() * time.Duration(rng.Intn(20)) / 10)
		}
		s.stop(mainA)
	})
	_ = es
	if !s.finishWait() || blind.Load() {
		return nil, false
	}
	return s.report(fmt.Sprintf("v%d", variant)), !s.abortAfter
}

func runStress(c *vf.Ctx, cs *caseRec) ([]string, bool) {
	s := newScen(c, cs, cs.Objects)
	cur.Store(s)
	defer cur.Store(nil)
	return s.stressBody(nil)
}

// stressBody: started is closed once this writer is running (multi-writer family).
func (s *scen) stressBody(started chan<- struct{}) ([]string, bool) {
	cs := s.cs
	// the writer is started by the first Enqueue; a Stop that precedes the start is a no-op and is
	// outside the statement, so one object is enqueued before the producers and the stopper run
	s.enqueue(s.self("main"), s.objs[0])
	if !s.probeWriter() {
		return nil, false
	}
	if started != nil {
		close(started)
	}
	var opCount atomic.Int64
	stopSig := make(chan struct{})
	var stopOnce sync.Once
	start := make(chan struct{})
	for p := 0; p < cs.Producers; p++ {
		s.spawn("producer", cs.CaseSeed*131+int64(p)+1, start, func(a *actor) {
			for i := 0; i < cs.Ops; i++ {
				if int(opCount.Add(1)) == cs.StopAt {
					stopOnce.Do(func() { close(stopSig) })
				}
				if a.rng.Intn(100) < cs.FlushPct {
					s.m.log(ev{K: 'F', P: a.idx})
					s.bw.Flush()
					continue
				}
				s.enqueue(a, s.objs[a.rng.Intn(len(s.objs))])
				if a.rng.Intn(100) < cs.JitterPct {
					runtime.Gosched()
				}
			}
		})
	}
	nstop := 1
	if cs.DoubleStop {
		nstop = 2
	}
	for i := 0; i < nstop; i++ {
		s.spawn("stopper", cs.CaseSeed*977+int64(i)+1, start, func(a *actor) {
			<-stopSig
			if a.rng.Intn(3) == 0 {
				runtime.Gosched()
			}
			s.stop(a)
		})
	}
	close(start)
	if !s.finishWait() {
		return nil, false
	}
	return s.report(""), !s.abortAfter
}

// ---------------------------------------------------------------- child

type batch struct {
	Cases []caseRec `json:"cases"`
}

func child(c *vf.Ctx) {
	kvstore.VerifYield = hook
	var b batch
	if err := json.NewDecoder(os.Stdin).Decode(&b); err != nil {
		c.Inconclusive("child: cannot decode case list: " + err.Error())
		return
	}
	if !calibrate(c) {
		return
	}
	switch c.Child {
	case "batch":
		for i := range b.Cases {
			cs := &b.Cases[i]
			bs, _ := json.Marshal(cs)
			curBatchPos.Store(int64(i))
			if cs.Fault != "" {
				// this case may end the process: hand over what was counted so far (main goroutine, no
				// run in progress)
				c.FlushStats()
			}
			c.Mark(string(bs))
			if _, ok := runCase(c, cs); !ok {
				// leaked live goroutines: this process cannot decide further cases; the parent
				// continues with the remaining ones in a fresh process
				c.Emit("resume", i+1)
				return
			}
		}
	case "replay":
		// the schedule of a stress run is not determined by the seed: repeat until the recorded class shows again
		cs := b.Cases[0]
		want := cs.Fingerprint
		if cs.MultiOf != nil {
			cs = *cs.MultiOf
		}
		cs.Fingerprint, cs.Log, cs.Dump = "", nil, ""
		reps := 20
		if cs.Kind == "stress" {
			reps = 400
		}
		for i := 0; i < reps; i++ {
			x := cs
			fps, ok := runCase(c, &x)
			if !ok {
				return
			}
			for _, fp := range fps {
				if fp == want || want == "" {
					c.Count("replay_attempts", i+1)
					return
				}
			}
		}
		c.Note(fmt.Sprintf("replay: %s not reproduced in %d attempts", want, reps))
	}
}

// ---------------------------------------------------------------- parent

type cfg struct {
	q, b int
	ns   int64
}

// timeouts: 0 and a negative duration are legal configurations – time.NewTimer(d) with d <= 0
// fires immediately (time.when), so the writer commits whatever it has at once and spins while
// idle; 1ns is the smallest positive one.
var timeouts = []time.Duration{0, time.Nanosecond, time.Millisecond, 20 * time.Millisecond, -time.Millisecond}

// configs: queue sizes {0,1,2} plus one larger than any run's number of Enqueue calls; batch
// sizes {1,2,5} plus one much larger than the number of objects (only the time-out or Flush can
// commit such a batch).
func configs() []cfg {
	var out []cfg
	for _, q := range []int{0, 1, 2, 256} {
		for _, b := range []int{1, 2, 5, 1000} {
			for _, t := range timeouts {
				out = append(out, cfg{q, b, int64(t)})
			}
		}
	}
	return out
}

func genCases(c *vf.Ctx) (plain, race, onep, onepRace, faults []caseRec) {
	cfgs := configs()
	rng := c.Rand("cases")
	idx := 0
	mk := func(kind string, cf cfg) caseRec {
		idx++
		return caseRec{Kind: kind, Idx: idx, Q: cf.q, B: cf.b, TimeoutNs: cf.ns, CaseSeed: rng.Int63n(1 << 40)}
	}
	gated := func(cf cfg, point string) caseRec {
		cs := mk("gated", cf)
		cs.Point, cs.InFlight = point, rng.Intn(4)
		cs.Release = "late"
		if rng.Intn(3) == 0 {
			cs.Release = "early"
		}
		return cs
	}
	enqstop := func(cf cfg) caseRec {
		cs := mk("enqstop", cf)
		cs.InFlight = 1 + rng.Intn(3)
		return cs
	}
	stress := func() caseRec {
		cs := mk("stress", cfgs[rng.Intn(len(cfgs))])
		cs.Producers = 1 + rng.Intn(8)
		cs.Objects = 1 + rng.Intn(4)
		cs.Ops = 4 + rng.Intn(28)
		cs.StopAt = 1 + rng.Intn(cs.Producers*cs.Ops)
		cs.FlushPct = []int{0, 0, 5, 20}[rng.Intn(4)]
		cs.JitterPct = []int{0, 10, 40}[rng.Intn(3)]
		cs.DoubleStop = rng.Intn(8) == 0
		if lowParallelism && cs.TimeoutNs <= 1 {
			// a time-out of 0/1ns/negative makes the idle writer spin; with few CPUs it starves the
			// callers, so these runs are kept short (the random draws above stay the same)
			cs.Producers = min(cs.Producers, 2)
			cs.Ops = min(cs.Ops, 8)
			cs.StopAt = 1 + (cs.StopAt-1)%(cs.Producers*cs.Ops)
		}
		return cs
	}
	// with few CPUs only every third spinning stress run is kept
	keep := func(cs caseRec, n int) bool { return !lowParallelism || cs.TimeoutNs > 1 || n%3 == 0 }
	// plain build
	for rep := c.Pick(9, 135); rep > 0; rep-- {
		for _, cf := range cfgs {
			plain = append(plain, gated(cf, pointA), gated(cf, pointB))
		}
	}
	for rep := c.Pick(5, 75); rep > 0; rep-- {
		for _, cf := range cfgs {
			plain = append(plain, enqstop(cf))
		}
	}
	coldstart := func(cf cfg) caseRec {
		cs := mk("coldstart", cf)
		cs.Producers = 2 + rng.Intn(7)
		cs.SameObj = rng.Intn(4) == 0
		cs.JitterPct = []int{0, 10, 40}[rng.Intn(3)]
		if lowParallelism && cs.TimeoutNs <= 1 {
			cs.Producers = min(cs.Producers, 3)
		}
		return cs
	}
	for rep := c.Pick(10, 100); rep > 0; rep-- {
		for _, cf := range cfgs {
			plain = append(plain, coldstart(cf))
		}
	}
	// the start-up window is a few dozen nanoseconds wide: many more rounds with the cheap configurations
	for rep := c.Pick(40, 400); rep > 0; rep-- {
		for _, cf := range cfgs {
			if cf.ns <= int64(time.Millisecond) && cf.b <= 5 && cf.q <= 2 {
				plain = append(plain, coldstart(cf))
			}
		}
	}
	multi := func() caseRec {
		cs := mk("multi", cfgs[rng.Intn(len(cfgs))])
		n := 2 + rng.Intn(2)
		ext := -1
		if rng.Intn(3) != 0 {
			ext = rng.Intn(n)
		}
		for i := 0; i < n; i++ {
			cf := cfgs[rng.Intn(len(cfgs))]
			for lowParallelism && cf.ns <= 1 {
				cf = cfgs[rng.Intn(len(cfgs))]
			}
			sub := caseRec{Kind: "mstress", Idx: cs.Idx, Q: cf.q, B: cf.b, TimeoutNs: cf.ns, CaseSeed: rng.Int63n(1 << 40),
				Producers: 1 + rng.Intn(3), Objects: 1 + rng.Intn(3), Ops: 4 + rng.Intn(9),
				FlushPct: []int{0, 5, 20}[rng.Intn(3)], JitterPct: []int{0, 10, 40}[rng.Intn(3)]}
			sub.StopAt = 1 + rng.Intn(sub.Producers*sub.Ops)
			if i == ext {
				sub = caseRec{Kind: "mextreme", Idx: cs.Idx, Extreme: true, Q: 10000, B: 20000, TimeoutNs: int64(time.Hour),
					Opts: []string{"timeout", "timeout+batch"}[rng.Intn(2)], Objects: 1 + rng.Intn(3), Ops: 3 + rng.Intn(6), CaseSeed: rng.Int63n(1 << 40)}
				if sub.Opts == "timeout" {
					sub.B = 10000 // the package default
				}
			}
			cs.Subs = append(cs.Subs, sub)
		}
		return cs
	}
	for n := c.Pick(80, 1200); n > 0; n-- {
		plain = append(plain, multi())
	}
	// two-writer gated family, and the GOMAXPROCS=1 children (time-outs >= 1ms there: a writer that
	// spins on a 0/1ns time-out monopolises the only P)
	slow := func(cf cfg) bool { return cf.ns >= int64(time.Millisecond) }
	pickSlow := func() cfg {
		for {
			if cf := cfgs[rng.Intn(len(cfgs))]; slow(cf) {
				return cf
			}
		}
	}
	pair := func(oneP bool) caseRec {
		cs := mk("pair", pickSlow())
		cs.OneP, cs.HoldSecond = oneP, rng.Intn(2) == 0
		for i := 0; i < 2; i++ {
			n := 2 + rng.Intn(4)
			sub := caseRec{Kind: "pairw", Idx: cs.Idx, OneP: oneP, Q: 256, B: []int{n, 5, 1000}[rng.Intn(3)],
				TimeoutNs: pickSlow().ns, Objects: n, CaseSeed: rng.Int63n(1 << 40)}
			cs.Subs = append(cs.Subs, sub)
		}
		return cs
	}
	for n := c.Pick(80, 1200); n > 0; n-- {
		plain = append(plain, pair(false))
	}
	for n := c.Pick(160, 2400); n > 0; n-- {
		onep = append(onep, pair(true))
	}
	for n := c.Pick(40, 600); n > 0; n-- {
		cs := pair(true)
		cs.Race = true
		for i := range cs.Subs {
			cs.Subs[i].Race = true
		}
		onepRace = append(onepRace, cs)
	}
	for n := c.Pick(40, 600); n > 0; n-- {
		cs := multi()
		cs.OneP = true
		for i := range cs.Subs {
			cs.Subs[i].OneP = true
			if !cs.Subs[i].Extreme && cs.Subs[i].TimeoutNs < int64(time.Millisecond) {
				cs.Subs[i].TimeoutNs = int64(time.Millisecond)
			}
		}
		onep = append(onep, cs)
	}
	flushk := func(cf cfg) caseRec {
		cs := mk("flushk", cf)
		cs.FlushK, cs.FlushD, cs.After = 1+rng.Intn(3), rng.Intn(3)-1, 1+rng.Intn(3)
		return cs
	}
	for rep := c.Pick(4, 60); rep > 0; rep-- {
		for _, cf := range cfgs {
			if cf.b <= 5 {
				plain = append(plain, flushk(cf))
			}
		}
	}
	slowdone := func(cf cfg) caseRec {
		cs := mk("slowdone", cf)
		cs.InFlight = 2 + rng.Intn(3)
		return cs
	}
	for rep := c.Pick(2, 30); rep > 0; rep-- {
		for _, cf := range cfgs {
			plain = append(plain, slowdone(cf))
		}
	}
	for n := c.Pick(120, 1800); n > 0; n-- {
		cs := coldstart(pickSlow())
		cs.OneP = true
		onep = append(onep, cs)
	}
	dupflush := func(cf cfg) caseRec {
		cs := mk("dupflush", cf)
		cs.InFlight = rng.Intn(3)
		return cs
	}
	for rep := c.Pick(2, 30); rep > 0; rep-- {
		for _, cf := range cfgs {
			plain = append(plain, dupflush(cf))
		}
	}
	for n := c.Pick(1000, 9000); n > 0; n-- {
		if cs := stress(); keep(cs, n) {
			plain = append(plain, cs)
		}
	}
	// re-entrancy family: queue 256 only (with a full queue an Enqueue made by the writer goroutine
	// waits for itself on the unchanged tree)
	for rep := c.Pick(3, 40); rep > 0; rep-- {
		for _, cf := range cfgs {
			if cf.q < 256 {
				continue
			}
			for _, where := range []string{"write", "done"} {
				for _, rel := range []string{"free", "held"} {
					cs := mk("reent", cf)
					cs.Point, cs.Release, cs.InFlight = where, rel, 2+rng.Intn(4)
					plain = append(plain, cs)
				}
			}
		}
	}
	// Store-fault family (plain build, own shards: the unchanged writer panics on a store error, so
	// nearly every case ends its process). A case borrows the schedule of another family and makes
	// ONE store call fail: the k-th BatchedMutations.Commit, the k-th store.Batched(), or the k-th
	// BatchWrite of an object (which panics). k runs over every ordinal the schedule can reach (and
	// one or two beyond: such a fault never fires and the run is an ordinary one).
	withFault := func(cs caseRec, kind string, at int) caseRec {
		idx++
		cs.Idx, cs.Fault, cs.FaultAt = idx, kind, at
		return cs
	}
	ceilDiv := func(a, b int) int { return (a + b - 1) / b }
	for rep := c.Pick(1, 10); rep > 0; rep-- {
		for _, cf := range cfgs {
			calm := cf.ns >= int64(time.Millisecond) // the time-out does not fire while queued objects are drained
			if cf.b <= 5 {
				// multi-batch Flush: k*b+d objects (k up to 5) are queued behind a writer held in its first
				// BatchWrite, Flush, drain, 1-3 further objects, Stop
				base := mk("flushk", cf)
				base.FlushK, base.FlushD, base.After = 1+rng.Intn(5), rng.Intn(3)-1, 1+rng.Intn(3)
				total := max(base.FlushK*cf.b+base.FlushD, 1)
				if calm {
					// every Commit ordinal of the run: intermediate and final commits of the flush, then the
					// size / time-out commits of the later objects and the drain at Stop
					for k := 1; k <= ceilDiv(total, cf.b)+base.After+1; k++ {
						faults = append(faults, withFault(base, "commit", k))
					}
					faults = append(faults, withFault(base, "batched", 1+rng.Intn(ceilDiv(total, cf.b)+base.After+2)))
					faults = append(faults, withFault(base, "batchwrite", 1+rng.Intn(total+base.After)))
				} else {
					// a time-out <= 1ns commits at arbitrary points: two seeded ordinals
					for i := 0; i < 2; i++ {
						faults = append(faults, withFault(base, "commit", 1+rng.Intn(total+base.After)))
					}
				}
			}
			// drain at Stop: Enqueue x n immediately followed by Stop
			es := mk("enqstop", cf)
			es.InFlight = 1 + rng.Intn(6)
			faults = append(faults, withFault(es, "commit", 1+rng.Intn(ceilDiv(es.InFlight, cf.b))))
			if rng.Intn(4) == 0 {
				faults = append(faults, withFault(es, []string{"batched", "batchwrite"}[rng.Intn(2)], 1+rng.Intn(es.InFlight)))
			}
			// writer held inside its first BatchWriteDone while Stop is invoked: every later commit
			// happens with Stop waiting
			if calm || cf.b > 1 {
				sd := mk("slowdone", cf)
				sd.InFlight = 3 + rng.Intn(4)
				faults = append(faults, withFault(sd, "commit", 2+rng.Intn(2)))
			}
		}
		for n := 60; n > 0; n-- {
			cs := stress()
			if !keep(cs, n) {
				continue
			}
			kind := []string{"commit", "commit", "commit", "batched", "batchwrite"}[rng.Intn(5)]
			faults = append(faults, withFault(cs, kind, 1+rng.Intn(8)))
		}
	}
	// -race build
	asRace := func(cs caseRec, bare bool) caseRec { cs.Race, cs.Bare = true, bare; return cs }
	for rep := c.Pick(1, 14); rep > 0; rep-- {
		for _, cf := range cfgs {
			race = append(race, asRace(gated(cf, pointA), false), asRace(gated(cf, pointB), false))
			race = append(race, asRace(enqstop(cf), rep%2 == 0), asRace(enqstop(cf), true))
			race = append(race, asRace(dupflush(cf), false), asRace(slowdone(cf), false))
			race = append(race, asRace(coldstart(cf), false), asRace(coldstart(cf), true))
			if cf.b <= 5 {
				race = append(race, asRace(flushk(cf), false))
			}
		}
	}
	for n := c.Pick(30, 450); n > 0; n-- {
		cs := multi()
		cs.Race = true
		for i := range cs.Subs {
			cs.Subs[i].Race = true
		}
		race = append(race, cs)
	}
	for n := c.Pick(800, 9000); n > 0; n-- {
		if cs := stress(); keep(cs, n) {
			race = append(race, asRace(cs, n%3 == 0))
		}
	}
	return
}

var digits = regexp.MustCompile(`0x[0-9a-f]+|[0-9]+`)

// runShard runs one child over a list of cases and interprets how it ended.
// runShard runs a list of cases in child processes: a child that had to stop early (a run left
// live goroutines behind) names the index to resume at, and a fresh child takes over.
func runShard(c *vf.Ctx, mode string, cases []caseRec, raceBuild bool, timeout time.Duration) {
	maxRestarts := 400
	for _, cs := range cases {
		if cs.Fault != "" {
			maxRestarts++ // a fired store fault legitimately ends the process (fail-stop)
		}
	}
	for restarts := 0; len(cases) > 0; restarts++ {
		next := runShardOnce(c, mode, cases, raceBuild, timeout)
		if next <= 0 || next >= len(cases) {
			return
		}
		if restarts >= maxRestarts {
			c.Inconclusive(fmt.Sprintf("shard abandoned after %d child restarts, %d cases not run", restarts, len(cases)-next))
			return
		}
		c.Count("child_restarts", 1)
		cases = cases[next:]
	}
}

func runShardOnce(c *vf.Ctx, mode string, cases []caseRec, raceBuild bool, timeout time.Duration) (resume int) {
	in, _ := json.Marshal(batch{Cases: cases})
	var env []string
	if len(cases) > 0 && cases[0].OneP {
		// scheduler diversity: with a single P, per-P state (sync.Pool private slots, caches) is
		// shared between all writers of the process
		env = []string{"GOMAXPROCS=1"}
	} else if lowParallelism {
		// With fewer CPUs than goroutines that matter (writer, callers, poller) a writer spinning
		// on a 0/1ns time-out keeps its P for whole scheduler time slices and every hand-over
		// costs ~10 ms. More Ps than CPUs let the OS scheduler interleave the threads instead.
		env = []string{"GOMAXPROCS=4"}
	}
	res := c.RunChild(vf.ChildOpts{Name: mode, Race: raceBuild, Timeout: timeout, Stdin: in, Env: env})
	for _, r := range res.Records {
		if r.Kind == "resume" {
			json.Unmarshal(r.V, &resume)
		}
	}
	if raceBuild {
		reportRaces(c, res.Races)
	}
	var last caseRec
	json.Unmarshal([]byte(res.LastMark), &last)
	// store-fault family: the last fault the child announced
	var fired *faultRec
	for _, r := range res.Records {
		if r.Kind == "fault-fired" {
			var fr faultRec
			if json.Unmarshal(r.V, &fr) == nil {
				fired = &fr
				c.Count("fault_fired", 1)
				c.Count("fault_fired:"+fr.Class, 1)
				c.Count("fault_fired_kind="+fr.Kind, 1)
				if fr.Stop {
					c.Count("fault_fired_with_stop_invoked", 1)
				}
			}
		}
	}
	switch {
	case !res.TimedOut && !res.Deadlock && res.ExitCode != 0 && last.Fault != "" && fired != nil && fired.Idx == last.Idx &&
		!(raceBuild && res.ExitCode == 66 && res.Fatal == ""):
		// Fail-stop: the process died in the case whose injected store fault had just fired. That is
		// what the unchanged writer does (it panics on a store error in its own goroutine) and it is
		// legitimate: nothing was lost silently. How it died is not judged; whether the injected
		// error shows in the death message is only counted.
		c.Count("fault_failstop_child_deaths", 1)
		c.Count("fault_failstop:"+fired.Class, 1)
		if strings.Contains(res.Stderr, errInjected.Error()) {
			c.Count("fault_failstop_deaths_showing_the_injected_error", 1)
		} else {
			c.Note(fmt.Sprintf("%s: process died after the injected store fault fired, but not with the injected error: %s", last.name(), res.Fatal))
		}
		os.Remove(res.StderrPath)
		if mode == "batch" {
			return fired.I + 1
		}
		return 0
	case res.TimedOut || res.Deadlock:
		// watchdog: decided only if a permanence rule matches the SIGQUIT dump
		gs := gdump.Parse(res.Stderr)
		sighted := false
		for _, r := range res.Records {
			if r.Kind == "sighting" {
				sighted = true
			}
		}
		// the dump rules are only trusted if this child had identified a writer goroutine before
		if sighted && len(gs) > 0 && !writerAlive(gs) {
			for _, g := range gs {
				if inEnqueueSend(g) {
					last.Fingerprint, last.Dump = fpEnqBlocked, g.Raw
					c.Violation(fpEnqBlocked, last.name()+": goroutine blocked in BatchedWriter.Enqueue (chan send) with no writer goroutine in the SIGQUIT dump", last)
					return
				}
				if inStopWait(g) {
					last.Fingerprint, last.Dump = fpStopBlocked, g.Raw
					c.Violation(fpStopBlocked, last.name()+": goroutine blocked in StopBatchWriter (WaitGroup.Wait) with no writer goroutine in the SIGQUIT dump", last)
					return
				}
			}
		}
		c.Inconclusive(fmt.Sprintf("watchdog fired (or runtime dead-lock report: %v) for child %s (last case %s), no permanence rule matched; stderr %s", res.Deadlock, mode, last.name(), res.StderrPath))
	case raceBuild && res.ExitCode == 66 && len(res.Races) > 0 && res.Fatal == "":
		// the race runtime's exit status after it printed reports; the child itself completed
	case res.ExitCode != 0:
		if res.Fatal != "" {
			cls := digits.ReplaceAllString(res.Fatal, "N")
			if len(cls) > 80 {
				cls = cls[:80]
			}
			last.Fingerprint = "crash:" + cls
			st := res.Stderr
			if len(st) > 6000 {
				st = st[:6000]
			}
			last.Dump = st
			c.Violation(last.Fingerprint, last.name()+": process died while the BatchedWriter was running: "+res.Fatal, last)
		} else {
			c.Inconclusive(fmt.Sprintf("child %s exited with code %d (last case %s), stderr %s", mode, res.ExitCode, last.name(), res.StderrPath))
		}
	}
	return resume
}

// reportRaces: vf.ReportRaces' de-duplication key cuts function names at the first '(' and so
// maps every method of the package to "kvstore."; this version keys a report by the innermost
// hive.go function (with receiver) of each of the two access stacks.
func reportRaces(c *vf.Ctx, rs []vf.RaceReport) {
	seen := map[string]bool{}
	for _, r := range rs {
		c.Count("race_reports", 1)
		head := r.Text
		if i := strings.Index(head, "\nGoroutine "); i >= 0 {
			head = head[:i]
		}
		var fns []string
		touches := false
		harnessAccess := false // an access whose innermost main./hive.go frame is harness code: a race of the harness itself
		for _, blk := range strings.Split(head, "\n\n") {
			for _, l := range strings.Split(blk, "\n") {
				if !strings.HasPrefix(l, "  ") || strings.HasPrefix(l, "   ") || !strings.HasSuffix(l, ")") {
					continue
				}
				fn := strings.TrimSpace(l)
				if i := strings.LastIndexByte(fn, '('); i > 0 {
					fn = fn[:i]
				}
				if strings.HasPrefix(fn, "main.") {
					harnessAccess = true
					break
				}
				if strings.Contains(fn, "iotaledger/hive.go/") {
					if strings.Contains(fn, "hive.go/kvstore") {
						touches = true
					}
					fns = append(fns, strings.TrimPrefix(fn, "github.com/iotaledger/hive.go/"))
					break
				}
			}
		}
		sort.Strings(fns)
		key := strings.Join(fns, " <-> ")
		if harnessAccess {
			c.Count("race_reports_harness_own", 1)
			c.Note("race inside the harness (not attributed to hive.go): " + strings.Join(fns, " <-> "))
			continue
		}
		if seen[key] {
			continue
		}
		seen[key] = true
		if touches {
			txt := r.Text
			if len(txt) > 6000 {
				txt = txt[:6000]
			}
			c.Violation("race:"+key, "data race between "+key, map[string]any{"report": txt})
		} else {
			c.Note("race outside statement: " + key)
		}
	}
}

func shards(cases []caseRec, n int) [][]caseRec {
	out := make([][]caseRec, n)
	for i, cs := range cases {
		out[i%n] = append(out[i%n], cs)
	}
	return out
}

func replay(c *vf.Ctx) {
	var cs caseRec
	if err := c.LoadReplay(&cs); err != nil {
		fmt.Fprintln(os.Stderr, err)
		os.Exit(3)
	}
	if cs.Kind == "" {
		// a race report: re-run the bare "Enqueue immediately followed by Stop" shape in the -race build
		var list []caseRec
		rng := c.Rand("replay-race")
		for i, cf := range configs() {
			list = append(list, caseRec{Kind: "enqstop", Idx: i, Race: true, Bare: true, Q: cf.q, B: cf.b, TimeoutNs: cf.ns, InFlight: 1 + rng.Intn(3), CaseSeed: rng.Int63n(1 << 40)})
		}
		runShard(c, "batch", list, true, 10*time.Minute)
		return
	}
	runShard(c, "replay", []caseRec{cs}, cs.Race, 10*time.Minute)
}

func run(c *vf.Ctx) {
	if c.Replay != "" {
		replay(c)
		return
	}
	c.SetRule("one evaluation = one run of the real BatchedWriter (mapdb behind a logging wrapper) whose merged event log is checked after all callers returned or were decided blocked for ever and the writer goroutine exited; runs are gated (producer parked at bw.enqueue.afterRunningCheck / bw.enqueue.beforeSend while StopBatchWriter completes or parks; queue {0,1,2,256} x batch {1,2,5,1000} x time-out {0,1ns,1ms,20ms,-1ms} x 0-3 objects in flight x release early/late), 'Enqueue immediately followed by Stop', duplicate-Enqueue-retracts-while-a-Flush-is-served (one Enqueue held at beforeSend, a duplicate held inside BatchWriteScheduled after it found the flag set), slow-acknowledgement (writer held inside the first BatchWriteDone while Stop is invoked), flush-boundary (Flush while k*b+d objects, k in 1..3, d in -1..1, are collected/queued, one of the first batch re-enqueued during the drain, further Enqueues afterwards), multi-writer (2-3 writers alive together over separate stores, constructed one after the other with different options, optionally one with a huge time-out and batch size that only a Flush commits), two-writer gated (one writer held inside the first BatchWriteDone of a committed batch of 2-5 objects while the other collects, commits and acknowledges a batch of its own; also in children with GOMAXPROCS=1, together with a slice of the multi-writer and cold-start rounds), cold start (fresh writer, 2-8 producers released together for their very first Enqueue, Stop only after all returned), and seeded stress (1-8 producers, 1-4 objects, Flush, jittered yields, Stop at a random operation count), in plain and -race builds; store faults (plain build, fresh processes): the flush-boundary (k up to 5), Enqueue-then-Stop, slow-acknowledgement and stress schedules are re-run with ONE failing store call - the i-th BatchedMutations.Commit (every ordinal the schedule reaches when the time-out is >= 1ms, seeded ordinals otherwise), the i-th store.Batched(), or the i-th BatchWrite (panics); the process may die (fail-stop, what the unchanged writer does) or must behave as usual, a run that survives the fault is judged by the same log oracle with the failed batch's writes counted as not happened; distinct_nontrivial counts distinct (scenario, gate state, queue class, order of yield/flag/send-return/Stop-return/BatchWrite/Commit/Done/Cancel/Batched events from Stop's invocation on) of runs in which at least one Enqueue overlapped StopBatchWriter or an accepted object was still unwritten when Stop was invoked")
	plain, race, onep, onepRace, faults := genCases(c)
	c.Count("cases_generated_store_fault", len(faults))
	c.Count("cases_generated_plain", len(plain))
	c.Count("cases_generated_race", len(race))
	nShard := c.Pick(8, 12)
	type job struct {
		cases []caseRec
		race  bool
	}
	var jobs []job
	for _, sh := range shards(race, nShard) {
		jobs = append(jobs, job{sh, true})
	}
	for _, sh := range shards(plain, nShard) {
		jobs = append(jobs, job{sh, false})
	}
	for _, sh := range shards(onep, 8) {
		jobs = append(jobs, job{sh, false})
	}
	jobs = append(jobs, job{onepRace, true})
	for _, sh := range shards(faults, c.Pick(6, 12)) {
		jobs = append(jobs, job{sh, false})
	}
	c.Count("cases_generated_gomaxprocs1", len(onep)+len(onepRace))
	workers := runtime.NumCPU() * 3 / 4
	if workers < 1 {
		workers = 1
	}
	timeout := time.Duration(c.Pick(8, 40)) * time.Minute
	if lowParallelism {
		timeout *= 4
	}
	c.Extra("usable_cpus", runtime.NumCPU())
	vf.Parallel(len(jobs), workers, func(i int) {
		runShard(c, "batch", jobs[i].cases, jobs[i].race, timeout)
	})
	c.Require("evaluations", int(float64(len(plain)+len(race)+len(onep)+len(onepRace))*0.95))
	c.Require("pair_rounds", c.Pick(250, 3800))
	c.Require("pair_rounds_one_p", c.Pick(180, 2700))
	c.Require("runs_gomaxprocs1", c.Pick(500, 7500))
	// minimums that depend on real overlap between goroutines or on the number of stress runs scale
	// with the parallelism the machine offers: min(NumCPU,4)/4, never below a small positive floor
	par := func(n int) int {
		k := min(runtime.NumCPU(), 4)
		return max(n*k/4/2, 20) // /2: with few CPUs two thirds of the spinning stress runs are dropped as well
	}
	if !lowParallelism {
		par = func(n int) int { return n }
	}
	c.Require("gated_windows_entered", c.Pick(1500, 20000))
	c.Require("enqueues_overlapping_stop", par(c.Pick(1000, 9000)))
	c.Require("enqueues_returned_before_stop_checked", par(c.Pick(5000, 60000)))
	c.Require("batches_full_size_trigger", 100)
	c.Require("batches_partial_timeout_certain", 100)
	c.Require("flush_calls", par(100))
	c.Require("runs_stress", par(c.Pick(1700, 17000)))
	c.Require("dupflush_windows_entered", c.Pick(200, 3000))
	c.Require("slowdone_windows_entered", c.Pick(200, 3000))
	c.Require("multi_rounds", c.Pick(100, 1500))
	c.Require("runs_mextreme", c.Pick(50, 700))
	c.Require("flushk_rounds", c.Pick(250, 3800))
	c.Require("flushk_total=k*b+0", c.Pick(50, 800))
	c.Require("coldstart_rounds", c.Pick(2000, 20000))
	c.Require("coldstart_rounds_with_overlap", par(c.Pick(800, 8000)))
	c.Require("writer_probes_seen", par(c.Pick(3000, 40000))) // blindness self-check: the rules did identify writer goroutines
	for _, t := range timeouts {
		c.Require("runs_gated_timeout="+t.String(), c.Pick(250, 3500))
		c.Require("runs_enqstop_timeout="+t.String(), c.Pick(100, 1500))
		c.Require("runs_stress_timeout="+t.String(), par(c.Pick(250, 2500)))
	}
	c.Require("runs_batch_larger_than_objects", par(c.Pick(700, 8000)))
	c.Require("runs_queue_large", par(c.Pick(700, 8000)))
	c.Require("reent_rounds", c.Pick(200, 3000))
	c.Require("reentrant_calls_from_callback:flush:stop-invoked", c.Pick(60, 800))
	c.Require("reentrant_calls_from_callback:flush:writer-running", c.Pick(100, 1500))
	c.Require("reentrant_calls_from_callback:enqueue-other:writer-running", c.Pick(100, 1500))
	c.Require("reentrant_calls_from_callback:enqueue-self:writer-running", c.Pick(50, 800))
	c.Require("batch_handles_recycled", c.Pick(5000, 50000))
	// store-fault family: faults that really fired, per observable trigger of the failing Commit
	// (full batch / partial batch, with and without a Flush request, with Stop already invoked)
	c.Require("fault_fired", c.Pick(250, 2500))
	c.Require("fault_fired:commit/batch-full/flush-requested/before-stop", c.Pick(40, 400))
	c.Require("fault_fired:commit/batch-partial/flush-requested/before-stop", c.Pick(15, 150))
	c.Require("fault_fired:commit/batch-full/no-flush/before-stop", c.Pick(10, 100))
	c.Require("fault_fired:commit/batch-partial/no-flush/before-stop", c.Pick(10, 100))
	c.Require("fault_fired_with_stop_invoked", c.Pick(30, 300))
	c.Require("fault_fired_kind=batched", c.Pick(15, 150))
	c.Require("fault_fired_kind=batchwrite", c.Pick(15, 150))
	c.Assume("runtime.Stack(all) snapshots are consistent (stop-the-world); only the writer goroutine (any goroutine of package kvstore not created by the harness) receives from batchQueue and calls writeWg.Done, and autoStartOnce prevents a second writer goroutine – which makes the two permanence rules sound")
	c.Assume("mapdb (the backing store) commits a batch atomically and reads back what was committed")
	c.Assume("store faults: a process that dies after the injected fault fired has failed loudly (fail-stop) - how it dies is not judged; a library that tries the failed Commit again on the same mutations object, or writes the objects again into a new batch, is accepted")
}

func main() { vf.Main("C08", "exploration", run, child) }
