package main

// Length / count ARGUMENTS of the exported decoder primitives.
//
// The Deserializer primitives and the stream helpers take caller-supplied lengths
// (Skip(n), ReadBytes(&b, n), ReadBytesInPlace(buf), min/max bounds, ArrayRules.Min/Max,
// stream.ReadBytes(r, n), stream.ReadObject(r, n, f)).  A decoder written on top of them
// obtains such a length from the untrusted input (int(uint64), int(uint32), a count
// reported by a nested decoder), so the whole int range is hostile input, not only the
// values a length PREFIX of the library's own widths can denote.  This family drives every
// exported method that takes a length with n over the borders of the remaining input, of
// 32 bits and of the int range (where offset+n wraps), and negative values, at offsets 0, 1,
// mid-buffer and end-of-buffer reached through earlier successful reads, followed by
// RemainingBytes(), one more read and Done().
//
// Demanded (statement: returns a value or an error, never panics, never reports more
// consumed bytes than supplied, no allocation in proportion to a length the input cannot
// hold): no panic anywhere in the chain; 0 <= consumed <= len(input) after every step; a
// length larger than the remaining input is answered with an error.  NOT demanded: which
// error; that a negative length is rejected (only that it neither panics nor leaves the
// offset outside the input); the position after an error; the bytes delivered.

import (
	"errors"
	"fmt"
	"math"
	"math/rand"
	"strings"

	"github.com/iotaledger/hive.go/serializer/v2"
)

const lenargPrefix = "lenarg:"

// P layout of a lenarg case: [pre, preHow, n, follow, a, b]
//
//	pre     bytes consumed by earlier successful reads
//	preHow  how they are consumed: 0 ReadByte x pre, 1 ReadBytes(pre), 2 Skip(pre), 3 ReadNum(uint16) x pre/2 + ReadByte, 4 ReadBytesInPlace(pre)
//	n       the length argument
//	follow  read after the call: 0 ReadByte, 1 ReadNum(uint32), 2 ReadBytes(1), 3 Skip(1), 4 Skip(n) again
//	a, b    op specific (prefix width index, which bound carries n, element width)
var lenargOps = []string{"Skip", "ReadBytes", "ReadBytesInPlace", "ReadVariableByteSlice", "ReadString", "ReadSequenceOfObjects", "ReadSliceOfObjects"}

const inPlaceCap = 1 << 21 // ReadBytesInPlace needs a real buffer of that length

func isLenarg(cs *Case) bool { return strings.HasPrefix(cs.Tgt, lenargPrefix) }

// lenargClass names the argument class of a case for fingerprints (no numbers).
func lenargClass(cs *Case) string {
	n, pre := param(cs, 2), param(cs, 0)
	rem := int64(len(cs.input())) - pre
	op := strings.TrimPrefix(cs.Tgt, lenargPrefix)
	switch op {
	case "Skip", "ReadBytes", "ReadBytesInPlace":
		switch {
		case n < 0:
			return "negative-length"
		case n > rem:
			return "length-beyond-input"
		}
		return "length-within-input"
	}
	if n < 0 {
		return "negative-bound"
	}
	return "bound"
}

func advance(d *serializer.Deserializer, pre, how int) {
	switch how {
	case 1:
		var b []byte
		d.ReadBytes(&b, pre, ep)
	case 2:
		d.Skip(pre, ep)
	case 3:
		for i := 0; i+1 < pre; i += 2 {
			var x uint16
			d.ReadNum(&x, ep)
		}
		if pre%2 == 1 {
			var b byte
			d.ReadByte(&b, ep)
		}
	case 4:
		d.ReadBytesInPlace(make([]byte, pre), ep)
	default:
		for i := 0; i < pre; i++ {
			var b byte
			d.ReadByte(&b, ep)
		}
	}
}

var errHarnessCase = errors.New("harness: the earlier reads of a lenarg case did not consume what they should")

func lenargFunc(cs *Case, in []byte) func() (int, error) {
	op := strings.TrimPrefix(cs.Tgt, lenargPrefix)
	pre, how, n, follow := int(param(cs, 0)), int(param(cs, 1)), param(cs, 2), int(param(cs, 3))
	a, b := int(param(cs, 4)), int(param(cs, 5))
	rem := int64(len(in) - pre)
	var inPlace []byte
	if op == "ReadBytesInPlace" && n >= 0 && n <= inPlaceCap {
		inPlace = make([]byte, n) // allocated outside the measured call
	}
	entry := "Deserializer." + op + "[length-beyond-input]" // only used for n > remaining
	outOfRange := func(k int) bool { return k < 0 || k > len(in) }
	return func() (int, error) {
		d := serializer.NewDeserializer(in)
		advance(d, pre, how)
		if k, err := d.Done(); k != pre || err != nil {
			if outOfRange(k) {
				return k, err
			}
			return k, errHarnessCase
		}
		plain := false // n is a plain byte count that must fit into the remaining input
		switch op {
		case "Skip":
			d.Skip(int(n), ep)
			plain = true
		case "ReadBytes":
			var dst []byte
			d.ReadBytes(&dst, int(n), ep)
			plain = true
		case "ReadBytesInPlace":
			d.ReadBytesInPlace(inPlace, ep)
			plain = true
		case "ReadVariableByteSlice", "ReadString":
			minLen, maxLen := 0, 0
			switch b {
			case 0:
				minLen = int(n)
			case 1:
				maxLen = int(n)
			default:
				minLen, maxLen = int(n), int(n)
			}
			if op == "ReadString" {
				var s string
				d.ReadString(&s, lenTypes[a], ep, minLen, maxLen)
			} else {
				var dst []byte
				d.ReadVariableByteSlice(&dst, lenTypes[a], ep, minLen, maxLen)
			}
		case "ReadSequenceOfObjects", "ReadSliceOfObjects":
			rules := serializer.ArrayRules{}
			switch b {
			case 0:
				rules.Min = uint(n)
			case 1:
				rules.Max = uint(n)
			default:
				rules.Min, rules.Max = uint(n), uint(n)
			}
			if op == "ReadSliceOfObjects" {
				rules.Guards.ReadGuard = readGuard(serializer.TypeDenotationByte)
				d.ReadSliceOfObjects(func(serializer.Serializables) {}, serializer.DeSeriModePerformValidation, nil, lenTypes[a], serializer.TypeDenotationByte, &rules, ep)
			} else {
				d.ReadSequenceOfObjects(func(e []byte) (int, error) {
					countDecode(&objDecodes)
					if len(e) < 1 {
						return 0, serializer.ErrDeserializationNotEnoughData
					}
					return 1, nil
				}, serializer.DeSeriModePerformValidation, lenTypes[a], &rules, ep)
			}
		}
		k1, err1 := d.Done()
		if outOfRange(k1) {
			return k1, err1
		}
		if plain && n > rem && err1 == nil {
			extraVerdicts = append(extraVerdicts, verdict{"short-input-accepted:" + entry,
				fmt.Sprintf("%s with a length argument of %d at offset %d of %d input bytes (%d remaining) returned no error (consumed %d)", entry, n, pre, len(in), rem, k1)})
		}
		// the deserializer must stay usable: remaining bytes, one more read, Done
		if r := d.RemainingBytes(); len(r) > len(in) {
			return len(in) + len(r), err1
		}
		switch follow {
		case 1:
			var x uint32
			d.ReadNum(&x, ep)
		case 2:
			var dst []byte
			d.ReadBytes(&dst, 1, ep)
		case 3:
			d.Skip(1, ep)
		case 4:
			d.Skip(int(n), ep)
		default:
			var x byte
			d.ReadByte(&x, ep)
		}
		_ = d.RemainingBytes()
		return d.Done()
	}
}

// lenargValues is the argument set for an input of l bytes at offset off (duplicates removed, order fixed).
func lenargValues(l, off int) []int64 {
	rem := int64(l - off)
	o := int64(off)
	const maxI = int64(math.MaxInt64)
	const minI = int64(math.MinInt64)
	vs := []int64{0, 1, rem - 1, rem, rem + 1, rem + 2, int64(l), int64(l) + 1, 255, 256, 1 << 16, 1 << 20, 1 << 24,
		math.MaxInt32, math.MaxInt32 + 1, math.MaxUint32, math.MaxUint32 + 1, 1 << 40, 1 << 62,
		maxI - o - 1, maxI - o, maxI - o + 1, maxI - int64(l), maxI - int64(l) + 1, maxI - rem, maxI - 16, maxI - 8, maxI - 1, maxI,
		-1, -2, -o, -o - 1, -o + 1, -rem, -int64(l), -int64(l) - 1, -(1 << 31), -(1 << 32), minI, minI + 1, minI + o, minI + o + 1, minI + int64(l), -maxI + o}
	seen := map[int64]bool{}
	var out []int64
	for _, v := range vs {
		if !seen[v] {
			seen[v] = true
			out = append(out, v)
		}
	}
	return out
}

func genLenArgCases(rng *rand.Rand, scale int) []Case {
	var out []Case
	add := func(op string, in []byte, org string, p ...int64) {
		out = append(out, mkCase("prim", lenargPrefix+op, false, in, "lenarg#"+org, p...))
	}
	offsetsOf := func(l int) []int {
		seen := map[int]bool{}
		var offs []int
		for _, o := range []int{0, 1, l / 2, l - 1, l} {
			if o >= 0 && o <= l && !seen[o] {
				seen[o] = true
				offs = append(offs, o)
			}
		}
		return offs
	}
	offName := func(o, l int) string {
		switch {
		case o == 0:
			return "start"
		case o == l:
			return "end"
		case o == 1:
			return "one"
		case o == l-1:
			return "last"
		}
		return "mid"
	}
	// plain byte counts
	for _, l := range []int{0, 1, 2, 9, 40, 300} {
		for _, off := range offsetsOf(l) {
			for _, n := range lenargValues(l, off) {
				for _, op := range []string{"Skip", "ReadBytes", "ReadBytesInPlace"} {
					if op == "ReadBytesInPlace" && (n < 0 || n > inPlaceCap) {
						continue
					}
					reps := 3
					if scale > 2 {
						reps = 10
					}
					for r := 0; r < reps; r++ {
						in := randBytes(rng, l)
						add(op, in, offName(off, l), int64(off), int64(rng.Intn(5)), n, int64(rng.Intn(5)))
					}
				}
			}
		}
	}
	// bounds of the length-prefixed readers: the prefix is honest / hostile, the BOUND is the hostile argument
	for _, op := range []string{"ReadVariableByteSlice", "ReadString", "ReadSequenceOfObjects", "ReadSliceOfObjects"} {
		for lt := 0; lt < 3; lt++ {
			for _, k := range []int{0, 3} {
				for _, off := range []int{0, 1, 5} {
					var body []byte
					if op == "ReadSliceOfObjects" {
						for i := 0; i < k; i++ {
							body = append(body, byte(i%4), 1, byte(i)) // [type byte][len 1][1 byte]
						}
					} else {
						body = randBytes(rng, k)
					}
					for _, pv := range []uint64{uint64(k), uint64(k + 1), 1<<(8*uint(lenWidth[lt])) - 1} {
						in := append(randBytes(rng, off), le(pv, lenWidth[lt])...)
						in = append(in, body...)
						in = append(in, randBytes(rng, 2)...)
						for _, n := range lenargValues(len(in), off) {
							add(op, in, offName(off, len(in)), int64(off), int64(rng.Intn(5)), n, int64(rng.Intn(4)), int64(lt), int64(rng.Intn(3)))
						}
					}
				}
			}
		}
	}
	return out
}

// genStreamLenArgCases: the stream helpers that take a length, with the same argument set
// (no offset arithmetic on the library side, but an upfront allocation / negative make would show).
func genStreamLenArgCases(rng *rand.Rand) []Case {
	var out []Case
	for _, l := range []int{0, 1, 9, 40} {
		for _, n := range lenargValues(l, 0) {
			for _, rd := range []int{0, 1, 7} {
				cs := mkCase("stream", "ReadBytes", false, randBytes(rng, l), "lenarg#start", n)
				cs.Rd = rd
				out = append(out, cs)
				for fn := int64(0); fn < 3; fn++ {
					cs := mkCase("stream", "ReadObject", false, randBytes(rng, l), "lenarg#start", n, fn)
					cs.Rd = rd
					out = append(out, cs)
				}
			}
		}
	}
	return out
}
