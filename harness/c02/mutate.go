package main

// Hostile inputs derived from valid encodings (binary) and valid documents (JSON).

import (
	"bytes"
	"encoding/binary"
	"encoding/json"
	"fmt"
	"math/rand"
)

// sampleOffsets returns all offsets of an n-byte string, or a seeded sample of max.
func sampleOffsets(rng *rand.Rand, n, max int) []int {
	if n <= max {
		o := make([]int, n)
		for i := range o {
			o[i] = i
		}
		return o
	}
	// always keep the first 24 (headers, first prefixes), sample the rest
	keep := 24
	o := make([]int, 0, max)
	for i := 0; i < keep; i++ {
		o = append(o, i)
	}
	perm := rng.Perm(n - keep)
	for _, p := range perm[:max-keep] {
		o = append(o, keep+p)
	}
	return o
}

// binaryMutants emits hostile variants of the valid encoding enc.
// others are further valid encodings (same or other types) used for splices.
func binaryMutants(rng *rand.Rand, enc []byte, others [][]byte, maxOff int, emit func(in []byte, org string)) {
	n := len(enc)
	emit(enc, "valid")
	// (a) truncation at every offset
	for i := 0; i < n; i++ {
		emit(enc[:i], fmt.Sprintf("trunc@%d", i))
	}
	// (b) over-long tail
	emit(append(append([]byte(nil), enc...), 0), "tail@0")
	emit(append(append([]byte(nil), enc...), randBytes(rng, 1+rng.Intn(8))...), "tail@r")
	// (c) length-prefix / type-code substitution at every (sampled) offset and every width
	offs := sampleOffsets(rng, n, maxOff)
	sub := func(off, w int, val []byte, org string) {
		if off+w > n {
			return
		}
		if bytes.Equal(enc[off:off+w], val) {
			return
		}
		m := append([]byte(nil), enc...)
		copy(m[off:], val)
		emit(m, fmt.Sprintf("%s@%d", org, off))
	}
	for _, off := range offs {
		o := enc[off]
		for _, v := range []byte{0, 1, 2, 3, 0x7f, 0x80, 0xff, o + 1, o - 1} {
			sub(off, 1, []byte{v}, "sub8")
		}
		for _, v := range []uint16{0, 0x7fff, 0xffff, 0x0100} {
			sub(off, 2, le(uint64(v), 2), "sub16")
		}
		var cur uint32
		if off+4 <= n {
			cur = binary.LittleEndian.Uint32(enc[off:])
		}
		for _, v := range []uint32{0, 0x7fffffff, 0xffffffff, 0x02000000, 0x00010000, cur + 1, cur - 1} {
			sub(off, 4, le(uint64(v), 4), "sub32")
		}
	}
	// (d) bit flips
	if n > 0 {
		k := n * 8
		if k > 96 {
			k = 96
		}
		for _, bit := range rng.Perm(n * 8)[:k] {
			m := append([]byte(nil), enc...)
			m[bit/8] ^= 1 << uint(bit%8)
			emit(m, fmt.Sprintf("flip@%d", bit))
		}
	}
	// (e) splices of two encodings
	for i := 0; i < 24 && len(others) > 0; i++ {
		o := others[rng.Intn(len(others))]
		a, b := rng.Intn(n+1), rng.Intn(len(o)+1)
		m := append(append([]byte(nil), enc[:a]...), o[b:]...)
		emit(m, "splice#r")
	}
	// (f) insertion / deletion of a byte
	for i := 0; i < 12 && n > 0; i++ {
		p := rng.Intn(n)
		m := append(append(append([]byte(nil), enc[:p]...), byte(rng.Intn(256))), enc[p:]...)
		emit(m, "insert#r")
		m = append(append([]byte(nil), enc[:p]...), enc[p+1:]...)
		emit(m, "delete#r")
	}
}

// ---------------------------------------------------------------- JSON

type jpath []any // string keys and int indices

func jwalk(node any, p jpath, visit func(p jpath, node any)) {
	visit(p, node)
	switch x := node.(type) {
	case map[string]any:
		for _, k := range sortedKeys(x) {
			jwalk(x[k], append(append(jpath(nil), p...), k), visit)
		}
	case []any:
		for i, e := range x {
			jwalk(e, append(append(jpath(nil), p...), i), visit)
		}
	}
}

func jcopy(node any) any {
	switch x := node.(type) {
	case map[string]any:
		m := make(map[string]any, len(x))
		for k, v := range x {
			m[k] = jcopy(v)
		}
		return m
	case []any:
		s := make([]any, len(x))
		for i, v := range x {
			s[i] = jcopy(v)
		}
		return s
	}
	return node
}

// jedit returns a deep copy of root with the node at p transformed by f
// (f receives the parent container and the last path step).
func jedit(root any, p jpath, f func(parent any, step any)) any {
	c := jcopy(root)
	if len(p) == 0 {
		return c
	}
	cur := c
	for _, s := range p[:len(p)-1] {
		switch k := s.(type) {
		case string:
			cur = cur.(map[string]any)[k]
		case int:
			cur = cur.([]any)[k]
		}
	}
	f(cur, p[len(p)-1])
	return c
}

func jset(root any, p jpath, v any) any {
	return jedit(root, p, func(parent any, step any) {
		switch k := step.(type) {
		case string:
			parent.(map[string]any)[k] = v
		case int:
			parent.([]any)[k] = v
		}
	})
}

func jkind(v any) string {
	switch v.(type) {
	case nil:
		return "null"
	case bool:
		return "bool"
	case float64, json.Number:
		return "number"
	case string:
		return "string"
	case []any:
		return "array"
	case map[string]any:
		return "object"
	}
	return "?"
}

type jrepl struct {
	name string
	v    any
}

// replacements: every JSON kind, plus hostile values within each kind.
var jrepls = []jrepl{
	{"null", nil},
	{"bool", true},
	{"bool-f", false},
	{"number", float64(0)},
	{"number-neg", float64(-1)},
	{"number-frac", 1.5},
	{"number-256", float64(256)},
	{"number-2^16", float64(65536)},
	{"number-2^32", float64(4294967296)},
	{"number-huge", 1e300},
	{"string", "x"},
	{"string-empty", ""},
	{"string-0x", "0x"},
	{"string-badhex", "0xzz"},
	{"string-oddhex", "0x0"},
	{"string-hex", "0x0102"},
	{"string-neg", "-1"},
	{"string-2^64", "18446744073709551616"},
	{"string-frac", "1.5"},
	{"array", []any{}},
	{"array-num", []any{float64(1)}},
	{"array-str", []any{"a"}},
	{"array-null", []any{nil}},
	{"array-arr", []any{[]any{}}},
	{"array-obj", []any{map[string]any{}}},
	{"object", map[string]any{}},
	{"object-a", map[string]any{"a": float64(1)}},
	{"object-type-str", map[string]any{"type": "x"}},
	{"object-type-255", map[string]any{"type": float64(255)}},
	{"object-type-0", map[string]any{"type": float64(0)}},
}

func hexOf(n int, seed byte) string {
	const digits = "0123456789abcdef"
	b := make([]byte, 0, 2+2*n)
	b = append(b, '0', 'x')
	for i := 0; i < n; i++ {
		v := seed + byte(i)*7
		b = append(b, digits[v>>4], digits[v&15])
	}
	return string(b)
}

func isDigits(s string) bool {
	if s == "" {
		return false
	}
	for _, r := range s {
		if r < '0' || r > '9' {
			return false
		}
	}
	return true
}

// stringRepls are the value-dependent replacements of a string node: well-formed strings of
// a different LENGTH or spelling (the static list only has other kinds and malformed text).
//
//	hexlen-*  valid 0x-prefixed hex decoding to 0, 1, N-1, N+1, 2N and 1000 bytes (N = decoded
//	          length of the original, or its text length when it is not hex) and around the
//	          common array sizes
//	numstr-*  numeric spellings: too many digits, leading zeros, signs, exponent, blanks
//	hexform-* prefix / digit-count / case ambiguities between base 10 and hex
//	long-*    64 KiB strings (plain, decimal digits, valid hex): allocation may only follow the input
func stringRepls(orig string, long bool) []jrepl {
	var out []jrepl
	n := len(orig)
	isHex := false
	if len(orig) >= 2 && orig[:2] == "0x" && len(orig)%2 == 0 {
		isHex = true
		for _, r := range orig[2:] {
			if !(r >= '0' && r <= '9' || r >= 'a' && r <= 'f' || r >= 'A' && r <= 'F') {
				isHex = false
			}
		}
		if isHex {
			n = (len(orig) - 2) / 2
		}
	}
	seen := map[int]bool{}
	for _, l := range []struct {
		name string
		n    int
	}{{"0", 0}, {"1", 1}, {"N-1", n - 1}, {"N+1", n + 1}, {"2N", 2 * n}, {"N+N/2", n + n/2}, {"3", 3}, {"5", 5}, {"9", 9}, {"31", 31}, {"33", 33}, {"1000", 1000}} {
		if l.n < 0 || seen[l.n] || (isHex && l.n == n) {
			continue
		}
		seen[l.n] = true
		out = append(out, jrepl{"hexlen-" + l.name, hexOf(l.n, byte(len(orig)))})
	}
	digits := orig
	if !isDigits(digits) {
		digits = "7"
	}
	out = append(out,
		jrepl{"numstr-21digits", "184467440737095516160"},
		jrepl{"numstr-80digits", repeat("1234567890", 8)},
		jrepl{"numstr-leadzero", "000" + digits},
		jrepl{"numstr-plus", "+" + digits},
		jrepl{"numstr-minus", "-" + digits},
		jrepl{"numstr-minuszero", "-0"},
		jrepl{"numstr-exp", "1e3"},
		jrepl{"numstr-Exp", "1E+3"},
		jrepl{"numstr-blank", " " + digits},
		jrepl{"numstr-trailblank", digits + " "},
		jrepl{"numstr-underscore", "1_000"},
		jrepl{"numstr-maxu64", "18446744073709551615"},
		jrepl{"numstr-maxi64+1", "9223372036854775808"},
		jrepl{"numstr-mini64-1", "-9223372036854775809"},
		jrepl{"numstr-nan", "NaN"},
		jrepl{"numstr-inf", "-Inf"},
		jrepl{"numstr-hexfloat", "0x1p-2"},
		jrepl{"hexform-noprefix", "0102"},
		jrepl{"hexform-noprefix-af", "abcdef"},
		jrepl{"hexform-odd", "0x012"},
		jrepl{"hexform-odd-noprefix", "012"},
		jrepl{"hexform-upperX", "0X0102"},
		jrepl{"hexform-upper", "0xABCDEF"},
		jrepl{"hexform-leadzero-quantity", "0x01"},
		jrepl{"hexform-257bit", "0x1" + repeat("0", 64)},
		jrepl{"hexform-256bit", "0x" + repeat("f", 64)},
		jrepl{"hexform-digits-as-hex", "0x" + digits},
	)
	if long {
		out = append(out,
			jrepl{"long-plain", repeat("a", 64<<10)},
			jrepl{"long-digits", repeat("9", 64<<10)},
			jrepl{"long-hex", hexOf(32<<10, 1)},
		)
	}
	return out
}

func repeat(s string, n int) string {
	b := make([]byte, 0, len(s)*n)
	for i := 0; i < n; i++ {
		b = append(b, s...)
	}
	return string(b)
}

func jmarshal(v any) []byte {
	b, err := json.Marshal(v)
	if err != nil {
		return []byte("{}")
	}
	return b
}

// jsonMutants enumerates: each node replaced by every other JSON kind (and hostile
// same-kind values), each object member removed, an extra member added to each object.
func jsonMutants(doc any, full bool, long bool, emit func(in []byte, org string)) {
	emit(jmarshal(doc), "valid")
	type nodeRef struct {
		p jpath
		v any
	}
	var nodes []nodeRef
	jwalk(doc, nil, func(p jpath, n any) { nodes = append(nodes, nodeRef{p, n}) })
	for _, nr := range nodes {
		if len(nr.p) == 0 {
			// the root must stay an object for json.Unmarshal into map[string]any; other kinds once
			for _, r := range []string{"null", "true", "1", "\"x\"", "[]", "[{}]"} {
				emit([]byte(r), "root-kind#"+r)
			}
			continue
		}
		k := jkind(nr.v)
		for _, r := range jrepls {
			if !full && jkind(r.v) == k && k != "number" && k != "string" {
				continue
			}
			emit(jmarshal(jset(doc, nr.p, r.v)), fmt.Sprintf("node-%s->%s@%v", k, r.name, nr.p))
		}
		if str, ok := nr.v.(string); ok {
			for _, r := range stringRepls(str, long) {
				emit(jmarshal(jset(doc, nr.p, r.v)), fmt.Sprintf("node-string->%s@%v", r.name, nr.p))
			}
		}
	}
	for _, nr := range nodes {
		obj, ok := nr.v.(map[string]any)
		if !ok {
			continue
		}
		for _, key := range sortedKeys(obj) {
			key := key
			p := append(append(jpath(nil), nr.p...), key)
			emit(jmarshal(jedit(doc, p, func(parent any, step any) { delete(parent.(map[string]any), key) })),
				fmt.Sprintf("missing-key@%v", p))
		}
		p := append(append(jpath(nil), nr.p...), "zzzExtra")
		emit(jmarshal(jedit(doc, p, func(parent any, step any) { parent.(map[string]any)["zzzExtra"] = float64(1) })),
			fmt.Sprintf("extra-key@%v", nr.p))
		if _, has := obj["type"]; !has {
			emit(jmarshal(jedit(doc, p, func(parent any, step any) { parent.(map[string]any)["type"] = "x" })),
				fmt.Sprintf("extra-type-key@%v", nr.p))
		}
	}
}
