// C02 – decoders are total and resource-bounded on arbitrary input.
//
// Every decoder entry point (serix Decode for ~55 registered destination types, JSONDecode /
// MapDecode, the Deserializer primitives, the stream Read* helpers, typeutils, the ds
// containers' Decode) is called on hostile inputs derived from valid encodings.  The parent
// generates the case list of a batch (fixed by seed + tier) and streams it to a child
// process (GOMAXPROCS=1, ulimit -v 1 GiB); the child marks each case before the call, so a
// process death (out of memory, stack overflow) is attributed to the marked case and the
// parent restarts a child behind it.  Per call: recover, returned (n, err),
// runtime.MemStats.TotalAlloc delta (confirmed and attributed by an exact heap profile of
// a re-run when above the bound), and the number of element-decoder invocations.
//
// Debugging aids (never needed for a verdict): C02_ONLY=<batch prefix> (partial run,
// reported INCONCLUSIVE), C02_TIMES=1 (per-batch wall time on stderr),
// C02_DEBUG=<file> with --replay (outcome + allocation profile of the replayed case).
package main

import (
	"bufio"
	"bytes"
	"encoding/json"
	"fmt"
	"io"
	"os"
	"reflect"
	"runtime"
	"strconv"
	"strings"
	"sync"
	"time"

	"verif/harness/internal/vf"
)

func newDest(t *target) any { return reflect.New(t.typ).Interface() }

// ---------------------------------------------------------------- batches

type sizes struct {
	vals, docs, maxOff, randStr, scale int
	nest                               []int
}

func tierSizes(c *vf.Ctx) sizes {
	if c.Quick() {
		return sizes{vals: 5, docs: 3, maxOff: 40, randStr: 400, scale: 2, nest: []int{40, 250}}
	}
	return sizes{vals: 64, docs: 30, maxOff: 160, randStr: 12000, scale: 60, nest: []int{40, 250, 1000}}
}

func batchNames(u *universe) []string {
	var bs []string
	for _, t := range u.targets {
		bs = append(bs, "serix/"+t.name)
	}
	for _, t := range u.targets {
		if t.json && t.typ != nil {
			bs = append(bs, "json/"+t.name)
		}
	}
	return append(bs, "prim/0", "prim/lenarg", "stream/0", "stream/lenarg", "util/0", "long/stream", "long/prim", "long/serix", "long/json")
}

// validEncodings produces up to n distinct valid encodings of t (deterministic in rng).
func validEncodings(u *universe, t *target, rngName string, c *vf.Ctx, n int) [][]byte {
	rng := c.Rand(rngName)
	var out [][]byte
	seen := map[string]bool{}
	for try := 0; try < n*12 && len(out) < n; try++ {
		var b []byte
		var err error
		func() {
			defer func() {
				if p := recover(); p != nil {
					err = fmt.Errorf("encoder panic: %v", p)
				}
			}()
			b, err = t.encode(u, t.gen(u, rng))
		}()
		if err != nil || seen[string(b)] {
			continue
		}
		seen[string(b)] = true
		out = append(out, b)
	}
	return out
}

func validDocs(u *universe, t *target, c *vf.Ctx, n int) []any {
	rng := c.Rand("jsonvals/" + t.name)
	var out []any
	seen := map[string]bool{}
	for try := 0; try < n*12 && len(out) < n; try++ {
		var b []byte
		var err error
		func() {
			defer func() {
				if p := recover(); p != nil {
					err = fmt.Errorf("encoder panic: %v", p) // e.g. non-string map keys: not part of C02
				}
			}()
			b, err = u.api.JSONEncode(ctxBG, t.gen(u, rng))
		}()
		if err != nil || seen[string(b)] {
			continue
		}
		var doc any
		if json.Unmarshal(b, &doc) != nil {
			continue
		}
		if _, ok := doc.(map[string]any); !ok {
			continue
		}
		seen[string(b)] = true
		out = append(out, doc)
	}
	// destinations whose values MapEncode cannot express (it panics on non-string map keys):
	// hand-written documents of the right shape, so that the decoder side is still exercised
	{
		for _, txt := range handDocs[t.name] {
			var doc any
			if json.Unmarshal([]byte(txt), &doc) == nil {
				out = append(out, doc)
			}
		}
	}
	return out
}

var handDocs = map[string][]string{
	// every pointer / interface position present (nil pointers are omitted by the encoder)
	"Valid":     {`{"p":{"x":1,"y":2},"q":{"x":3,"y":4},"i":{"a":1,"b":"k"},"j":{"a":2,"b":""},"a":"0x01020304","u":[1,2,3],"c":{"type":0,"r":5},"s":{"type":1,"s":7,"n":"sq"},"cs":[{"type":49374,"v":1,"w":"0x01"},{"type":49374,"v":2,"w":""}],"ps":[{"x":1,"y":1},{"x":2,"y":2}],"is":[{"a":1,"b":"x"},{"a":2,"b":"y"}],"m":{"k1":{"x":1,"y":2},"k2":{"x":3,"y":4}},"mS":{"a":{"type":0,"r":1},"b":{"type":3,"data":"0x010203040506"}},"l":[{"type":0,"r":1},{"type":1,"s":2,"n":"n"}],"pL":[{"type":1,"v":"9"}]}`},
	"ValidX":    {`{"l":[1,2,3],"m":{"1":2},"n":7,"s":"str","b":"0x0102"}`},
	"VMap":      {`{"k1":{"x":1,"y":2},"k2":{"x":3,"y":4}}`},
	"VShapeMap": {`{"a":{"type":0,"r":1},"b":{"type":2,"kids":[{"type":0,"r":2}]}}`},
	"PtrPoint":  {`{"x":1,"y":2}`},
	"PtrVItem":  {`{"a":1,"b":"k"}`},
	"Opts":      {`{"p":{"x":1,"y":2},"s":{"type":0,"r":5},"q":{"x":3,"y":4},"r":{"b":true,"i8":1,"i16":2,"i32":3,"i64":"4","u8":5,"u16":6,"u32":7,"u64":"8","f32":"1.5","f64":"2.5"},"t":{"type":1,"v":"9"}}`},
	// fully populated: every byte-slice / byte-array / pointer-to-array / numeric-string / big-int position exists
	"ByteArrs":   {`{"a":["0x0a11181f","0x99007f80"],"h":{"data":"0x7f0174e60100","type":3},"i":{"data":"0x018039807fe67fff","type":9},"l":["0x0001ff01"],"lI":[{"data":"0x7f5500017f7f8000","type":9}],"lP":["0x7f7f0180"],"m":{"ezg":"0x7f9a80ff"},"mA":{"fjz":"0x805c"},"mI":{"gv":{"data":"0x7f808080ffff7f7f","type":9}},"p":"0x57808000","q":"0x000101","s":{"data":"0x017f0101ff00","type":3},"sL":[{"data":"0x7f7f0012716c","type":3}],"v":"0x0180ff00","w":"0x80797ff220"}`},
	"ByteFields": {`{"a":"0x01","b":"0x0203","c":"0x04","d":"0x01020304","e":"0x0000000000000000000000000000000000000000000000000000000000000001","f":"0x05","g":{"data":"0x0102030405060708","type":9}}`},
	"PtrArr":     {`{"a":"0x01020304","i":{"data":"0x0102030405060708","type":9},"u":[1,2,3]}`},
	"Prims":      {`{"b":true,"i8":1,"i16":2,"i32":3,"i64":"4","u8":5,"u16":6,"u32":7,"u64":"8","f32":"1.5","f64":"2.5"}`},
	"BigTime":    {`{"n":"0x1f","t":"1700000000000000000","m":"0x2"}`},
	"Maps":       {`{"a":{"1":2,"200":65535},"b":{"k":{"x":1,"y":2}},"c":{"7":"0x0102"}}`, `{"a":{},"b":{},"c":{}}`},
	"MapU8":      {`{"1":2,"3":4}`},
	"Counted":    {`{"l":[1,2,3],"m":{"1":5},"p":7,"s":[9]}`},
}

var (
	batchMu    sync.Mutex
	batchCache = map[string][]Case{}
)

// genBatch returns the case list of a batch; it depends only on (seed, tier, name).
func genBatch(c *vf.Ctx, u *universe, name string) []Case {
	batchMu.Lock()
	if cs, ok := batchCache[name]; ok {
		batchMu.Unlock()
		return cs
	}
	batchMu.Unlock()
	sz := tierSizes(c)
	fam, tn, _ := strings.Cut(name, "/")
	var out []Case
	switch fam {
	case "serix":
		t := u.byName[tn]
		encs := validEncodings(u, t, "vals/"+t.name, c, sz.vals)
		// splice partners: this type's encodings plus one encoding of a few other types
		others := append([][]byte(nil), encs...)
		prng := c.Rand("pool/" + t.name)
		for i := 0; i < 4; i++ {
			o := u.targets[prng.Intn(len(u.targets))]
			others = append(others, validEncodings(u, o, "vals/"+o.name, c, 1)...)
		}
		rng := c.Rand("mut/" + t.name)
		for ei, enc := range encs {
			binaryMutants(rng, enc, others, sz.maxOff, func(in []byte, org string) {
				for _, val := range []bool{false, true} {
					cs := mkCase("serix", t.name, val, in, org)
					cs.Org = fmt.Sprintf("%s #%d", org, ei)
					out = append(out, cs)
				}
			})
		}
		// deep nesting of the recursive types: complete (accepted) and cut short (error chain as deep as the input)
		if unit, ok := map[string][2][]byte{"Tree": {{1, 1}, {1, 0}}, "Group": {{2, 1}, {2, 0}}}[t.name]; ok {
			for _, d := range sz.nest {
				var in []byte
				for i := 0; i < d; i++ {
					in = append(in, unit[0]...)
				}
				in = append(in, unit[1]...)
				for _, val := range []bool{false, true} {
					out = append(out, mkCase("serix", t.name, val, in, fmt.Sprintf("nest@%d", d)))
					out = append(out, mkCase("serix", t.name, val, in[:len(in)-1], fmt.Sprintf("nest-trunc@%d", d)))
				}
			}
		}
		for i := 0; i < sz.randStr; i++ {
			in := randBytes(rng, rng.Intn(65))
			if rng.Intn(3) == 0 {
				for j := range in {
					if rng.Intn(2) == 0 {
						in[j] = byte(rng.Intn(4))
					}
				}
			}
			out = append(out, mkCase("serix", t.name, i%2 == 0, in, "random"))
		}
	case "json":
		t := u.byName[tn]
		docs := validDocs(u, t, c, sz.docs)
		k := 0
		for di, doc := range docs {
			jsonMutants(doc, !c.Quick(), di == 0, func(in []byte, org string) {
				for _, val := range []bool{false, true} {
					cs := mkCase("json", t.name, val, in, org)
					cs.Org = fmt.Sprintf("%s #%d", org, di)
					out = append(out, cs)
					if k%4 == 0 || strings.Contains(org, "->null@") {
						cs.Fam = "map"
						out = append(out, cs)
					}
					k++
				}
			})
			// every string of length 0..3 over the structural alphabet at every string node of the
			// first document and of the hand-written (fully populated) documents
			isHand := false
			for _, h := range handDocs[t.name] {
				var hd any
				if json.Unmarshal([]byte(h), &hd) == nil && bytes.Equal(jmarshal(hd), jmarshal(doc)) {
					isHand = true
				}
			}
			if di == 0 || isHand {
				ks := 0
				jwalk(doc, nil, func(p jpath, n any) {
					if _, ok := n.(string); !ok || len(p) == 0 {
						return
					}
					for _, str := range shortStrings() {
						for _, val := range []bool{false, true} {
							if val && len(str) > 2 {
								continue
							}
							cs := mkCase("json", t.name, val, jmarshal(jset(doc, p, str)), fmt.Sprintf("node-string->short-%s@%v #%d", str, p, di))
							if ks%8 == 0 {
								cs.Fam = "map"
							}
							ks++
							out = append(out, cs)
						}
					}
				})
			}
			full := jmarshal(doc)
			rng := c.Rand(fmt.Sprintf("jtrunc/%s/%d", t.name, di))
			for i := 0; i < 6 && len(full) > 1; i++ {
				out = append(out, mkCase("json", t.name, false, full[:rng.Intn(len(full))], "syntax-trunc#r"))
			}
		}
	case "long":
		out = genLongCases(c, u, tn)
	case "prim":
		if tn == "lenarg" {
			out = genLenArgCases(c.Rand("prim/lenarg"), sz.scale)
		} else {
			out = genPrimCases(c.Rand("prim"), sz.scale)
		}
	case "stream":
		if tn == "lenarg" {
			out = genStreamLenArgCases(c.Rand("stream/lenarg"))
		} else {
			out = genStreamCases(c.Rand("stream"), sz.scale)
		}
	case "util":
		out = genUtilCases(c.Rand("util"))
	}
	batchMu.Lock()
	batchCache[name] = out
	batchMu.Unlock()
	return out
}

// ---------------------------------------------------------------- child

type calib struct {
	MaxAllocValid      uint64  `json:"max_alloc_valid_input"`
	MaxAllocPerByte    float64 `json:"max_alloc_per_input_byte_valid"`
	MaxAllocNonViol    uint64  `json:"max_alloc_any_nonviolating_call"`
	MaxItersPerByteNum int     `json:"max_iters"`
	MaxAllocCase       string  `json:"max_alloc_case,omitempty"`
	// long inputs (>= 4 KiB): largest allocation per input byte of non-violating calls, per family / element-wise
	LongPerByte map[string]float64 `json:"long_input_max_alloc_per_byte,omitempty"`
	LongMaxOver map[string]uint64  `json:"long_input_max_alloc,omitempty"`
}

func runCase(c *vf.Ctx, r *runner, cs *Case, cal *calib, perFP map[string]int) {
	o, f := r.exec(cs)
	vs := judge(cs, &o, f)
	l := len(cs.input())
	c.Count("evaluations", 1)
	c.Count("calls:"+cs.Fam, 1)
	out := "err"
	switch {
	case o.panicked:
		out = "panic"
	case o.err == nil:
		out = "accepted"
		c.Count("accepted", 1)
		if o.n >= 0 && o.n < l {
			c.Count("accepted_with_leftover", 1)
		}
	default:
		c.Count("rejected", 1)
	}
	if cs.Val {
		c.Count("calls_validation_on", 1)
	}
	if o.iters > 0 {
		c.Count("calls_with_counted_element_decodes", 1)
		c.Count("counted_element_decodes", o.iters)
	}
	if l >= longMin {
		c.Count("long_input_cases:"+cs.Fam, 1)
		c.Count("long_input_"+out+":"+cs.Fam, 1)
		if cs.Rd > 0 {
			c.Count("long_input_chunked_reader_cases", 1)
		}
		if len(vs) == 0 && !o.errWrapOnly {
			key := cs.Fam
			if cs.K > longK {
				key += "/element-wise"
			}
			if cal.LongPerByte == nil {
				cal.LongPerByte, cal.LongMaxOver = map[string]float64{}, map[string]uint64{}
			}
			if r := float64(o.alloc) / float64(l); r > cal.LongPerByte[key] {
				cal.LongPerByte[key] = r
			}
			if o.alloc > cal.LongMaxOver[key] {
				cal.LongMaxOver[key] = o.alloc
			}
		}
	}
	if validatorCalls > 0 {
		c.Count("calls_reaching_a_registered_validator", 1)
		c.Count("validator_invocations", validatorCalls)
	}
	if strings.Contains(cs.Org, "->null@") {
		c.Count("null_mutants_tried:"+cs.Fam, 1)
		if cs.Val {
			c.Count("null_mutants_validation_on", 1)
		}
		c.Count("null_mutants_"+out, 1)
	}
	c.Count("mutation:"+cs.kind(), 1)
	if cs.kind() == "lenarg" {
		c.Count("lenarg_calls:"+cs.Fam, 1)
		if cs.Fam == "prim" {
			cls := lenargClass(cs)
			c.Count("lenarg_"+cls+"_"+out, 1)
			c.Distinct("lenarg_shapes", cs.Tgt+"|"+cs.Org+"|"+cls+"|"+out)
		}
	}
	for _, cl := range []string{"hexlen", "numstr", "hexform", "long", "short"} {
		if strings.Contains(cs.Org, "->"+cl+"-") {
			c.Count(cl+"_mutants_tried", 1)
			switch out {
			case "accepted":
				c.Count(cl+"_mutants_accepted", 1)
			case "err":
				c.Count(cl+"_mutants_rejected", 1)
			default:
				c.Count(cl+"_mutants_panicked", 1)
			}
		}
	}
	cls := out
	if out == "err" {
		cls = errClass(o.err)
	}
	c.Distinct("nontrivial", cs.Fam+"|"+cs.Tgt+"|"+strconv.FormatBool(cs.Val)+"|"+cs.kind()+"|"+cls)
	c.Distinct("targets", cs.Fam+"|"+cs.Tgt)
	c.Distinct("error_classes", cls)
	if len(vs) == 0 {
		if o.alloc > cal.MaxAllocNonViol && !o.errWrapOnly {
			cal.MaxAllocNonViol = o.alloc
			cal.MaxAllocCase = fmt.Sprintf("%s/%s val=%v %s in=%s p=%v", cs.Fam, cs.Tgt, cs.Val, cs.Org, cs.In, cs.P)
		}
		if cs.kind() == "valid" || cs.kind() == "full" {
			if o.alloc > cal.MaxAllocValid {
				cal.MaxAllocValid = o.alloc
			}
			if l >= 16 {
				if r := float64(o.alloc) / float64(l); r > cal.MaxAllocPerByte {
					cal.MaxAllocPerByte = r
				}
			}
		}
		if o.iters > cal.MaxItersPerByteNum {
			cal.MaxItersPerByteNum = o.iters
		}
	}
	if o.errWrapOnly {
		c.Count("alloc_excess_only_in_error_construction", 1)
		if perFP["note:errwrap"] == 0 {
			c.Note(o.errWrapNote)
		}
		perFP["note:errwrap"]++
	}
	for _, v := range vs {
		perFP[v.fp]++
		if perFP[v.fp] <= 4 {
			c.Violation(v.fp, v.what, cs)
		} else {
			c.Count("violations_not_forwarded", 1)
		}
		c.Count("violating_observations", 1)
	}
	if out == "accepted" && cs.kind() != "valid" && cs.kind() != "full" && c.WantSample() && l > 4 && cs.Fam == "serix" {
		c.Sample(map[string]any{"case": cs, "consumed": o.n, "alloc": o.alloc, "note": "hostile input accepted by the decoder"})
	}
}

func child(c *vf.Ctx) {
	if c.Child == "conc" {
		concChild(c)
		return
	}
	runtime.GOMAXPROCS(1)
	u := newUniverse()
	r := &runner{u: u}
	cal := &calib{}
	perFP := map[string]int{}
	switch c.Child {
	case "batch":
		// the parent streams the cases (one JSON object per line); the first argument is the index of the first one
		start, _ := strconv.Atoi(c.ChildArgs[1])
		sc := bufio.NewScanner(os.Stdin)
		sc.Buffer(make([]byte, 1<<20), 64<<20)
		i := start
		for sc.Scan() {
			var cs Case
			if err := json.Unmarshal(sc.Bytes(), &cs); err != nil {
				c.Inconclusive("child: unreadable case: " + err.Error())
				return
			}
			c.Mark(strconv.Itoa(i))
			runCase(c, r, &cs, cal, perFP)
			if i%1000 == 999 {
				c.FlushStats()
			}
			i++
		}
		c.Mark("done")
		c.Emit("calib", cal)
	case "one":
		b, _ := io.ReadAll(os.Stdin)
		var cs Case
		if err := json.Unmarshal(b, &cs); err != nil {
			c.Inconclusive("replay case unreadable: " + err.Error())
			return
		}
		c.Mark("0")
		runCase(c, r, &cs, cal, perFP)
		if os.Getenv("C02_DEBUG") != "" {
			o, f := r.exec(&cs)
			os.WriteFile(os.Getenv("C02_DEBUG"), []byte(fmt.Sprintf("debug: n=%d err=%v panic=%v alloc=%d iters=%d profile=%+v\n", o.n, o.err, o.panicked, o.alloc, o.iters, profileAllocs(func() { f() }))), 0o644)
		}
		c.Mark("done")
	}
}

// ---------------------------------------------------------------- parent

func fatalFingerprint(res *vf.ChildResult) (string, string) {
	class := "unknown"
	line := res.Fatal
	switch {
	case strings.Contains(line, "out of memory"), strings.Contains(line, "cannot allocate memory"):
		class = "out-of-memory"
	case strings.Contains(line, "stack overflow"), strings.Contains(res.Stderr, "goroutine stack exceeds"):
		class = "stack-overflow"
	case strings.HasPrefix(line, "panic:"):
		class = "unrecovered-panic"
	case line != "":
		class = panicClass(strings.TrimPrefix(line, "fatal error: "))
	}
	site := "unknown"
	for _, l := range strings.Split(res.Stderr, "\n") {
		if strings.HasPrefix(l, hivePrefix) {
			if i := strings.LastIndex(l, "("); i > 0 {
				site = shortFn(l[:i])
				break
			}
		}
	}
	return "fatal:" + class + ":" + site, line
}

var calMu sync.Mutex
var calAll calib

func mergeCal(res *vf.ChildResult) {
	for _, r := range res.Records {
		if r.Kind != "calib" {
			continue
		}
		var k calib
		if json.Unmarshal(r.V, &k) != nil {
			continue
		}
		calMu.Lock()
		if k.MaxAllocValid > calAll.MaxAllocValid {
			calAll.MaxAllocValid = k.MaxAllocValid
		}
		if k.MaxAllocPerByte > calAll.MaxAllocPerByte {
			calAll.MaxAllocPerByte = k.MaxAllocPerByte
		}
		if k.MaxAllocNonViol > calAll.MaxAllocNonViol {
			calAll.MaxAllocNonViol = k.MaxAllocNonViol
			calAll.MaxAllocCase = k.MaxAllocCase
		}
		for key, v := range k.LongPerByte {
			if calAll.LongPerByte == nil {
				calAll.LongPerByte, calAll.LongMaxOver = map[string]float64{}, map[string]uint64{}
			}
			if v > calAll.LongPerByte[key] {
				calAll.LongPerByte[key] = v
			}
			if k.LongMaxOver[key] > calAll.LongMaxOver[key] {
				calAll.LongMaxOver[key] = k.LongMaxOver[key]
			}
		}
		if k.MaxItersPerByteNum > calAll.MaxItersPerByteNum {
			calAll.MaxItersPerByteNum = k.MaxItersPerByteNum
		}
		calMu.Unlock()
	}
}

const childMemKB = 1 << 20 // ulimit -v 1 GiB: a 268 MB make survives and is measured, a GB-sized make kills the child (attributed through the mark)

func encodeCases(cases []Case) [][]byte {
	lines := make([][]byte, len(cases))
	for i := range cases {
		b, _ := json.Marshal(&cases[i])
		lines[i] = append(b, '\n')
	}
	return lines
}

func runBatch(c *vf.Ctx, u *universe, name string) {
	cases := genBatch(c, u, name)
	defer func() { batchMu.Lock(); delete(batchCache, name); batchMu.Unlock() }()
	lines := encodeCases(cases)
	start := 0
	deaths := 0
	for start < len(cases) {
		res := c.RunChild(vf.ChildOpts{Name: "batch", Args: []string{name, strconv.Itoa(start)}, MemKB: childMemKB,
			Stdin: bytes.Join(lines[start:], nil), Env: []string{"GOMAXPROCS=1"}, Timeout: time.Duration(c.Pick(4, 20)) * time.Minute})
		mergeCal(&res)
		if res.TimedOut {
			c.Inconclusive(fmt.Sprintf("batch %s: watchdog fired at case %s", name, res.LastMark))
			return
		}
		if res.ExitCode == 0 && res.LastMark == "done" {
			return
		}
		idx, err := strconv.Atoi(res.LastMark)
		if err != nil || idx < start || idx >= len(cases) {
			c.Inconclusive(fmt.Sprintf("batch %s: child died outside a case (mark %q, exit %d, %s)", name, res.LastMark, res.ExitCode, res.Fatal))
			return
		}
		cs := cases[idx]
		fp, line := fatalFingerprint(&res)
		c.Count("evaluations", 1)
		c.Count("calls:"+cs.Fam, 1)
		c.Count("child_deaths", 1)
		c.Violation(fp, fmt.Sprintf("decoder call killed the process (%s): %s into %s (validation=%v, %s, %d input bytes)", line, cs.Fam, cs.Tgt, cs.Val, cs.Org, len(cs.input())), cs)
		deaths++
		if deaths > 5000 {
			c.Inconclusive(fmt.Sprintf("batch %s: more than 5000 child deaths", name))
			return
		}
		start = idx + 1
	}
}

func replay(c *vf.Ctx) {
	var cs Case
	if err := c.LoadReplay(&cs); err != nil {
		fmt.Fprintln(os.Stderr, err)
		os.Exit(3)
	}
	if cs.Fam == "" {
		// a finding of the concurrent family (dead-lock / race / panic under concurrency): the interleaving cannot be
		// replayed exactly; the rounds of the tier are run again (same seed => same case lists)
		runConc(c, "plain", c.Pick(concPlainQuick, concPlainThorough), concPer)
		runConc(c, "race", c.Pick(concRaceQuick, concRaceThorough), concPer)
		return
	}
	b, _ := json.Marshal(cs)
	res := c.RunChild(vf.ChildOpts{Name: "one", Stdin: b, MemKB: childMemKB, Env: []string{"GOMAXPROCS=1"}, Timeout: 5 * time.Minute})
	if res.TimedOut {
		c.Inconclusive("replay: watchdog fired")
		return
	}
	if res.ExitCode != 0 || res.LastMark != "done" {
		fp, line := fatalFingerprint(&res)
		c.Count("evaluations", 1)
		c.Violation(fp, fmt.Sprintf("decoder call killed the process (%s): %s into %s (%s)", line, cs.Fam, cs.Tgt, cs.Org), cs)
	}
}

func run(c *vf.Ctx) {
	if c.Replay != "" {
		replay(c)
		return
	}
	c.SetRule("each evaluation is one call of a decoder entry point (serix.Decode into one of ~55 registered destination types (several with registered syntactic validators, reached through optional / non-optional pointer fields, slices of pointers with MustOccur / uniqueness / ordering rules, map values, top-level pointers) incl. ds.Set/SerializableOrderedMap.Decode; JSONDecode/MapDecode; 19 Deserializer primitives and chains of them; 10 stream Read* helpers; typeutils) on one input, in a GOMAXPROCS=1 child under ulimit -v, observed by recover, returned (n, err), MemStats.TotalAlloc delta and a count of element-decoder invocations. Binary inputs: seeded valid encodings, every truncation, 8/16/32-bit substitution of {0,1,2,3,±1,0x7f..,0xff..,2^28,…} at every (sampled above 40/120 bytes) offset, bit flips, splices, insert/delete, random strings 0–64 bytes; JSON: every node of every valid document replaced by every other JSON kind and by out-of-range/fractional/negative numbers and bad hex / numeric strings; every string node additionally by well-formed 0x-hex decoding to 0, 1, N-1, N+1, 2N, 1000 (and 3/5/9/31/33) bytes where N is the original decoded length, by numeric-string spellings (too many digits, leading zeros, signs, exponent, blanks, int64/uint64 borders), by every string of length 0..3 over the alphabet {0,x,X,1,a,g,-,+,.,e} (first and hand-written fully populated documents; also fed directly to serix.DecodeHex/DecodeUint256/DecodeUint64), by hex-form ambiguities (no prefix, odd digits, upper case, 256/257-bit quantities) and, in the first document of each target, by 64 KiB strings (plain, digits, valid hex); every member removed, extra members; all x validation on/off. Long inputs for every family (stream helpers through plain, one-byte, 4096- and 4097-byte-chunk readers; Deserializer byte-slice/string/sequence/payload primitives; serix []byte/string/[]uint16/map/[]custom destinations with uint16/uint32 prefixes; JSON strings): 4 KiB, 4 KiB+1, 8 KiB, 64 KiB and 1 MiB of real data behind a prefix denoting exactly the data, data±1, 2x, 2^28, 2^31, the maximum of the width and (uint64) 2^40, 2^63-1, 2^63; for these the allocation bound is additionally capped at 16 MiB + K*len (K=16, element-wise serix 64; measured maxima in calibration). distinct_nontrivial counts distinct (family, target, validation, mutation kind, outcome class) tuples, outcome class = accepted | panic | root error message with numbers stripped – i.e. distinct decoder behaviours actually reached per target and mutation. Length/count ARGUMENTS (lenarg batches): Deserializer.Skip / ReadBytes / ReadBytesInPlace and the min/max bounds of ReadVariableByteSlice / ReadString / ArrayRules of ReadSequenceOfObjects / ReadSliceOfObjects, stream.ReadBytes / ReadObject, with n over {0, 1, remaining-1..+2, len, 2^8..2^24, MaxInt32(+1), MaxUint32(+1), 2^40, 2^62, MaxInt64-offset-1..+1, MaxInt64-len.., MaxInt64-16/-8/-1/-0, negatives down to MinInt64} at offsets start / 1 / mid / last / end reached by five kinds of earlier successful reads, followed by RemainingBytes, one more read and Done; lenarg_shapes counts distinct (operation, offset class, argument class, outcome). Concurrent family (conc, own children, plain and -race): per round a fresh serix.API with the whole universe plus map/slice/struct types whose elements are pointers to registered-by-value types, interface-typed map values / slice elements / fields and nestings of them; 6 goroutines decode valid and cut encodings/documents of every target (binary, JSON, map form, validation off/on) while 3 goroutines keep calling RegisterTypeSettings / RegisterValidator / RegisterInterfaceObjects with fresh types on the same API until the decoders are done; judged structurally (all goroutines parked in 3 consecutive snapshots before the round finished => decoders parked below an exported serix entry never return), by recover / process death, and by race reports whose two access stacks lie in hive.go/serializer")
	u := newUniverse()
	bs := batchNames(u)
	if only := os.Getenv("C02_ONLY"); only != "" { // debugging aid: restrict to batches with this prefix
		var f []string
		for _, b := range bs {
			if strings.HasPrefix(b, only) {
				f = append(f, b)
			}
		}
		bs = f
		c.Inconclusive("C02_ONLY set: partial run")
	}
	workers := runtime.NumCPU() * 3 / 4
	if workers < 2 {
		workers = 2
	}
	// the concurrent family runs next to the batches (its children use all CPUs; started first, they take longest)
	for _, k := range []string{"conc/plain", "conc/race"} {
		if only := os.Getenv("C02_ONLY"); only == "" || strings.HasPrefix(k, only) {
			bs = append([]string{k}, bs...)
		}
	}
	vf.Parallel(len(bs), workers, func(i int) {
		t0 := time.Now()
		switch bs[i] {
		case "conc/plain":
			runConc(c, "plain", c.Pick(concPlainQuick, concPlainThorough), concPer)
		case "conc/race":
			runConc(c, "race", c.Pick(concRaceQuick, concRaceThorough), concPer)
		default:
			runBatch(c, u, bs[i])
		}
		if os.Getenv("C02_TIMES") != "" {
			fmt.Fprintf(os.Stderr, "batch %-28s %6.1fs\n", bs[i], time.Since(t0).Seconds())
		}
	})
	c.Count("batches", len(bs))
	c.Extra("calibration", calAll)
	c.Extra("alloc_bound", fmt.Sprintf("min(%d + %d*len(input), for len >= %d: %d + K*len(input) with K=%d byte-wise, K=%d element-wise serix)", allocBase, allocPerByte, longMin, longBase, longK, kElem))
	c.SetExhaustive(false)
	c.Require("evaluations", c.Pick(100000, 2000000))
	c.Require("accepted", 3000)
	c.Require("calls:serix", c.Pick(60000, 1000000))
	c.Require("calls:json", c.Pick(15000, 200000))
	c.Require("calls:map", 3000)
	c.Require("hexlen_mutants_tried", 3000)
	c.Require("hexlen_mutants_accepted", 200)
	c.Require("numstr_mutants_tried", 3000)
	c.Require("hexform_mutants_tried", 2000)
	c.Require("long_mutants_tried", 100)
	c.Require("short_mutants_tried", 50000)
	c.Require("calls_reaching_a_registered_validator", 5000)
	c.Require("null_mutants_tried:json", 2000)
	c.Require("null_mutants_tried:map", 2000)
	c.Require("null_mutants_validation_on", 2000)
	c.Require("short_mutants_accepted", 500)
	c.Require("long_input_cases:stream", 1000)
	c.Require("long_input_cases:prim", 400)
	c.Require("long_input_cases:serix", 300)
	c.Require("long_input_cases:json", 300)
	c.Require("long_input_chunked_reader_cases", 800)
	c.Require("long_input_accepted:stream", 50)
	c.Require("long_input_accepted:serix", 20)
	c.Require("calls:prim", 5000)
	c.Require("calls:stream", 3000)
	c.Require("calls:util", 100)
	c.Require("calls_with_counted_element_decodes", 3000)
	c.Require("calls_validation_on", 30000)
	// length / count arguments of the primitives
	c.Require("lenarg_calls:prim", 5000)
	c.Require("lenarg_calls:stream", 800)
	c.Require("lenarg_length-beyond-input_err", 1500)
	c.Require("lenarg_length-within-input_accepted", 200)
	c.Require("lenarg_shapes", 60)
	// concurrent family: what the harness itself drives (rounds, calls); real overlap scales with the CPUs available
	ov := runtime.NumCPU()
	if ov > 4 {
		ov = 4
	}
	c.Require("conc_rounds", c.Pick(concPlainQuick+concRaceQuick, concPlainThorough+concRaceThorough))
	c.Require("conc_decodes", c.Pick(100000, 4000000))
	c.Require("conc_accepted", c.Pick(30000, 1000000))
	c.Require("conc_targets", 100)
	c.Require("conc_accepted_targets", 80)
	c.Require("conc_decodes_while_registrars_live", c.Pick(40000, 1500000)*ov/4)
	c.Require("conc_registrations_type_settings", c.Pick(2000, 80000)*ov/4)
	c.Require("conc_registrations_validator", c.Pick(600, 25000)*ov/4)
	c.Require("conc_registrations_interface_objects", c.Pick(600, 25000)*ov/4)
	c.Assume("runtime.MemStats.TotalAlloc is exact for a single-goroutine child (GOMAXPROCS=1)")
	c.Assume("a child killed by the Go runtime (out of memory under ulimit -v, stack overflow) died in the case it marked last")
}

func main() { vf.Main("C02", "exploration", run, child) }
