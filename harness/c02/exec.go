package main

// Execution of one hostile case under recover + runtime.MemStats, and classification
// of the refuting observations of C02 into stable fingerprints.

import (
	"encoding/hex"
	"encoding/json"
	"fmt"
	"regexp"
	"runtime"
	"sort"
	"strings"

	"github.com/iotaledger/hive.go/serializer/v2/serix"
)

// Case is one decoder call; it is self-contained (replayable).
type Case struct {
	Fam  string    `json:"fam"`         // serix | json | map | prim | stream | util
	Tgt  string    `json:"tgt"`         // target type / operation
	Val  bool      `json:"val"`         // validation on
	In   string    `json:"in"`          // input, hex (empty when Long is set)
	P    []int64   `json:"p,omitempty"` // numeric parameters of primitive operations
	Org  string    `json:"org"`         // provenance: mutation kind (+ detail)
	Txt  string    `json:"txt,omitempty"`
	Long *LongSpec `json:"long,omitempty"` // long input, described instead of spelled out
	Rd   int       `json:"rd,omitempty"`   // stream family: 0 plain reader, 1 one byte per Read, n>1 chunks of n bytes
	K    int       `json:"k,omitempty"`    // long-input rule: allowed allocation per input byte (default 16)

	in []byte
}

// LongSpec describes Pre ++ pattern(N, Pat) ++ Tail.
type LongSpec struct {
	Pre  string `json:"pre"`  // hex
	N    int    `json:"n"`    // payload length
	Pat  int    `json:"pat"`  // 0 byte pattern, 1 'a', 2 hex digits, 3 '9', 4 8-byte blocks BE32(j)BE32(j) (sorted, unique keys)
	Tail string `json:"tail"` // hex
}

func (l *LongSpec) build() []byte {
	pre, _ := hex.DecodeString(l.Pre)
	tail, _ := hex.DecodeString(l.Tail)
	b := make([]byte, 0, len(pre)+l.N+len(tail))
	b = append(b, pre...)
	for i := 0; i < l.N; i++ {
		switch l.Pat {
		case 1:
			b = append(b, 'a')
		case 2:
			b = append(b, "0123456789abcdef"[(i*7+3)&15])
		case 3:
			b = append(b, '9')
		case 4:
			b = append(b, byte(uint32(i/8)>>(8*uint(3-i%4))))
		default:
			b = append(b, byte(i*31+i>>8+1))
		}
	}
	return append(b, tail...)
}

func (cs *Case) input() []byte {
	if cs.in == nil {
		if cs.Long != nil {
			cs.in = cs.Long.build()
		} else {
			cs.in, _ = hex.DecodeString(cs.In)
		}
		if cs.in == nil {
			cs.in = []byte{}
		}
	}
	return cs.in
}

func mkLong(fam, tgt string, val bool, pre []byte, n, pat int, tail []byte, org string, k int, p ...int64) Case {
	return Case{Fam: fam, Tgt: tgt, Val: val, Org: org, P: p, K: k,
		Long: &LongSpec{Pre: hex.EncodeToString(pre), N: n, Pat: pat, Tail: hex.EncodeToString(tail)}}
}

func mkCase(fam, tgt string, val bool, in []byte, org string, p ...int64) Case {
	cs := Case{Fam: fam, Tgt: tgt, Val: val, In: hex.EncodeToString(in), Org: org, P: p}
	if (fam == "json" || fam == "map") && len(in) <= 4096 {
		cs.Txt = string(in)
	}
	return cs
}

// kind returns the mutation kind without detail ("trunc@5" -> "trunc").
func (cs *Case) kind() string {
	k := cs.Org
	if i := strings.IndexAny(k, "@# "); i >= 0 {
		k = k[:i]
	}
	if i := strings.Index(k, "->"); i >= 0 { // node-number->string-badhex => node-number->string
		if j := strings.Index(k[i+2:], "-"); j >= 0 {
			k = k[:i+2+j]
		}
	}
	return k
}

type outcome struct {
	entry    string // entry point, for fingerprints
	n        int    // consumed bytes (-1: entry point does not report)
	err      error
	panicked bool
	panicMsg string
	panicFn  string
	alloc    uint64
	iters    int // element decoder invocations (-1: not counted for this entry)

	errWrapOnly bool // TotalAlloc above the bound, but only through error-message construction
	errWrapNote string

	fpTag string    // argument class appended to panic fingerprints (lenarg family), else ""
	extra []verdict // refuting observations made inside the case closure (beyond n, err, panic, alloc, iterations)
}

// extraVerdicts is filled by case closures that check more than the returned (n, err); call() moves it into the outcome.
var extraVerdicts []verdict

const hivePrefix = "github.com/iotaledger/hive.go/"

var genericRe = regexp.MustCompile(`\[[^\]]*\]`)

func shortFn(fn string) string {
	fn = strings.TrimPrefix(fn, hivePrefix)
	fn = strings.TrimPrefix(fn, "serializer/v2/")
	fn = strings.Replace(fn, "serializer/v2.", "serializer.", 1)
	fn = genericRe.ReplaceAllString(fn, "")
	for {
		i := strings.LastIndex(fn, ".")
		if i < 0 {
			break
		}
		suf := fn[i+1:]
		if strings.HasPrefix(suf, "func") || (len(suf) > 0 && suf[0] >= '0' && suf[0] <= '9') {
			fn = fn[:i]
			continue
		}
		break
	}
	return fn
}

// panicSite returns the innermost hive.go function on the panicking stack.
func panicSite() string {
	pcs := make([]uintptr, 96)
	n := runtime.Callers(2, pcs)
	fr := runtime.CallersFrames(pcs[:n])
	seenPanic := false
	for {
		f, more := fr.Next()
		if strings.HasPrefix(f.Function, "runtime.gopanic") || f.Function == "runtime.sigpanic" || strings.HasPrefix(f.Function, "runtime.panic") || strings.HasPrefix(f.Function, "runtime.goPanic") {
			seenPanic = true
		} else if seenPanic && strings.HasPrefix(f.Function, hivePrefix) {
			return shortFn(f.Function)
		}
		if !more {
			break
		}
	}
	return "unknown"
}

func panicClass(msg string) string {
	switch {
	case strings.Contains(msg, "interface conversion"):
		return "interface-conversion"
	case strings.Contains(msg, "slice bounds out of range"):
		return "slice-bounds"
	case strings.Contains(msg, "index out of range"):
		return "index-range"
	case strings.Contains(msg, "makeslice"):
		return "makeslice-len"
	case strings.Contains(msg, "nil pointer"), strings.Contains(msg, "nil map"):
		return "nil-deref"
	case strings.Contains(msg, "unaddressable"):
		return "reflect-unaddressable"
	case strings.HasPrefix(msg, "reflect"):
		return "reflect-misuse"
	}
	var b strings.Builder
	for _, r := range msg {
		if b.Len() >= 32 {
			break
		}
		switch {
		case r >= 'a' && r <= 'z' || r >= 'A' && r <= 'Z':
			b.WriteRune(r)
		case r == ' ' || r == '-' || r == '_':
			b.WriteByte('-')
		}
	}
	return b.String()
}

// iterBomb is thrown by the harness-controlled element decoders once a call has invoked
// them far more often than its input has bytes: the refutation is established, so the call
// is aborted instead of being left to loop up to 2^32 times.
type iterBomb struct{}

var iterLimit = 1 << 62

func countDecode(counter *int) {
	if concMode { // concurrent family: the per-call iteration rule is not applied, only an atomic total is kept
		concElemDecodes.Add(1)
		return
	}
	*counter++
	if elemDecodes+objDecodes > iterLimit {
		panic(iterBomb{})
	}
}

// call runs f under recover and measures TotalAlloc growth and element decodes.
func call(o *outcome, l int, f func() (int, error)) {
	var m0, m1 runtime.MemStats
	elemDecodes = 0
	objDecodes = 0
	validatorCalls = 0
	iterLimit = 8*l + 4096
	extraVerdicts = nil
	runtime.ReadMemStats(&m0)
	func() {
		defer func() {
			if p := recover(); p != nil {
				if _, ok := p.(iterBomb); ok {
					o.err = fmt.Errorf("aborted by the harness: element decoders invoked more than %d times", iterLimit)
					return
				}
				o.panicked = true
				o.panicFn = panicSite()
				o.panicMsg = fmt.Sprint(p)
			}
		}()
		o.n, o.err = f()
	}()
	runtime.ReadMemStats(&m1)
	o.alloc = m1.TotalAlloc - m0.TotalAlloc
	o.iters = elemDecodes + objDecodes
	iterLimit = 1 << 62
	o.extra, extraVerdicts = extraVerdicts, nil
}

// allocProfile is the exact per-site account of one re-run of a call (MemProfileRate=1).
type allocProfile struct {
	site     string // hive.go function owning the largest allocation outside error construction
	nonErr   int64  // bytes allocated under hive.go frames, outside error construction
	errBytes int64  // bytes allocated while building error values (ierrors.*, fmt.Errorf, errors.*)
}

// profileAllocs re-runs f with every allocation profiled and splits the allocated bytes
// into "error construction" (nested ierrors.Wrapf messages grow quadratically with the
// nesting depth, which is input-bounded and not driven by a length field) and the rest.
func profileAllocs(f func()) allocProfile {
	type cls struct {
		isErr bool
		hive  string
	}
	classify := func(st [32]uintptr) cls {
		r := runtime.MemProfileRecord{Stack0: st}
		fr := runtime.CallersFrames(r.Stack())
		var c cls
		for {
			f, more := fr.Next()
			switch {
			case strings.HasPrefix(f.Function, hivePrefix+"ierrors."), strings.HasPrefix(f.Function, "fmt.Errorf"), strings.HasPrefix(f.Function, "errors."):
				c.isErr = true
			case c.hive == "" && strings.HasPrefix(f.Function, hivePrefix):
				c.hive = shortFn(f.Function)
			}
			if !more {
				return c
			}
		}
	}
	// buckets are keyed by (stack, size) in the runtime: sum per stack
	snap := func() map[[32]uintptr]int64 {
		runtime.GC()
		runtime.GC()
		n, _ := runtime.MemProfile(nil, true)
		for {
			p := make([]runtime.MemProfileRecord, n+256)
			k, ok := runtime.MemProfile(p, true)
			if ok {
				m := make(map[[32]uintptr]int64, k)
				for i := range p[:k] {
					m[p[i].Stack0] += p[i].AllocBytes
				}
				return m
			}
			n = k
		}
	}
	old := runtime.MemProfileRate
	runtime.MemProfileRate = 1
	before := snap()
	func() {
		defer func() { recover() }()
		f()
	}()
	runtime.MemProfileRate = old
	after := snap()
	var res allocProfile
	var bestD int64
	for st, a := range after {
		d := a - before[st]
		if d <= 0 {
			continue
		}
		c := classify(st)
		switch {
		case c.isErr:
			res.errBytes += d
		case c.hive != "":
			res.nonErr += d
			if d > bestD {
				bestD, res.site = d, c.hive
			}
		}
	}
	if res.site == "" {
		res.site = "unattributed"
	}
	return res
}

const allocBase = 1 << 20
const allocPerByte = 1024

// long-input rule: from longMin input bytes on the bound is additionally capped by
// longBase + K*len (K = 16 for byte-wise decoders, larger for element-wise serix decoding,
// calibrated on the unchanged tree, see evidence), so that an allocation that follows the
// length PREFIX instead of the data is also caught when 1024*len is already hundreds of MiB.
const longMin = 4096
const longBase = 16 << 20
const longK = 16

func allocBound(cs *Case, l int) int {
	b := allocBase + allocPerByte*l
	if l >= longMin {
		k := cs.K
		if k == 0 {
			k = longK
		}
		if lb := longBase + k*l; lb < b {
			b = lb
		}
	}
	return b
}

// runner executes cases inside a child process.
type runner struct {
	u *universe
}

// exec runs the case and returns the outcome plus the closure (for re-runs).
func (r *runner) exec(cs *Case) (outcome, func() (int, error)) {
	in := cs.input()
	o := outcome{n: -1, iters: -1}
	var f func() (int, error)
	switch cs.Fam {
	case "serix":
		t := r.u.byName[cs.Tgt]
		o.entry = t.entry
		f = func() (int, error) { return t.decode(r.u, in, cs.Val) }
	case "json", "map":
		t := r.u.byName[cs.Tgt]
		o.entry = "serix.JSONDecode"
		opts := []serix.Option{}
		if cs.Val {
			opts = append(opts, serix.WithValidation())
		}
		if cs.Fam == "json" {
			f = func() (int, error) {
				return -1, r.u.api.JSONDecode(ctxBG, in, newDest(t), opts...)
			}
		} else {
			o.entry = "serix.MapDecode"
			m := map[string]any{}
			if err := json.Unmarshal(in, &m); err != nil {
				m = map[string]any{}
			}
			f = func() (int, error) { return -1, r.u.api.MapDecode(ctxBG, m, newDest(t), opts...) }
		}
	case "prim":
		o.entry = "Deserializer." + cs.Tgt
		if isLenarg(cs) {
			// the argument class distinguishes defects only where the argument is the hostile part
			if cl := lenargClass(cs); cl == "length-beyond-input" {
				o.fpTag = "[" + cl + "]"
			}
			o.entry = "Deserializer." + strings.TrimPrefix(cs.Tgt, lenargPrefix) + o.fpTag
		}
		f = primFunc(cs, in)
	case "stream":
		o.entry = "stream." + cs.Tgt
		f = streamFunc(cs, in)
	case "util":
		o.entry = "typeutils." + cs.Tgt
		if strings.Contains(cs.Tgt, ".") {
			o.entry = cs.Tgt
		}
		f = utilFunc(cs, in)
	}
	if f == nil {
		o.err = fmt.Errorf("unknown case family/target %s/%s", cs.Fam, cs.Tgt)
		return o, nil
	}
	call(&o, len(in), f)
	return o, f
}

type verdict struct {
	fp, what string
}

// judge applies the refuting observations of C02 to one outcome.
func judge(cs *Case, o *outcome, f func() (int, error)) []verdict {
	var vs []verdict
	l := len(cs.input())
	if o.panicked {
		vs = append(vs, verdict{"panic:" + o.panicFn + ":" + panicClass(o.panicMsg) + o.fpTag,
			fmt.Sprintf("%s into %s (validation=%v, %s, %d input bytes) panicked in %s: %s", o.entry, cs.Tgt, cs.Val, cs.Org, l, o.panicFn, o.panicMsg)})
	}
	if !o.panicked && o.n != -1 && (o.n < 0 || o.n > l) {
		vs = append(vs, verdict{"consumed-out-of-range:" + o.entry,
			fmt.Sprintf("%s into %s (validation=%v, %s) reported %d consumed bytes for %d input bytes (err=%v)", o.entry, cs.Tgt, cs.Val, cs.Org, o.n, l, o.err)})
	}
	if bound := allocBound(cs, l); o.alloc > uint64(bound) {
		// TotalAlloc is the trigger; the exact profile of a re-run decides (see profileAllocs)
		pr := allocProfile{site: "unattributed", nonErr: int64(o.alloc)}
		if f != nil {
			pr = profileAllocs(func() {
				elemDecodes, objDecodes, iterLimit = 0, 0, 8*l+4096
				defer func() { iterLimit = 1 << 62 }()
				f()
			})
		}
		if pr.nonErr > int64(bound) {
			vs = append(vs, verdict{"alloc:" + pr.site,
				fmt.Sprintf("%s into %s (validation=%v, %s) allocated %d bytes for %d input bytes (bound %d; %d outside error construction); largest allocation site %s", o.entry, cs.Tgt, cs.Val, cs.Org, o.alloc, l, bound, pr.nonErr, pr.site)})
		} else {
			o.errWrapOnly = true
			o.errWrapNote = fmt.Sprintf("%s into %s (%s, %d input bytes) allocated %d bytes, of which %d while building nested error messages and %d elsewhere (bound %d): not counted, the growth is quadratic in the input-bounded nesting depth, not driven by a length field", o.entry, cs.Tgt, cs.Org, l, o.alloc, pr.errBytes, pr.nonErr, bound)
		}
	}
	vs = append(vs, o.extra...)
	if isLenarg(cs) && param(cs, 2) < 0 && len(vs) > 0 {
		// one defect class, whatever the symptom (negative offset reported by Done, panic in the call or in a later read)
		op := strings.TrimPrefix(cs.Tgt, lenargPrefix)
		what := vs[0].what
		vs = []verdict{{"negative-length:Deserializer." + op, fmt.Sprintf("negative length/bound argument (%d) at offset %d of %d input bytes: %s", param(cs, 2), param(cs, 0), l, what)}}
	}
	if o.iters > l+1 {
		vs = append(vs, verdict{"iterations:" + o.entry,
			fmt.Sprintf("%s into %s (validation=%v, %s) invoked element decoders %d times for %d input bytes", o.entry, cs.Tgt, cs.Val, cs.Org, o.iters, l)})
	}
	return vs
}

var digitsRe = regexp.MustCompile(`[0-9]+|0x[0-9a-fA-F]+`)

// errClass compresses an error into a short class (root cause, numbers stripped).
func errClass(err error) string {
	if err == nil {
		return "ok"
	}
	s := err.Error()
	if i := strings.LastIndex(s, ": "); i >= 0 && i+2 < len(s) {
		s = s[i+2:]
	}
	s = digitsRe.ReplaceAllString(s, "#")
	if len(s) > 40 {
		s = s[:40]
	}
	return s
}

func sortedKeys(m map[string]any) []string {
	ks := make([]string, 0, len(m))
	for k := range m {
		ks = append(ks, k)
	}
	sort.Strings(ks)
	return ks
}
