package main

// Concurrent family: "the call RETURNS" while the same serix API is being extended.
//
// serix is built for concurrent use (its three registries and the struct-field cache carry
// mutexes): decoders run in many goroutines while other goroutines still register type
// settings, validators and interface objects.  Totality therefore also means that a decode
// call returns under that interleaving.  One round = a fresh universe (fresh serix.API with
// the whole static universe of the sequential families plus types whose map / slice / struct
// elements are POINTERS to registered-by-value types, interface-typed fields, map values and
// slice elements, and nested combinations), D decoder goroutines that decode valid and cut
// encodings / documents of every target in binary, JSON and map form, validation off and on,
// and W registrar goroutines that keep calling RegisterTypeSettings / RegisterValidator /
// RegisterInterfaceObjects with types that are fresh for this API until the decoders are done.
//
// Verdicts (structural, no duration): every goroutine of the round parked on a
// synchronisation primitive in three consecutive stop-the-world snapshots while the round has
// not finished => the decoders that are parked below an exported serix entry point never
// return ("decode-never-returns:<entry>"); a recovered panic; a process death (e.g. the
// runtime's concurrent map access check, or its own dead-lock detector); in the -race twin a
// data race whose two access stacks lie in hive.go/serializer.  A watchdog firing is
// INCONCLUSIVE.  Not demanded: any particular result of a decode (a target may start to
// accept further object codes while it is being extended), any order of registrations, that
// decoding and registering really are lock-free or fair.

import (
	"context"
	"encoding/json"
	"fmt"
	"math/rand"
	"os"
	"reflect"
	"runtime"
	"sort"
	"strconv"
	"strings"
	"sync"
	"sync/atomic"
	"time"

	"github.com/iotaledger/hive.go/serializer/v2/serix"

	"verif/harness/internal/gdump"
	"verif/harness/internal/vf"
)

var (
	concMode           bool // set once at the start of a conc child, before any goroutine is started
	concRace           bool // -race twin: no shared counters at all (atomics would order the decoders and hide races)
	concValidatorCalls atomic.Int64
	concElemDecodes    atomic.Int64
)

// ---------------------------------------------------------------- extra types of the concurrent universe

// ConcAny is a named empty interface: every type the registrars add implements it.
type ConcAny interface{}

type CLeaf struct {
	A uint8  `serix:""`
	B uint16 `serix:""`
}

// CObj and CObj2 are registered BY VALUE with object codes and reached through pointers / the interface ConcAny.
type CObj struct {
	X uint8  `serix:""`
	L *CLeaf `serix:",optional"`
}
type CObj2 struct {
	Y NStr     `serix:""`
	M CMapPV   `serix:""`
	S []*CLeaf `serix:",lenPrefix=uint8"`
}

type (
	CMapPV    map[uint8]*CLeaf   // values are pointers to a registered-by-value type
	CMapPO    map[NStr]*CObj     // values are pointers to a registered-by-value type with an object code
	CSlicePV  []*CLeaf           //
	CSlicePO  []*CObj            //
	CMapIface map[uint8]ConcAny  //
	CMapMap   map[uint8]CMapPV   //
	CMapSlice map[NStr]CSlicePV  //
	CSliceMap []CMapPO           //
	CPtrMap   map[uint16]*CMapPV // pointer to a registered map type as map value
)

type CNest struct {
	M   CMapPV    `serix:""`
	MO  CMapPO    `serix:""`
	S   CSlicePV  `serix:""`
	SO  CSlicePO  `serix:""`
	MI  CMapIface `serix:""`
	MM  CMapMap   `serix:""`
	MS  CMapSlice `serix:""`
	SM  CSliceMap `serix:""`
	I   ConcAny   `serix:""`
	IO  ConcAny   `serix:",optional"`
	IS  []ConcAny `serix:",lenPrefix=uint8"`
	P   *CObj     `serix:""`
	PO  *CObj2    `serix:",optional"`
	PM  *CMapPV   `serix:",optional"`
	Sh  Shape     `serix:""`
	V   *Valid    `serix:",optional"`
	Pts VMap      `serix:""`
}

type CHolder struct {
	A ConcAny `serix:""`
	B uint8   `serix:""`
}

// registerConc adds the types above to a fresh universe and returns the names of the added targets.
func registerConc(u *universe) {
	api := u.api
	ts := serix.TypeSettings{}
	lp8 := serix.LengthPrefixTypeAsByte
	must(api.RegisterTypeSettings(CLeaf{}, ts))
	must(api.RegisterTypeSettings(CObj{}, ts.WithObjectType(uint32(7))))
	must(api.RegisterTypeSettings(CObj2{}, ts.WithObjectType(uint32(8))))
	must(api.RegisterInterfaceObjects((*ConcAny)(nil), (*CObj)(nil), (*CObj2)(nil)))
	u.impls[reflect.TypeOf((*ConcAny)(nil)).Elem()] = []reflect.Type{reflect.TypeOf(&CObj{}), reflect.TypeOf(&CObj2{})}
	for _, z := range []any{CMapPV{}, CMapPO{}, CSlicePV{}, CSlicePO{}, CMapIface{}, CMapMap{}, CMapSlice{}, CSliceMap{}, CPtrMap{}} {
		must(api.RegisterTypeSettings(z, ts.WithLengthPrefixType(lp8)))
	}
	must(api.RegisterValidator(CLeaf{}, func(_ context.Context, l CLeaf) error { bumpValidator(); return nil }))
	must(api.RegisterValidator(&CObj{}, func(_ context.Context, o *CObj) error { bumpValidator(); return nil }))
	must(api.RegisterValidator(CMapPV{}, func(_ context.Context, m CMapPV) error { bumpValidator(); return nil }))
	add := func(name string, zero any, js bool) {
		t := reflect.TypeOf(zero)
		tg := &target{name: name, typ: t, json: js, entry: "serix.Decode"}
		tg.gen = func(u *universe, rng *rand.Rand) any {
			v := reflect.New(t)
			u.fill(v.Elem(), rng, 0)
			return v.Interface()
		}
		tg.encode = func(u *universe, v any) ([]byte, error) { return u.api.Encode(ctxBG, v) }
		tg.decode = func(u *universe, in []byte, validate bool) (int, error) {
			dst := reflect.New(t).Interface()
			if validate {
				return u.api.Decode(ctxBG, in, dst, serix.WithValidation())
			}
			return u.api.Decode(ctxBG, in, dst)
		}
		u.targets = append(u.targets, tg)
		u.byName[name] = tg
	}
	add("CMapPV", CMapPV{}, true)
	add("CMapPO", CMapPO{}, true)
	add("CSlicePV", CSlicePV{}, false)
	add("CSlicePO", CSlicePO{}, false)
	add("CMapIface", CMapIface{}, true)
	add("CMapMap", CMapMap{}, true)
	add("CMapSlice", CMapSlice{}, true)
	add("CSliceMap", CSliceMap{}, false)
	add("CPtrMap", CPtrMap{}, true)
	add("CNest", CNest{}, true)
	add("CHolder", CHolder{}, true)
	add("CObj2", CObj2{}, true)
	add("PtrCObj", (*CObj)(nil), true)
}

var concHandDocs = map[string][]string{
	"CMapPV":    {`{"1":{"a":1,"b":2},"7":{"a":9,"b":0}}`},
	"CMapPO":    {`{"k":{"type":7,"x":1,"l":{"a":1,"b":2}},"":{"type":7,"x":0}}`},
	"CMapIface": {`{"1":{"type":7,"x":1},"2":{"type":8,"y":"s","m":{"3":{"a":1,"b":1}},"s":[{"a":1,"b":2}]}}`},
	"CMapMap":   {`{"1":{"2":{"a":1,"b":2}},"3":{}}`},
	"CMapSlice": {`{"a":[{"a":1,"b":2},{"a":3,"b":4}],"b":[]}`},
	"CPtrMap":   {`{"1":{"2":{"a":1,"b":2}}}`},
	"CHolder":   {`{"a":{"type":7,"x":1,"l":{"a":1,"b":2}},"b":3}`, `{"a":{"type":8,"y":"s","m":{"3":{"a":1,"b":1}},"s":[{"a":1,"b":2}]},"b":0}`},
	"CObj2":     {`{"type":8,"y":"s","m":{"3":{"a":1,"b":1}},"s":[{"a":1,"b":2}]}`},
	"PtrCObj":   {`{"type":7,"x":1,"l":{"a":1,"b":2}}`},
	"CNest": {`{"m":{"1":{"a":1,"b":2}},"mO":{"k":{"type":7,"x":1}},"s":[{"a":1,"b":2}],"sO":[{"type":7,"x":2}],"mI":{"1":{"type":7,"x":1}},"mM":{"1":{"2":{"a":1,"b":2}}},` +
		`"mS":{"a":[{"a":1,"b":2}]},"sM":[{"k":{"type":7,"x":1}}],"i":{"type":7,"x":1},"iO":{"type":8,"y":"","m":{},"s":[]},"iS":[{"type":7,"x":1}],"p":{"type":7,"x":1},` +
		`"pO":{"type":8,"y":"s","m":{},"s":[]},"pM":{"1":{"a":1,"b":2}},"sh":{"type":0,"r":5},"pts":{"k":{"x":1,"y":2}}}`},
}

// ---------------------------------------------------------------- work items

type concItem struct {
	Tgt  string `json:"tgt"`
	Form string `json:"form"` // bin | json | map
	Val  bool   `json:"val"`
	In   []byte `json:"in"`
	Org  string `json:"org"`

	m map[string]any
}

// concItems builds the decode calls of one round (deterministic in rng): valid encodings / documents of every
// target, plus cut ones (a prefix of the encoding, a document with one member removed).
func concItems(c *vf.Ctx, u *universe, round int) []concItem {
	var items []concItem
	for _, t := range u.targets {
		if strings.HasPrefix(t.name, "L") && t.typ != nil && t.typ.Kind() != reflect.Struct && t.name != "LongS" {
			continue // long-input destinations: nothing the other targets do not reach
		}
		encs := validEncodings(u, t, fmt.Sprintf("conc/%d/vals/%s", round, t.name), c, 2)
		rng := c.Rand(fmt.Sprintf("conc/%d/cut/%s", round, t.name))
		for i, e := range encs {
			items = append(items, concItem{Tgt: t.name, Form: "bin", Val: i%2 == 0, In: e, Org: "valid"})
			items = append(items, concItem{Tgt: t.name, Form: "bin", Val: i%2 == 1, In: e, Org: "valid"})
			if len(e) > 1 {
				items = append(items, concItem{Tgt: t.name, Form: "bin", Val: i%2 == 0, In: e[:rng.Intn(len(e))], Org: "trunc"})
			}
		}
		if !t.json || t.typ == nil {
			continue
		}
		docs := validDocs(u, t, c, 1)
		for _, h := range concHandDocs[t.name] {
			var d any
			if json.Unmarshal([]byte(h), &d) == nil {
				docs = append(docs, d)
			}
		}
		for i, d := range docs {
			b := jmarshal(d)
			m, _ := d.(map[string]any)
			items = append(items, concItem{Tgt: t.name, Form: "json", Val: i%2 == 0, In: b, Org: "valid"})
			items = append(items, concItem{Tgt: t.name, Form: "map", Val: i%2 == 1, In: b, Org: "valid", m: m})
			if ks := sortedKeys(m); len(ks) > 0 {
				cut := jcopy(d).(map[string]any)
				delete(cut, ks[rng.Intn(len(ks))])
				items = append(items, concItem{Tgt: t.name, Form: "json", Val: i%2 == 1, In: jmarshal(cut), Org: "missing-key"})
			}
		}
	}
	return items
}

type concPanic struct {
	Item concItem `json:"item"`
	Fn   string   `json:"fn"`
	Msg  string   `json:"msg"`
}

// decodeItem runs one decode call under recover; it reports (accepted, panic).
func decodeItem(u *universe, it *concItem) (ok bool, p *concPanic) {
	defer func() {
		if r := recover(); r != nil {
			p = &concPanic{Item: *it, Fn: panicSite(), Msg: fmt.Sprint(r)}
		}
	}()
	t := u.byName[it.Tgt]
	var err error
	switch it.Form {
	case "bin":
		_, err = t.decode(u, it.In, it.Val)
	case "json":
		if it.Val {
			err = u.api.JSONDecode(ctxBG, it.In, newDest(t), serix.WithValidation())
		} else {
			err = u.api.JSONDecode(ctxBG, it.In, newDest(t))
		}
	default:
		// MapDecode does not modify the document: the same map is shared by all decoders (read-only)
		if it.Val {
			err = u.api.MapDecode(ctxBG, it.m, newDest(t), serix.WithValidation())
		} else {
			err = u.api.MapDecode(ctxBG, it.m, newDest(t))
		}
	}
	return err == nil, nil
}

// ---------------------------------------------------------------- registrars

var (
	ctxType = reflect.TypeOf((*context.Context)(nil)).Elem()
	errType = reflect.TypeOf((*error)(nil)).Elem()
	u8Type  = reflect.TypeOf(uint8(0))
	u16Type = reflect.TypeOf(uint16(0))
)

// freshType returns a type that no other (registrar, step) pair of the same round uses.
func freshType(w, i int) reflect.Type {
	n := 1000 + i
	switch w % 3 {
	case 0:
		return reflect.ArrayOf(n, u8Type)
	case 1:
		return reflect.ArrayOf(n, u16Type)
	}
	return reflect.ArrayOf(2, reflect.ArrayOf(n, u8Type))
}

// registrar keeps registering until the decoders are done (or its cap is reached, so that it terminates when they never are).
func registrar(u *universe, w, limit int, done *atomic.Bool, st *concStats) {
	api := u.api
	ts := serix.TypeSettings{}
	for i := 0; i < limit && !done.Load(); i++ {
		t := freshType(w, i)
		zero := reflect.Zero(t).Interface()
		code := uint32(1000 + 100000*w + i)
		var err error
		switch (i + w) % 4 {
		case 0:
			err = api.RegisterTypeSettings(zero, ts.WithObjectType(code))
			st.regTS++
		case 1:
			fn := reflect.MakeFunc(reflect.FuncOf([]reflect.Type{ctxType, t}, []reflect.Type{errType}, false), func([]reflect.Value) []reflect.Value {
				return []reflect.Value{reflect.Zero(errType)}
			})
			err = api.RegisterValidator(zero, fn.Interface())
			st.regVal++
		case 2:
			// a pointer type of its own (decoders resolve pointers through the pointee's registration)
			err = api.RegisterTypeSettings(reflect.Zero(reflect.PointerTo(t)).Interface(), ts.WithObjectType(code))
			st.regTS++
		default:
			// extend the interface the decoders are decoding through (needs type settings with a uint32 code first)
			if err = api.RegisterTypeSettings(zero, ts.WithObjectType(code)); err == nil {
				st.regTS++
				err = api.RegisterInterfaceObjects((*ConcAny)(nil), zero)
				st.regIface++
			}
		}
		if err != nil {
			st.regErr++
			if st.firstRegErr == "" {
				st.firstRegErr = err.Error()
			}
		}
		if i%64 == 63 {
			// re-registration (rejected as duplicate, still goes through the write lock)
			_ = api.RegisterTypeSettings(CLeaf{}, ts)
			_ = api.RegisterValidator(CLeaf{}, func(_ context.Context, l CLeaf) error { return nil })
			st.regDup += 2
		}
	}
}

// ---------------------------------------------------------------- one round

type concStats struct {
	decodes, accepted, rejected             int
	regTS, regVal, regIface, regErr, regDup int
	decodesWhileRegistering                 int
	firstRegErr                             string
	panics                                  []*concPanic
	byForm                                  map[string]int
	acc                                     []bool // per item: accepted at least once by this decoder
}

type concDeadlock struct {
	Round   int      `json:"round"`
	Entries []string `json:"entries"` // exported serix entry points the parked decoders sit in
	Frames  []string `json:"frames"`
}

const concDecoderFn = "main.concDecoder"

func concDecoder(u *universe, items []concItem, order []int, passes int, start <-chan struct{}, regsLive *atomic.Int32, st *concStats) {
	<-start
	for p := 0; p < passes; p++ {
		for _, k := range order {
			ok, pn := decodeItem(u, &items[k])
			st.decodes++
			st.byForm[items[k].Form]++
			switch {
			case pn != nil:
				if len(st.panics) < 4 {
					st.panics = append(st.panics, pn)
				}
			case ok:
				st.accepted++
				st.acc[k] = true
			default:
				st.rejected++
			}
			if !concRace && regsLive.Load() > 0 {
				st.decodesWhileRegistering++
			}
		}
	}
}

// exportedSerixEntry returns the outermost exported serix API method on the stack of g ("" if none).
func exportedSerixEntry(g gdump.G) string {
	for i := len(g.Frames) - 1; i >= 0; i-- {
		f := g.Frames[i]
		j := strings.Index(f, "serializer/v2/serix.(*API).")
		if j < 0 {
			continue
		}
		name := f[j+len("serializer/v2/serix.(*API)."):]
		if name != "" && name[0] >= 'A' && name[0] <= 'Z' && !strings.Contains(name, ".") {
			return "serix.(*API)." + name
		}
	}
	return ""
}

// waitConc waits for the round; three consecutive all-parked snapshots before it has finished = dead-lock.
func waitConc(wg *sync.WaitGroup, round int) *concDeadlock {
	var fin atomic.Bool
	go func() { wg.Wait(); fin.Store(true) }()
	quiet := 0
	for spins := 0; !fin.Load(); spins++ {
		if spins < 2000 {
			runtime.Gosched()
			continue
		}
		time.Sleep(200 * time.Microsecond) // pacing only
		if spins%4 != 0 {
			continue
		}
		gs := gdump.Snapshot()
		if fin.Load() {
			return nil
		}
		if !gdump.Quiescent(gs) {
			quiet = 0
			continue
		}
		quiet++
		if quiet < 3 {
			continue
		}
		dl := &concDeadlock{Round: round}
		seen := map[string]bool{}
		for _, g := range gs {
			if !g.Has(concDecoderFn) || !g.Parked() {
				continue
			}
			if e := exportedSerixEntry(g); e != "" {
				if !seen[e] {
					seen[e] = true
					dl.Entries = append(dl.Entries, e)
				}
				if len(dl.Frames) < 6 {
					dl.Frames = append(dl.Frames, g.State+": "+strings.Join(g.Frames, " < "))
				}
			}
		}
		sort.Strings(dl.Entries)
		return dl
	}
	return nil
}

// concRound runs one round; it returns the dead-lock (the process must then end: the goroutines stay parked).
func concRound(c *vf.Ctx, round, decoders, registrars, passes int) *concDeadlock {
	t0 := time.Now()
	u := newUniverse()
	registerConc(u)
	items := concItems(c, u, round)
	t1 := time.Now()
	defer func() {
		if strings.HasPrefix(os.Getenv("C02_TIMES"), "/") { // debugging aid: C02_TIMES=<absolute file> collects per-round times
			if f, err := os.OpenFile(os.Getenv("C02_TIMES"), os.O_APPEND|os.O_CREATE|os.O_WRONLY, 0o644); err == nil {
				fmt.Fprintf(f, "round %d setup %v run %v items %d\n", round, t1.Sub(t0), time.Since(t1), len(items))
				f.Close()
			}
		}
	}()
	rng := c.Rand(fmt.Sprintf("conc/%d/order", round))
	start := make(chan struct{})
	var wgDec, wgAll sync.WaitGroup
	var done atomic.Bool
	var regsLive atomic.Int32
	dst := make([]*concStats, decoders)
	rst := make([]*concStats, registrars)
	for d := 0; d < decoders; d++ {
		dst[d] = &concStats{byForm: map[string]int{}, acc: make([]bool, len(items))}
		order := rng.Perm(len(items))
		wgDec.Add(1)
		wgAll.Add(1)
		go func(d int) {
			defer wgAll.Done()
			defer wgDec.Done()
			concDecoder(u, items, order, passes, start, &regsLive, dst[d])
		}(d)
	}
	for w := 0; w < registrars; w++ {
		rst[w] = &concStats{}
		wgAll.Add(1)
		regsLive.Add(1)
		go func(w int) {
			defer wgAll.Done()
			defer regsLive.Add(-1)
			<-start
			registrar(u, w, 20000, &done, rst[w])
		}(w)
	}
	wgAll.Add(1)
	go func() { defer wgAll.Done(); wgDec.Wait(); done.Store(true) }()
	close(start)
	if dl := waitConc(&wgAll, round); dl != nil {
		return dl
	}
	c.Count("conc_rounds", 1)
	c.Count("conc_items", len(items))
	for _, s := range dst {
		c.Count("conc_decodes", s.decodes)
		c.Count("conc_accepted", s.accepted)
		c.Count("conc_rejected", s.rejected)
		c.Count("conc_decodes_while_registrars_live", s.decodesWhileRegistering)
		for f, n := range s.byForm {
			c.Count("conc_decodes:"+f, n)
		}
		for k, a := range s.acc {
			if a {
				c.Distinct("conc_accepted_targets", items[k].Tgt+"|"+items[k].Form)
			}
		}
		for _, p := range s.panics {
			c.Violation("panic:"+p.Fn+":"+panicClass(p.Msg), // same class as the sequential families: one defect, one fingerprint
				fmt.Sprintf("%s decode into %s (validation=%v, %s) panicked in %s while other goroutines were registering types on the same API: %s", p.Item.Form, p.Item.Tgt, p.Item.Val, p.Item.Org, p.Fn, p.Msg), p)
		}
	}
	for _, s := range rst {
		c.Count("conc_registrations_type_settings", s.regTS)
		c.Count("conc_registrations_validator", s.regVal)
		c.Count("conc_registrations_interface_objects", s.regIface)
		c.Count("conc_registrations_duplicate", s.regDup)
		c.Count("conc_registration_errors", s.regErr)
		if s.firstRegErr != "" && round == 0 {
			c.Note("conc: a registration of a fresh type was rejected: " + s.firstRegErr)
		}
	}
	for _, it := range items {
		c.Distinct("conc_targets", it.Tgt+"|"+it.Form)
	}
	if !concRace {
		c.Count("conc_validator_invocations", int(concValidatorCalls.Swap(0)))
	}
	return nil
}

// concChild: args = [kind, rounds, firstRound]
func concChild(c *vf.Ctx) {
	concMode = true
	concRace = c.ChildArgs[0] == "race"
	rounds, _ := strconv.Atoi(c.ChildArgs[1])
	first, _ := strconv.Atoi(c.ChildArgs[2])
	decoders, registrars, passes := 6, 3, 2
	for r := first; r < first+rounds; r++ {
		c.Mark("round " + strconv.Itoa(r))
		if dl := concRound(c, r, decoders, registrars, passes); dl != nil {
			c.Emit("deadlock", dl)
			c.Mark("deadlock")
			return // the parked goroutines can never be released: the process ends here
		}
		if r%4 == 3 {
			c.FlushStats()
		}
	}
	c.Mark("done")
}

// ---------------------------------------------------------------- parent

// concRaces reports data races whose two access stacks both lie in hive.go's serializer module
// (innermost hive.go frame per stack is the key; a stack whose innermost harness/hive frame is harness code is the harness's own).
func concRaces(c *vf.Ctx, rs []vf.RaceReport) {
	seen := map[string]bool{}
	for _, r := range rs {
		c.Count("conc_race_reports", 1)
		head := r.Text
		if i := strings.Index(head, "\nGoroutine "); i >= 0 {
			head = head[:i]
		}
		var fns []string
		stacks, inSer, harness := 0, 0, false
		for _, blk := range strings.Split(head, "\n\n") {
			first := true
			any := false
			for _, l := range strings.Split(blk, "\n") {
				if !strings.HasPrefix(l, "  ") || strings.HasPrefix(l, "   ") || !strings.HasSuffix(l, ")") {
					continue
				}
				any = true
				fn := strings.TrimSpace(l)
				if i := strings.LastIndexByte(fn, '('); i > 0 {
					fn = fn[:i]
				}
				if strings.HasPrefix(fn, "main.") {
					if first {
						harness = true
					}
					break
				}
				if strings.Contains(fn, "iotaledger/hive.go/") {
					if strings.Contains(fn, "hive.go/serializer") {
						inSer++
					}
					fns = append(fns, shortFn(fn))
					break
				}
				if !strings.HasPrefix(fn, "runtime.") && !strings.HasPrefix(fn, "sync") {
					first = false
				}
			}
			if any {
				stacks++
			}
		}
		sort.Strings(fns)
		key := strings.Join(fns, " <-> ")
		if harness {
			c.Count("conc_race_reports_harness_own", 1)
			c.Note("race inside the harness (not attributed to hive.go): " + key)
			continue
		}
		if seen[key] {
			continue
		}
		seen[key] = true
		if stacks >= 2 && inSer >= 2 {
			txt := r.Text
			if len(txt) > 6000 {
				txt = txt[:6000]
			}
			c.Violation("race:"+key, "data race in the serializer module while decoding and registering concurrently on one serix.API: "+key, map[string]any{"report": txt})
		} else {
			c.Note("race outside the statement: " + key)
		}
	}
}

// runConc runs the rounds of one build kind in children of `per` rounds each.
func runConc(c *vf.Ctx, kind string, rounds, per int) {
	race := kind == "race"
	for first := 0; first < rounds; first += per {
		n := per
		if first+n > rounds {
			n = rounds - first
		}
		res := c.RunChild(vf.ChildOpts{Name: "conc", Args: []string{kind, strconv.Itoa(n), strconv.Itoa(first)}, Race: race,
			Env: []string{"GOTRACEBACK=all"}, Timeout: time.Duration(c.Pick(4, 15)) * time.Minute})
		if race {
			concRaces(c, res.Races)
		}
		var dl *concDeadlock
		for _, r := range res.Records {
			if r.Kind == "deadlock" {
				var d concDeadlock
				if json.Unmarshal(r.V, &d) == nil {
					dl = &d
				}
			}
		}
		if dl == nil && res.Deadlock {
			// the runtime's own detector (every goroutine asleep, the waiting main goroutine included)
			dl = &concDeadlock{Round: -1}
			seen := map[string]bool{}
			for _, g := range gdump.Parse(res.Stderr) {
				if e := exportedSerixEntry(g); g.Has(concDecoderFn) && e != "" && !seen[e] {
					seen[e] = true
					dl.Entries = append(dl.Entries, e)
				}
			}
			sort.Strings(dl.Entries)
		}
		switch {
		case dl != nil:
			c.Count("conc_deadlocks", 1)
			if len(dl.Entries) == 0 {
				c.Inconclusive(fmt.Sprintf("conc/%s: every goroutine of round %d parked for ever, but no decoder sits below an exported serix entry point (%s)", kind, dl.Round, res.LastMark))
				return
			}
			c.Violation("decode-never-returns:concurrent-registration",
				fmt.Sprintf("conc/%s round %d: all goroutines parked on synchronisation primitives in three consecutive snapshots; decoders are parked for ever below %s while other goroutines register types on the same API: the call never returns", kind, dl.Round, strings.Join(dl.Entries, ", ")),
				map[string]any{"kind": kind, "deadlock": dl})
			return // one dead-lock per kind is enough; further children would only repeat it
		case res.TimedOut:
			c.Inconclusive(fmt.Sprintf("conc/%s: watchdog fired at %s", kind, res.LastMark))
			return
		case res.LastMark != "done" || (res.ExitCode != 0 && !(race && res.ExitCode == 66)):
			fp, line := fatalFingerprint(&res)
			c.Count("child_deaths", 1)
			c.Violation(fp+"[concurrent]", fmt.Sprintf("conc/%s: the process died at %s while decoding and registering concurrently (%s)", kind, res.LastMark, line),
				map[string]any{"kind": kind, "mark": res.LastMark, "stderr_head": head(res.Stderr, 4000)})
			return
		}
	}
}

func head(s string, n int) string {
	if len(s) > n {
		return s[:n]
	}
	return s
}

// rounds per tier and build kind; rounds per child
const (
	concPlainQuick, concPlainThorough = 30, 1500
	concRaceQuick, concRaceThorough   = 6, 200
	concPer                           = 30
)
