package main

// Long inputs: 4 KiB .. 1 MiB of real data behind a length prefix that denotes exactly the
// data, data+1, twice the data, 2^28, or the extremes of the prefix width – for every decoder
// family, and for the stream helpers additionally through chunking readers.  Short inputs
// never fill a decoder's first buffer/chunk, so "allocate the rest from the prefix once the
// first chunk arrived" is only visible here.  Cases are described (LongSpec), not spelled out.

import (
	"bytes"
	"fmt"
	"math"

	"verif/harness/internal/vf"
)

var longSizes = []int{4096, 4097, 8192, 64 << 10, 1 << 20}

type denote struct {
	name string
	v    uint64
}

// denotes returns the prefix values for `exact` units of real data at prefix width w (bytes).
func denotes(exact uint64, w int) []denote {
	max := uint64(math.MaxUint64)
	if w < 8 {
		max = 1<<(8*uint(w)) - 1
	}
	var ds []denote
	add := func(n string, v uint64) {
		if v > max {
			return
		}
		for _, d := range ds {
			if d.v == v {
				return
			}
		}
		ds = append(ds, denote{n, v})
	}
	add("exact", exact)
	add("data+1", exact+1)
	add("2x", 2*exact)
	add("data-1", exact-1)
	add("2^28", 1<<28)
	add("2^31", 1<<31)
	add("max", max)
	if w == 8 {
		add("2^40", 1<<40)
		add("2^63-1", 1<<63-1)
		add("2^63", 1<<63)
	}
	return ds
}

const kElem = 64 // allowance per input byte for element-wise serix decoding (measured on the unchanged tree: < 18 B per input byte)

func genLongCases(c *vf.Ctx, u *universe, which string) []Case {
	var out []Case
	sizes := longSizes
	switch which {
	case "stream":
		readers := []int{0, 1, 4096, 4097}
		for _, n := range sizes {
			for _, rd := range readers {
				if rd == 1 && n > 64<<10 && c.Quick() {
					continue
				}
				for lt := 1; lt < 4; lt++ {
					w := lenWidth[lt]
					for _, d := range denotes(uint64(n), w) {
						org := fmt.Sprintf("long-%s@%d/w%d/rd%d", d.name, n, w, rd)
						for _, op := range []string{"ReadBytesWithSize", "ReadObjectWithSize"} {
							cs := mkLong("stream", op, false, le(d.v, w), n, 0, nil, org, 0, int64(lt), 2)
							cs.Rd = rd
							out = append(out, cs)
						}
					}
					for _, d := range denotes(uint64(n/2), w) {
						cs := mkLong("stream", "ReadCollection", false, le(d.v, w), n, 0, nil, fmt.Sprintf("long-%s@%d/w%d/rd%d", d.name, n, w, rd), 0, int64(lt))
						cs.Rd = rd
						out = append(out, cs)
					}
				}
				for _, d := range denotes(uint64(n), 8) {
					org := fmt.Sprintf("long-%s@%d/param/rd%d", d.name, n, rd)
					for _, op := range []string{"ReadBytes", "ReadObject"} {
						cs := mkLong("stream", op, false, nil, n, 0, nil, org, 0, int64(d.v), 2)
						cs.Rd = rd
						out = append(out, cs)
					}
				}
			}
		}
	case "prim":
		for _, n := range sizes {
			for lt := 1; lt < 3; lt++ {
				w := lenWidth[lt]
				for _, d := range denotes(uint64(n), w) {
					org := fmt.Sprintf("long-%s@%d/w%d", d.name, n, w)
					for _, mm := range [][2]int64{{0, 0}, {0, 10}, {5000, 0}} {
						out = append(out, mkLong("prim", "ReadVariableByteSlice", false, le(d.v, w), n, 0, nil, org, 0, int64(lt), mm[0], mm[1]))
						out = append(out, mkLong("prim", "ReadString", false, le(d.v, w), n, 1, nil, org, 0, int64(lt), mm[0], mm[1]))
					}
				}
				for _, d := range denotes(uint64(n/2), w) {
					for mode := int64(0); mode < 2; mode++ {
						out = append(out, mkLong("prim", "ReadSequenceOfObjects", false, le(d.v, w), n, 0, nil, fmt.Sprintf("long-%s@%d/w%d", d.name, n, w), 0, int64(lt), 2, mode, 0))
					}
				}
				for _, d := range denotes(uint64(n), 4) {
					// [type 1 (uint32)] [k] ... as payload: length prefix of the payload vs. real data
					out = append(out, mkLong("prim", "ReadPayload", false, append(le(d.v, 4), 1, 0, 0, 0, 200), n, 0, nil, fmt.Sprintf("long-%s@%d/w4", d.name, n), 0, 0))
				}
			}
		}
	case "serix":
		type lt struct {
			tgt       string
			w, elem   int
			pat, k    int
			tail      []byte
			elemLimit int // largest payload in the quick tier (element-wise decoding is slow)
		}
		for _, t := range []lt{
			{"LBytes16", 2, 1, 0, 0, nil, 0}, {"LBytes32", 4, 1, 0, 0, nil, 0},
			{"LStr16", 2, 1, 1, 0, nil, 0}, {"LStr32", 4, 1, 1, 0, nil, 0},
			{"LongS", 4, 1, 0, 0, []byte{0, 0, 0, 0, 0, 0}, 0},
			{"LU16s16", 2, 2, 0, kElem, nil, 64 << 10}, {"LU16s32", 4, 2, 0, kElem, nil, 64 << 10},
			{"LMap32", 4, 8, 4, kElem, nil, 64 << 10}, {"LCount32", 4, 2, 0, kElem, nil, 64 << 10},
		} {
			for _, n := range sizes {
				if t.elemLimit > 0 && n > t.elemLimit && c.Quick() {
					continue
				}
				for _, d := range denotes(uint64(n/t.elem), t.w) {
					for _, val := range []bool{false, true} {
						if val && n > 64<<10 && t.elem > 1 {
							continue
						}
						out = append(out, mkLong("serix", t.tgt, val, le(d.v, t.w), n, t.pat, t.tail, fmt.Sprintf("long-%s@%d/w%d", d.name, n, t.w), t.k))
					}
				}
			}
		}
	case "json":
		for _, t := range u.targets {
			if !t.json || t.typ == nil {
				continue
			}
			docs := validDocs(u, t, c, 1)
			if len(docs) == 0 {
				continue
			}
			doc := docs[0]
			var paths []jpath
			jwalk(doc, nil, func(p jpath, n any) {
				if _, ok := n.(string); ok && len(p) > 0 && len(paths) < 3 {
					paths = append(paths, p)
				}
			})
			for pi, p := range paths {
				txt := jmarshal(jset(doc, p, "@@LONG@@"))
				parts := bytes.SplitN(txt, []byte(`"@@LONG@@"`), 2)
				if len(parts) != 2 {
					continue
				}
				for _, n := range sizes {
					for _, pat := range []int{2, 1, 3} {
						if n > 64<<10 && (pi > 0 || pat == 3) {
							continue
						}
						pre := append(append([]byte(nil), parts[0]...), '"')
						if pat == 2 {
							pre = append(pre, '0', 'x')
						}
						tail := append([]byte{'"'}, parts[1]...)
						for _, val := range []bool{false, true} {
							if val && n > 64<<10 {
								continue
							}
							fam := "json"
							if pat == 1 && val {
								fam = "map"
							}
							out = append(out, mkLong(fam, t.name, val, pre, n, pat, tail, fmt.Sprintf("long-%s@%d/%v", []string{"", "plain", "hex", "digits"}[pat], n, p), 0))
						}
					}
				}
			}
		}
	}
	return out
}
