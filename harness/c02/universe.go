package main

// Static type universe for C02: ~35 registered serix target types that combine every
// length-prefix width, optional pointers, interfaces with uint8/uint32 codes, arrays of
// non-byte elements, maps, big.Int, time, custom (counting) Deserializables, embedded
// structs, plus the ds containers that decode through serix.  No zero-width element
// types occur inside sequences (DESIGN: deliberately not demanded).

import (
	"context"
	"encoding/binary"
	"errors"
	"fmt"
	"math"
	"math/big"
	"math/rand"
	"reflect"
	"time"

	"github.com/iotaledger/hive.go/ds"
	"github.com/iotaledger/hive.go/ds/serializableorderedmap"
	"github.com/iotaledger/hive.go/serializer/v2"
	"github.com/iotaledger/hive.go/serializer/v2/serix"
)

// ---------------------------------------------------------------- named leaf types

type (
	NStr    string   // lenPrefix uint8
	NStr16  string   // lenPrefix uint16, 1..20
	Blob    []byte   // lenPrefix uint8
	Blob32  []byte   // lenPrefix uint32, max 16
	ID8     [8]byte  // byte array with object code uint8(9)
	U16List []uint16 // lenPrefix uint16, lexical order + no duplicates, max 8
	U32Arr  [3]uint32
	MapU8   map[uint8]uint16
)

type Point struct {
	X int32  `serix:""`
	Y uint16 `serix:""`
}

type Prims struct {
	B   bool    `serix:""`
	I8  int8    `serix:""`
	I16 int16   `serix:""`
	I32 int32   `serix:""`
	I64 int64   `serix:""`
	U8  uint8   `serix:""`
	U16 uint16  `serix:""`
	U32 uint32  `serix:""`
	U64 uint64  `serix:""`
	F32 float32 `serix:""`
	F64 float64 `serix:""`
}

type Strs struct {
	A string `serix:",lenPrefix=uint8"`
	B string `serix:",lenPrefix=uint16,minLen=1,maxLen=40"`
	C string `serix:",lenPrefix=uint32"`
	N NStr   `serix:""`
	M NStr16 `serix:""`
}

type ByteFields struct {
	A []byte   `serix:",lenPrefix=uint8"`
	B []byte   `serix:",lenPrefix=uint16,maxLen=10"`
	C []byte   `serix:",lenPrefix=uint32,minLen=0,maxLen=10"`
	D [4]byte  `serix:""`
	E [32]byte `serix:""`
	F Blob32   `serix:""`
	G ID8      `serix:""`
}

type Slices struct {
	A []uint16 `serix:",lenPrefix=uint8"`
	B []NStr   `serix:",lenPrefix=uint16"`
	C []Blob   `serix:",lenPrefix=uint32"`
	D []Point  `serix:",lenPrefix=uint8,minLen=1,maxLen=5"`
	E U16List  `serix:""`
}

type Arrays struct {
	A [3]uint16  `serix:",lenPrefix=uint8"`
	B [2]Point   `serix:",lenPrefix=uint16"`
	C [2][4]byte `serix:",lenPrefix=uint32"`
}

type ArrU16 struct {
	A [3]uint16 `serix:",lenPrefix=uint8"`
}

type Maps struct {
	A map[uint8]uint16 `serix:",lenPrefix=uint8"`
	B map[NStr]Point   `serix:",lenPrefix=uint16,maxLen=4"`
	C map[uint32]Blob  `serix:",lenPrefix=uint32"`
}

type StrMaps struct {
	A map[NStr]NStr    `serix:",lenPrefix=uint8"`
	B map[NStr][]Point `serix:",lenPrefix=uint16,minLen=0,maxLen=3"`
	C map[NStr16]Blob  `serix:",lenPrefix=uint32"`
}

type Shape interface{ shape() }
type Circle struct {
	R uint16 `serix:""`
}
type Square struct {
	S uint32 `serix:""`
	N NStr   `serix:""`
}
type Group struct {
	Kids []Shape `serix:",lenPrefix=uint8"`
}

func (Circle) shape() {}
func (Square) shape() {}
func (Group) shape()  {}

type Payload interface{ payload() }
type PayA struct {
	V uint64 `serix:""`
}
type PayB struct {
	In Shape `serix:""`
	B  Blob  `serix:""`
}

func (PayA) payload() {}
func (PayB) payload() {}

type ShapeList []Shape     // lenPrefix uint8, at most one of each type (byte)
type PayloadList []Payload // lenPrefix uint16, at most one of each type (uint32), must occur PayA

type Ifaces struct {
	S  Shape       `serix:""`
	P  Payload     `serix:""`
	L  ShapeList   `serix:""`
	LP PayloadList `serix:""`
	F  []Shape     `serix:",lenPrefix=uint32"`
}

type Opts struct {
	P *Point  `serix:",optional"`
	S Shape   `serix:",optional"`
	Q *Point  `serix:""`
	R *Prims  `serix:",optional,omitempty"`
	T Payload `serix:",optional"`
}

type BigTime struct {
	N *big.Int  `serix:""`
	T time.Time `serix:""`
	M *big.Int  `serix:",optional"`
}

// CountElem is a custom (De)serializable of width 2 that counts its Decode calls.
type CountElem struct{ V uint16 }

var elemDecodes int

var errShortElem = errors.New("CountElem: not enough data")

func (e CountElem) Encode() ([]byte, error) {
	var b [2]byte
	binary.LittleEndian.PutUint16(b[:], e.V)
	return b[:], nil
}
func (e *CountElem) Decode(b []byte) (int, error) {
	countDecode(&elemDecodes)
	if len(b) < 2 {
		return 0, errShortElem
	}
	e.V = binary.LittleEndian.Uint16(b)
	return 2, nil
}
func (e CountElem) EncodeJSON() (any, error) { return float64(e.V), nil }
func (e *CountElem) DecodeJSON(v any) error {
	f, ok := v.(float64)
	if !ok {
		return fmt.Errorf("CountElem: want number, got %T", v)
	}
	e.V = uint16(f)
	return nil
}

type Counted struct {
	L []CountElem         `serix:",lenPrefix=uint32"`
	M map[uint8]CountElem `serix:",lenPrefix=uint16"`
	P *CountElem          `serix:",optional"`
	S []CountElem         `serix:",lenPrefix=uint8,maxLen=3"`
}

type CountedArr struct {
	A [2]CountElem `serix:",lenPrefix=uint8"`
}

type Base struct {
	X uint8 `serix:""`
	Y NStr  `serix:""`
}
type Emb struct {
	Base `serix:""`
	Z    uint16 `serix:""`
}
type EmbPtr struct {
	*Base `serix:""`
	Z     uint16 `serix:""`
}
type Inl struct {
	Base `serix:",inlined"`
	Z    uint8 `serix:""`
}

type OmitE struct {
	A []byte `serix:",omitempty,lenPrefix=uint8"`
	S *Point `serix:",optional,omitempty"`
	N NStr   `serix:",omitempty"`
}

type Tree struct {
	V    uint8  `serix:""`
	Kids []Tree `serix:",lenPrefix=uint8"`
}

// Coded carries a uint32 object code at the top level.
type Coded struct {
	V uint16 `serix:""`
	W Blob   `serix:""`
}

type PtrArr struct {
	A *[4]byte `serix:""`
	I *ID8     `serix:",optional"`
	U *U32Arr  `serix:""`
}

// byte arrays by value, behind pointers, as slice / array elements, map values and interface implementations
type (
	Key4  [4]byte // no object code
	Hash6 [6]byte // implements Shape, object code uint8(3)
)

func (Hash6) shape() {}

type ByteArrs struct {
	V  Key4             `serix:""`
	W  [5]byte          `serix:""`
	I  ID8              `serix:""`
	P  *Key4            `serix:",optional"`
	Q  *[3]byte         `serix:""`
	L  []Key4           `serix:",lenPrefix=uint8"`
	LI []ID8            `serix:",lenPrefix=uint8"`
	LP []*Key4          `serix:",lenPrefix=uint8"`
	A  [2]Key4          `serix:",lenPrefix=uint8"`
	M  map[NStr]Key4    `serix:",lenPrefix=uint8"`
	MI map[NStr]ID8     `serix:",lenPrefix=uint8"`
	MA map[NStr][2]byte `serix:",lenPrefix=uint8"`
	S  Shape            `serix:""`
	H  Hash6            `serix:""`
	SL []Shape          `serix:",lenPrefix=uint8"`
}

// destinations for long inputs (no max length, uint16/uint32 prefixes)
type (
	LBytes16 []byte
	LBytes32 []byte
	LStr16   string
	LStr32   string
	LU16s16  []uint16
	LU16s32  []uint16
	LMap32   map[uint32]uint32
	LCount32 []CountElem
)

type LongS struct {
	A []byte   `serix:",lenPrefix=uint32"`
	B string   `serix:",lenPrefix=uint16"`
	C []uint16 `serix:",lenPrefix=uint32"`
}

// types with registered syntactic validators (value and pointer argument), reached through
// pointers as optional / non-optional fields, slice elements (with array rules incl. MustOccur
// and uniqueness), map values and top-level destinations
type (
	Num       uint32
	CodedPtrs []*Coded        // lenPrefix uint8, MustOccur Coded's object code, no duplicates
	PointPtrs []*Point        // lenPrefix uint8, lexical order
	VMap      map[NStr]*Point // lenPrefix uint8
	VShapeMap map[NStr]Shape  // lenPrefix uint8
)

type VItem struct {
	A uint8 `serix:""`
	B NStr  `serix:""`
}

type Valid struct {
	P  *Point      `serix:",optional"`
	Q  *Point      `serix:""`
	I  *VItem      `serix:",optional"`
	J  *VItem      `serix:""`
	A  *Key4       `serix:",optional"`
	U  *U32Arr     `serix:""`
	C  *Circle     `serix:",optional"`
	S  Shape       `serix:",optional"`
	Cs CodedPtrs   `serix:""`
	Ps PointPtrs   `serix:""`
	Is []*VItem    `serix:",lenPrefix=uint8"`
	M  VMap        `serix:""`
	MS VShapeMap   `serix:""`
	L  ShapeList   `serix:""`
	PL PayloadList `serix:""`
}

// pointers to slice / map / named primitive pointees (serix supports them in the binary form only)
type ValidX struct {
	L *U16List `serix:",optional"`
	M *MapU8   `serix:",optional"`
	N *Num     `serix:",optional"`
	S *NStr    `serix:",optional"`
	B *Blob    `serix:",optional"`
}

var validatorCalls int

// bumpValidator counts a validator invocation (atomically in the concurrent family, see conc.go).
func bumpValidator() {
	if concMode {
		concValidatorCalls.Add(1)
		return
	}
	validatorCalls++
}

type Outer struct {
	P  Prims       `serix:""`
	S  Slices      `serix:""`
	O  Opts        `serix:""`
	Ms []StrMaps   `serix:",lenPrefix=uint8"`
	T  [2]Tree     `serix:",lenPrefix=uint8"`
	Bs [][32]byte  `serix:",lenPrefix=uint16"`
	Is [2]Shape    `serix:",lenPrefix=uint8"`
	Ps []*Point    `serix:",lenPrefix=uint8"`
	Bg []*big.Int  `serix:",lenPrefix=uint8"`
	Ts []time.Time `serix:",lenPrefix=uint8"`
}

// ---------------------------------------------------------------- registration

type universe struct {
	api     *serix.API
	impls   map[reflect.Type][]reflect.Type
	targets []*target
	byName  map[string]*target
}

// target is one decoder entry point for a given destination type.
type target struct {
	name   string
	typ    reflect.Type // nil for container targets
	json   bool         // has a JSON form worth decoding (struct at top level)
	gen    func(u *universe, rng *rand.Rand) any
	encode func(u *universe, v any) ([]byte, error)
	decode func(u *universe, in []byte, validate bool) (int, error)
	entry  string // entry point name used in fingerprints
}

func must(err error) {
	if err != nil {
		panic(err)
	}
}

var (
	bigIntPtrType = reflect.TypeOf((*big.Int)(nil))
	timeType      = reflect.TypeOf(time.Time{})
	ctxBG         = context.Background()
)

func newUniverse() *universe {
	api := serix.NewAPI()
	u := &universe{api: api, impls: map[reflect.Type][]reflect.Type{}, byName: map[string]*target{}}
	ts := serix.TypeSettings{}
	lp8, lp16, lp32 := serix.LengthPrefixTypeAsByte, serix.LengthPrefixTypeAsUint16, serix.LengthPrefixTypeAsUint32

	must(api.RegisterTypeSettings(NStr(""), ts.WithLengthPrefixType(lp8)))
	must(api.RegisterTypeSettings(NStr16(""), ts.WithLengthPrefixType(lp16).WithMinLen(1).WithMaxLen(20)))
	must(api.RegisterTypeSettings(Blob{}, ts.WithLengthPrefixType(lp8)))
	must(api.RegisterTypeSettings(Blob32{}, ts.WithLengthPrefixType(lp32).WithMaxLen(16)))
	must(api.RegisterTypeSettings(ID8{}, ts.WithObjectType(uint8(9))))
	must(api.RegisterTypeSettings(U16List{}, ts.WithLengthPrefixType(lp16).WithArrayRules(&serix.ArrayRules{
		Max: 8, ValidationMode: serializer.ArrayValidationModeLexicalOrdering | serializer.ArrayValidationModeNoDuplicates})))
	must(api.RegisterTypeSettings(U32Arr{}, ts.WithLengthPrefixType(lp8)))
	must(api.RegisterTypeSettings(MapU8{}, ts.WithLengthPrefixType(lp16).WithMaxLen(6)))

	must(api.RegisterTypeSettings(LBytes16{}, ts.WithLengthPrefixType(lp16)))
	must(api.RegisterTypeSettings(LBytes32{}, ts.WithLengthPrefixType(lp32)))
	must(api.RegisterTypeSettings(LStr16(""), ts.WithLengthPrefixType(lp16)))
	must(api.RegisterTypeSettings(LStr32(""), ts.WithLengthPrefixType(lp32)))
	must(api.RegisterTypeSettings(LU16s16{}, ts.WithLengthPrefixType(lp16)))
	must(api.RegisterTypeSettings(LU16s32{}, ts.WithLengthPrefixType(lp32)))
	must(api.RegisterTypeSettings(LMap32{}, ts.WithLengthPrefixType(lp32)))
	must(api.RegisterTypeSettings(LCount32{}, ts.WithLengthPrefixType(lp32)))
	must(api.RegisterTypeSettings(Circle{}, ts.WithObjectType(uint8(0))))
	must(api.RegisterTypeSettings(Square{}, ts.WithObjectType(uint8(1))))
	must(api.RegisterTypeSettings(Group{}, ts.WithObjectType(uint8(2))))
	must(api.RegisterTypeSettings(Hash6{}, ts.WithObjectType(uint8(3))))
	must(api.RegisterInterfaceObjects((*Shape)(nil), (*Circle)(nil), (*Square)(nil), (*Group)(nil), (*Hash6)(nil)))
	must(api.RegisterTypeSettings(PayA{}, ts.WithObjectType(uint32(1))))
	must(api.RegisterTypeSettings(PayB{}, ts.WithObjectType(uint32(0x01020304))))
	must(api.RegisterInterfaceObjects((*Payload)(nil), (*PayA)(nil), (*PayB)(nil)))
	u.impls[reflect.TypeOf((*Shape)(nil)).Elem()] = []reflect.Type{reflect.TypeOf(&Circle{}), reflect.TypeOf(&Square{}), reflect.TypeOf(&Group{}), reflect.TypeOf(&Hash6{})}
	u.impls[reflect.TypeOf((*Payload)(nil)).Elem()] = []reflect.Type{reflect.TypeOf(&PayA{}), reflect.TypeOf(&PayB{})}

	must(api.RegisterTypeSettings(ShapeList{}, ts.WithLengthPrefixType(lp8).WithArrayRules(&serix.ArrayRules{
		Max: 4, ValidationMode: serializer.ArrayValidationModeAtMostOneOfEachTypeByte})))
	must(api.RegisterTypeSettings(PayloadList{}, ts.WithLengthPrefixType(lp16).WithArrayRules(&serix.ArrayRules{
		Min: 1, MustOccur: serializer.TypePrefixes{1: struct{}{}}, ValidationMode: serializer.ArrayValidationModeAtMostOneOfEachTypeUint32})))
	must(api.RegisterTypeSettings(Coded{}, ts.WithObjectType(uint32(0xC0DE))))

	must(api.RegisterTypeSettings(CodedPtrs{}, ts.WithLengthPrefixType(lp8).WithArrayRules(&serix.ArrayRules{
		Max: 4, MustOccur: serializer.TypePrefixes{0xC0DE: struct{}{}}, ValidationMode: serializer.ArrayValidationModeNoDuplicates})))
	must(api.RegisterTypeSettings(PointPtrs{}, ts.WithLengthPrefixType(lp8).WithArrayRules(&serix.ArrayRules{
		ValidationMode: serializer.ArrayValidationModeLexicalOrdering})))
	must(api.RegisterTypeSettings(VMap{}, ts.WithLengthPrefixType(lp8)))
	must(api.RegisterTypeSettings(VShapeMap{}, ts.WithLengthPrefixType(lp8)))
	// syntactic validators: they accept everything except one rare value, and count their calls
	must(api.RegisterValidator(Point{}, func(_ context.Context, p Point) error {
		bumpValidator()
		if p.X == 0x0BADF00D {
			return errors.New("Point: rejected by validator")
		}
		return nil
	}))
	must(api.RegisterValidator(&VItem{}, func(_ context.Context, v *VItem) error {
		bumpValidator()
		if v == nil || v.A == 0xEE {
			return errors.New("VItem: rejected by validator")
		}
		return nil
	}))
	must(api.RegisterValidator(Circle{}, func(_ context.Context, c Circle) error { bumpValidator(); return nil }))
	must(api.RegisterValidator(Coded{}, func(_ context.Context, c Coded) error { bumpValidator(); return nil }))
	must(api.RegisterValidator(Key4{}, func(_ context.Context, k Key4) error { bumpValidator(); return nil }))
	must(api.RegisterValidator(U32Arr{}, func(_ context.Context, a U32Arr) error { bumpValidator(); return nil }))
	must(api.RegisterValidator(U16List{}, func(_ context.Context, l U16List) error { bumpValidator(); return nil }))
	must(api.RegisterValidator(MapU8{}, func(_ context.Context, m MapU8) error { bumpValidator(); return nil }))
	must(api.RegisterValidator(Num(0), func(_ context.Context, n Num) error { bumpValidator(); return nil }))
	must(api.RegisterValidator(NStr(""), func(_ context.Context, n NStr) error { bumpValidator(); return nil }))
	must(api.RegisterValidator(Blob{}, func(_ context.Context, b Blob) error { bumpValidator(); return nil }))
	must(api.RegisterValidator(ID8{}, func(_ context.Context, b ID8) error { bumpValidator(); return nil }))
	must(api.RegisterValidator(PayA{}, func(_ context.Context, b PayA) error { bumpValidator(); return nil }))
	must(api.RegisterValidator(Valid{}, func(_ context.Context, v Valid) error { bumpValidator(); return nil }))

	add := func(name string, zero any, json bool) {
		t := reflect.TypeOf(zero)
		tg := &target{name: name, typ: t, json: json, entry: "serix.Decode"}
		tg.gen = func(u *universe, rng *rand.Rand) any {
			v := reflect.New(t)
			u.fill(v.Elem(), rng, 0)
			return v.Interface()
		}
		tg.encode = func(u *universe, v any) ([]byte, error) { return u.api.Encode(ctxBG, v) }
		tg.decode = func(u *universe, in []byte, validate bool) (int, error) {
			dst := reflect.New(t).Interface()
			if validate {
				return u.api.Decode(ctxBG, in, dst, serix.WithValidation())
			}
			return u.api.Decode(ctxBG, in, dst)
		}
		u.targets = append(u.targets, tg)
		u.byName[name] = tg
	}
	add("Prims", Prims{}, true)
	add("Strs", Strs{}, true)
	add("ByteFields", ByteFields{}, true)
	add("Slices", Slices{}, true)
	add("Arrays", Arrays{}, true)
	add("ArrU16", ArrU16{}, true)
	add("Maps", Maps{}, true)
	add("StrMaps", StrMaps{}, true)
	add("Ifaces", Ifaces{}, true)
	add("Opts", Opts{}, true)
	add("BigTime", BigTime{}, true)
	add("Counted", Counted{}, true)
	add("CountedArr", CountedArr{}, true)
	add("Emb", Emb{}, true)
	add("EmbPtr", EmbPtr{}, true)
	add("Inl", Inl{}, true)
	add("OmitE", OmitE{}, true)
	add("Tree", Tree{}, true)
	add("Coded", Coded{}, true)
	add("PtrArr", PtrArr{}, true)
	add("ByteArrs", ByteArrs{}, true)
	add("Valid", Valid{}, true)
	add("ValidX", ValidX{}, true)
	add("VMap", VMap{}, true)
	add("VShapeMap", VShapeMap{}, true)
	add("PtrPoint", (*Point)(nil), true)
	add("PtrVItem", (*VItem)(nil), true)
	add("PtrKey4", (*Key4)(nil), false)
	add("CodedPtrs", CodedPtrs{}, false)
	add("PointPtrs", PointPtrs{}, false)
	add("LongS", LongS{}, true)
	add("LBytes16", LBytes16{}, false)
	add("LBytes32", LBytes32{}, false)
	add("LStr16", LStr16(""), false)
	add("LStr32", LStr32(""), false)
	add("LU16s16", LU16s16{}, false)
	add("LU16s32", LU16s32{}, false)
	add("LMap32", LMap32{}, false)
	add("LCount32", LCount32{}, false)
	add("Outer", Outer{}, true)
	add("Point", Point{}, true)
	add("Group", Group{}, true)
	add("PayB", PayB{}, true)
	// non-struct top-level destinations (binary only; JSONDecode needs an object)
	add("NStr16", NStr16(""), false)
	add("Blob32", Blob32{}, false)
	add("ID8", ID8{}, false)
	add("U16List", U16List{}, false)
	add("U32Arr", U32Arr{}, false)
	add("MapU8", MapU8{}, true)
	add("ShapeList", ShapeList{}, false)
	add("PayloadList", PayloadList{}, false)
	add("uint64", uint64(0), false)
	add("bool", false, false)
	add("float32", float32(0), false)
	add("CountElem", CountElem{}, false)
	// interface, *big.Int, time.Time at top level
	ifaceT := func(name string, ptr any) {
		t := reflect.TypeOf(ptr).Elem()
		tg := &target{name: name, typ: t, json: true, entry: "serix.Decode"}
		tg.gen = func(u *universe, rng *rand.Rand) any {
			v := reflect.New(t)
			u.fill(v.Elem(), rng, 0)
			return v.Interface()
		}
		tg.encode = func(u *universe, v any) ([]byte, error) { return u.api.Encode(ctxBG, v) }
		tg.decode = func(u *universe, in []byte, validate bool) (int, error) {
			dst := reflect.New(t).Interface()
			if validate {
				return u.api.Decode(ctxBG, in, dst, serix.WithValidation())
			}
			return u.api.Decode(ctxBG, in, dst)
		}
		u.targets = append(u.targets, tg)
		u.byName[name] = tg
	}
	ifaceT("Shape", (*Shape)(nil))
	ifaceT("Payload", (*Payload)(nil))
	ifaceT("bigInt", (**big.Int)(nil))
	u.byName["bigInt"].json = false
	add("time", time.Time{}, false)

	// ds containers decoding through serix (their own Decode(api, b) entry points)
	cont := func(name string, mk func() interface {
		Decode(*serix.API, []byte) (int, error)
	}, genEnc func(u *universe, rng *rand.Rand) ([]byte, error)) {
		tg := &target{name: name, entry: name + ".Decode"}
		tg.gen = func(u *universe, rng *rand.Rand) any {
			b, err := genEnc(u, rng)
			if err != nil {
				return err
			}
			return b
		}
		tg.encode = func(u *universe, v any) ([]byte, error) {
			if e, ok := v.(error); ok {
				return nil, e
			}
			return v.([]byte), nil
		}
		tg.decode = func(u *universe, in []byte, _ bool) (int, error) { return mk().Decode(u.api, in) }
		u.targets = append(u.targets, tg)
		u.byName[name] = tg
	}
	cont("OrderedMap[uint8,uint16]", func() interface {
		Decode(*serix.API, []byte) (int, error)
	} {
		return serializableorderedmap.New[uint8, uint16]()
	}, func(u *universe, rng *rand.Rand) ([]byte, error) {
		m := serializableorderedmap.New[uint8, uint16]()
		for i := rng.Intn(5); i > 0; i-- {
			m.Set(uint8(rng.Intn(256)), uint16(rng.Intn(65536)))
		}
		return m.Encode(u.api)
	})
	cont("OrderedMap[NStr,Point]", func() interface {
		Decode(*serix.API, []byte) (int, error)
	} {
		return serializableorderedmap.New[NStr, Point]()
	}, func(u *universe, rng *rand.Rand) ([]byte, error) {
		m := serializableorderedmap.New[NStr, Point]()
		for i := rng.Intn(4); i > 0; i-- {
			m.Set(NStr(randString(rng, true)), Point{X: int32(rng.Uint32()), Y: uint16(rng.Uint32())})
		}
		return m.Encode(u.api)
	})
	cont("ds.Set[uint16]", func() interface {
		Decode(*serix.API, []byte) (int, error)
	} {
		return ds.NewSet[uint16]()
	}, func(u *universe, rng *rand.Rand) ([]byte, error) {
		s := ds.NewSet[uint16]()
		for i := rng.Intn(6); i > 0; i-- {
			s.Add(uint16(rng.Intn(65536)))
		}
		return s.Encode(u.api)
	})
	cont("OrderedMap[uint8,CountElem]", func() interface {
		Decode(*serix.API, []byte) (int, error)
	} {
		return serializableorderedmap.New[uint8, CountElem]()
	}, func(u *universe, rng *rand.Rand) ([]byte, error) {
		m := serializableorderedmap.New[uint8, CountElem]()
		for i := rng.Intn(5); i > 0; i-- {
			m.Set(uint8(rng.Intn(256)), CountElem{uint16(rng.Intn(65536))})
		}
		return m.Encode(u.api)
	})
	return u
}

// ---------------------------------------------------------------- value generator

func randString(rng *rand.Rand, ascii bool) string {
	n := []int{0, 1, 1, 2, 3, 5, 8, 12, 20}[rng.Intn(9)]
	b := make([]byte, n)
	for i := range b {
		if ascii || rng.Intn(4) != 0 {
			b[i] = byte('a' + rng.Intn(26))
		} else {
			b[i] = byte(rng.Intn(256))
		}
	}
	return string(b)
}

func boundaryU64(rng *rand.Rand, bits int) uint64 {
	mask := uint64(math.MaxUint64)
	if bits < 64 {
		mask = 1<<uint(bits) - 1
	}
	switch rng.Intn(6) {
	case 0:
		return 0
	case 1:
		return 1
	case 2:
		return mask
	case 3:
		return mask >> 1
	case 4:
		return (mask >> 1) + 1
	}
	return rng.Uint64() & mask
}

func (u *universe) fill(v reflect.Value, rng *rand.Rand, depth int) {
	t := v.Type()
	switch t {
	case bigIntPtrType:
		var n *big.Int
		switch rng.Intn(5) {
		case 0:
			n = big.NewInt(0)
		case 1:
			n = big.NewInt(1)
		case 2:
			n = new(big.Int).Sub(new(big.Int).Lsh(big.NewInt(1), 256), big.NewInt(1))
		default:
			n = new(big.Int).Rand(rng, new(big.Int).Lsh(big.NewInt(1), uint(1+rng.Intn(255))))
		}
		v.Set(reflect.ValueOf(n))
		return
	case timeType:
		var ns int64
		switch rng.Intn(4) {
		case 0:
			ns = 0
		case 1:
			ns = 1
		case 2:
			ns = math.MaxInt64
		default:
			ns = rng.Int63()
		}
		v.Set(reflect.ValueOf(time.Unix(0, ns).UTC()))
		return
	}
	switch t.Kind() {
	case reflect.Bool:
		v.SetBool(rng.Intn(2) == 0)
	case reflect.Int8, reflect.Int16, reflect.Int32, reflect.Int64:
		v.SetInt(int64(boundaryU64(rng, 64)) >> uint(64-t.Bits()))
	case reflect.Uint8, reflect.Uint16, reflect.Uint32, reflect.Uint64:
		v.SetUint(boundaryU64(rng, t.Bits()))
	case reflect.Float32, reflect.Float64:
		switch rng.Intn(5) {
		case 0:
			v.SetFloat(0)
		case 1:
			v.SetFloat(math.Copysign(0, -1))
		case 2:
			v.SetFloat(math.Inf(1))
		default:
			v.SetFloat(rng.NormFloat64() * 1e3)
		}
	case reflect.String:
		s := randString(rng, rng.Intn(8) != 0)
		if s == "" && rng.Intn(2) == 0 {
			s = "k"
		}
		v.SetString(s)
	case reflect.Slice:
		n := []int{0, 1, 1, 2, 3, 4}[rng.Intn(6)]
		if depth > 2 {
			n = rng.Intn(2)
		}
		if depth > 4 {
			n = 0
		}
		if t.Elem().Kind() == reflect.Uint8 {
			n = []int{0, 1, 2, 5, 9, 16}[rng.Intn(6)]
		}
		if n == 0 && rng.Intn(2) == 0 {
			return // nil slice
		}
		s := reflect.MakeSlice(t, n, n)
		for i := 0; i < n; i++ {
			u.fill(s.Index(i), rng, depth+1)
		}
		v.Set(s)
	case reflect.Array:
		for i := 0; i < t.Len(); i++ {
			u.fill(v.Index(i), rng, depth+1)
		}
	case reflect.Map:
		n := rng.Intn(4)
		if depth > 3 {
			n = 0
		}
		m := reflect.MakeMap(t)
		for i := 0; i < n; i++ {
			k := reflect.New(t.Key()).Elem()
			e := reflect.New(t.Elem()).Elem()
			u.fill(k, rng, depth+1)
			u.fill(e, rng, depth+1)
			m.SetMapIndex(k, e)
		}
		v.Set(m)
	case reflect.Ptr:
		if rng.Intn(4) == 0 {
			return
		}
		p := reflect.New(t.Elem())
		u.fill(p.Elem(), rng, depth+1)
		v.Set(p)
	case reflect.Interface:
		impls := u.impls[t]
		if len(impls) == 0 {
			return
		}
		if rng.Intn(6) == 0 && depth > 0 {
			return // nil interface (encodable only when optional)
		}
		it := impls[rng.Intn(len(impls))]
		if depth > 3 {
			it = impls[0]
		}
		p := reflect.New(it.Elem())
		u.fill(p.Elem(), rng, depth+1)
		v.Set(p)
	case reflect.Struct:
		for i := 0; i < t.NumField(); i++ {
			if !t.Field(i).IsExported() && !t.Field(i).Anonymous {
				continue
			}
			if v.Field(i).CanSet() {
				u.fill(v.Field(i), rng, depth+1)
			}
		}
	}
}
