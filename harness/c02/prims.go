package main

// Direct drivers for the Deserializer primitives, the stream Read* helpers and
// typeutils/from_bytes.go, with their hostile-input generators.

import (
	"encoding/binary"
	"errors"
	"fmt"
	"io"
	"math/big"
	"math/rand"
	"time"

	"github.com/iotaledger/hive.go/serializer/v2"
	"github.com/iotaledger/hive.go/serializer/v2/serix"
	"github.com/iotaledger/hive.go/serializer/v2/stream"
	"github.com/iotaledger/hive.go/serializer/v2/typeutils"
)

var objDecodes int

// hObj is a harness Serializable: [type code (den)] [1 byte k] [k bytes].
type hObj struct {
	den  serializer.TypeDenotationType
	body []byte
}

func (h *hObj) MarshalJSON() ([]byte, error) { return []byte("null"), nil }
func (h *hObj) UnmarshalJSON([]byte) error   { return nil }
func (h *hObj) Serialize(serializer.DeSerializationMode, interface{}) ([]byte, error) {
	return nil, errors.New("not used")
}
func (h *hObj) Deserialize(data []byte, _ serializer.DeSerializationMode, _ interface{}) (int, error) {
	countDecode(&objDecodes)
	hdr := 0
	switch h.den {
	case serializer.TypeDenotationUint32:
		hdr = 4
	case serializer.TypeDenotationByte:
		hdr = 1
	}
	if len(data) < hdr+1 {
		return 0, serializer.ErrDeserializationNotEnoughData
	}
	k := int(data[hdr])
	if len(data) < hdr+1+k {
		return 0, serializer.ErrDeserializationNotEnoughData
	}
	h.body = append([]byte(nil), data[hdr+1:hdr+1+k]...)
	return hdr + 1 + k, nil
}

func ep(err error) error { return err }

var lenTypes = []serializer.SeriLengthPrefixType{serializer.SeriLengthPrefixTypeAsByte, serializer.SeriLengthPrefixTypeAsUint16, serializer.SeriLengthPrefixTypeAsUint32, serializer.SeriLengthPrefixTypeAsUint64}
var lenWidth = []int{1, 2, 4, 8}
var typeDens = []serializer.TypeDenotationType{serializer.TypeDenotationUint32, serializer.TypeDenotationByte, serializer.TypeDenotationNone}

var ruleTable = []serializer.ArrayRules{
	{},
	{Min: 1, Max: 3},
	{ValidationMode: serializer.ArrayValidationModeNoDuplicates},
	{ValidationMode: serializer.ArrayValidationModeLexicalOrdering},
	{ValidationMode: serializer.ArrayValidationModeLexicalOrdering | serializer.ArrayValidationModeNoDuplicates},
	{ValidationMode: serializer.ArrayValidationModeAtMostOneOfEachTypeByte},
	{ValidationMode: serializer.ArrayValidationModeAtMostOneOfEachTypeUint32},
	{MustOccur: serializer.TypePrefixes{1: struct{}{}}, Max: 200},
}

func param(cs *Case, i int) int64 {
	if i < len(cs.P) {
		return cs.P[i]
	}
	return 0
}

func readGuard(den serializer.TypeDenotationType) serializer.SerializableReadGuardFunc {
	return func(ty uint32) (serializer.Serializable, error) {
		if ty > 3 && den != serializer.TypeDenotationNone {
			return nil, fmt.Errorf("unknown type %d", ty)
		}
		return &hObj{den: den}, nil
	}
}

var numKinds = []string{"int8", "uint8", "int16", "uint16", "int32", "uint32", "int64", "uint64", "float32", "float64"}

func readNum(d *serializer.Deserializer, kind int64) {
	switch kind {
	case 0:
		var x int8
		d.ReadNum(&x, ep)
	case 1:
		var x uint8
		d.ReadNum(&x, ep)
	case 2:
		var x int16
		d.ReadNum(&x, ep)
	case 3:
		var x uint16
		d.ReadNum(&x, ep)
	case 4:
		var x int32
		d.ReadNum(&x, ep)
	case 5:
		var x uint32
		d.ReadNum(&x, ep)
	case 6:
		var x int64
		d.ReadNum(&x, ep)
	case 7:
		var x uint64
		d.ReadNum(&x, ep)
	case 8:
		var x float32
		d.ReadNum(&x, ep)
	default:
		var x float64
		d.ReadNum(&x, ep)
	}
}

// primStep applies one primitive to d.
func primStep(d *serializer.Deserializer, op string, p []int64) {
	g := func(i int) int64 {
		if i < len(p) {
			return p[i]
		}
		return 0
	}
	switch op {
	case "ReadBool":
		var b bool
		d.ReadBool(&b, ep)
	case "ReadByte":
		var b byte
		d.ReadByte(&b, ep)
	case "ReadNum":
		readNum(d, g(0))
	case "ReadUint256":
		var n *big.Int
		d.ReadUint256(&n, ep)
	case "ReadBytes":
		var b []byte
		d.ReadBytes(&b, int(g(0)), ep)
	case "ReadBytesInPlace":
		d.ReadBytesInPlace(make([]byte, int(g(0))), ep)
	case "ReadVariableByteSlice":
		var b []byte
		d.ReadVariableByteSlice(&b, lenTypes[g(0)], ep, int(g(1)), int(g(2)))
	case "ReadString":
		var s string
		d.ReadString(&s, lenTypes[g(0)], ep, int(g(1)), int(g(2)))
	case "ReadTime":
		var t time.Time
		d.ReadTime(&t, ep)
	case "ReadPayloadLength":
		d.ReadPayloadLength() //nolint
	case "ReadPayload":
		var s serializer.Serializable
		d.ReadPayload(&s, serializer.DeSerializationMode(g(0)), nil, readGuard(serializer.TypeDenotationUint32), ep)
	case "ReadObject":
		var s serializer.Serializable
		den := typeDens[g(0)]
		d.ReadObject(&s, serializer.DeSerializationMode(g(1)), nil, den, readGuard(den), ep)
	case "ReadSliceOfObjects":
		den := typeDens[g(1)]
		rules := ruleTable[g(3)]
		rules.Guards.ReadGuard = readGuard(den)
		d.ReadSliceOfObjects(func(serializer.Serializables) {}, serializer.DeSerializationMode(g(2)), nil, lenTypes[g(0)], den, &rules, ep)
	case "ReadSequenceOfObjects":
		w := int(g(1))
		rules := ruleTable[g(3)]
		d.ReadSequenceOfObjects(func(b []byte) (int, error) {
			countDecode(&objDecodes)
			if len(b) < w {
				return 0, serializer.ErrDeserializationNotEnoughData
			}
			return w, nil
		}, serializer.DeSerializationMode(g(2)), lenTypes[g(0)], &rules, ep)
	case "Skip":
		d.Skip(int(g(0)), ep)
	case "CheckTypePrefix":
		d.CheckTypePrefix(uint32(g(0)), typeDens[g(1)], ep)
	case "GetObjectType":
		d.GetObjectType(typeDens[g(0)]) //nolint
	}
}

var chainOps = []string{"ReadBool", "ReadByte", "ReadNum", "ReadUint256", "ReadTime", "ReadPayloadLength", "ReadVariableByteSlice", "ReadString", "ReadSequenceOfObjects", "ReadBytes"}

func primFunc(cs *Case, in []byte) func() (int, error) {
	if isLenarg(cs) {
		return lenargFunc(cs, in)
	}
	if cs.Tgt == "chain" {
		// P = [op0, a, b, c, op1, a, b, c, ...]
		return func() (int, error) {
			d := serializer.NewDeserializer(in)
			for i := 0; i+3 < len(cs.P); i += 4 {
				op := chainOps[cs.P[i]]
				p := cs.P[i+1 : i+4]
				if op == "ReadSequenceOfObjects" {
					p = []int64{p[0], 1 + p[1]%4, p[2] % 2, 0}
				}
				primStep(d, op, p)
			}
			d.ConsumedAll(func(int, error) error { return errors.New("left over") })
			return d.Done()
		}
	}
	return func() (int, error) {
		d := serializer.NewDeserializer(in)
		primStep(d, cs.Tgt, cs.P)
		return d.Done()
	}
}

// le encodes v at the given width, little endian.
func le(v uint64, w int) []byte {
	b := make([]byte, 8)
	binary.LittleEndian.PutUint64(b, v)
	return b[:w]
}

// hostilePrefixes for a true length k at width w.
func hostilePrefixes(k int, w int) []uint64 {
	all := uint64(1)<<(uint(w)*8) - 1
	if w == 8 {
		all = ^uint64(0)
	}
	vs := []uint64{0, 1, uint64(k), uint64(k + 1), uint64(k+255) & all, all >> 1, all, (all >> 1) + 1}
	if k > 0 {
		vs = append(vs, uint64(k-1))
	}
	if w >= 4 {
		vs = append(vs, 1<<25, 0x00ffffff)
	}
	if w == 8 {
		vs = append(vs, 1<<40, 1<<32, 1<<31)
	}
	return vs
}

func randBytes(rng *rand.Rand, n int) []byte {
	b := make([]byte, n)
	rng.Read(b)
	return b
}

// withTruncations emits in and every proper prefix of it (bounded).
func withTruncations(in []byte, max int, emit func(b []byte, org string)) {
	emit(in, "full")
	n := len(in)
	if n > max {
		n = max
	}
	for i := 0; i < n; i++ {
		emit(in[:i], fmt.Sprintf("trunc@%d", i))
	}
}

func genPrimCases(rng *rand.Rand, scale int) []Case {
	var out []Case
	add := func(op string, in []byte, org string, p ...int64) {
		out = append(out, mkCase("prim", op, false, in, org, p...))
	}
	// fixed-width readers on every length 0..40 plus random content
	fixed := []struct {
		op string
		p  []int64
	}{{"ReadBool", nil}, {"ReadByte", nil}, {"ReadUint256", nil}, {"ReadTime", nil}, {"ReadPayloadLength", nil},
		{"GetObjectType", []int64{0}}, {"GetObjectType", []int64{1}}, {"GetObjectType", []int64{2}},
		{"CheckTypePrefix", []int64{1, 0}}, {"CheckTypePrefix", []int64{1, 1}}}
	for k := range numKinds {
		fixed = append(fixed, struct {
			op string
			p  []int64
		}{"ReadNum", []int64{int64(k)}})
	}
	for _, n := range []int64{0, 1, 5, 33} {
		fixed = append(fixed, struct {
			op string
			p  []int64
		}{"ReadBytes", []int64{n}}, struct {
			op string
			p  []int64
		}{"ReadBytesInPlace", []int64{n}}, struct {
			op string
			p  []int64
		}{"Skip", []int64{n}})
	}
	for _, f := range fixed {
		for l := 0; l <= 40; l++ {
			b := randBytes(rng, l)
			if l > 0 && rng.Intn(2) == 0 {
				b[0] = byte(rng.Intn(3))
			}
			add(f.op, b, fmt.Sprintf("len@%d", l), f.p...)
		}
	}
	minmax := [][2]int64{{0, 0}, {0, 10}, {3, 0}, {3, 10}, {5, 5}}
	// length-prefixed byte slices and strings: every prefix width x min/max x hostile prefix x truncation
	for _, op := range []string{"ReadVariableByteSlice", "ReadString"} {
		for lt := 0; lt < 3; lt++ {
			for _, mm := range minmax {
				for _, k := range []int{0, 2, 4, 7, 12} {
					payload := randBytes(rng, k+rng.Intn(3))
					for _, pv := range hostilePrefixes(k, lenWidth[lt]) {
						in := append(le(pv, lenWidth[lt]), payload...)
						withTruncations(in, 8, func(b []byte, org string) {
							add(op, b, fmt.Sprintf("prefix#%s", org), int64(lt), mm[0], mm[1])
						})
					}
				}
			}
		}
	}
	// the 6 bytes of DESIGN §0: uint32 prefix 2^28, two bytes of data, max length 10
	add("ReadVariableByteSlice", []byte{0, 0, 0, 0x10, 1, 2}, "prefix#design", 2, 0, 10)
	// sequences: element width 1..4, rules, validation on/off
	for lt := 0; lt < 3; lt++ {
		for w := 1; w <= 4; w++ {
			for ri := range ruleTable {
				for mode := 0; mode < 2; mode++ {
					for _, k := range []int{0, 1, 3, 6} {
						payload := randBytes(rng, k*w+rng.Intn(3))
						if rng.Intn(2) == 0 { // ordered, distinct elements
							for i := range payload {
								payload[i] = byte(i)
							}
						}
						for _, pv := range hostilePrefixes(k, lenWidth[lt]) {
							in := append(le(pv, lenWidth[lt]), payload...)
							add("ReadSequenceOfObjects", in, "prefix#full", int64(lt), int64(w), int64(mode), int64(ri))
						}
						add("ReadSequenceOfObjects", append(le(uint64(k), lenWidth[lt]), payload...)[:rng.Intn(lenWidth[lt]+len(payload)+1)], "trunc@r", int64(lt), int64(w), int64(mode), int64(ri))
					}
				}
			}
		}
	}
	// objects / slices of objects / payloads
	mkObj := func(den int, ty uint32, k int) []byte {
		var b []byte
		switch den {
		case 0:
			b = le(uint64(ty), 4)
		case 1:
			b = []byte{byte(ty)}
		}
		b = append(b, byte(k))
		return append(b, randBytes(rng, k)...)
	}
	for den := 0; den < 3; den++ {
		for mode := 0; mode < 2; mode++ {
			for _, ty := range []uint32{0, 1, 3, 4, 0xffffffff} {
				o := mkObj(den, ty, rng.Intn(6))
				withTruncations(o, 12, func(b []byte, org string) {
					add("ReadObject", b, "obj#"+org, int64(den), int64(mode))
				})
				ob := append([]byte(nil), o...)
				ob[len(ob)-len(ob)/2-1] = 0xff
				add("ReadObject", ob, "obj#len-ff", int64(den), int64(mode))
			}
			for lt := 0; lt < 3; lt++ {
				for ri := range ruleTable {
					for _, k := range []int{0, 1, 3} {
						var body []byte
						for i := 0; i < k; i++ {
							body = append(body, mkObj(den, uint32(i%4), rng.Intn(4))...)
						}
						for _, pv := range hostilePrefixes(k, lenWidth[lt]) {
							in := append(le(pv, lenWidth[lt]), body...)
							add("ReadSliceOfObjects", in, "prefix#full", int64(lt), int64(den), int64(mode), int64(ri))
						}
						full := append(le(uint64(k), lenWidth[lt]), body...)
						add("ReadSliceOfObjects", full[:rng.Intn(len(full)+1)], "trunc@r", int64(lt), int64(den), int64(mode), int64(ri))
					}
				}
			}
		}
	}
	for mode := 0; mode < 2; mode++ {
		for _, k := range []int{0, 1, 5} {
			o := mkObj(0, 1, k)
			for _, pv := range hostilePrefixes(len(o), 4) {
				in := append(le(pv, 4), o...)
				withTruncations(in, 14, func(b []byte, org string) {
					add("ReadPayload", b, "prefix#"+org, int64(mode))
				})
			}
		}
	}
	// chains of primitives on one deserializer (error carry-over, offsets)
	for i := 0; i < 600*scale; i++ {
		n := 1 + rng.Intn(3)
		var p []int64
		for j := 0; j < n; j++ {
			op := rng.Intn(len(chainOps))
			a, b, c := int64(rng.Intn(3)), int64(rng.Intn(6)), int64(rng.Intn(12))
			if chainOps[op] == "ReadNum" {
				a = int64(rng.Intn(len(numKinds)))
			}
			if chainOps[op] == "ReadBytes" {
				a = int64(rng.Intn(20))
			}
			p = append(p, int64(op), a, b, c)
		}
		in := randBytes(rng, rng.Intn(48))
		for j := 0; j < len(in) && j < 6; j++ {
			if rng.Intn(2) == 0 {
				in[j] = byte(rng.Intn(6))
			}
		}
		add("chain", in, "random", p...)
	}
	return out
}

// ---------------------------------------------------------------- stream helpers

type fixedObj struct{ b []byte }

// chunkReader hands out at most n bytes per Read.
type chunkReader struct {
	r io.Reader
	n int
}

func (c *chunkReader) Read(p []byte) (int, error) {
	if len(p) > c.n {
		p = p[:c.n]
	}
	return c.r.Read(p)
}

func streamFunc(cs *Case, in []byte) func() (int, error) {
	g := func(i int) int64 { return param(cs, i) }
	return func() (int, error) {
		r := stream.NewByteReader(in)
		var rd io.Reader = r
		if cs.Rd > 0 {
			rd = &chunkReader{r: r, n: cs.Rd}
		}
		var err error
		switch cs.Tgt {
		case "Read":
			switch g(0) {
			case 0:
				_, err = stream.Read[bool](rd)
			case 1:
				_, err = stream.Read[uint8](rd)
			case 2:
				_, err = stream.Read[uint16](rd)
			case 3:
				_, err = stream.Read[uint32](rd)
			case 4:
				_, err = stream.Read[uint64](rd)
			case 5:
				_, err = stream.Read[int8](rd)
			case 6:
				_, err = stream.Read[int16](rd)
			case 7:
				_, err = stream.Read[int32](rd)
			case 8:
				_, err = stream.Read[int64](rd)
			case 9:
				_, err = stream.Read[[32]byte](rd)
			case 10:
				_, err = stream.Read[[36]byte](rd)
			default:
				_, err = stream.Read[[38]byte](rd)
			}
		case "ReadBytes":
			_, err = stream.ReadBytes(rd, int(g(0)))
		case "ReadBytesWithSize":
			_, err = stream.ReadBytesWithSize(rd, lenTypes[g(0)])
		case "ReadObject":
			switch g(1) {
			case 0:
				_, err = stream.ReadObject(rd, int(g(0)), typeutils.Uint64FromBytes)
			case 1:
				_, err = stream.ReadObject(rd, int(g(0)), typeutils.ByteArray32FromBytes)
			default:
				_, err = stream.ReadObject(rd, int(g(0)), func(b []byte) (fixedObj, int, error) { return fixedObj{b}, len(b), nil })
			}
		case "ReadObjectWithSize":
			switch g(1) {
			case 0:
				_, err = stream.ReadObjectWithSize(rd, lenTypes[g(0)], typeutils.Uint64FromBytes)
			case 1:
				_, err = stream.ReadObjectWithSize(rd, lenTypes[g(0)], typeutils.ByteArray32FromBytes)
			default:
				_, err = stream.ReadObjectWithSize(rd, lenTypes[g(0)], func(b []byte) (fixedObj, int, error) { return fixedObj{b}, len(b), nil })
			}
		case "ReadObjectFromReader":
			_, err = stream.ReadObjectFromReader(r, func(rs io.ReadSeeker) (uint32, error) { return stream.Read[uint32](rs) })
		case "PeekSize":
			var n int
			n, err = stream.PeekSize(r, lenTypes[g(0)])
			_ = n
			if err == nil && r.BytesRead() != 0 {
				return r.BytesRead(), fmt.Errorf("PeekSize moved the reader")
			}
		case "ReadCollection":
			err = stream.ReadCollection(rd, lenTypes[g(0)], func(int) error {
				countDecode(&objDecodes)
				_, e := stream.Read[uint16](rd)
				return e
			})
		case "ReadCollectionNested":
			err = stream.ReadCollection(rd, lenTypes[g(0)], func(int) error {
				countDecode(&objDecodes)
				return stream.ReadCollection(rd, lenTypes[g(1)], func(int) error {
					countDecode(&objDecodes)
					_, e := stream.ReadBytesWithSize(rd, lenTypes[g(2)])
					return e
				})
			})
		default:
			return 0, fmt.Errorf("unknown stream op %s", cs.Tgt)
		}
		return r.BytesRead(), err
	}
}

func genStreamCases(rng *rand.Rand, scale int) []Case {
	var out []Case
	add := func(op string, in []byte, org string, p ...int64) {
		out = append(out, mkCase("stream", op, false, in, org, p...))
	}
	for k := 0; k < 12; k++ {
		for l := 0; l <= 40; l++ {
			add("Read", randBytes(rng, l), fmt.Sprintf("len@%d", l), int64(k))
		}
	}
	for _, n := range []int64{0, 1, 8, 32, 33} {
		for l := 0; l <= 36; l += 1 + l/8 {
			add("ReadBytes", randBytes(rng, l), fmt.Sprintf("len@%d", l), n)
			for fn := int64(0); fn < 3; fn++ {
				add("ReadObject", randBytes(rng, l), fmt.Sprintf("len@%d", l), n, fn)
			}
		}
	}
	for lt := 0; lt < 4; lt++ {
		w := lenWidth[lt]
		for _, k := range []int{0, 1, 8, 32, 40} {
			payload := randBytes(rng, k+rng.Intn(3))
			for _, pv := range hostilePrefixes(k, w) {
				in := append(le(pv, w), payload...)
				withTruncations(in, w+2, func(b []byte, org string) {
					add("ReadBytesWithSize", b, "prefix#"+org, int64(lt))
					add("PeekSize", b, "prefix#"+org, int64(lt))
					for fn := int64(0); fn < 3; fn++ {
						add("ReadObjectWithSize", b, "prefix#"+org, int64(lt), fn)
					}
				})
			}
		}
		for _, k := range []int{0, 1, 3, 9} {
			payload := randBytes(rng, 2*k+rng.Intn(2))
			for _, pv := range hostilePrefixes(k, w) {
				in := append(le(pv, w), payload...)
				withTruncations(in, w+3, func(b []byte, org string) {
					add("ReadCollection", b, "prefix#"+org, int64(lt))
				})
			}
		}
	}
	for i := 0; i < 400*scale; i++ {
		a, b, c := rng.Intn(4), rng.Intn(4), rng.Intn(4)
		in := randBytes(rng, rng.Intn(40))
		// make small counts likely
		for j := range in {
			if rng.Intn(3) != 0 {
				in[j] = byte(rng.Intn(4))
			}
		}
		add("ReadCollectionNested", in, "random", int64(a), int64(b), int64(c))
		add("ReadObjectFromReader", in, "random")
	}
	return out
}

// ---------------------------------------------------------------- typeutils

func utilFunc(cs *Case, in []byte) func() (int, error) {
	return func() (int, error) {
		switch cs.Tgt {
		case "Uint64FromBytes":
			_, n, err := typeutils.Uint64FromBytes(in)
			return n, err
		case "ByteArray32FromBytes":
			_, n, err := typeutils.ByteArray32FromBytes(in)
			return n, err
		// exported string-taking helpers of serix/numbers.go (the input bytes are the string)
		case "serix.DecodeHex":
			_, err := serix.DecodeHex(string(in))
			return -1, err
		case "serix.DecodeUint256":
			_, err := serix.DecodeUint256(string(in))
			return -1, err
		case "serix.DecodeUint64":
			_, err := serix.DecodeUint64(string(in))
			return -1, err
		}
		return 0, fmt.Errorf("unknown util op %s", cs.Tgt)
	}
}

func genUtilCases(rng *rand.Rand) []Case {
	var out []Case
	for l := 0; l <= 70; l++ {
		for r := 0; r < 3; r++ {
			b := randBytes(rng, l)
			out = append(out, mkCase("util", "Uint64FromBytes", false, b, fmt.Sprintf("len@%d", l)))
			out = append(out, mkCase("util", "ByteArray32FromBytes", false, b, fmt.Sprintf("len@%d", l)))
		}
	}
	out = append(out, mkCase("util", "Uint64FromBytes", false, nil, "nil"))
	// string helpers: every string of length 0..3 over the structural alphabet, the value-dependent
	// replacements used for JSON string nodes (lengths, numeric spellings, hex forms, 64 KiB), random text
	for _, op := range []string{"serix.DecodeHex", "serix.DecodeUint256", "serix.DecodeUint64"} {
		for _, str := range shortStrings() {
			out = append(out, mkCase("util", op, false, []byte(str), "short#"+str))
		}
		for _, orig := range []string{"0x0102030405060708", "12345", "0x1"} {
			for _, r := range stringRepls(orig, true) {
				out = append(out, mkCase("util", op, false, []byte(r.v.(string)), "repl#"+r.name))
			}
		}
		for _, n := range longSizes {
			for pat := 1; pat <= 3; pat++ {
				pre := []byte(nil)
				if pat == 2 {
					pre = []byte("0x")
				}
				out = append(out, mkLong("util", op, false, pre, n, pat, nil, fmt.Sprintf("long#%d/%d", pat, n), 0))
			}
		}
		for i := 0; i < 300; i++ {
			b := randBytes(rng, rng.Intn(12))
			if i%2 == 0 {
				for j := range b {
					b[j] = shortAlphabet[int(b[j])%len(shortAlphabet)]
				}
				b = append([]byte("0x"), b...)
			}
			out = append(out, mkCase("util", op, false, b, "random"))
		}
	}
	return out
}

const shortAlphabet = "0xX1ag-+.e"

// shortStrings enumerates all strings of length 0..3 over shortAlphabet (1111 strings).
func shortStrings() []string {
	out := []string{""}
	prev := []string{""}
	for l := 1; l <= 3; l++ {
		var cur []string
		for _, p := range prev {
			for i := 0; i < len(shortAlphabet); i++ {
				cur = append(cur, p+shortAlphabet[i:i+1])
			}
		}
		out = append(out, cur...)
		prev = cur
	}
	return out
}
