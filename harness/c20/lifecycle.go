// Entry-point combinations over the daemon's life cycle ("life" children, plain
// build, scripted and stepped by global quiescence like scenario.go).
//
// What scenario.go does not drive: there Run is only ever the call that STARTS the
// daemon, and every waiting call is made before or together with the shutdown
// request. Here the daemon is started with Start() (or Run), the shutdown is
// requested by a non-blocking Shutdown() or by ShutdownAndWait() from another
// goroutine, and further Run() / ShutdownAndWait() / Shutdown() / Start() calls
// arrive from fresh goroutines at every stage: while the daemon is running, in
// the same step as the shutdown request, at every step of the winding down
// (workers are held by gates, so "winding down" lasts as long as the harness
// wants), after the stop, and on a daemon that was stopped before it was ever
// started.
//
// Oracle (clause "ShutdownAndWait (and Run) return only after every started
// worker has returned"), decided for every such call: the call is found returned
// at a quiescent point Q' while a worker that was already inside its handler at the
// previous quiescent point Q is still inside its handler at Q' (the harness holds
// its gate or it still waits for its cancellation) => the call returned while a
// started worker had provably not returned. No clock, no duration: two snapshots
// and the harness' own gates. The ordering invariant of scenario.go
// (checkShutdown) runs at every quiescent point as well, so a late call must not
// disturb the order either. After the last worker returned nothing may stay
// blocked inside Run/Shutdown/ShutdownAndWait, further calls of all four entry
// points return, start nothing, and BackgroundWorker is refused.
//
// Not demanded: anything about a Run/Start that races with the FIRST shutdown
// request of a daemon that is not running yet (outside the statement), which
// error text is used, how or where the calls park.
package main

import (
	"errors"
	"fmt"
	"math/rand"
	"strings"
	"sync/atomic"
	"time"

	"github.com/iotaledger/hive.go/app/daemon"
	"verif/harness/internal/gdump"
	"verif/harness/internal/vf"
)

const exportedRunFrame = "daemon.(*OrderedDaemon).Run"

// lcall is one call of an exported life-cycle entry point made from its own goroutine.
type lcall struct {
	a       *gdump.Actor
	kind    string // run | shutdownandwait | shutdown | start
	stage   string // start | running | shutdown-request | winding-down | after-stop | before-start | stopped-unstarted
	retTick atomic.Uint64
	judged  bool
	counted bool // "seen blocked while a started worker is held" counted once
}

var apiName = map[string]string{"run": "Run", "shutdownandwait": "ShutdownAndWait", "shutdown": "Shutdown", "start": "Start"}

func (k *lcall) waits() bool { return k.kind == "run" || k.kind == "shutdownandwait" }

type life struct {
	*scen
	calls    []*lcall
	prevLive map[*wk]bool // workers inside their handler at the previous quiescent point
	shape    []string
	shutReq  bool
}

func lifeSeeds(c *vf.Ctx, n int) []int64 {
	r := c.Rand("lifecfg")
	out := make([]int64, n)
	for i := range out {
		out[i] = r.Int63()
	}
	return out
}

// launch starts one entry-point call on a fresh actor (no settling).
func (l *life) launch(kind, stage string) *lcall {
	k := &lcall{a: l.actor(fmt.Sprintf("%s@%s#%d", kind, stage, len(l.calls))), kind: kind, stage: stage}
	l.calls = append(l.calls, k)
	switch kind {
	case "run":
		k.a.Start(func() { l.d.Run(); k.retTick.Store(tick()) })
	case "shutdownandwait":
		sc := &shutCaller{a: k.a, wait: true}
		l.shut = append(l.shut, sc)
		k.a.Start(func() { l.d.ShutdownAndWait(); t := tick(); sc.retTick.Store(t); k.retTick.Store(t) })
	case "shutdown":
		sc := &shutCaller{a: k.a, wait: false}
		l.shut = append(l.shut, sc)
		k.a.Start(func() { l.d.Shutdown(); t := tick(); sc.retTick.Store(t); k.retTick.Store(t) })
	case "start":
		k.a.Start(func() { l.d.Start(); k.retTick.Store(tick()) })
	}
	l.tr("%s() called from a new goroutine [stage %s]", apiName[kind], stage)
	l.shape = append(l.shape, stage+":"+kind)
	l.c.Count("life_calls", 1)
	l.c.Count("life_calls_"+stage+"_"+kind, 1)
	return k
}

// judge evaluates, at a quiescent point, every call that has returned since the
// previous quiescent point, and records the calls seen blocked.
func (l *life) judge(gs []gdump.G) {
	live := map[*wk]bool{}
	var held []*wk // inside their handler at the previous quiescent point and now
	for _, w := range l.liveWorkers() {
		live[w] = true
		if l.prevLive[w] {
			held = append(held, w)
		}
	}
	for _, k := range l.calls {
		if k.judged {
			continue
		}
		if k.a.Busy() {
			if !k.waits() || len(held) == 0 {
				continue
			}
			// calibration: the blocked caller is where the harness believes it is (exported frame only)
			g, ok := gdump.Find(gs, k.a.ID())
			if ok {
				if k.kind == "shutdownandwait" {
					ok = inShutdownCall(g)
				} else {
					ok = inRunCall(g)
				}
			}
			if !ok {
				l.c.Inconclusive(fmt.Sprintf("life cfg %d: busy %s caller shows no exported %s frame in the snapshot", l.seed, k.kind, apiName[k.kind]))
				l.dirty = true
				continue
			}
			if !k.counted {
				k.counted = true
				l.c.Count("life_blocked_seen", 1) // the call was seen parked inside the exported call while a started worker was held by the harness
				l.c.Count("life_blocked_seen_"+k.stage+"_"+k.kind, 1)
			}
			continue
		}
		k.judged = true
		if p := k.a.TakePanic(); p != "" {
			l.violation("late-call:panic-"+k.kind+"-"+k.stage, fmt.Sprintf("%s() called at stage %q panicked: %s", apiName[k.kind], k.stage, p))
			continue
		}
		if !k.waits() {
			continue
		}
		l.c.Count("evaluations", 1)
		l.c.Count("life_returns_judged", 1)
		l.c.Count("life_returns_judged_"+k.stage+"_"+k.kind, 1)
		if len(held) == 0 {
			continue
		}
		var names []string
		for _, w := range held {
			names = append(names, fmt.Sprintf("%s(order %d, cancelled=%v)", w.name, w.order, w.cancelled()))
		}
		l.violation("late-wait:"+k.kind+"-"+k.stage+"-returned-before-worker",
			fmt.Sprintf("%s() called at stage %q returned (tick %d) although started workers are still inside their handlers at the quiescent points before and after its return: %s", apiName[k.kind], k.stage, k.retTick.Load(), strings.Join(names, ", ")))
	}
	l.prevLive = live
}

// step: settle, check the invariants that apply at this stage, judge the calls.
func (l *life) step() []gdump.G {
	gs := l.settle()
	if l.shutReq {
		gs = l.checkShutdown(gs)
	} else {
		l.checkPre()
	}
	l.judge(gs)
	return gs
}

func (l *life) registerNew(o int, has, pre bool, what string) *wk {
	w := newWk(l.newName(), o, has)
	w.preRun = pre
	err, pan, blocked := l.register(w)
	l.tr("register %s order=%d (%s) -> %s", w.name, w.order, what, errStr(err))
	if blocked || pan != "" {
		l.c.Inconclusive(fmt.Sprintf("life cfg %d: registration (%s) blocked=%v panic=%q", l.seed, what, blocked, pan))
		l.dirty = true
		return nil
	}
	if err != nil {
		l.c.Note("registration of a fresh name refused (" + what + "): " + err.Error())
		return nil
	}
	w.accepted = true
	l.ws = append(l.ws, w)
	l.byName[w.name] = w
	return w
}

func pickKind(rng *rand.Rand) string {
	switch r := rng.Intn(20); {
	case r < 10:
		return "run"
	case r < 16:
		return "shutdownandwait"
	case r < 19:
		return "shutdown"
	}
	return "start"
}

// blockedCalls: calls that are still busy at a quiescent point.
func (l *life) blockedCalls() []*lcall {
	var out []*lcall
	for _, k := range l.calls {
		if k.a.Busy() {
			out = append(out, k)
		}
	}
	return out
}

func (l *life) anyStarted() *wk {
	for _, w := range l.ws {
		if w.started.Load() {
			return w
		}
	}
	return nil
}

// refusedAfterStop: BackgroundWorker on a stopped daemon.
func (l *life) refusedAfterStop(what string) {
	w := newWk(l.newName(), 0, false)
	err, pan, blocked := l.register(w)
	l.tr("BackgroundWorker(%s) %s -> %s panic=%q", w.name, what, errStr(err), pan)
	l.c.Count("evaluations", 1)
	switch {
	case blocked:
		l.c.Inconclusive(fmt.Sprintf("life cfg %d: BackgroundWorker %s blocked", l.seed, what))
		l.dirty = true
	case pan != "":
		l.violation("after:bgworker-panics-after-shutdown", "BackgroundWorker called "+what+" panicked: "+pan)
	case err == nil:
		l.ws = append(l.ws, w)
		l.violation("after:bgworker-accepted-after-shutdown", "BackgroundWorker called "+what+" was accepted (returned nil)")
	case errors.Is(err, daemon.ErrDaemonAlreadyStopped):
		l.c.Count("life_refused_already_stopped", 1)
	default:
		l.c.Note("call on a stopped daemon refused with another error: " + err.Error())
	}
}

// stoppedCalls: every entry point on a daemon that has stopped (or was stopped before
// it was started): the calls return, start nothing.
func (l *life) stoppedCalls(stage string, n int) {
	kinds := []string{"run", "shutdownandwait", "shutdown", "start", "run", "shutdownandwait"}
	l.rng.Shuffle(len(kinds), func(i, j int) { kinds[i], kinds[j] = kinds[j], kinds[i] })
	startedBefore := map[*wk]bool{}
	for _, w := range l.ws {
		startedBefore[w] = w.started.Load()
	}
	for _, kind := range kinds[:n] {
		k := l.launch(kind, stage)
		gs := l.settle()
		l.judge(gs)
		if k.a.Busy() {
			// nothing is running, the harness holds no gate, the process is quiescent: the call can never return
			l.violation("hang:"+kind+"-blocked-on-stopped-daemon", fmt.Sprintf("%s() called on a stopped daemon with no worker running (stage %q) is blocked while the process is quiescent", apiName[kind], stage))
			l.dirty = true
			return
		}
		l.c.Count("evaluations", 1)
		for _, w := range l.ws {
			if w.started.Load() && !startedBefore[w] {
				startedBefore[w] = true
				l.violation("after:worker-started-after-shutdown", fmt.Sprintf("%s() on a stopped daemon (stage %q) started worker %s", apiName[kind], stage, w.name))
			}
		}
	}
}

// neverStarted: the daemon is stopped before it was started; afterwards Run/Start/Shutdown*
// in any order return and start nothing.
func (l *life) neverStarted() {
	l.flags["never-started"] = true
	first := "shutdown"
	if l.rng.Intn(2) == 0 {
		first = "shutdownandwait"
	}
	k := l.launch(first, "before-start")
	gs := l.settle()
	l.judge(gs)
	if k.a.Busy() {
		l.violation("hang:"+first+"-blocked-on-unstarted-daemon", apiName[first]+"() on a daemon that was never started is blocked while the process is quiescent")
		l.dirty = true
		return
	}
	l.stoppedCalls("stopped-unstarted", 2+l.rng.Intn(4))
	if l.dirty {
		return
	}
	l.refusedAfterStop("after the never-started daemon was shut down")
}

func (l *life) run() bool {
	rng := l.rng
	l.mode = "life"
	l.prevLive = map[*wk]bool{}
	l.d = l.newDaemon()
	l.reg = l.actor("registrar")
	l.pool = genPool(rng, 1+rng.Intn(4))
	startMode := "start"
	switch r := rng.Intn(20); {
	case r >= 18:
		startMode = "never"
	case r >= 12:
		startMode = "run"
	}
	nPre := 1 + rng.Intn(5)
	patient := l.holdMs > 0
	if patient {
		// patience run: at least two distinct orders at shutdown, the daemon is started, nobody leaves early
		l.pool = genPool(rng, 2+rng.Intn(3))
		nPre = 3 + rng.Intn(3)
		if startMode == "never" {
			startMode = "start"
		}
	}
	for i := 0; i < nPre && !l.dirty; i++ {
		o, has := l.pickOrder(false)
		if patient && i < 2 {
			o, has = l.pool[i], true
		}
		l.registerNew(o, has, true, "before Start")
	}
	if l.dirty {
		return l.cleanup()
	}

	if startMode == "never" {
		l.neverStarted()
		l.finish()
		return l.cleanup()
	}

	// --- start
	l.started = true
	l.launch(startMode, "start")
	l.step()
	for _, w := range l.ws {
		if !w.started.Load() {
			l.c.Note("life: worker registered before Start was not started")
		}
	}

	// --- running: further Run callers, workers added / finishing, Start again
	for i, n := 0, rng.Intn(4); i < n && !l.dirty; i++ {
		switch op := rng.Intn(10); {
		case op < 4:
			l.launch("run", "running")
		case op < 6:
			o, has := l.pickOrder(true)
			l.registerNew(o, has, false, "daemon running")
		case op < 8:
			if live := l.liveWorkers(); len(live) > 0 && !patient {
				w := live[rng.Intn(len(live))]
				w.finishEarly()
				l.tr("worker %s (order %d) returns on its own before shutdown", w.name, w.order)
				l.flags["early-finish"] = true
			}
		default:
			l.launch("start", "running")
		}
		l.step()
	}
	if l.dirty {
		return l.cleanup()
	}

	// --- shutdown request (from another goroutine), optionally in the same step as a Run call
	req := "shutdown"
	if rng.Intn(20) >= 11 {
		req = "shutdownandwait"
	}
	switch rng.Intn(5) {
	case 0:
		l.launch("run", "shutdown-request")
		l.launch(req, "shutdown-request")
	case 1:
		l.launch(req, "shutdown-request")
		l.launch("run", "shutdown-request")
	case 2:
		l.launch(req, "shutdown-request")
		l.launch(pickKind(rng), "shutdown-request")
	default:
		l.launch(req, "shutdown-request")
	}
	l.shutReq = true
	l.step()
	atShutdown := len(l.liveWorkers())

	// --- winding down: one gate at a time; calls arrive at seeded steps (at least one)
	lateAt := 0
	if atShutdown > 0 {
		lateAt = rng.Intn(atShutdown)
	}
	if patient && !l.dirty {
		// a Run and a second ShutdownAndWait arrive and park; then every gate stays shut for a long time
		l.launch("run", "winding-down")
		l.launch("shutdownandwait", "winding-down")
		l.step()
		l.patientHold("highest order gated")
	}
	tailHeld := false
	partition := func() (cand, unc []*wk) {
		for _, w := range l.liveWorkers() {
			if w.cancelled() {
				cand = append(cand, w)
			} else {
				unc = append(unc, w)
			}
		}
		return
	}
	for step := 0; !l.dirty; step++ {
		cand, unc := partition()
		if len(cand)+len(unc) == 0 {
			break
		}
		if len(cand) == 0 {
			break // stalled shutdown: already reported by the ordering invariant
		}
		if patient && !tailHeld && step > 0 && len(unc) == 0 {
			// only the lowest order is left (everything live is cancelled): the final wait is held as well
			tailHeld = true
			l.patientHold("last order gated")
			if l.dirty {
				break
			}
		}
		if step == lateAt || rng.Intn(3) == 0 {
			nCalls := 1 + rng.Intn(2)
			for i := 0; i < nCalls; i++ {
				l.launch(pickKind(rng), "winding-down")
			}
			if rng.Intn(3) != 0 {
				l.step() // the call arrives and parks before the next worker returns
				if l.dirty {
					break
				}
				cand, unc = partition()
				if len(cand) == 0 {
					break
				}
			} // else: the call overlaps the next worker's return
		}
		var w *wk
		if len(unc) > 0 && rng.Intn(8) == 0 {
			w = unc[rng.Intn(len(unc))]
			w.finishEarly()
			l.tr("worker %s (order %d) returns on its own during shutdown, before being cancelled", w.name, w.order)
			l.flags["early-during-shutdown"] = true
		} else {
			w = cand[rng.Intn(len(cand))]
			w.openGate()
			l.tr("cancelled worker %s (order %d) is allowed to return", w.name, w.order)
			l.c.Count("life_gate_releases", 1)
		}
		l.opened = append(l.opened, fmt.Sprint(w.order))
		l.step()
		if !l.dirty && !w.returned.Load() {
			l.c.Inconclusive(fmt.Sprintf("life cfg %d: released worker did not return", l.seed))
			l.dirty = true
		}
	}
	if l.dirty {
		return l.cleanup()
	}

	// --- after the last worker returned
	gs := l.step()
	if len(l.liveWorkers()) == 0 {
		if v := l.shutdownView(gs); v.blind != "" {
			l.c.Inconclusive(fmt.Sprintf("life cfg %d: after all workers returned: %s", l.seed, v.blind))
			l.dirty = true
		} else if len(v.inside) > 0 {
			l.violation("hang:shutdown-parked-after-all-workers-returned", fmt.Sprintf("every worker has returned, the harness holds no gate and the process is quiescent, but %d goroutine(s) are still blocked inside Shutdown/ShutdownAndWait (state %q)", len(v.inside), v.inside[0].State))
			l.dirty = true
		}
		for _, k := range l.blockedCalls() {
			if k.kind == "run" || k.kind == "start" {
				l.violation("hang:"+k.kind+"-blocked-after-all-workers-returned", fmt.Sprintf("every worker has returned, the shutdown has completed, the harness holds no gate and the process is quiescent, but %s() called at stage %q has not returned", apiName[k.kind], k.stage))
				l.dirty = true
			}
		}
		if !l.dirty {
			l.stoppedCalls("after-stop", 2+rng.Intn(4))
		}
		if !l.dirty {
			l.refusedAfterStop("after the daemon had stopped")
		}
	}
	l.finish()
	return l.cleanup()
}

// patientHold keeps every gate shut for holdMs of wall time (a wait inside the daemon that gives up or
// changes its behaviour after some time gets the chance to do so) and then takes the usual step. The
// duration decides nothing: the verdict is the structural one of step() – while the harness holds the
// gates no lower-order context may be cancelled and no ShutdownAndWait/Run may have returned.
func (l *life) patientHold(what string) {
	held := len(l.liveWorkers())
	blocked := len(l.blockedCalls())
	l.tr("patience: all gates stay shut for %d ms (%s; %d workers inside their handlers, %d calls blocked)", l.holdMs, what, held, blocked)
	time.Sleep(time.Duration(l.holdMs) * time.Millisecond)
	l.step()
	l.c.Count("patience_holds", 1)
	if l.withLogger {
		l.c.Count("patience_holds_with_debug_logger", 1)
	}
	if l.pkgLevel {
		l.c.Count("patience_holds_package_level_api", 1)
	}
	l.c.Count("patience_workers_held", held)
	l.c.Count("patience_calls_blocked_before_hold", blocked)
	l.c.Count("patience_calls_blocked_after_hold", len(l.blockedCalls()))
}

func (l *life) finish() {
	l.c.Count("life_configurations", 1)
	l.countAPI("life")
	l.c.Distinct("life_shapes", strings.Join(l.shape, " "))
	l.c.Distinct("life_release_orders", strings.Join(l.shape, " ")+"|"+strings.Join(l.opened, ","))
	if l.c.WantSample() && len(l.calls) >= 4 && len(l.opened) >= 2 {
		l.c.Sample(map[string]any{"life_cfg_seed": l.seed, "trace": l.trace})
	}
}

// countAPI: which API surface / logger configuration the scenario ran on.
func (s *scen) countAPI(fam string) {
	switch {
	case s.pkgLevel && s.withLogger:
		s.c.Count(fam+"_on_default_daemon_with_debug_logger", 1)
	case s.pkgLevel:
		s.c.Count(fam+"_on_default_daemon", 1)
	}
}

func runLife(c *vf.Ctx, seed int64, idx int) bool { return runLifeOn(c, seed, idx, false, false, 0) }

func runLifeOn(c *vf.Ctx, seed int64, idx int, pkg, logger bool, holdMs int) bool {
	s := &scen{pkgLevel: pkg, withLogger: logger, holdMs: holdMs, c: c, seed: seed, idx: idx, rng: rand.New(rand.NewSource(seed)), qrng: rand.New(rand.NewSource(seed ^ 0x5eed0c20)), byName: map[string]*wk{}, viols: map[string]bool{}, flags: map[string]bool{}}
	l := &life{scen: s}
	return l.run()
}
