// The package-level ("default daemon") API of app/daemon as a daemon.Daemon, so that
// the scripted families (scenario.go, lifecycle.go) can run on it unchanged.
//
// The default daemon is process-global and cannot be restarted once stopped: one
// scenario per child process ("single" children). It is also the only daemon that
// can have a debug logger (DebugLogger sets the logger of the default daemon, whatever
// the receiver): half of these children install a logger that discards its output.
package main

import (
	"context"
	"io"
	"strings"

	"github.com/iotaledger/hive.go/app/daemon"
	"github.com/iotaledger/hive.go/log"
	"verif/harness/internal/gdump"
)

type pkgDaemon struct{}

var _ daemon.Daemon = pkgDaemon{}

func (pkgDaemon) GetRunningBackgroundWorkers() []string { return daemon.GetRunningBackgroundWorkers() }
func (pkgDaemon) BackgroundWorker(name string, handler daemon.WorkerFunc, order ...int) error {
	return daemon.BackgroundWorker(name, handler, order...)
}
func (pkgDaemon) DebugLogger(l log.Logger)        { daemon.DebugLogger(l) }
func (pkgDaemon) Start()                          { daemon.Start() }
func (pkgDaemon) Run()                            { daemon.Run() }
func (pkgDaemon) Shutdown()                       { daemon.Shutdown() }
func (pkgDaemon) ShutdownAndWait()                { daemon.ShutdownAndWait() }
func (pkgDaemon) IsRunning() bool                 { return daemon.IsRunning() }
func (pkgDaemon) IsStopped() bool                 { return daemon.IsStopped() }
func (pkgDaemon) ContextStopped() context.Context { return daemon.ContextStopped() }

func discardLogger() log.Logger {
	return log.NewLogger(log.WithName("daemon"), log.WithLevel(log.LevelDebug), log.WithOutput(io.Discard))
}

// newDaemon: a fresh instance, or the process-global default daemon (with or without a debug logger).
func (s *scen) newDaemon() daemon.Daemon {
	if !s.pkgLevel {
		return daemon.New()
	}
	if s.withLogger {
		daemon.DebugLogger(discardLogger())
	}
	return pkgDaemon{}
}

// Exported entry points in a goroutine's stack: the methods of *OrderedDaemon or the package-level
// functions of the same name (only exported names; which one delegates to which is not assumed).
func inShutdownCall(g gdump.G) bool {
	return g.Has(exportedShutdownFrame) || g.Has("hive.go/app/daemon.Shutdown")
}

func inRunCall(g gdump.G) bool {
	if g.Has(exportedRunFrame) {
		return true
	}
	for _, f := range g.Frames {
		if strings.HasSuffix(f, "hive.go/app/daemon.Run") {
			return true
		}
	}
	return false
}
