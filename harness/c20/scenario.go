// Deterministic (scripted, quiescence-stepped) scenarios for C20.
//
// One scenario = one daemon. The controller (main goroutine of a "det" child)
// issues one step, waits until every goroutine of the process is parked
// (gdump.WaitQuiescent – the daemon uses neither timers nor a logger, so the
// global rule applies), reads ctx.Err() of every worker, checks the invariant,
// issues the next step. No verdict depends on a duration.
package main

import (
	"context"
	"errors"
	"fmt"
	"math"
	"math/rand"
	"sort"
	"strings"
	"sync/atomic"

	"github.com/iotaledger/hive.go/app/daemon"
	"verif/harness/internal/gdump"
	"verif/harness/internal/vf"
)

const hookPoint = "daemon.bgworker.afterStoppedCheck"

var clock atomic.Uint64

func tick() uint64 { return clock.Add(1) }

// ---------------------------------------------------------------- workers

type wk struct {
	name      string
	order     int
	hasOrder  bool // pass the order argument (false: omit it, order 0)
	late      bool // registered through the gated call
	ctx       atomic.Pointer[context.Context]
	started   atomic.Bool
	returned  atomic.Bool
	retTick   atomic.Uint64
	startTick atomic.Uint64
	early     chan struct{}
	gate      chan struct{}
	// controller side
	earlyClosed, gateOpen bool
	accepted              bool
	regTick               uint64 // tick after the accepting BackgroundWorker call returned
	preRun                bool   // registered before Run/Start was called
	// disc family (disc.go): re-entrant calls made from inside the handler
	cmd       chan func() // closures the controller hands to the handler while it is running
	atStart   []func()    // closures the handler runs first thing
	retAtOnce bool        // the handler returns right after its at-start closures
}

func newWk(name string, order int, hasOrder bool) *wk {
	return &wk{name: name, order: order, hasOrder: hasOrder, early: make(chan struct{}), gate: make(chan struct{})}
}

// fn is the WorkerFunc: publish ctx, wait for cancellation (or the harness'
// early signal), wait on the gate, return.
func (w *wk) fn(ctx context.Context) {
	w.ctx.Store(&ctx)
	w.startTick.Store(tick())
	w.started.Store(true)
	select {
	case <-ctx.Done():
	case <-w.early:
	}
	<-w.gate
	w.retTick.Store(tick())
	w.returned.Store(true)
}

func (w *wk) cancelled() bool {
	p := w.ctx.Load()
	return p != nil && (*p).Err() != nil
}

// inModel: the gated worker takes part in the ordering model only once the
// daemon has cancelled it (i.e. has integrated it into the shutdown sequence).
func (w *wk) inModel() bool { return !w.late || w.cancelled() }

func (w *wk) live() bool { return w.started.Load() && !w.returned.Load() }

func (w *wk) openGate() {
	if !w.gateOpen {
		w.gateOpen = true
		close(w.gate)
	}
}
func (w *wk) finishEarly() {
	if !w.earlyClosed {
		w.earlyClosed = true
		close(w.early)
	}
	w.openGate()
}

// ---------------------------------------------------------------- hook (gate mode)

var (
	hookArmed   atomic.Bool
	hookReached atomic.Bool
	hookGate    atomic.Pointer[chan struct{}]
)

func gateHook(p string) {
	if p != hookPoint {
		return
	}
	if hookArmed.CompareAndSwap(true, false) {
		ch := *hookGate.Load()
		hookReached.Store(true)
		<-ch
	}
}

// ---------------------------------------------------------------- scenario

type shutCaller struct {
	a       *gdump.Actor
	wait    bool // ShutdownAndWait (true) or Shutdown
	retTick atomic.Uint64
}

type lateCall struct {
	w        *wk
	a        *gdump.Actor
	gate     chan struct{}
	mode     string // "mid" | "after"
	midAfter int    // release after that many gate openings (mode mid)
	released bool
	done     bool
	err      error
	pan      string
}

type replayRec struct {
	Mode    string   `json:"mode"` // det | life | stress
	CfgSeed int64    `json:"cfg_seed,omitempty"`
	Index   int      `json:"index,omitempty"`
	Trace   []string `json:"trace,omitempty"`
	Race    bool     `json:"race,omitempty"`
	Batch   int      `json:"batch,omitempty"`
	From    int      `json:"from,omitempty"`
	Iters   int      `json:"iters,omitempty"`
	Report  string   `json:"report,omitempty"`
	Dump    string   `json:"dump,omitempty"`
	Pkg     bool     `json:"pkg_level_api,omitempty"`
	Logger  bool     `json:"debug_logger,omitempty"`
	HoldMs  int      `json:"hold_ms,omitempty"`
}

type scen struct {
	c       *vf.Ctx
	seed    int64
	idx     int
	rng     *rand.Rand
	qrng    *rand.Rand // separate stream for the read-only API bursts
	d       daemon.Daemon
	ws      []*wk
	byName  map[string]*wk
	trace   []string
	started bool
	useRun  bool
	runner  *gdump.Actor
	runTick atomic.Uint64
	reg     *gdump.Actor
	shut    []*shutCaller
	late    *lateCall
	actors  []*gdump.Actor
	pool    []int
	nextID  int
	dirty   bool
	viols   map[string]bool
	opened  []string
	flags   map[string]bool
	mode    string // replay mode of the family that runs on this scen ("" = det)
	// configuration space: package-level default daemon instead of an instance, debug logger installed,
	// long hold of the gates in milliseconds (lifecycle.go "patience")
	pkgLevel, withLogger bool
	holdMs               int
}

// orderBase: ordinary small orders (ties, negatives, gaps; 0 is also what the
// API uses when the order argument is omitted or an explicit 0 is passed – the
// real code treats both as order 0, and so does the model) plus boundary
// values of int32 and of the platform int.
var orderBase = []int{-1000, -7, -2, -1, 0, 0, 1, 2, 3, 10, 11, 100,
	math.MaxInt32, -math.MaxInt32, math.MaxInt32 + 1, -(math.MaxInt32 + 1), math.MinInt32,
	math.MaxInt, math.MaxInt - 1, math.MinInt, math.MinInt + 1}

// farPairs: order pairs whose difference does not fit into an int (more than
// math.MaxInt apart) – a comparator that subtracts orders is wrong on them.
var farPairs = [][2]int{{math.MaxInt, math.MinInt}, {math.MaxInt, -2}, {math.MinInt, 1}, {math.MaxInt - 1, math.MinInt + 1},
	{math.MaxInt, -1}, {0, math.MinInt}, {math.MaxInt32, math.MinInt}, {math.MaxInt, -(math.MaxInt32 + 1)}, {2, math.MinInt + 1}}

// farApart reports |a-b| > math.MaxInt without overflowing.
func farApart(a, b int) bool {
	if a < b {
		a, b = b, a
	}
	return a >= 0 && b < 0 && a > math.MaxInt+b
}

func hasFarPair(orders []int) bool {
	for i, a := range orders {
		for _, b := range orders[i+1:] {
			if farApart(a, b) {
				return true
			}
		}
	}
	return false
}

// genPool draws k distinct orders; in a third of the cases (k >= 2) the pool is
// guaranteed to contain a pair more than math.MaxInt apart, mixed with
// ordinary orders.
func genPool(rng *rand.Rand, k int) []int {
	var pool []int
	seen := map[int]bool{}
	add := func(o int) {
		if !seen[o] {
			seen[o] = true
			pool = append(pool, o)
		}
	}
	if rng.Intn(3) == 0 {
		if k < 2 {
			k = 2
		}
		fp := farPairs[rng.Intn(len(farPairs))]
		add(fp[0])
		add(fp[1])
	}
	for len(pool) < k {
		if rng.Intn(3) == 0 {
			add(orderBase[rng.Intn(len(orderBase))])
		} else {
			add(orderBase[rng.Intn(12)]) // the ordinary small ones
		}
	}
	rng.Shuffle(len(pool), func(i, j int) { pool[i], pool[j] = pool[j], pool[i] })
	return pool
}

// neighbour returns o-1, o or o+1 without wrapping around.
func neighbour(rng *rand.Rand, o int) int {
	switch d := rng.Intn(3) - 1; {
	case d < 0 && o > math.MinInt:
		return o - 1
	case d > 0 && o < math.MaxInt:
		return o + 1
	}
	return o
}

func (s *scen) tr(f string, a ...any) { s.trace = append(s.trace, fmt.Sprintf(f, a...)) }

func (s *scen) violation(fp, what string) {
	if s.viols[fp] {
		return
	}
	s.viols[fp] = true
	s.tr("VIOLATION %s: %s", fp, what)
	mode := s.mode
	if mode == "" {
		mode = "det"
	}
	s.c.Violation(fp, what, replayRec{Pkg: s.pkgLevel, Logger: s.withLogger, HoldMs: s.holdMs, Mode: mode, CfgSeed: s.seed, Index: s.idx, Trace: append([]string(nil), s.trace...)})
}

func (s *scen) actor(name string) *gdump.Actor {
	a := gdump.NewActor(name)
	s.actors = append(s.actors, a)
	return a
}

func (s *scen) settle() []gdump.G {
	gs := gdump.WaitQuiescent()
	s.c.Count("quiescent_points", 1)
	return gs
}

// shutView classifies, in one quiescent snapshot, the goroutines that take part
// in a shutdown. Goroutines are identified only by (a) the harness' own actor
// ids, (b) the harness' worker-function frame, (c) exported daemon frames
// ((*OrderedDaemon).Shutdown / .ShutdownAndWait, which also matches the
// Shutdown.gowrap wrapper), (d) "has a frame of / was created by package
// hive.go/app/daemon", (e) goroutine states and standard-library frames.
// Unexported daemon identifiers decide nothing.
type shutView struct {
	// inside: goroutines that are still inside a Shutdown/ShutdownAndWait call at this quiescent point –
	// busy shutdown-caller actors of the harness, and goroutines the daemon spawned from Shutdown
	// (Shutdown.gowrap frame or "created by …(*OrderedDaemon).Shutdown"). WHICH blocking primitive
	// they are parked on (WaitGroup, Cond, Mutex, Once, channel, …) is irrelevant and never inspected:
	// the snapshot is quiescent, so every one of them is blocked.
	inside []gdump.G
	blind  string // non-empty: the snapshot contradicts what the harness knows => INCONCLUSIVE
}

// inProgress: some goroutine is still inside a Shutdown/ShutdownAndWait call.
func (v shutView) inProgress() bool { return len(v.inside) > 0 }

const exportedShutdownFrame = "daemon.(*OrderedDaemon).Shutdown" // prefix of Shutdown, ShutdownAndWait, Shutdown.gowrapN

func (s *scen) shutdownView(gs []gdump.G) shutView {
	var v shutView
	actorIDs := map[uint64]bool{}
	for _, a := range s.actors {
		actorIDs[a.ID()] = true
	}
	busyCaller := map[uint64]bool{}
	for _, sc := range s.shut {
		if sc.a.Busy() {
			busyCaller[sc.a.ID()] = true
		}
	}
	seenCaller := 0
	for _, g := range gs {
		if g.State == "running" {
			continue // the controller taking the snapshot
		}
		if busyCaller[g.ID] {
			seenCaller++
			if !inShutdownCall(g) {
				v.blind = fmt.Sprintf("busy shutdown caller (goroutine %d) shows no exported Shutdown/ShutdownAndWait frame", g.ID)
			}
			v.inside = append(v.inside, g)
			continue
		}
		if actorIDs[g.ID] || g.Has("main.(*wk).fn") {
			continue // other harness actors (registrar, runner, gated call), workers inside their handler
		}
		// spawned by the daemon's Shutdown (exported name in a frame or in the "created by" line)
		if strings.Contains(g.Raw, "hive.go/app/daemon.(*OrderedDaemon).Shutdown") || strings.Contains(g.Raw, "hive.go/app/daemon.Shutdown") {
			v.inside = append(v.inside, g)
		}
	}
	if seenCaller != len(busyCaller) {
		v.blind = fmt.Sprintf("%d shutdown callers are busy but only %d of them appear in the snapshot", len(busyCaller), seenCaller)
	}
	if len(v.inside) > 0 {
		s.c.Count("shutdown_goroutine_identified", 1)
	}
	return v
}

func (s *scen) pickOrder(allowNew bool) (int, bool) {
	var o int
	if allowNew && s.rng.Intn(5) < 2 {
		o = neighbour(s.rng, orderBase[s.rng.Intn(len(orderBase))])
	} else {
		o = s.pool[s.rng.Intn(len(s.pool))]
	}
	has := true
	if o == 0 && s.rng.Intn(2) == 0 {
		has = false
	}
	return o, has
}

func (s *scen) newName() string {
	s.nextID++
	return fmt.Sprintf("w%d", s.nextID)
}

// register calls BackgroundWorker on the registrar actor and settles.
func (s *scen) register(w *wk) (err error, pan string, blocked bool) {
	s.reg.Start(func() {
		if w.hasOrder {
			err = s.d.BackgroundWorker(w.name, w.fn, w.order)
		} else {
			err = s.d.BackgroundWorker(w.name, w.fn)
		}
	})
	s.settle()
	if s.reg.Busy() {
		return nil, "", true
	}
	pan = s.reg.TakePanic()
	w.regTick = tick()
	s.c.Count("bgworker_calls", 1)
	return err, pan, false
}

func errStr(err error) string {
	if err == nil {
		return "nil"
	}
	return err.Error()
}

func (s *scen) liveWorkers() []*wk {
	var out []*wk
	for _, w := range s.ws {
		if w.live() {
			out = append(out, w)
		}
	}
	return out
}

// checkPre: before any shutdown call no context may be cancelled.
func (s *scen) checkPre() {
	for _, w := range s.liveWorkers() {
		s.c.Count("evaluations", 1)
		if w.cancelled() {
			s.violation("order:cancelled-before-shutdown", fmt.Sprintf("context of worker %s (order %d) is cancelled although no shutdown was requested", w.name, w.order))
		}
	}
	s.checkRun()
}

// checkRun: Run may only have returned when every worker the daemon started
// before that moment (registered before Run, or accepted by a BackgroundWorker
// call that returned before Run did) has returned.
func (s *scen) checkRun() {
	if !s.useRun || s.runner.Busy() {
		return
	}
	rt := s.runTick.Load()
	for _, w := range s.liveWorkers() {
		if w.late || (!w.preRun && w.regTick > rt) {
			continue // accepted after Run had returned: not Run's business
		}
		s.c.Count("evaluations", 1)
		if w.preRun {
			s.violation("wait:run-returned-before-worker", fmt.Sprintf("Run returned (tick %d) while worker %s (order %d, registered before Run, started at tick %d) has not returned", rt, w.name, w.order, w.startTick.Load()))
		} else {
			s.violation("wait:run-returned-before-late-added-worker", fmt.Sprintf("Run returned (tick %d) while worker %s (order %d, added while the daemon was running, started at tick %d) has not returned", rt, w.name, w.order, w.startTick.Load()))
		}
	}
}

// checkLate: a worker accepted through the gated call while shutdown was in
// progress must be cancelled once no live worker of higher order is left. On a
// violation the worker is released so that the scenario can go on; the
// (possibly new) quiescent snapshot is returned.
func (s *scen) checkLate(gs []gdump.G) []gdump.G {
	l := s.late
	if l == nil || !l.done || !l.w.accepted || !l.w.live() || !s.started {
		return gs
	}
	for _, v := range s.liveWorkers() {
		if !v.late && v.order > l.w.order {
			return gs
		}
	}
	s.c.Count("evaluations", 1)
	if l.w.cancelled() {
		return gs
	}
	inProgress := s.shutdownView(gs).inProgress()
	s.violation("late-bgworker:leaked-uncancelled-worker", fmt.Sprintf("BackgroundWorker(%s, order %d) passed the IsStopped check, was accepted and its worker started while shutdown was in progress; no live worker of higher order is left, the process is quiescent (shutdown goroutine still parked: %v) and the worker's context is not cancelled", l.w.name, l.w.order, inProgress))
	for _, sc := range s.shut {
		if sc.wait && !sc.a.Busy() {
			s.violation("late-bgworker:not-waited-for", fmt.Sprintf("ShutdownAndWait returned while the worker %s accepted during shutdown has not returned", l.w.name))
		}
	}
	l.w.finishEarly()
	return s.settle()
}

// checkShutdown: the invariant at a quiescent point after shutdown was requested.
func (s *scen) checkShutdown(gs []gdump.G) []gdump.G {
	gs = s.checkLate(gs)
	live := s.liveWorkers()
	v := s.shutdownView(gs)
	if v.blind != "" {
		s.c.Inconclusive(fmt.Sprintf("cfg %d: cannot identify the shutdown goroutine: %s", s.seed, v.blind))
		s.dirty = true
	}
	if len(live) > 0 && s.started && len(v.inside) > 0 {
		s.c.Count("shutdown_seen_waiting_for_live_workers", 1) // calibration: blocked inside Shutdown* while the harness holds gates
	}
	maxLive := 0
	any := false
	for _, w := range live {
		if !w.inModel() {
			continue
		}
		if !any || w.order > maxLive {
			maxLive, any = w.order, true
		}
	}
	for _, w := range live {
		if !w.inModel() {
			continue
		}
		s.c.Count("evaluations", 1)
		higherPending := w.order < maxLive
		can := w.cancelled()
		switch {
		case can && higherPending:
			var hp []string
			for _, v := range live {
				if v.inModel() && v.order > w.order {
					hp = append(hp, fmt.Sprintf("%s(%d)", v.name, v.order))
				}
			}
			s.violation("order:cancelled-before-higher-returned", fmt.Sprintf("worker %s (order %d) is cancelled while higher-order workers %v have not returned", w.name, w.order, hp))
		case !can && !higherPending && s.started:
			s.violation("order:not-cancelled-after-higher-returned", fmt.Sprintf("quiescent during shutdown: worker %s (order %d) is not cancelled although every worker of higher order has returned (equal-order workers are cancelled together / shutdown makes progress)", w.name, w.order))
		}
	}
	// ShutdownAndWait may only have returned when every started worker returned.
	for _, sc := range s.shut {
		if !sc.wait || sc.a.Busy() {
			continue
		}
		for _, w := range live {
			if !w.inModel() {
				continue
			}
			s.violation("wait:shutdownandwait-returned-before-worker", fmt.Sprintf("ShutdownAndWait returned while worker %s (order %d) has not returned", w.name, w.order))
		}
	}
	s.checkRun()
	return gs
}

func (s *scen) startShutdownCallers(k int) {
	var kinds []string
	for i := 0; i < k; i++ {
		sc := &shutCaller{a: s.actor(fmt.Sprintf("shut%d", len(s.shut))), wait: s.rng.Intn(3) != 0}
		s.shut = append(s.shut, sc)
		if sc.wait {
			kinds = append(kinds, "ShutdownAndWait")
			sc.a.Start(func() { s.d.ShutdownAndWait(); sc.retTick.Store(tick()) })
		} else {
			kinds = append(kinds, "Shutdown")
			sc.a.Start(func() { s.d.Shutdown(); sc.retTick.Store(tick()) })
		}
	}
	s.tr("shutdown callers (concurrent): %v", kinds)
	if k > 1 {
		s.flags["concurrent-callers"] = true
		s.c.Count("variant_concurrent_callers", 1)
	}
}

// releaseLate lets the gated BackgroundWorker call continue and evaluates it.
func (s *scen) releaseLate(shutdownComplete bool) {
	l := s.late
	if l == nil || l.released {
		return
	}
	l.released = true
	close(l.gate)
	s.settle()
	if l.a.Busy() {
		s.c.Inconclusive(fmt.Sprintf("cfg %d: gated BackgroundWorker call is blocked after release", s.seed))
		s.dirty = true
		return
	}
	l.done = true
	l.pan = l.a.TakePanic()
	when := "while shutdown was in progress"
	if shutdownComplete {
		when = "after shutdown had completed"
	}
	s.tr("gated BackgroundWorker(%s, order %d) resumed %s -> err=%s panic=%q started=%v", l.w.name, l.w.order, when, errStr(l.err), l.pan, l.w.started.Load())
	s.c.Count("evaluations", 1)
	switch {
	case l.pan != "":
		cls := "other"
		if strings.Contains(l.pan, "assignment to entry in nil map") {
			cls = "nil-map"
		}
		s.violation("late-bgworker:panic-"+cls, fmt.Sprintf("BackgroundWorker passed the IsStopped check, shutdown ran (%s), the call resumed and panicked: %s", when, l.pan))
	case l.err != nil:
		s.c.Count("late_refused", 1)
	default:
		s.c.Count("late_accepted", 1)
		l.w.accepted = true
		s.ws = append(s.ws, l.w)
		if shutdownComplete {
			s.violation("late-bgworker:accepted-after-shutdown", fmt.Sprintf("BackgroundWorker(%s) returned nil after ShutdownAndWait had returned (worker started: %v)", l.w.name, l.w.started.Load()))
		}
	}
}

// run executes the scenario; it returns false when the process must not be
// reused for another scenario (goroutines left behind).
func (s *scen) run() bool {
	rng := s.rng
	s.d = s.newDaemon()
	s.reg = s.actor("registrar")
	// order pool: ties, negatives, gaps
	s.pool = genPool(rng, 1+rng.Intn(5))
	s.started = rng.Intn(20) != 0
	s.useRun = s.started && rng.Intn(10) < 3

	// --- workers registered before Start
	nPre := rng.Intn(7)
	if rng.Intn(4) != 0 && nPre < 2 {
		nPre = 2 + rng.Intn(5)
	}
	for i := 0; i < nPre; i++ {
		o, has := s.pickOrder(false)
		w := newWk(s.newName(), o, has)
		w.preRun = true
		err, pan, blocked := s.register(w)
		s.tr("register %s order=%d (before Start) -> %s", w.name, w.order, errStr(err))
		if blocked || pan != "" {
			s.c.Inconclusive(fmt.Sprintf("cfg %d: registration before Start blocked=%v panic=%q", s.seed, blocked, pan))
			s.dirty = true
			return s.cleanup()
		}
		if err == nil {
			w.accepted = true
			s.ws = append(s.ws, w)
			s.byName[w.name] = w
		} else {
			s.c.Note("registration of a fresh name before Start refused: " + err.Error())
		}
	}
	s.queries("before-start", nil)
	if s.dirty {
		return s.cleanup()
	}
	if s.started {
		if s.useRun {
			s.runner = s.actor("runner")
			s.runner.Start(func() { s.d.Run(); s.runTick.Store(tick()) })
			s.tr("Run() in its own goroutine")
			s.flags["run"] = true
			s.c.Count("variant_run", 1)
		} else {
			s.d.Start()
			s.tr("Start()")
		}
		s.settle()
		for _, w := range s.ws {
			if !w.started.Load() {
				s.c.Note("worker registered before Start was not started by Start")
			}
		}
		s.checkPre()
		s.queries("running", nil)
		s.checkPre()
	} else {
		s.tr("daemon is never started")
		s.flags["never-started"] = true
		s.c.Count("variant_never_started", 1)
	}

	// --- operations while running
	nOps := rng.Intn(6)
	for i := 0; i < nOps && !s.dirty; i++ {
		switch op := rng.Intn(10); {
		case op < 3: // add
			o, has := s.pickOrder(true)
			w := newWk(s.newName(), o, has)
			err, pan, blocked := s.register(w)
			s.tr("register %s order=%d (daemon running=%v) -> %s", w.name, w.order, s.started, errStr(err))
			if blocked || pan != "" {
				s.c.Inconclusive(fmt.Sprintf("cfg %d: registration blocked=%v panic=%q", s.seed, blocked, pan))
				s.dirty = true
				break
			}
			if err == nil {
				w.accepted = true
				s.ws = append(s.ws, w)
				s.byName[w.name] = w
				s.flags["added-while-running"] = true
				s.c.Count("variant_added_while_running", 1)
				if s.started && !w.started.Load() {
					s.c.Note("worker accepted by a running daemon was not started")
				}
			}
		case op < 6: // a worker finishes before shutdown
			live := s.liveWorkers()
			if len(live) == 0 {
				continue
			}
			w := live[rng.Intn(len(live))]
			w.finishEarly()
			s.settle()
			s.tr("worker %s (order %d) returns on its own before shutdown", w.name, w.order)
			s.flags["early-finish"] = true
			s.c.Count("variant_early_finish", 1)
		case op < 8: // re-register a finished name under another order
			var fin []*wk
			for _, w := range s.byName {
				if w.returned.Load() {
					fin = append(fin, w)
				}
			}
			if len(fin) == 0 {
				continue
			}
			sort.Slice(fin, func(i, j int) bool { return fin[i].name < fin[j].name })
			old := fin[rng.Intn(len(fin))]
			o, has := s.pickOrder(true)
			for o == old.order {
				o, has = neighbour(rng, o), true
			}
			w := newWk(old.name, o, has)
			err, pan, blocked := s.register(w)
			s.tr("re-register finished name %s with order %d (was %d) -> %s", w.name, w.order, old.order, errStr(err))
			if blocked || pan != "" {
				s.c.Inconclusive(fmt.Sprintf("cfg %d: re-registration blocked=%v panic=%q", s.seed, blocked, pan))
				s.dirty = true
				break
			}
			if err == nil {
				w.accepted = true
				s.ws = append(s.ws, w)
				s.byName[w.name] = w
				s.flags["re-register"] = true
				s.c.Count("variant_reregister", 1)
				if s.started && !w.started.Load() {
					s.c.Note("re-registered worker accepted by a running daemon was not started")
				}
			} else {
				s.c.Count("reregister_refused", 1)
			}
		default: // register a name that is still running
			live := s.liveWorkers()
			if len(live) == 0 {
				continue
			}
			cur := live[rng.Intn(len(live))]
			o, has := s.pickOrder(true)
			w := newWk(cur.name, o, has)
			err, pan, blocked := s.register(w)
			s.tr("register running name %s with order %d -> %s", w.name, w.order, errStr(err))
			if blocked || pan != "" {
				s.c.Inconclusive(fmt.Sprintf("cfg %d: duplicate registration blocked=%v panic=%q", s.seed, blocked, pan))
				s.dirty = true
				break
			}
			s.c.Count("evaluations", 1)
			s.c.Count("variant_running_name", 1)
			s.flags["running-name"] = true
			if err == nil {
				w.accepted = true
				s.ws = append(s.ws, w)
				s.violation("running-name:accepted", fmt.Sprintf("BackgroundWorker(%s) returned nil although the worker registered under that name has not returned", w.name))
			} else if errors.Is(err, daemon.ErrExistingBackgroundWorkerStillRunning) {
				s.c.Count("running_name_refused_still_running", 1)
			} else {
				s.c.Note("running name refused with another error: " + err.Error())
			}
		}
		if s.started {
			s.checkPre()
			s.queries("running", nil)
			s.checkPre()
		}
	}
	if s.dirty {
		return s.cleanup()
	}

	// --- gated late BackgroundWorker: passes the stopped check, parks in the hook
	if rng.Intn(100) < 40 {
		o, has := s.pickOrder(true)
		l := &lateCall{w: newWk(s.newName(), o, has), a: s.actor("late"), gate: make(chan struct{})}
		l.w.late = true
		if rng.Intn(2) == 0 {
			l.mode = "mid"
			l.midAfter = rng.Intn(3)
		} else {
			l.mode = "after"
		}
		s.late = l
		hookReached.Store(false)
		hookGate.Store(&l.gate)
		hookArmed.Store(true)
		l.a.Start(func() {
			if l.w.hasOrder {
				l.err = s.d.BackgroundWorker(l.w.name, l.w.fn, l.w.order)
			} else {
				l.err = s.d.BackgroundWorker(l.w.name, l.w.fn)
			}
		})
		s.settle()
		hookArmed.Store(false)
		if !hookReached.Load() || !l.a.Busy() {
			s.c.Inconclusive(fmt.Sprintf("cfg %d: gated BackgroundWorker call never reached %s", s.seed, hookPoint))
			l.released = true
			close(l.gate)
			s.settle()
			s.late = nil
		} else {
			s.tr("BackgroundWorker(%s, order %d) passed the IsStopped check and is parked at %s (release: %s)", l.w.name, l.w.order, hookPoint, l.mode)
			s.c.Count("gated_windows_entered", 1)
			s.flags["gated-"+l.mode] = true
		}
	}

	// --- shutdown
	if s.started {
		s.queries("running", nil) // right before the shutdown request
	} else {
		s.queries("before-start", nil)
	}
	if s.dirty {
		return s.cleanup()
	}
	nCallers := 1
	if rng.Intn(5) < 2 {
		nCallers = 2 + rng.Intn(3)
	}
	s.startShutdownCallers(nCallers)
	gs := s.settle()
	atShutdown := s.liveWorkers()
	var ms []string
	for _, w := range atShutdown {
		ms = append(ms, fmt.Sprint(w.order))
	}
	sort.Strings(ms)
	step := 0
	for !s.dirty {
		gs = s.checkShutdown(gs)
		if !s.dirty && !(s.late != nil && s.late.done && s.late.w.accepted && s.late.w.live()) {
			gs = s.queries("shutdown-requested", gs)
			gs = s.checkShutdown(gs)
		}
		if s.late != nil && !s.late.released && s.late.mode == "mid" && step >= s.late.midAfter {
			s.releaseLate(!s.shutdownView(gs).inProgress())
			gs = s.settle()
			continue
		}
		var cand, uncancelled []*wk
		for _, w := range s.liveWorkers() {
			if !w.inModel() {
				continue
			}
			if w.cancelled() {
				cand = append(cand, w)
			} else {
				uncancelled = append(uncancelled, w)
			}
		}
		if len(cand)+len(uncancelled) == 0 {
			break
		}
		var w *wk
		if len(uncancelled) > 0 && (len(cand) == 0 || rng.Intn(8) == 0) {
			if !s.started || len(cand) == 0 {
				// never-started daemon or stalled shutdown: nothing will cancel these
				break
			}
			w = uncancelled[rng.Intn(len(uncancelled))]
			w.finishEarly()
			s.tr("worker %s (order %d) returns on its own during shutdown, before being cancelled", w.name, w.order)
			s.flags["early-during-shutdown"] = true
			s.c.Count("variant_early_during_shutdown", 1)
		} else {
			w = cand[rng.Intn(len(cand))]
			w.openGate()
			s.tr("cancelled worker %s (order %d) is allowed to return", w.name, w.order)
			s.c.Count("gate_releases", 1)
		}
		s.opened = append(s.opened, fmt.Sprint(w.order))
		step++
		// occasionally another caller joins while shutdown is in progress
		if rng.Intn(12) == 0 && len(s.shut) < 5 {
			s.startShutdownCallers(1)
		}
		gs = s.settle()
		if !w.returned.Load() {
			s.c.Inconclusive(fmt.Sprintf("cfg %d: released worker did not return", s.seed))
			s.dirty = true
		}
	}
	if s.dirty {
		return s.cleanup()
	}

	// --- end of shutdown: every non-late worker returned (or nothing cancels the rest)
	gs = s.settle()
	stalled := false
	for _, w := range s.liveWorkers() {
		if !w.late {
			stalled = true
		}
	}
	if s.late != nil && s.late.mode == "mid" && !s.late.released {
		s.releaseLate(!s.shutdownView(gs).inProgress())
		gs = s.settle()
	}
	gs = s.checkLate(gs)
	if l := s.late; l != nil && l.done && l.w.accepted && l.w.live() && s.started {
		// accepted and cancelled: it must also be waited for
		for _, sc := range s.shut {
			if sc.wait && !sc.a.Busy() {
				s.violation("late-bgworker:not-waited-for", fmt.Sprintf("ShutdownAndWait returned while the worker %s accepted during shutdown has not returned", l.w.name))
			}
		}
		l.w.openGate()
		gs = s.settle()
	}
	if !stalled && s.started {
		// primitive-independent hang rule: every worker has returned, the harness holds no gate, nothing is
		// runnable (two identical quiescent snapshots) – a goroutine still inside Shutdown/ShutdownAndWait
		// can never get out, whatever it is parked on.
		if v := s.shutdownView(gs); v.blind != "" {
			s.c.Inconclusive(fmt.Sprintf("cfg %d: after all workers returned: %s", s.seed, v.blind))
			s.dirty = true
		} else if len(v.inside) > 0 {
			s.violation("hang:shutdown-parked-after-all-workers-returned", fmt.Sprintf("every worker has returned, the harness holds no gate and the process is quiescent, but %d goroutine(s) are still blocked inside Shutdown/ShutdownAndWait (state %q)", len(v.inside), v.inside[0].State))
			s.dirty = true
		}
	}
	if !s.dirty && !stalled {
		// a final ShutdownAndWait must return (Once already done) and nothing may be running
		fin := &shutCaller{a: s.actor("final"), wait: true}
		s.shut = append(s.shut, fin)
		fin.a.Start(func() { s.d.ShutdownAndWait(); fin.retTick.Store(tick()) })
		s.settle()
		for _, sc := range s.shut {
			if sc.a.Busy() {
				s.violation("hang:shutdown-call-blocked-after-all-workers-returned", "every worker has returned and the process is quiescent, but a Shutdown/ShutdownAndWait call has not returned")
				s.dirty = true
				break
			}
			if sc.wait {
				for _, w := range s.ws {
					if w.late || !w.started.Load() {
						continue
					}
					s.c.Count("evaluations", 1)
					if rt := w.retTick.Load(); rt == 0 || rt > sc.retTick.Load() {
						s.violation("wait:shutdownandwait-returned-before-worker", fmt.Sprintf("ShutdownAndWait returned at tick %d, worker %s returned at tick %d", sc.retTick.Load(), w.name, rt))
					}
				}
			}
		}
	}
	if !s.dirty && !stalled {
		if s.late != nil && !s.late.released {
			s.releaseLate(true)
			if l := s.late; l.done && l.w.accepted {
				l.w.finishEarly()
				s.settle()
			}
		}
		s.queries("after-shutdown", nil)
		// after shutdown: nothing can be added or started
		w := newWk(s.newName(), 0, false)
		err, pan, blocked := s.register(w)
		s.tr("BackgroundWorker(%s) after shutdown -> %s panic=%q", w.name, errStr(err), pan)
		s.c.Count("evaluations", 1)
		s.c.Count("post_shutdown_calls", 1)
		switch {
		case blocked:
			s.c.Inconclusive(fmt.Sprintf("cfg %d: BackgroundWorker after shutdown blocked", s.seed))
			s.dirty = true
		case pan != "":
			s.violation("after:bgworker-panics-after-shutdown", "BackgroundWorker called after ShutdownAndWait returned panicked: "+pan)
		case err == nil:
			s.ws = append(s.ws, w)
			s.violation("after:bgworker-accepted-after-shutdown", "BackgroundWorker called after ShutdownAndWait returned was accepted (returned nil)")
		case errors.Is(err, daemon.ErrDaemonAlreadyStopped):
			s.c.Count("post_shutdown_refused_already_stopped", 1)
		default:
			s.c.Note("post-shutdown call refused with another error: " + err.Error())
		}
		if !s.dirty {
			startedBefore := map[*wk]bool{}
			for _, w := range s.ws {
				startedBefore[w] = w.started.Load()
			}
			s.d.Start()
			s.settle()
			for _, w := range s.ws {
				if w.started.Load() && !startedBefore[w] {
					s.violation("after:worker-started-after-shutdown", fmt.Sprintf("Start() after shutdown started worker %s", w.name))
				}
			}
			if w.started.Load() {
				s.violation("after:worker-started-after-shutdown", "a worker registered after shutdown was started")
			}
		}
	}

	// evidence
	nontrivial := len(s.opened) >= 1 && s.started
	dist := map[string]bool{}
	for _, m := range ms {
		dist[m] = true
	}
	var fl []string
	for f := range s.flags {
		fl = append(fl, f)
	}
	sort.Strings(fl)
	s.c.Distinct("order_multisets", strings.Join(ms, ","))
	s.c.Distinct("release_orders", strings.Join(ms, ",")+"|"+strings.Join(s.opened, ","))
	s.c.Distinct("variant_sets", strings.Join(fl, "+"))
	if nontrivial && len(dist) >= 2 {
		s.c.Distinct("nontrivial", strings.Join(ms, ",")+"|"+strings.Join(s.opened, ",")+"|"+strings.Join(fl, "+"))
	}
	s.c.Count("configurations", 1)
	s.countAPI("det")
	var liveOrders []int
	for _, w := range atShutdown {
		liveOrders = append(liveOrders, w.order)
	}
	if s.started && hasFarPair(liveOrders) {
		s.c.Count("configs_with_far_order_pair", 1) // two workers live at shutdown whose orders are more than MaxInt apart
	}
	if s.c.WantSample() && len(dist) >= 2 && len(s.flags) >= 2 {
		s.c.Sample(map[string]any{"cfg_seed": s.seed, "trace": s.trace})
	}
	return s.cleanup()
}

// cleanup releases everything and reports whether the process is clean.
func (s *scen) cleanup() bool {
	hookArmed.Store(false)
	if s.late != nil && !s.late.released {
		s.late.released = true
		close(s.late.gate)
		s.settle()
		if !s.late.a.Busy() && s.late.err == nil && s.late.a.TakePanic() == "" {
			s.ws = append(s.ws, s.late.w)
		}
	}
	for _, w := range s.ws {
		w.finishEarly()
	}
	if s.late != nil {
		s.late.w.finishEarly()
	}
	gs := s.settle()
	clean := true
	for _, a := range s.actors {
		if a.Busy() {
			clean = false
		} else {
			a.Close()
		}
	}
	for _, w := range s.ws {
		if w.live() {
			clean = false
		}
	}
	for _, g := range gs {
		if g.State != "running" && g.Has("hive.go/app/daemon") {
			clean = false
		}
	}
	return clean && !s.dirty
}

func runScenario(c *vf.Ctx, seed int64, idx int) bool {
	return runScenarioOn(c, seed, idx, false, false)
}

func runScenarioOn(c *vf.Ctx, seed int64, idx int, pkg, logger bool) bool {
	s := &scen{pkgLevel: pkg, withLogger: logger, c: c, seed: seed, idx: idx, rng: rand.New(rand.NewSource(seed)), qrng: rand.New(rand.NewSource(seed ^ 0x5eed0c20)), byName: map[string]*wk{}, viols: map[string]bool{}, flags: map[string]bool{}}
	return s.run()
}
