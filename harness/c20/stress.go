// Free-running stress for C20: BackgroundWorker callers race with
// Shutdown/ShutdownAndWait callers and with workers that exit. Runs in a plain
// and in a -race child. All oracles are order observations on the logical
// clock or direct ctx.Err() reads; the hook is used for seeded jitter only.
package main

import (
	"context"
	"errors"
	"fmt"
	"math/rand"
	"os"
	"runtime"
	"strconv"
	"strings"
	"sync"
	"sync/atomic"
	"time"

	"github.com/iotaledger/hive.go/app/daemon"
	"verif/harness/internal/gdump"
	"verif/harness/internal/vf"
)

type swk struct {
	it        *stressIter
	name      string
	order     int
	kind      string // pre | new | dup | rereg | post
	selfEarly bool
	jit       int
	ctx       atomic.Pointer[context.Context]
	started   atomic.Bool
	returned  atomic.Bool
	retTick   atomic.Uint64
	early     chan struct{}
	rel       sync.Once
	runs      atomic.Int32 // invocations of the handler (must be 1)
	// runWaiting: a consistent snapshot taken after this worker was accepted showed the goroutine that
	// called Run() still blocked inside Run: Run's final look at
	// the daemon state therefore happens after the acceptance
	runWaiting bool
	// call record (written by the caller goroutine, read after join)
	callTick, callRet   uint64
	err                 error
	pan                 string
	target              *swk // dup/rereg: the worker that owned the name
	targetReturnedAtRet bool
}

type stressIter struct {
	reg       [128]atomic.Pointer[swk]
	n         atomic.Int32
	orderViol atomic.Pointer[string]
	deadlock  atomic.Pointer[string] // set by the monitor
	shutReq   atomic.Bool            // the harness has called Shutdown/ShutdownAndWait
	restarted atomic.Pointer[string] // a handler was launched twice
	big       []*swk                 // start-up family: all workers (immutable during the iteration)
}

func (w *swk) release() { w.rel.Do(func() { close(w.early) }) }

// ---- structural dead-lock monitor (no verdict depends on its period) ----
//
// The stress has no timers besides the monitor's own sleep and the hook's
// jitter sleep (state "sleep" = not parked). When two consecutive snapshots
// show every goroutine parked on a channel/sync primitive, nothing can ever run
// again: the iteration is dead-locked. On the unfixed tree this happens when a
// BackgroundWorker call slips in after stopWorkers copied the worker list: the
// worker is counted in a WaitGroup that shutdown waits for, but is never
// cancelled. The monitor records that and releases the worker.
var curIter atomic.Pointer[stressIter]

func monitor(c *vf.Ctx) {
	last := ""
	for {
		time.Sleep(2 * time.Millisecond)
		it := curIter.Load()
		if it == nil {
			last = ""
			continue
		}
		gs := gdump.Snapshot()
		if curIter.Load() != it || !gdump.Quiescent(gs) {
			last = ""
			continue
		}
		var b strings.Builder
		for _, g := range gs {
			if g.State != "running" {
				fmt.Fprintf(&b, "%d%s;", g.ID, g.State)
			}
		}
		if b.String() != last {
			last = b.String()
			continue
		}
		last = ""
		// the goroutine performing the shutdown: identified by an exported frame
		// ((*OrderedDaemon).Shutdown / .ShutdownAndWait / Shutdown.gowrap) plus state and stdlib frame
		shutParked, callers := false, 0
		for _, g := range gs {
			if g.State != "running" && strings.Contains(g.Raw, "hive.go/app/daemon.") {
				callers++ // any goroutine inside (or created by) the daemon package
			}
			if !g.Has(exportedShutdownFrame) {
				continue
			}
			if g.State != "running" {
				shutParked = true // blocked inside Shutdown/ShutdownAndWait, on whatever primitive (message only)
			}
		}
		var leaked []*swk
		n := min(int(it.n.Load()), len(it.reg))
		for i := 0; i < n; i++ {
			w := it.reg[i].Load()
			if w == nil || !w.started.Load() || w.returned.Load() {
				continue
			}
			if p := w.ctx.Load(); p != nil && (*p).Err() == nil {
				leaked = append(leaked, w)
			}
		}
		for _, w := range it.big {
			if !w.started.Load() || w.returned.Load() {
				continue
			}
			if p := w.ctx.Load(); p != nil && (*p).Err() == nil {
				leaked = append(leaked, w)
			}
		}
		dump := func() string {
			var d strings.Builder
			for _, g := range gs {
				d.WriteString(g.Raw + "\n\n")
			}
			return trunc(d.String(), 8000)
		}
		if callers == 0 {
			// a dead-locked iteration always contains a blocked Shutdown/ShutdownAndWait/BackgroundWorker
			// caller of the harness; seeing none with an exported frame means the monitor is blind
			c.Inconclusive("stress monitor: every goroutine is parked but no goroutine inside package hive.go/app/daemon was found; dump: " + trunc(dump(), 1500))
			c.FlushStats()
			os.Exit(0)
		}
		if len(leaked) == 0 {
			c.Violation("hang:stress-quiescent-deadlock", "free-running stress: every goroutine is parked inside a Shutdown/ShutdownAndWait call although no started worker is left un-cancelled", replayRec{Mode: "stress", Dump: dump()})
			c.FlushStats()
			os.Exit(0)
		}
		if !it.shutReq.Load() {
			c.Inconclusive("stress monitor: every goroutine is parked before the harness requested a shutdown; dump: " + trunc(dump(), 1500))
			c.FlushStats()
			os.Exit(0)
		}
		// The verdict needs no goroutine identification: a shutdown was requested, nothing can run
		// any more, and a started worker's context is not cancelled. Where the shutdown caller is
		// parked only goes into the message.
		var names []string
		for i, w := range leaked {
			if i == 8 {
				names = append(names, fmt.Sprintf("... %d more", len(leaked)-8))
				break
			}
			names = append(names, fmt.Sprintf("%s(order %d, kind %s)", w.name, w.order, w.kind))
		}
		msg := fmt.Sprintf("free-running: shutdown was requested and every goroutine of the process is parked for ever, but the context of accepted, started worker(s) %v was never cancelled (a goroutine blocked inside Shutdown/ShutdownAndWait: %v)", names, shutParked)
		it.deadlock.CompareAndSwap(nil, &msg)
		for _, w := range leaked {
			w.release()
		}
	}
}

func (it *stressIter) add(w *swk) {
	i := it.n.Add(1) - 1
	if int(i) < len(it.reg) {
		it.reg[i].Store(w)
	}
}

func panicString(r any) string {
	switch v := r.(type) {
	case string:
		return v
	case error:
		return v.Error()
	}
	return "panic of unknown type"
}

func gosched(n int) {
	for i := 0; i < n; i++ {
		runtime.Gosched()
	}
}

func (w *swk) ret() {
	w.retTick.Store(tick())
	w.returned.Store(true)
}

// checkLower: I am cancelled and have not returned, so no unreturned worker
// of strictly lower order may be cancelled.
func (w *swk) checkLower() {
	it := w.it
	n := int(it.n.Load())
	if n > len(it.reg) {
		n = len(it.reg)
	}
	for i := 0; i < n; i++ {
		v := it.reg[i].Load()
		if v == nil || v.order >= w.order {
			continue
		}
		p := v.ctx.Load()
		if p == nil {
			continue
		}
		if (*p).Err() != nil && !v.returned.Load() {
			s := fmt.Sprintf("worker %s (order %d) observed, after its own cancellation and before returning, that the context of the unreturned worker %s (order %d) is already cancelled", w.name, w.order, v.name, v.order)
			it.orderViol.CompareAndSwap(nil, &s)
		}
	}
}

func (w *swk) fn(ctx context.Context) {
	if w.runs.Add(1) > 1 {
		// the daemon launched the handler of an already started worker a second time
		s := fmt.Sprintf("the handler of worker %s (order %d) was launched a second time (first run returned: %v, context cancelled: %v)", w.name, w.order, w.returned.Load(), ctx.Err() != nil)
		w.it.restarted.CompareAndSwap(nil, &s)
		return
	}
	w.ctx.Store(&ctx)
	w.started.Store(true)
	if w.selfEarly {
		gosched(w.jit)
		w.ret()
		return
	}
	select {
	case <-ctx.Done():
	case <-w.early:
		w.ret()
		return
	}
	w.checkLower()
	gosched(w.jit)
	w.checkLower()
	w.ret()
}

// jitter hook: seeded, widens the window between the stopped check and the lock.
var (
	jitSeed uint64
	jitCtr  atomic.Uint64
)

func splitmix(x uint64) uint64 {
	x += 0x9e3779b97f4a7c15
	x = (x ^ (x >> 30)) * 0xbf58476d1ce4e5b9
	x = (x ^ (x >> 27)) * 0x94d049bb133111eb
	return x ^ (x >> 31)
}

func jitterHook(p string) {
	if p != hookPoint {
		return
	}
	x := splitmix(jitCtr.Add(1) ^ jitSeed)
	switch x % 8 {
	case 0, 1, 2:
	case 3, 4, 5:
		gosched(int(x>>8) % 12)
	case 6:
		gosched(int(x>>8) % 60)
	default:
		time.Sleep(time.Duration((x>>8)%40) * time.Microsecond) // jitter only
	}
}

// reportRestart: a second Start() (a documented no-op on a started daemon) that
// overlaps the end of a shutdown must not launch anything.
func reportRestart(it *stressIter, viol func(fp, what string)) {
	// give handlers launched after the shutdown a chance to get on record
	gosched(20)
	if s := it.restarted.Load(); s != nil {
		viol("start-vs-shutdown:workers-launched-again-after-shutdown", "a Start() call on the already started daemon raced with Shutdown/ShutdownAndWait: "+*s)
	}
}

func call(d *daemon.OrderedDaemon, w *swk) {
	defer func() {
		if r := recover(); r != nil {
			w.pan = panicString(r)
		}
		w.callRet = tick()
		if w.target != nil {
			w.targetReturnedAtRet = w.target.returned.Load()
		}
	}()
	w.callTick = tick()
	if w.order == 0 && w.jit%2 == 0 {
		w.err = d.BackgroundWorker(w.name, w.fn)
	} else {
		w.err = d.BackgroundWorker(w.name, w.fn, w.order)
	}
}

func stressOne(c *vf.Ctx, seed int64, batch, iter int, race bool) {
	rng := rand.New(rand.NewSource(seed))
	rep := replayRec{Mode: "stress", Race: race, Batch: batch, From: iter, Iters: iter + 1}
	viol := func(fp, what string) { c.Violation(fp, what, rep) }
	it := &stressIter{}
	d := daemon.New()
	pool := genPool(rng, 1+rng.Intn(4))
	newW := func(name, kind string) *swk {
		w := &swk{it: it, name: name, kind: kind, order: pool[rng.Intn(len(pool))], jit: rng.Intn(6), early: make(chan struct{})}
		if rng.Intn(4) == 0 {
			w.order = orderBase[rng.Intn(len(orderBase))] // possibly a new order
		}
		return w
	}
	var all []*swk
	var pre []*swk
	nPre := 1 + rng.Intn(5)
	for i := 0; i < nPre; i++ {
		w := newW(fmt.Sprintf("p%d", i), "pre")
		w.selfEarly = rng.Intn(4) == 0
		call(d, w)
		it.add(w)
		pre = append(pre, w)
		all = append(all, w)
	}
	runQueries(d, queryPlan(rng, false, true), nil) // before Start
	d.Start()
	curIter.Store(it)
	runQueries(d, queryPlan(rng, true, true), nil) // while running
	nQueries := 0

	var wg sync.WaitGroup
	var mu sync.Mutex                          // harness-side only
	for q, nq := 0, rng.Intn(3); q < nq; q++ { // queriers racing with registrars, worker exits and shutdown
		qr := rand.New(rand.NewSource(rng.Int63()))
		plans := [][]int{queryPlan(qr, true, true), queryPlan(qr, true, true), queryPlan(qr, true, true)}
		gaps := []int{qr.Intn(40), qr.Intn(40), qr.Intn(40)}
		for _, p := range plans {
			nQueries += len(p)
		}
		wg.Add(1)
		go func() {
			defer wg.Done()
			for i, p := range plans {
				gosched(gaps[i])
				runQueries(d, p, nil)
			}
		}()
	}
	nReg := 1 + rng.Intn(3)
	for r := 0; r < nReg; r++ {
		rr := rand.New(rand.NewSource(rng.Int63()))
		var plan []*swk
		for j, n := 0, 1+rr.Intn(4); j < n; j++ {
			var w *swk
			switch x := rr.Intn(10); {
			case x < 6:
				w = newW(fmt.Sprintf("r%d-%d", r, j), "new")
				w.selfEarly = rr.Intn(5) == 0
			case x < 8:
				t := pre[rr.Intn(len(pre))]
				w = newW(t.name, "dup")
				w.target = t
			default:
				t := pre[rr.Intn(len(pre))]
				w = newW(t.name, "rereg")
				w.target = t
			}
			plan = append(plan, w)
		}
		lead := rr.Intn(40)
		gaps := make([]int, len(plan))
		for i := range gaps {
			gaps[i] = rr.Intn(20)
		}
		wg.Add(1)
		go func() {
			defer wg.Done()
			gosched(lead)
			for i, w := range plan {
				it.add(w)
				call(d, w)
				gosched(gaps[i])
			}
			mu.Lock()
			all = append(all, plan...)
			mu.Unlock()
		}()
	}
	nShut := 1 + rng.Intn(3)
	var shutCall, shutRet atomic.Uint64 // first ShutdownAndWait call / earliest return
	var shutPanic atomic.Pointer[string]
	for sidx := 0; sidx < nShut; sidx++ {
		wait := sidx == 0 || rng.Intn(2) == 0
		lead := rng.Intn(60)
		prePlan := queryPlan(rng, true, true) // right before the shutdown request
		nQueries += len(prePlan)
		wg.Add(1)
		go func() {
			defer wg.Done()
			defer func() {
				if r := recover(); r != nil {
					m := panicString(r)
					shutPanic.CompareAndSwap(nil, &m)
				}
			}()
			gosched(lead)
			runQueries(d, prePlan, nil)
			t0 := tick()
			shutCall.CompareAndSwap(0, t0)
			it.shutReq.Store(true)
			if wait {
				d.ShutdownAndWait()
				t := tick()
				for {
					cur := shutRet.Load()
					if cur != 0 && cur <= t {
						break
					}
					if shutRet.CompareAndSwap(cur, t) {
						break
					}
				}
			} else {
				d.Shutdown()
			}
		}()
	}
	wg.Wait()
	curIter.Store(nil)
	T := shutRet.Load()
	if m := shutPanic.Load(); m != nil {
		cls := "other"
		if strings.Contains(*m, "WaitGroup is reused") {
			cls = "waitgroup-reuse"
		} else if strings.Contains(*m, "WaitGroup misuse") {
			cls = "waitgroup-misuse"
		}
		c.Count("stress_window_hits", 1)
		viol("late-bgworker:shutdown-panic-"+cls, "free-running: ShutdownAndWait racing with BackgroundWorker panicked: "+*m)
		if T == 0 {
			T = tick()
		}
	}
	if m := it.deadlock.Load(); m != nil {
		c.Count("stress_window_hits", 1)
		viol("late-bgworker:leaked-uncancelled-worker", *m)
	}
	c.Count("stress_iterations", 1)
	c.Count("stress_query_calls", nQueries)

	// post-shutdown call
	post := newW("post", "post")
	call(d, post)
	c.Count("evaluations", 1)
	if post.pan != "" {
		viol("after:bgworker-panics-after-shutdown", "BackgroundWorker called after ShutdownAndWait returned panicked: "+post.pan)
	} else if post.err == nil {
		viol("after:bgworker-accepted-after-shutdown", "BackgroundWorker called after ShutdownAndWait returned was accepted")
		all = append(all, post)
	} else if errors.Is(post.err, daemon.ErrDaemonAlreadyStopped) {
		c.Count("post_shutdown_refused_already_stopped", 1)
	}

	if s := it.orderViol.Load(); s != nil {
		viol("order:cancelled-before-higher-returned", *s)
	}
	reportRestart(it, viol)
	for _, w := range all {
		c.Count("stress_bgworker_calls", 1)
		c.Count("evaluations", 1)
		if w.kind != "pre" && w.kind != "post" && w.callRet > shutCall.Load() && w.callTick < T {
			c.Count("stress_calls_overlapping_shutdown", 1)
		}
		switch {
		case w.pan != "":
			cls := "other"
			if strings.Contains(w.pan, "assignment to entry in nil map") {
				cls = "nil-map"
			} else if strings.Contains(w.pan, "WaitGroup misuse") {
				cls = "waitgroup-misuse"
			}
			c.Count("stress_window_hits", 1)
			viol("late-bgworker:panic-"+cls, fmt.Sprintf("free-running: BackgroundWorker(%s) racing with ShutdownAndWait panicked: %s", w.name, w.pan))
			continue
		case w.err != nil:
			if errors.Is(w.err, daemon.ErrDaemonAlreadyStopped) {
				c.Count("stress_refused_stopped", 1)
			} else if errors.Is(w.err, daemon.ErrExistingBackgroundWorkerStillRunning) {
				c.Count("stress_refused_still_running", 1)
			}
			continue
		}
		c.Count("stress_accepted", 1)
		if w.kind == "dup" || w.kind == "rereg" {
			if !w.targetReturnedAtRet {
				viol("running-name:accepted", fmt.Sprintf("free-running: BackgroundWorker(%s) returned nil although the worker registered under that name had not returned when the call returned", w.name))
			}
		}
		if w.kind == "pre" && w.callTick < shutCall.Load() {
			// accepted before Start: started by Start
		}
		// accepted by a started daemon: must have returned before ShutdownAndWait returned
		rt := w.retTick.Load()
		if rt != 0 && rt < T {
			continue
		}
		for i := 0; !w.started.Load(); i++ { // accepted => the daemon spawned it
			runtime.Gosched()
			if i > 1<<22 {
				break
			}
		}
		c.Count("stress_window_hits", 1)
		p := w.ctx.Load()
		cancelled := p != nil && (*p).Err() != nil
		switch {
		case w.callRet > T:
			viol("late-bgworker:accepted-after-shutdown", fmt.Sprintf("free-running: BackgroundWorker(%s) returned nil at tick %d, after ShutdownAndWait had returned at tick %d (worker started: %v, cancelled: %v)", w.name, w.callRet, T, w.started.Load(), cancelled))
		case !cancelled:
			viol("late-bgworker:leaked-uncancelled-worker", fmt.Sprintf("free-running: BackgroundWorker(%s, order %d) was accepted (call returned at tick %d) but when ShutdownAndWait returned (tick %d) its worker had not returned and its context is not cancelled", w.name, w.order, w.callRet, T))
		default:
			viol("wait:shutdownandwait-returned-before-worker", fmt.Sprintf("free-running: ShutdownAndWait returned at tick %d, accepted worker %s returned at tick %d", T, w.name, rt))
		}
	}
	// release leaked workers so that goroutines do not pile up
	for _, w := range all {
		if !w.returned.Load() {
			w.release()
		}
	}
}

func runStress(c *vf.Ctx, batch, from, iters int, race bool, repeat int) {
	seeds := c.Rand(fmt.Sprintf("stress/%d/%v", batch, race))
	jitSeed = uint64(seeds.Int63())
	daemon.VerifYield = jitterHook
	go monitor(c)
	for i := 0; i < iters; i++ {
		s := seeds.Int63()
		if i < from {
			continue
		}
		if i%64 == 0 && i > from {
			c.FlushStats()
		}
		c.Mark(strconv.Itoa(i))
		// repeat > 1 (replay only): the plan of an iteration is fixed by its seed, the
		// schedule is not; re-run the same plan until the schedule reproduces the finding
		for r := 0; r < repeat; r++ {
			if i%3 == 2 {
				reregOne(c, s, batch, i, race) // worker exit vs. re-registration of its name
			} else if i%6 == 1 {
				startupOne(c, s, batch, i, race) // shutdown requested by a worker while Start is launching
			} else {
				stressOne(c, s, batch, i, race)
			}
			if r > 0 && c.Get("stress_window_hits") > 0 {
				break
			}
		}
	}
}
