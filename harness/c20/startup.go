// Shutdown requested by a worker during start-up (free-running, plain and
// -race): N in {3, 50, 2000} workers with mixed orders are registered, Start()
// launches them, and the k-th handler to START (k = 1, middle, last – counted
// inside the worker function, not by registration order) calls Shutdown()
// (fire and forget) or starts ShutdownAndWait in a new goroutine as soon as it
// runs, i.e. possibly while Start is still launching. The controller calls
// ShutdownAndWait after Start returned. Oracles: after ShutdownAndWait returned
// every worker whose handler was started has been cancelled and has returned;
// a cancelled worker sees no cancelled unreturned worker of lower order.
// Workers that were never started are fine. Nothing is demanded about a
// Shutdown from an unrelated goroutine racing with Start's own stopped check.
package main

import (
	"context"
	"fmt"
	"math/rand"
	"runtime"
	"sync"
	"sync/atomic"

	"github.com/iotaledger/hive.go/app/daemon"
	"verif/harness/internal/vf"
)

type startupIter struct {
	d          *daemon.OrderedDaemon
	ws         []*swk
	k          int64
	async      bool // true: Shutdown(); false: go ShutdownAndWait()
	startCount atomic.Int64
	trigTick   atomic.Uint64 // tick at which the k-th handler requested the shutdown
	sawRet     atomic.Uint64 // earliest return of a ShutdownAndWait call
	wg         sync.WaitGroup
	it         *stressIter
	probes     [][]int32 // per worker: indexes of lower-order workers it checks
}

func (su *startupIter) noteSAW() {
	t := tick()
	for {
		cur := su.sawRet.Load()
		if cur != 0 && cur <= t {
			return
		}
		if su.sawRet.CompareAndSwap(cur, t) {
			return
		}
	}
}

func (su *startupIter) handler(i int) func(ctx context.Context) {
	w := su.ws[i]
	return func(ctx context.Context) {
		if w.runs.Add(1) > 1 {
			s := fmt.Sprintf("the handler of worker %s (order %d) was launched a second time (first run returned: %v, context cancelled: %v)", w.name, w.order, w.returned.Load(), ctx.Err() != nil)
			su.it.restarted.CompareAndSwap(nil, &s)
			return
		}
		w.ctx.Store(&ctx)
		w.started.Store(true)
		if su.startCount.Add(1) == su.k {
			su.trigTick.Store(tick())
			su.it.shutReq.Store(true)
			if su.async {
				su.d.Shutdown()
			} else {
				su.wg.Add(1)
				go func() {
					defer su.wg.Done()
					su.d.ShutdownAndWait()
					su.noteSAW()
				}()
			}
		}
		select {
		case <-ctx.Done():
		case <-w.early:
			w.ret()
			return
		}
		check := func() {
			for _, j := range su.probes[i] {
				v := su.ws[j]
				p := v.ctx.Load()
				if p != nil && (*p).Err() != nil && !v.returned.Load() {
					s := fmt.Sprintf("worker %s (order %d) observed, after its own cancellation and before returning, that the context of the unreturned worker %s (order %d) is already cancelled", w.name, w.order, v.name, v.order)
					su.it.orderViol.CompareAndSwap(nil, &s)
				}
			}
		}
		check()
		gosched(w.jit)
		check()
		w.ret()
	}
}

func startupOne(c *vf.Ctx, seed int64, batch, iter int, race bool) {
	rng := rand.New(rand.NewSource(seed))
	rep := replayRec{Mode: "stress", Race: race, Batch: batch, From: iter, Iters: iter + 1}
	viol := func(fp, what string) { c.Violation(fp, what, rep) }
	n := 3
	big := c.Pick(40, 160) // 1 in 40 (quick) / 1 in 160 (thorough, 30x the iterations) uses 2000 workers
	switch x := rng.Intn(big); {
	case x == 0:
		n = 2000
	case x < big/2:
		n = 50
	}
	su := &startupIter{d: daemon.New(), it: &stressIter{}, async: rng.Intn(2) == 0}
	switch rng.Intn(3) {
	case 0:
		su.k = 1
	case 1:
		su.k = int64(n+1) / 2
	default:
		su.k = int64(n)
	}
	pool := genPool(rng, 2+rng.Intn(5))
	su.ws = make([]*swk, n)
	for i := range su.ws {
		su.ws[i] = &swk{it: su.it, name: fmt.Sprintf("s%d", i), kind: "startup", order: pool[rng.Intn(len(pool))], jit: rng.Intn(4), early: make(chan struct{})}
	}
	// each worker probes up to 48 workers of strictly lower order (all of them for small n)
	su.probes = make([][]int32, n)
	for i, w := range su.ws {
		var lower []int32
		for j, v := range su.ws {
			if v.order < w.order {
				lower = append(lower, int32(j))
			}
		}
		if len(lower) > 48 {
			rng.Shuffle(len(lower), func(a, b int) { lower[a], lower[b] = lower[b], lower[a] })
			lower = lower[:48]
		}
		su.probes[i] = lower
	}
	su.it.big = su.ws
	for i, w := range su.ws {
		var err error
		if w.order == 0 && w.jit%2 == 0 {
			err = su.d.BackgroundWorker(w.name, su.handler(i))
		} else {
			err = su.d.BackgroundWorker(w.name, su.handler(i), w.order)
		}
		if err != nil {
			c.Inconclusive("startup family: registration before Start refused: " + err.Error())
			return
		}
	}
	curIter.Store(su.it)
	prePlan, postPlan := queryPlan(rng, false, true), queryPlan(rng, true, true)
	runQueries(su.d, prePlan, nil) // before Start
	su.d.Start()
	startRet := tick()
	runQueries(su.d, postPlan, nil) // after Start returned, possibly during the shutdown a worker requested
	c.Count("stress_query_calls", len(prePlan)+len(postPlan))
	su.it.shutReq.Store(true)
	su.d.ShutdownAndWait()
	su.noteSAW()
	su.wg.Wait()
	curIter.Store(nil)
	T := su.sawRet.Load()

	c.Count("stress_iterations", 1)
	c.Count("startup_iterations", 1)
	c.Count(fmt.Sprintf("startup_iterations_n%d", n), 1)
	if tt := su.trigTick.Load(); tt != 0 {
		c.Count("startup_shutdown_requested_by_worker", 1)
		if tt < startRet {
			c.Count("startup_shutdown_requested_while_start_in_progress", 1)
		}
	}
	if m := su.it.deadlock.Load(); m != nil {
		viol("startup-shutdown:leaked-uncancelled-worker", "shutdown requested by a worker during start-up: "+*m)
	}
	if s := su.it.orderViol.Load(); s != nil {
		viol("order:cancelled-before-higher-returned", "shutdown requested by a worker during start-up: "+*s)
	}
	reportRestart(su.it, viol)
	nStarted, bad := 0, 0
	for _, w := range su.ws {
		if !w.started.Load() {
			continue // never started (or not yet): nothing demanded
		}
		nStarted++
		c.Count("evaluations", 1)
		rt := w.retTick.Load()
		if rt != 0 && rt < T {
			continue
		}
		bad++
		if bad > 1 {
			continue
		}
		p := w.ctx.Load()
		cancelled := p != nil && (*p).Err() != nil
		if !cancelled {
			viol("startup-shutdown:leaked-uncancelled-worker", fmt.Sprintf("n=%d workers, the %d-th handler to start requested a shutdown (async=%v, tick %d, Start returned at tick %d); ShutdownAndWait returned at tick %d but started worker %s (order %d) has not returned and its context is not cancelled", n, su.k, su.async, su.trigTick.Load(), startRet, T, w.name, w.order))
		} else {
			viol("wait:shutdownandwait-returned-before-worker", fmt.Sprintf("shutdown requested by a worker during start-up (n=%d, k=%d): ShutdownAndWait returned at tick %d, started worker %s returned at tick %d", n, su.k, T, w.name, rt))
		}
	}
	c.Count("startup_workers_started", nStarted)
	for _, w := range su.ws {
		if !w.returned.Load() {
			w.release()
		}
	}
	if bad > 0 {
		// let the released handlers leave before the next iteration
		for _, w := range su.ws {
			for i := 0; w.started.Load() && !w.returned.Load() && i < 1<<20; i++ {
				runtime.Gosched()
			}
		}
	}
}
