// Read-only / no-op-looking exported API of the daemon, interleaved at seeded
// points of the scripted scenarios and of the stress. These calls must not
// change any later behaviour (the usual oracles run afterwards); in the
// scripted scenarios their results are compared with the model at quiescent
// points where plain reading defines them.
package main

import (
	"fmt"
	"math/rand"
	"sort"
	"strings"

	"github.com/iotaledger/hive.go/app/daemon"
	"verif/harness/internal/gdump"
)

// query kinds
const (
	qGetRunning = iota
	qIsRunning
	qIsStopped
	qCtxStopped
	qDebugLoggerNil // DebugLogger(nil): only touches the (unused, logger-less) default daemon
	qStartAgain     // Start() on a daemon that was already started: documented no-op
	qDefaultDaemon  // read-only package-level wrappers of the never-used default daemon
	qKinds
)

// queryPlan: 0-3 calls of each kind in a seeded order.
//
// concurrent: the plan will run concurrently with other plans. DebugLogger is
// then left out: it is a setter of the package-global default daemon's logger
// (it ignores its receiver and writes without synchronisation), i.e. global
// state outside the daemon under test.
func queryPlan(rng *rand.Rand, started, concurrent bool) []int {
	var plan []int
	for k := 0; k < qKinds; k++ {
		if k == qStartAgain && !started {
			continue
		}
		if k == qDebugLoggerNil && concurrent {
			rng.Intn(4)
			continue
		}
		for n := rng.Intn(4); n > 0; n-- {
			plan = append(plan, k)
		}
	}
	rng.Shuffle(len(plan), func(i, j int) { plan[i], plan[j] = plan[j], plan[i] })
	return plan
}

type queryResult struct {
	running    [][]string
	isRunning  []bool
	isStopped  []bool
	ctxDone    []bool
	defaultBad string
}

func runQueries(d daemon.Daemon, plan []int, r *queryResult) {
	for _, k := range plan {
		switch k {
		case qGetRunning:
			names := d.GetRunningBackgroundWorkers()
			if r != nil {
				r.running = append(r.running, append([]string(nil), names...))
			}
		case qIsRunning:
			v := d.IsRunning()
			if r != nil {
				r.isRunning = append(r.isRunning, v)
			}
		case qIsStopped:
			v := d.IsStopped()
			if r != nil {
				r.isStopped = append(r.isStopped, v)
			}
		case qCtxStopped:
			v := d.ContextStopped().Err() != nil
			if r != nil {
				r.ctxDone = append(r.ctxDone, v)
			}
		case qDebugLoggerNil:
			d.DebugLogger(nil)
		case qStartAgain:
			d.Start()
		case qDefaultDaemon:
			if daemon.IsRunning() || daemon.IsStopped() || len(daemon.GetRunningBackgroundWorkers()) != 0 || daemon.ContextStopped().Err() != nil {
				if r != nil {
					r.defaultBad = "the never-used default daemon reports running/stopped/workers"
				}
			}
		}
	}
}

// queries runs a seeded burst on the registrar actor at a quiescent point and
// compares the results with the model. phase: "before-start", "running",
// "shutdown-requested", "after-shutdown". It returns the quiescent snapshot
// taken after the burst.
func (s *scen) queries(phase string, gs []gdump.G) []gdump.G {
	if s.dirty || s.qrng.Intn(3) == 0 {
		return gs
	}
	startedAlready := s.started && phase != "before-start"
	plan := queryPlan(s.qrng, startedAlready, false)
	if s.pkgLevel {
		// the daemon under test IS the default daemon: DebugLogger(nil) would remove its logger and the
		// "default daemon was never used" probe does not apply
		kept := plan[:0]
		for _, k := range plan {
			if k != qDebugLoggerNil && k != qDefaultDaemon {
				kept = append(kept, k)
			}
		}
		plan = kept
	}
	if len(plan) == 0 {
		return gs
	}
	var r queryResult
	s.reg.Start(func() { runQueries(s.d, plan, &r) })
	gs = s.settle()
	if s.reg.Busy() {
		s.c.Inconclusive(fmt.Sprintf("cfg %d: a read-only daemon call is blocked (%s)", s.seed, phase))
		s.dirty = true
		return gs
	}
	if p := s.reg.TakePanic(); p != "" {
		s.violation("query:panic", fmt.Sprintf("a read-only daemon call panicked (%s): %s", phase, p))
		return gs
	}
	s.c.Count("query_bursts", 1)
	s.c.Count("query_calls", len(plan))
	s.c.Count("query_bursts_"+phase, 1)
	s.tr("queries (%s): %d calls, GetRunningBackgroundWorkers x%d", phase, len(plan), len(r.running))
	s.judgeQueries(phase, &r)
	return gs
}

// judgeQueries compares the results of a burst made at a quiescent point with the model.
func (s *scen) judgeQueries(phase string, r *queryResult) {
	// model
	var live []string
	for _, w := range s.liveWorkers() {
		live = append(live, w.name)
	}
	sort.Strings(live)
	want := strings.Join(live, ",")
	for _, got := range r.running {
		s.c.Count("evaluations", 1)
		g := append([]string(nil), got...)
		sort.Strings(g)
		if strings.Join(g, ",") != want {
			s.violation("query:get-running-mismatch", fmt.Sprintf("%s, quiescent: GetRunningBackgroundWorkers() = %v, workers started and not returned = %v", phase, got, live))
		}
	}
	check := func(name string, got []bool, want bool) {
		for _, v := range got {
			s.c.Count("evaluations", 1)
			if v != want {
				s.violation("query:"+name+"-mismatch", fmt.Sprintf("%s, quiescent: %s = %v, expected %v", phase, name, v, want))
			}
		}
	}
	switch phase {
	case "before-start":
		check("isrunning", r.isRunning, false)
		check("isstopped", r.isStopped, false)
		check("contextstopped-done", r.ctxDone, false)
	case "running":
		check("isrunning", r.isRunning, s.started)
		check("isstopped", r.isStopped, false)
		check("contextstopped-done", r.ctxDone, false)
	case "shutdown-requested": // IsRunning is not defined while the shutdown is in progress
		check("isstopped", r.isStopped, true)
		check("contextstopped-done", r.ctxDone, true)
	case "after-shutdown":
		check("isrunning", r.isRunning, false)
		check("isstopped", r.isStopped, true)
		check("contextstopped-done", r.ctxDone, true)
	}
	if r.defaultBad != "" {
		s.c.Note(r.defaultBad)
	}
}
