// C20 – daemon shutdown order (app/daemon).
//
//   - "det" children (plain build): scripted scenarios stepped by global
//     quiescence (scenario.go) – ordering invariant at every quiescent point,
//     ShutdownAndWait/Run return only after the last worker, refusals after
//     shutdown / for running names, and the gated late BackgroundWorker call
//     (hook daemon.bgworker.afterStoppedCheck).
//   - "stress" children (plain and -race build): free-running BackgroundWorker ‖
//     Shutdown ‖ worker exit (stress.go); race reports whose two access stacks
//     both lie in hive.go/app/daemon are violations.
package main

import (
	"encoding/json"
	"fmt"
	"os"
	"runtime"
	"sort"
	"strconv"
	"strings"
	"sync"
	"time"

	"github.com/iotaledger/hive.go/app/daemon"
	"verif/harness/internal/vf"
)

func cfgSeeds(c *vf.Ctx, n int) []int64 {
	r := c.Rand("cfg")
	out := make([]int64, n)
	for i := range out {
		out[i] = r.Int63()
	}
	return out
}

func child(c *vf.Ctx) {
	switch c.Child {
	case "det":
		lo, _ := strconv.Atoi(c.ChildArgs[0])
		hi, _ := strconv.Atoi(c.ChildArgs[1])
		daemon.VerifYield = gateHook
		seeds := cfgSeeds(c, hi)
		for i := lo; i < hi; i++ {
			c.Mark(strconv.Itoa(i))
			if !runScenario(c, seeds[i], i) {
				c.Emit("resume", i+1) // goroutines left behind: continue in a fresh process
				return
			}
		}
		c.Emit("resume", hi)
	case "one":
		seed, _ := strconv.ParseInt(c.ChildArgs[0], 10, 64)
		daemon.VerifYield = gateHook
		runScenario(c, seed, -1)
	case "life":
		lo, _ := strconv.Atoi(c.ChildArgs[0])
		hi, _ := strconv.Atoi(c.ChildArgs[1])
		seeds := lifeSeeds(c, hi)
		for i := lo; i < hi; i++ {
			c.Mark(strconv.Itoa(i))
			if !runLife(c, seeds[i], i) {
				c.Emit("resume", i+1)
				return
			}
		}
		c.Emit("resume", hi)
	case "disc":
		lo, _ := strconv.Atoi(c.ChildArgs[0])
		hi, _ := strconv.Atoi(c.ChildArgs[1])
		seeds := discSeeds(c, hi)
		for i := lo; i < hi; i++ {
			c.Mark(strconv.Itoa(i))
			if !runDisc(c, seeds[i], i) {
				c.Emit("resume", i+1)
				return
			}
		}
		c.Emit("resume", hi)
	case "discone":
		seed, _ := strconv.ParseInt(c.ChildArgs[0], 10, 64)
		runDisc(c, seed, -1)
	case "panicprobe":
		panicProbe(c)
	case "single": // one scripted scenario in its own process: fam api(inst|pkg) logger(0|1) holdMs seed
		fam, pkg, logger := c.ChildArgs[0], c.ChildArgs[1] == "pkg", c.ChildArgs[2] == "1"
		holdMs, _ := strconv.Atoi(c.ChildArgs[3])
		seed, _ := strconv.ParseInt(c.ChildArgs[4], 10, 64)
		c.Mark(strings.Join(c.ChildArgs, " "))
		if fam == "det" {
			daemon.VerifYield = gateHook
			runScenarioOn(c, seed, -1, pkg, logger)
		} else if fam == "disc" {
			runDiscOn(c, seed, -1, pkg, logger)
		} else {
			runLifeOn(c, seed, -1, pkg, logger, holdMs)
		}
		c.Emit("done", 1)
	case "lifeone":
		seed, _ := strconv.ParseInt(c.ChildArgs[0], 10, 64)
		runLife(c, seed, -1)
	case "stress":
		batch, _ := strconv.Atoi(c.ChildArgs[0])
		from, _ := strconv.Atoi(c.ChildArgs[1])
		iters, _ := strconv.Atoi(c.ChildArgs[2])
		repeat := 1
		if len(c.ChildArgs) > 4 {
			repeat, _ = strconv.Atoi(c.ChildArgs[4])
		}
		runStress(c, batch, from, iters, len(c.ChildArgs) > 3 && c.ChildArgs[3] == "race", repeat)
	}
}

// detRange runs configurations [lo,hi) in det children, restarting after a
// scenario that left goroutines behind or killed the process.
func detRange(c *vf.Ctx, lo, hi int) { famRange(c, "det", lo, hi) }

// famRange: the same for the scripted family fam ("det": scenario.go, "life": lifecycle.go).
func famRange(c *vf.Ctx, fam string, lo, hi int) {
	for lo < hi {
		res := c.RunChild(vf.ChildOpts{Name: fam, Args: []string{strconv.Itoa(lo), strconv.Itoa(hi)}, Timeout: 10 * time.Minute, Env: []string{"GOMAXPROCS=4"}})
		next := -1
		for _, r := range res.Records {
			if r.Kind == "resume" {
				json.Unmarshal(r.V, &next)
			}
		}
		if next >= 0 {
			lo = next
			continue
		}
		// the child died or timed out
		at, _ := strconv.Atoi(res.LastMark)
		seed := cfgSeeds(c, at+1)[at]
		if fam == "life" {
			seed = lifeSeeds(c, at+1)[at]
		} else if fam == "disc" {
			seed = discSeeds(c, at+1)[at]
		}
		switch {
		case res.TimedOut:
			c.Inconclusive(fmt.Sprintf("%s child timed out in configuration %d (seed %d), dump in %s", fam, at, seed, res.StderrPath))
		case res.Deadlock:
			c.Violation("hang:runtime-deadlock", "Go runtime reported a global dead-lock in a scripted scenario ("+fam+")", replayRec{Mode: fam, CfgSeed: seed, Index: at, Dump: trunc(res.Stderr, 6000)})
		default:
			c.Violation("fatal:"+fatalClass(res.Fatal), fmt.Sprintf("%s child died in configuration %d: %s", fam, at, res.Fatal), replayRec{Mode: fam, CfgSeed: seed, Index: at, Dump: trunc(res.Stderr, 6000)})
		}
		lo = at + 1
	}
}

// single runs one scripted scenario of family fam in its own child process (needed for the
// process-global default daemon, which cannot be restarted, and for the patience runs, which
// spend wall time and therefore run next to everything else).
func single(c *vf.Ctx, fam string, pkg, logger bool, holdMs int, seed int64) {
	api, lg := "inst", "0"
	if pkg {
		api = "pkg"
	}
	if logger {
		lg = "1"
	}
	res := c.RunChild(vf.ChildOpts{Name: "single", Args: []string{fam, api, lg, strconv.Itoa(holdMs), strconv.FormatInt(seed, 10)}, Timeout: 2*time.Minute + 4*time.Duration(holdMs)*time.Millisecond, Env: []string{"GOMAXPROCS=4"}})
	for _, r := range res.Records {
		if r.Kind == "done" {
			return
		}
	}
	rep := replayRec{Mode: fam, CfgSeed: seed, Pkg: pkg, Logger: logger, HoldMs: holdMs, Dump: trunc(res.Stderr, 6000)}
	switch {
	case res.TimedOut:
		c.Inconclusive(fmt.Sprintf("single %s child (api=%s logger=%s hold=%dms seed %d) timed out, dump in %s", fam, api, lg, holdMs, seed, res.StderrPath))
	case res.Deadlock:
		c.Violation("hang:runtime-deadlock", fmt.Sprintf("Go runtime reported a global dead-lock in a scripted scenario (%s, api=%s, debug logger=%v)", fam, api, logger), rep)
	default:
		c.Violation("fatal:"+fatalClass(res.Fatal), fmt.Sprintf("single %s child (api=%s, debug logger=%v) died: %s", fam, api, logger, res.Fatal), rep)
	}
}

func trunc(s string, n int) string {
	if len(s) > n {
		return s[:n]
	}
	return s
}

func fatalClass(l string) string {
	switch {
	case strings.Contains(l, "WaitGroup is reused"):
		return "waitgroup-reuse"
	case strings.Contains(l, "concurrent map"):
		return "concurrent-map-access"
	case strings.Contains(l, "nil map"):
		return "nil-map"
	case l == "":
		return "exit"
	}
	f := strings.Fields(l)
	if len(f) > 4 {
		f = f[:4]
	}
	return strings.Join(f, "-")
}

// bothStacksIn reports whether both accesses of a race report were made by
// code of the package: walking each access stack from the innermost frame, the
// first frame that belongs to hive.go or to the harness must belong to hive.go
// (an access made by harness code that merely runs below a daemon frame, e.g. a
// worker function or a recover handler, does not count), and the stack must
// contain a frame of pkg.
func bothStacksIn(r vf.RaceReport, pkg string) bool {
	p := strings.TrimPrefix(r.Text, "WARNING: DATA RACE")
	if i := strings.Index(p, "\nGoroutine "); i >= 0 {
		p = p[:i]
	}
	n, in := 0, 0
	for _, blk := range strings.Split(strings.TrimSpace(p), "\n\n") {
		if strings.TrimSpace(blk) == "" {
			continue
		}
		n++
		first := ""
		for _, l := range strings.Split(blk, "\n") {
			if !strings.HasPrefix(l, "  ") || strings.HasPrefix(l, "   ") {
				continue
			}
			f := strings.TrimSpace(l)
			if strings.HasPrefix(f, "main.") || strings.Contains(f, "verif/harness") {
				first = "harness"
				break
			}
			if strings.Contains(f, "iotaledger/hive.go/") {
				first = "hive"
				break
			}
		}
		if first == "hive" && strings.Contains(blk, pkg) {
			in++
		}
	}
	return n >= 2 && in >= 2
}

// raceKey: the outermost-in-stack-order first hive.go function of each access stack.
func raceKey(r vf.RaceReport) string {
	p := strings.TrimPrefix(r.Text, "WARNING: DATA RACE")
	if i := strings.Index(p, "\nGoroutine "); i >= 0 {
		p = p[:i]
	}
	var keys []string
	for _, blk := range strings.Split(strings.TrimSpace(p), "\n\n") {
		for _, l := range strings.Split(blk, "\n") {
			if strings.HasPrefix(l, "  ") && !strings.HasPrefix(l, "   ") && strings.HasSuffix(l, "()") && strings.Contains(l, "iotaledger/hive.go/") {
				f := strings.TrimSuffix(strings.TrimSpace(l), "()")
				f = f[strings.LastIndex(f, "/")+1:]
				keys = append(keys, f)
				break
			}
		}
	}
	sort.Strings(keys)
	return strings.Join(keys, " <-> ")
}

func stressBatch(c *vf.Ctx, batch, from, iters int, race bool) {
	seen := map[string]bool{}
	for from < iters {
		from = stressRun(c, batch, from, iters, race, seen)
	}
}

// stressRun runs iterations [from,iters) in one child and returns the index to
// continue with (iters when the child finished).
func stressRun(c *vf.Ctx, batch, from, iters int, race bool, seen map[string]bool) int {
	args := []string{strconv.Itoa(batch), strconv.Itoa(from), strconv.Itoa(iters)}
	if race {
		args = append(args, "race")
	} else {
		args = append(args, "plain")
	}
	if c.Replay != "" && iters-from <= 4 {
		args = append(args, "2000")
	}
	res := c.RunChild(vf.ChildOpts{Name: "stress", Args: args, Race: race, Timeout: time.Duration(c.Pick(4, 12)) * time.Minute, Env: []string{"GOMAXPROCS=8"}})
	next := iters
	at, _ := strconv.Atoi(res.LastMark)
	rep := replayRec{Mode: "stress", Race: race, Batch: batch, From: at, Iters: at + 1}
	switch {
	case res.TimedOut:
		c.Inconclusive(fmt.Sprintf("stress child (batch %d race=%v) timed out in iteration %d, dump in %s", batch, race, at, res.StderrPath))
	case res.ExitCode != 0 && !(race && res.ExitCode == 66): // 66: the race detector's exit status when it reported races
		rep.Dump = trunc(res.Stderr, 6000)
		fp := "fatal:" + fatalClass(res.Fatal)
		if strings.Contains(res.Stderr, "hive.go/app/daemon.(*OrderedDaemon).") { // naming of the fingerprint only; the death itself is the violation
			// the same classes as the recovered panics, but raised in a goroutine the harness cannot
			// guard (spawned by Shutdown()) or as an unrecoverable runtime error
			switch {
			case strings.Contains(res.Fatal, "WaitGroup is reused"):
				fp = "late-bgworker:shutdown-panic-waitgroup-reuse"
			case strings.Contains(res.Fatal, "WaitGroup misuse"):
				fp = "late-bgworker:panic-waitgroup-misuse"
			case strings.Contains(res.Fatal, "concurrent map"):
				fp = "late-bgworker:fatal-concurrent-map-access"
			}
		}
		c.Violation(fp, fmt.Sprintf("stress child (batch %d race=%v) died in iteration %d: %s", batch, race, at, res.Fatal), rep)
		next = at + 1
	}
	rep = replayRec{Mode: "stress", Race: race, Batch: batch, From: from, Iters: next}
	for _, r := range res.Races {
		c.Count("race_reports", 1)
		key := raceKey(r)
		if seen[key] {
			continue
		}
		seen[key] = true
		if bothStacksIn(r, "hive.go/app/daemon") {
			rr := rep
			rr.Report = trunc(r.Text, 6000)
			c.Violation("race:"+key, "data race, both stacks inside hive.go/app/daemon: "+key, rr)
		} else {
			c.Note("race report not inside the daemon on both sides: " + key)
		}
	}
	return next
}

func run(c *vf.Ctx) {
	if c.Replay != "" {
		var r replayRec
		if err := c.LoadReplay(&r); err != nil {
			fmt.Fprintln(os.Stderr, err)
			os.Exit(3)
		}
		if r.Pkg || r.HoldMs > 0 {
			single(c, r.Mode, r.Pkg, r.Logger, r.HoldMs, r.CfgSeed)
			return
		}
		switch r.Mode {
		case "det":
			res := c.RunChild(vf.ChildOpts{Name: "one", Args: []string{strconv.FormatInt(r.CfgSeed, 10)}, Timeout: 2 * time.Minute, Env: []string{"GOMAXPROCS=4"}})
			if res.TimedOut {
				c.Inconclusive("replay timed out")
			} else if res.ExitCode != 0 {
				c.Violation("fatal:"+fatalClass(res.Fatal), "replay child died: "+res.Fatal, r)
			}
		case "life":
			res := c.RunChild(vf.ChildOpts{Name: "lifeone", Args: []string{strconv.FormatInt(r.CfgSeed, 10)}, Timeout: 2 * time.Minute, Env: []string{"GOMAXPROCS=4"}})
			if res.TimedOut {
				c.Inconclusive("replay timed out")
			} else if res.ExitCode != 0 {
				c.Violation("fatal:"+fatalClass(res.Fatal), "replay child died: "+res.Fatal, r)
			}
		case "disc":
			res := c.RunChild(vf.ChildOpts{Name: "discone", Args: []string{strconv.FormatInt(r.CfgSeed, 10)}, Timeout: 2 * time.Minute, Env: []string{"GOMAXPROCS=4"}})
			if res.TimedOut {
				c.Inconclusive("replay timed out")
			} else if res.ExitCode != 0 {
				c.Violation("fatal:"+fatalClass(res.Fatal), "replay child died: "+res.Fatal, r)
			}
		case "stress":
			stressBatch(c, r.Batch, r.From, r.Iters, r.Race)
		}
		return
	}
	c.SetRule("one evaluation = one oracle decision on the real daemon: (a) at every quiescent point of a scripted scenario (all goroutines parked, shutdown goroutine in WaitGroup.Wait or gone) each live worker's ctx.Err() is compared with 'every worker of strictly higher order has returned' (both directions), ShutdownAndWait/Run callers that returned are checked against unreturned workers, registrations of running names / after shutdown must be refused, a BackgroundWorker call gated at daemon.bgworker.afterStoppedCheck while shutdown runs must be refused or its worker cancelled and waited for; (b) per BackgroundWorker call of the free-running stress (plain and -race; every sixth iteration is the 'shutdown requested by the k-th started worker while Start launches 3/50/2000 workers' workload, every third iteration is the 'worker exit vs re-registration' workload: callers spin on BackgroundWorker(sameName) while the old handler returns, 2-5 names, up to 3 generations, optional Run, shutdown after or during): accepted workers returned before ShutdownAndWait did (logical clock), cancelled workers see no cancelled unreturned lower-order worker. Bursts of the read-only / no-op-looking API (GetRunningBackgroundWorkers, IsRunning, IsStopped, ContextStopped, DebugLogger(nil), a second Start, the default-daemon getters; 0-3 calls each) are interleaved before Start, while running, right before and during shutdown and afterwards, and their results are compared with the model at quiescent points. Configurations come from a per-index seed (orders from a pool with ties, negatives, gaps, int32 and platform-int boundary values, a third of the pools with a pair more than math.MaxInt apart; early finishers; re-registration; 1-4 shutdown callers; Run). (c) life-cycle entry-point combinations (lifecycle.go, scripted, one gate at a time): the daemon is started with Start() or Run(), the shutdown is requested by Shutdown() or ShutdownAndWait() from another goroutine, and further Run/ShutdownAndWait/Shutdown/Start calls arrive from fresh goroutines while running, in the same step as the shutdown request, at seeded steps of the winding down (at least one per configuration; parked before, or overlapping, the next worker's return), after the stop, and on a daemon stopped before it was started; every Run/ShutdownAndWait call found returned at a quiescent point while a worker that was inside its handler at the previous quiescent point is still inside it is a violation, as is a call blocked for ever once nothing runs, a worker started or a registration accepted on a stopped daemon; the ordering invariant of (a) runs at every one of these points. (d) configuration space: a fixed number of (a) and (c) scenarios run on the package-level default daemon API (daemon.BackgroundWorker/Start/Run/Shutdown/ShutdownAndWait/IsRunning/...; one scenario per process because the default daemon cannot be restarted), every second one with a debug logger installed through daemon.DebugLogger (output discarded); a few (c) scenarios are 'patience' runs (instance, default daemon, default daemon with logger): with a Run and a second ShutdownAndWait parked, all gates stay shut for patience_hold_ms of wall time while the highest order is gated and again when only the last order is left, and the same structural oracles are evaluated at the end of the hold (the duration itself decides nothing). (e) workload disciplines (disc.go, scripted like (a)): an impolite caller passes the order of every BackgroundWorker call as buf... from ONE reused buffer (overwritten right after the call or by the next registration; with the order of another worker, a neighbouring or any other order) or from per-registration buffers it recycles after Start, before the shutdown request and during the winding down; the call must leave the slice unchanged and the orders in force are the values at call time (ordering oracle of (a)); names come from a reused byte buffer, handlers through a reused variable; every slice returned by GetRunningBackgroundWorkers is held with a copy, re-compared after each of the next 5 steps and a third is scribbled (overwritten, reversed, re-sliced/appended within and beyond capacity); worker functions call back into their own daemon first thing at start (under Start/Run or the registering call), while running, after their cancellation and while the daemon winds down: BackgroundWorker(own name) must be refused without side effect, BackgroundWorker(new/finished name) joins the model when accepted (also after the shutdown request: then it must be cancelled in order and waited for), Shutdown() requested by a worker function, Start(), the read-only calls (judged against the model when made at a quiescent point); a re-entrant call that is parked at a quiescent point and stays parked after every other worker was released is a violation (all of them return on the unchanged tree; ShutdownAndWait/Run from inside a worker function wait for the caller itself and are not driven); worker functions that return at once, their names re-registered afterwards; one panicprobe child records what a panicking worker function does to the process (unchanged tree: the process dies with the worker's panic; nothing demanded). distinct_nontrivial counts distinct (order multiset at shutdown, gate-release order, variant set) triples of started daemons with >= 2 distinct orders and >= 1 gate release")
	nCfg := c.Pick(1200, 20000)
	procs := runtime.NumCPU() / 2
	if procs < 2 {
		procs = 2
	}
	if procs > 8 {
		procs = 8
	}
	var wg sync.WaitGroup
	// deterministic scenarios, split over processes (quiescence is process-wide)
	per := (nCfg + procs - 1) / procs
	for p := 0; p < procs; p++ {
		lo, hi := p*per, min((p+1)*per, nCfg)
		if lo >= hi {
			continue
		}
		wg.Add(1)
		go func() { defer wg.Done(); detRange(c, lo, hi) }()
	}
	// life-cycle entry-point combinations (lifecycle.go), scripted as well
	nLife := c.Pick(600, 8000)
	lifeProcs := max(procs/2, 2)
	perLife := (nLife + lifeProcs - 1) / lifeProcs
	for p := 0; p < lifeProcs; p++ {
		lo, hi := p*perLife, min((p+1)*perLife, nLife)
		if lo >= hi {
			continue
		}
		wg.Add(1)
		go func() { defer wg.Done(); famRange(c, "life", lo, hi) }()
	}
	// the three workload disciplines (disc.go): caller-owned arguments and results, re-entrant and
	// at-once-returning worker functions; scripted like the families above
	nDisc := c.Pick(400, 6000)
	discProcs := max(procs/4, 2)
	perDisc := (nDisc + discProcs - 1) / discProcs
	for p := 0; p < discProcs; p++ {
		lo, hi := p*perDisc, min((p+1)*perDisc, nDisc)
		if lo >= hi {
			continue
		}
		wg.Add(1)
		go func() { defer wg.Done(); famRange(c, "disc", lo, hi) }()
	}
	nPkgDisc := c.Pick(8, 80)
	wg.Add(1)
	go func() { // what the daemon does with a panicking worker function (evidence only)
		defer wg.Done()
		res := c.RunChild(vf.ChildOpts{Name: "panicprobe", Timeout: time.Minute, Env: []string{"GOMAXPROCS=2"}})
		c.Count("panic_probes", 1)
		survived := false
		for _, r := range res.Records {
			if r.Kind == "survived" {
				survived = true
			}
		}
		switch {
		case survived:
			c.Count("panic_probe_daemon_survived", 1)
		case res.ExitCode != 0 && !res.TimedOut && strings.Contains(res.Stderr, panicMarker):
			c.Count("panic_probe_process_died_with_the_workers_panic", 1)
		default:
			c.Note(fmt.Sprintf("panic probe ended unexpectedly: exit=%d timedOut=%v fatal=%q", res.ExitCode, res.TimedOut, res.Fatal))
		}
	}()
	// configuration space: both scripted families on the package-level default daemon (one scenario per
	// process), every second one with a debug logger installed
	nPkg := c.Pick(24, 300) // per family
	pkgSem := make(chan struct{}, 3)
	for _, fam := range []string{"det", "life", "disc"} {
		r := c.Rand("pkgcfg-" + fam)
		n := nPkg
		if fam == "disc" {
			n = nPkgDisc
		}
		for i := 0; i < n; i++ {
			seed, logger := r.Int63(), i%2 == 1
			wg.Add(1)
			go func() {
				defer wg.Done()
				pkgSem <- struct{}{}
				single(c, fam, true, logger, 0, seed)
				<-pkgSem
			}()
		}
	}
	// patience: a few life-cycle scenarios keep all gates shut for holdMs of wall time, twice (highest order
	// gated; only the last order left). They sleep next to the other work; the duration is no verdict.
	nPatience, holdMs := c.Pick(4, 12), c.Pick(3500, 11000)
	pr := c.Rand("patience")
	for i := 0; i < nPatience; i++ {
		seed, pkg, logger := pr.Int63(), i%4 != 0, i%4 >= 2 // instance | default daemon | default daemon + logger (x2)
		wg.Add(1)
		go func() { defer wg.Done(); single(c, "life", pkg, logger, holdMs, seed) }()
	}
	wg.Wait()
	// free-running stress, plain and -race
	plainBatches, raceBatches := c.Pick(4, 8), c.Pick(4, 8)
	plainIters, raceIters := c.Pick(4000, 60000), c.Pick(2000, 30000)
	sem := make(chan struct{}, 4)
	for b := 0; b < plainBatches; b++ {
		wg.Add(1)
		go func() { defer wg.Done(); sem <- struct{}{}; stressBatch(c, b, 0, plainIters, false); <-sem }()
	}
	for b := 0; b < raceBatches; b++ {
		wg.Add(1)
		go func() { defer wg.Done(); sem <- struct{}{}; stressBatch(c, b, 0, raceIters, true); <-sem }()
	}
	wg.Wait()

	c.SetExhaustive(false)
	// Minimums of overlap-dependent counters scale with the parallelism the machine offers: how often two
	// free-running goroutines interleave inside a window of a few instructions is a property of the
	// scheduler, not of the daemon. (Iteration counts, variants and the deterministic scenarios do not scale.)
	par := runtime.NumCPU()                             // honours the affinity mask (taskset)
	pf := map[int]float64{1: 0.05, 2: 0.1, 3: 0.5}[par] // measured: with 1-2 cores an interleaving inside the few-instruction exit path of a worker needs an OS pre-emption at exactly that point (5-8 per quick run instead of 80-550)
	if par >= 4 {
		pf = 1
	}
	scaled := func(full, floor int) int {
		if n := int(float64(full) * pf); n > floor {
			return n
		}
		return floor
	}
	c.Extra("parallelism", par)
	c.Extra("overlap_minimum_factor", pf)
	c.Require("configurations", nCfg)
	c.Require("evaluations", nCfg*4)
	c.Require("nontrivial", nCfg/4)
	c.Require("gated_windows_entered", nCfg/8)
	c.Require("variant_early_finish", nCfg/20)
	c.Require("variant_reregister", nCfg/40)
	c.Require("variant_concurrent_callers", nCfg/10)
	c.Require("variant_running_name", nCfg/40)
	c.Require("variant_run", nCfg/10)
	c.Require("shutdown_goroutine_identified", nCfg)                                    // self-check: the goroutine performing the shutdown was found (exported frames + WaitGroup.Wait)
	c.Require("shutdown_seen_waiting_for_live_workers", nCfg)                           // ... while workers were live
	c.Require("configs_with_far_order_pair", nCfg/10)                                   // live workers whose orders differ by more than math.MaxInt
	c.Require("stress_iterations", (plainBatches*plainIters+raceBatches*raceIters)*4/5) // a child killed by a defect loses the iterations since its last flush
	c.Require("stress_calls_overlapping_shutdown", scaled(2000, 200))
	c.Require("rereg_iterations", (plainBatches*plainIters+raceBatches*raceIters)/4)
	c.Require("startup_iterations", (plainBatches*plainIters+raceBatches*raceIters)/8)
	c.Require("startup_iterations_n2000", c.Pick(30, 600))
	c.Require("startup_shutdown_requested_while_start_in_progress", scaled(c.Pick(100, 2000), 10)) // the k-th started handler asked for the shutdown before Start() had returned
	c.Require("query_bursts", nCfg*2)                                                              // scripted scenarios: bursts of read-only API calls at quiescent points, results compared with the model
	c.Require("query_bursts_shutdown-requested", nCfg/2)
	c.Require("stress_query_calls", 50000)                    // stress: the same calls racing with everything else
	c.Require("rereg_run_seen_waiting_after_acceptance", 200) // Run oracle of the stress: acceptances after which Run was seen still waiting
	c.Require("rereg_last_worker_mode", 1000)                 // Run waiting while the only running worker exits and its name is re-registered at once
	c.Require("rereg_accepted", 10000)
	c.Require("rereg_attempts_while_old_worker_exiting", scaled(50, 5)) // refusals observed after the old handler had returned: the call raced the exit path
	c.Require("rereg_accepted_early", scaled(8, 1))                     // ... and the retry was then accepted
	c.Require("life_configurations", nLife)
	c.Require("life_returns_judged", nLife*3)                                // Run/ShutdownAndWait calls whose return was judged against the held workers
	c.Require("life_blocked_seen_winding-down_run", nLife/3)                 // Run() arriving during the winding down was seen parked inside Run while a started worker was held by a gate
	c.Require("life_blocked_seen_winding-down_shutdownandwait", nLife/5)     // ... a second ShutdownAndWait likewise
	c.Require("life_blocked_seen_running_run", nLife/5)                      // ... a Run() arriving on a daemon that was already running
	c.Require("life_blocked_seen_shutdown-request_run", nLife/5)             // ... a Run() arriving in the same step as the shutdown request
	c.Require("life_blocked_seen_shutdown-request_shutdownandwait", nLife/5) // the requesting ShutdownAndWait itself
	c.Require("life_calls_after-stop_run", nLife/2)
	c.Require("life_calls_stopped-unstarted_run", nLife/20)
	c.Require("life_shapes", nLife/4)
	c.Require("det_on_default_daemon", nPkg/2)
	c.Require("det_on_default_daemon_with_debug_logger", nPkg/2)
	c.Require("life_on_default_daemon", nPkg/2)
	c.Require("life_on_default_daemon_with_debug_logger", nPkg/2)
	c.Require("disc_configurations", nDisc)
	c.Require("disc_configs_distinct_orders_through_one_buffer", nDisc/4) // >= 2 distinct orders of workers live at shutdown went through the ONE reused order buffer
	c.Require("disc_order_args_overwritten_after_call", nDisc)
	c.Require("disc_order_buffers_overwritten_after-start", nDisc/2)
	c.Require("disc_order_buffers_overwritten_before-shutdown", nDisc/2)
	c.Require("disc_order_buffers_overwritten_during-shutdown", nDisc)
	c.Require("disc_held_results", nDisc*2)
	c.Require("disc_held_rechecks", nDisc*8)
	c.Require("disc_held_scribbled", nDisc)
	c.Require("disc_reentrant_bg-own_at-start", nDisc/2) // the worker function registers its own name first thing: refused, and the worker stays in the shutdown sequence
	c.Require("disc_reentrant_bg-own_running", nDisc/10)
	c.Require("disc_reentrant_bg-own_cancelled", nDisc/5)
	c.Require("disc_reentrant_bg-new_at-start", nDisc/2)
	c.Require("disc_reentrant_bg-new_running", nDisc/8)
	c.Require("disc_reentrant_registrations_accepted", nDisc/2)
	c.Require("disc_reentrant_registrations_refused_after_shutdown_request", nDisc/4)
	c.Require("disc_reentrant_get-running_running", nDisc/8)
	c.Require("disc_reentrant_queries_cancelled", nDisc/5)
	c.Require("disc_shutdown_requested_by_worker_function", nDisc/4)
	c.Require("disc_reentrant_shutdown_at-start", nDisc/40)
	c.Require("disc_workers_returning_at_once", nDisc/8)
	c.Require("disc_reregistered_after_return_at_once", nDisc/40)
	c.Require("disc_shapes", nDisc/2)
	c.Require("disc_on_default_daemon", nPkgDisc/2)
	c.Require("disc_on_default_daemon_with_debug_logger", nPkgDisc/2)
	c.Require("panic_probes", 1)
	c.Require("patience_holds", nPatience+nPatience/2) // two holds per patience run unless it has a single order left after the first
	c.Require("patience_holds_with_debug_logger", nPatience/2)
	c.Require("patience_calls_blocked_after_hold", nPatience*2) // Run/ShutdownAndWait callers still parked at the end of a hold
	c.Extra("patience_hold_ms", holdMs)
	c.Assume("runtime.Stack(all) snapshots are consistent (stop-the-world); a process in which every goroutine is parked on a channel/sync primitive and no timer exists cannot make progress by itself (the daemon uses no timers and no logger unless DebugLogger is called)")
	c.Assume("sync/atomic operations are sequentially consistent (logical clock, returned flags)")
}

func main() { vf.Main("C20", "exploration", run, child) }
