// "disc" family: the three workload disciplines of harness/DISCIPLINES.md applied to the
// exported API of app/daemon (scripted, stepped by global quiescence like scenario.go; plain
// build "disc" children; the oracles are the ones of scenario.go – checkPre / checkShutdown /
// judgeQueries – plus the discipline-specific ones below).
//
//  1. Caller-owned memory. The caller of this family is impolite:
//     – the shutdown order of EVERY BackgroundWorker call (by the controller and by worker
//     functions calling back) is passed as buf... from a buffer the caller keeps: ONE buffer
//     reused for all registrations (overwritten right after each call, or left until the next
//     registration overwrites it), or one buffer per registration that the caller recycles later;
//     all kept buffers are overwritten again after Start, before the shutdown request and during
//     the winding down (with the order of another registered worker, a neighbouring or an
//     arbitrary other order). The call itself must leave the buffer unchanged
//     (arg:order-slice-modified-by-call); the orders the daemon works with are the values at the
//     time of the call (ordinary ordering oracle).
//     – names are built in a reused byte buffer (string(buf[:n]) – a copy by the language; the
//     buffer is overwritten after the call), handlers are passed through one reused variable that
//     is re-pointed to a decoy afterwards (the decoy must never run).
//     – every slice returned by GetRunningBackgroundWorkers (to the controller or to a worker
//     function) is held with a deep copy, re-compared after each of the next steps
//     (held:get-running-result-changed) and a share is scribbled (overwritten, reversed, re-sliced
//     and appended to within and beyond its capacity); later queries and the shutdown are judged
//     by the ordinary oracles.
//  2. Re-entrant worker functions. A worker function calls back into its own daemon first thing
//     when it is started (under Start/Run or under the registering BackgroundWorker call), while
//     it runs (the controller hands it a closure at a quiescent point), and after its context
//     was cancelled / while the daemon winds down: BackgroundWorker(own name) – must be refused
//     and must have no side effect –, BackgroundWorker(new name / finished name, any order) –
//     the accepted worker joins the model –, Shutdown() (the worker requests the shutdown),
//     Start(), IsRunning/IsStopped/ContextStopped/GetRunningBackgroundWorkers (judged against the
//     model when made at a quiescent point). All of these return on the unchanged tree; a call
//     found parked at a quiescent point that stays parked after every other worker was released
//     is a violation (reentrant:<kind>-call-never-returns). NOT driven: ShutdownAndWait and Run
//     from inside a worker function (they wait for the calling worker itself – documented
//     behaviour of the unchanged tree, nothing to demand).
//  3. Failing user code. A worker function has no error result; "failing" = it returns at once
//     (before Start / the registering call has returned), afterwards its name is registered again.
//     A worker function that panics takes the whole process down on the unchanged tree (no
//     recover in the daemon): established once per run in a "panicprobe" child, demanded: nothing.
package main

import (
	"context"
	"errors"
	"fmt"
	"math/rand"
	"sort"
	"strings"
	"sync/atomic"

	"github.com/iotaledger/hive.go/app/daemon"
	"verif/harness/internal/gdump"
	"verif/harness/internal/vf"
)

// fnD is the WorkerFunc of the disc family: publish ctx, run the at-start closures, then serve
// closures handed over by the controller until the gate opens. (The frame name starts with
// main.(*wk).fn, which is how shutdownView recognises a worker inside its handler.)
func (w *wk) fnD(ctx context.Context) {
	w.ctx.Store(&ctx)
	w.startTick.Store(tick())
	w.started.Store(true)
	for _, f := range w.atStart {
		f()
	}
	if w.retAtOnce {
		w.retTick.Store(tick())
		w.returned.Store(true)
		return
	}
	for {
		select {
		case f := <-w.cmd:
			f()
		case <-w.gate:
			w.retTick.Store(tick())
			w.returned.Store(true)
			return
		}
	}
}

// rop: one call made from inside a worker function.
type rop struct {
	kind   string // bg-own | bg-new | bg-finished | queries | get-running | shutdown
	stage  string // at-start | running | cancelled | winding-down
	by, w  *wk    // caller; target of a registration
	arg    []int  // order argument, caller-owned
	poison int    // what the caller overwrites arg[0] with after the call
	scrib  bool
	shared bool // the order went through the ONE reused buffer
	plan   []int
	qr     queryResult
	names  []string
	err    error
	pan    string
	argBad bool
	done   atomic.Bool
	f      func()
}

type heldRes struct {
	orig, copy []string
	age        int
	scribbled  bool
	from       string
}

type ownedBuf struct {
	b []int
	w *wk
}

type disc struct {
	*scen
	shutReq    bool
	bufMode    int   // 0: one buffer for every registration, 1: one buffer per registration, 2: mixed
	obuf       []int // the ONE reused order buffer
	owned      []*ownedBuf
	nbuf       []byte
	hvar       daemon.WorkerFunc
	decoyRuns  atomic.Int64
	pending    []*rop // at-start calls not evaluated yet
	held       []*heldRes
	shape      []string
	sharedSeen map[int]bool // distinct orders that went through the shared buffer and were accepted
	refused    map[*wk]bool
}

func discSeeds(c *vf.Ctx, n int) []int64 {
	r := c.Rand("disccfg")
	out := make([]int64, n)
	for i := range out {
		out[i] = r.Int63()
	}
	return out
}

func (d *disc) decoy(ctx context.Context) { d.decoyRuns.Add(1) }

func (d *disc) newD(name string, order int, has bool) *wk {
	w := newWk(name, order, has)
	w.cmd = make(chan func())
	return w
}

// poisonFor: a value the caller overwrites a kept order buffer with (never the original one).
func (d *disc) poisonFor(orig int) int {
	var others []int
	seen := map[int]bool{orig: true}
	for _, w := range d.ws {
		if !seen[w.order] {
			seen[w.order] = true
			others = append(others, w.order)
		}
	}
	switch r := d.rng.Intn(4); {
	case r < 2 && len(others) > 0:
		return others[d.rng.Intn(len(others))]
	case r == 2:
		if n := neighbour(d.rng, orig); n != orig {
			return n
		}
	}
	for {
		if o := orderBase[d.rng.Intn(len(orderBase))]; o != orig {
			return o
		}
	}
}

// orderArg: the slice the caller passes as order... (nil: the argument is omitted).
func (d *disc) orderArg(w *wk, private bool) (arg []int, shared bool) {
	if !w.hasOrder {
		if d.rng.Intn(2) == 0 {
			return nil, false
		}
		return d.obuf[:0], false // an empty slice cut from the reused buffer
	}
	if !private && (d.bufMode == 0 || d.bufMode == 2 && d.rng.Intn(2) == 0) {
		d.obuf[0] = w.order
		return d.obuf[:1], true
	}
	b := make([]int, 1, 1+d.rng.Intn(3))
	b[0] = w.order
	if !private { // (the buffer of an at-start call is kept once the call has been made: evalOp)
		d.owned = append(d.owned, &ownedBuf{b: b, w: w})
	}
	return b, false
}

// scribbleBufs: the caller recycles the buffers it passed earlier.
func (d *disc) scribbleBufs(stage string) {
	n := 0
	if d.rng.Intn(4) != 0 {
		d.obuf[0] = d.poisonFor(d.obuf[0])
		n++
	}
	for _, ob := range d.owned {
		if d.rng.Intn(2) == 0 {
			ob.b[0] = d.poisonFor(ob.w.order)
			n++
		}
	}
	if n > 0 {
		d.tr("caller overwrites %d order buffer(s) it passed earlier [%s]", n, stage)
		d.c.Count("disc_order_buffers_overwritten_"+stage, n)
	}
}

func (d *disc) nameFromBuf(name string) string {
	n := copy(d.nbuf, name)
	d.c.Count("disc_names_built_in_reused_buffer", 1)
	return string(d.nbuf[:n])
}

func (d *disc) accept(w *wk, shared bool) {
	w.accepted = true
	d.ws = append(d.ws, w)
	d.byName[w.name] = w
	if shared {
		d.sharedSeen[w.order] = true
	}
}

// registerD: BackgroundWorker called by the controller (registrar actor) as an impolite caller.
func (d *disc) registerD(w *wk, what string) (err error, ok bool) {
	arg, shared := d.orderArg(w, false)
	name := d.nameFromBuf(w.name)
	d.hvar = w.fnD
	d.reg.Start(func() { err = d.d.BackgroundWorker(name, d.hvar, arg...) })
	d.settle()
	if d.reg.Busy() {
		d.c.Inconclusive(fmt.Sprintf("disc cfg %d: BackgroundWorker (%s) is blocked", d.seed, what))
		d.dirty = true
		return nil, false
	}
	pan := d.reg.TakePanic()
	w.regTick = tick()
	d.c.Count("bgworker_calls", 1)
	d.c.Count("disc_registrations", 1)
	d.tr("BackgroundWorker(%s, order %d%s) %s -> %s", w.name, w.order, map[bool]string{true: " via the shared buffer", false: ""}[shared], what, errStr(err))
	if pan != "" {
		d.violation("disc:bgworker-panic", fmt.Sprintf("BackgroundWorker(%s, order %d) %s panicked: %s", w.name, w.order, what, pan))
		d.dirty = true
		return nil, false
	}
	// the arguments are the caller's: unchanged by the call, recycled afterwards
	if len(arg) > 0 {
		d.c.Count("evaluations", 1)
		if arg[0] != w.order {
			d.violation("arg:order-slice-modified-by-call", fmt.Sprintf("BackgroundWorker(%s, ..., buf...) changed the caller's order slice: passed %d, afterwards %d", w.name, w.order, arg[0]))
		}
		if shared {
			d.c.Count("disc_order_args_from_shared_buffer", 1)
			if d.rng.Intn(4) != 0 {
				arg[0] = d.poisonFor(w.order)
				d.c.Count("disc_order_args_overwritten_after_call", 1)
			} // else: left as it is until the next registration overwrites it (loop pattern)
		} else {
			d.c.Count("disc_order_args_from_own_buffer", 1)
		}
	}
	for i := range d.nbuf {
		d.nbuf[i] = '#'
	}
	d.hvar = d.decoy
	if err == nil {
		d.accept(w, shared)
	}
	return err, true
}

// ---------------------------------------------------------------- re-entrant calls

var ropKinds = []string{"bg-own", "bg-own", "bg-new", "bg-new", "bg-finished", "queries", "queries", "get-running", "get-running"}

// mkOp builds one call made by worker `by` from inside its handler. at-start calls run
// concurrently with each other, so they use private buffers and precomputed plans only.
func (d *disc) mkOp(kind, stage string, by *wk, depth int) *rop {
	r := &rop{kind: kind, stage: stage, by: by}
	atStart := stage == "at-start"
	if kind == "bg-finished" {
		var fin []*wk
		if !atStart {
			for _, w := range d.byName {
				if w.returned.Load() {
					fin = append(fin, w)
				}
			}
		}
		if len(fin) == 0 {
			kind, r.kind = "bg-new", "bg-new"
		} else {
			sort.Slice(fin, func(i, j int) bool { return fin[i].name < fin[j].name })
			old := fin[d.rng.Intn(len(fin))]
			o, _ := d.pickOrder(true)
			for o == old.order {
				o = neighbour(d.rng, o)
			}
			r.w = d.newD(old.name, o, true)
		}
	}
	switch kind {
	case "bg-own":
		o, has := d.pickOrder(true)
		r.w = d.newD(by.name, o, has)
	case "bg-new":
		o, has := d.pickOrder(true)
		r.w = d.newD(d.newName(), o, has)
		if depth == 0 {
			d.planAtStart(r.w, 1)
		}
	case "queries":
		r.plan = queryPlan(d.qrng, true, atStart)
		if d.pkgLevel {
			kept := r.plan[:0]
			for _, k := range r.plan {
				if k != qDebugLoggerNil && k != qDefaultDaemon {
					kept = append(kept, k)
				}
			}
			r.plan = kept
		}
	}
	if r.w != nil {
		r.arg, r.shared = d.orderArg(r.w, atStart)
		r.scrib = d.rng.Intn(4) != 0
		r.poison = d.poisonFor(r.w.order)
	}
	r.f = func() {
		defer func() {
			if x := recover(); x != nil {
				r.pan = panicString(x)
			}
			r.done.Store(true)
		}()
		switch r.kind {
		case "bg-own", "bg-new", "bg-finished":
			r.err = d.d.BackgroundWorker(r.w.name, r.w.fnD, r.arg...)
			r.w.regTick = tick()
			if len(r.arg) > 0 {
				if r.arg[0] != r.w.order {
					r.argBad = true
				}
				if r.scrib {
					r.arg[0] = r.poison // the caller (the worker function) recycles its buffer
				}
			}
		case "queries":
			runQueries(d.d, r.plan, &r.qr)
		case "get-running":
			r.names = d.d.GetRunningBackgroundWorkers()
		case "shutdown":
			d.d.Shutdown()
		}
	}
	if r.shared { // (only calls made one at a time use the shared buffer)
		d.c.Count("disc_order_args_from_shared_buffer", 1)
		if r.scrib {
			d.c.Count("disc_order_args_overwritten_after_call", 1)
		}
	}
	return r
}

// planAtStart decides what the worker function of w does first thing when it is started.
func (d *disc) planAtStart(w *wk, depth int) {
	if d.rng.Intn(2) == 0 {
		return
	}
	kinds := []string{"queries", "get-running", "bg-own", "bg-own", "bg-new", "bg-new"}
	if depth > 0 {
		kinds = []string{"queries", "get-running", "bg-own"}
	}
	for i, n := 0, 1+d.rng.Intn(2); i < n; i++ {
		r := d.mkOp(kinds[d.rng.Intn(len(kinds))], "at-start", w, depth)
		w.atStart = append(w.atStart, r.f)
		d.pending = append(d.pending, r)
	}
	if d.rng.Intn(6) == 0 {
		w.retAtOnce = true
	}
}

// doCmd hands one re-entrant call to the live worker w (parked in its select at a quiescent point).
func (d *disc) doCmd(w *wk, kind, stage string) {
	r := d.mkOp(kind, stage, w, 0)
	select {
	case w.cmd <- r.f:
	default:
		d.c.Inconclusive(fmt.Sprintf("disc cfg %d: live worker %s does not take a closure at a quiescent point", d.seed, w.name))
		d.dirty = true
		return
	}
	d.settle()
	d.evalOp(r)
}

// evalPending evaluates the at-start calls of workers that have been started meanwhile.
func (d *disc) evalPending() {
	list := d.pending
	d.pending = nil
	for _, r := range list {
		switch {
		case d.refused[r.by]:
		case !r.by.started.Load():
			d.pending = append(d.pending, r)
		case !d.dirty:
			d.evalOp(r)
		}
	}
}

func (d *disc) phase() string {
	if d.shutReq {
		return "shutdown-requested"
	}
	return "running"
}

// evalOp judges one re-entrant call at a quiescent point.
func (d *disc) evalOp(r *rop) {
	stage, shared := r.stage, r.shared
	what := fmt.Sprintf("%s called from inside the worker function of %s (order %d) [%s]", r.kind, r.by.name, r.by.order, stage)
	d.c.Count("evaluations", 1)
	if !r.done.Load() {
		// parked inside a call that returns on the unchanged tree. Release every other worker: if it is
		// still parked then, nothing can ever wake it.
		d.tr("%s: the call has not returned at a quiescent point", what)
		for _, w := range d.ws {
			if w != r.by {
				w.finishEarly()
			}
		}
		d.settle()
		if !r.done.Load() {
			d.violation("reentrant:"+r.kind+"-call-never-returns", what+": the call is parked while the process is quiescent and stays parked after every other worker has been released")
		} else {
			d.c.Note("disc: a re-entrant " + r.kind + " call returned only after the other workers had been released")
		}
		d.dirty = true
		return
	}
	d.c.Count("disc_reentrant_calls", 1)
	d.c.Count("disc_reentrant_"+r.kind+"_"+stage, 1)
	d.shape = append(d.shape, stage+":"+r.kind)
	if r.pan != "" {
		d.tr("%s -> panic %q", what, r.pan)
		d.violation("reentrant:"+r.kind+"-panic", what+" panicked: "+r.pan)
		d.dirty = true
		return
	}
	switch r.kind {
	case "bg-own", "bg-new", "bg-finished":
		d.c.Count("bgworker_calls", 1)
		d.tr("%s: BackgroundWorker(%s, order %d) -> %s", what, r.w.name, r.w.order, errStr(r.err))
		if stage == "at-start" && len(r.arg) > 0 {
			d.owned = append(d.owned, &ownedBuf{b: r.arg, w: r.w})
		}
		if r.argBad {
			d.violation("arg:order-slice-modified-by-call", fmt.Sprintf("%s: BackgroundWorker(%s, ..., buf...) changed the caller's order slice (passed %d)", what, r.w.name, r.w.order))
		}
		if r.err != nil {
			d.refused[r.w] = true // the at-start closures of a refused worker never run
		}
		switch {
		case r.kind == "bg-own" && r.err == nil:
			d.accept(r.w, false)
			d.violation("running-name:accepted", fmt.Sprintf("%s: BackgroundWorker(%s) returned nil although the worker function registered under that name is the one making the call", what, r.w.name))
		case r.kind == "bg-own":
			d.c.Count("disc_running_name_refused", 1)
			if errors.Is(r.err, daemon.ErrExistingBackgroundWorkerStillRunning) {
				d.c.Count("running_name_refused_still_running", 1)
			}
		case r.err == nil:
			d.accept(r.w, shared)
			if d.shutReq {
				d.c.Count("disc_reentrant_accepted_after_shutdown_request", 1) // joins the model: must be cancelled in order and waited for
			} else {
				d.c.Count("disc_reentrant_registrations_accepted", 1)
				if r.w.retAtOnce {
					d.c.Count("disc_workers_returning_at_once", 1)
				}
			}
			if r.kind == "bg-finished" {
				d.c.Count("disc_reregistrations", 1)
			}
		case !d.shutReq && stage != "at-start":
			d.c.Note("disc: re-entrant registration of a free name on a running daemon refused: " + r.err.Error())
		default:
			d.c.Count("disc_reentrant_registrations_refused_after_shutdown_request", 1)
		}
	case "queries":
		d.c.Count("query_calls", len(r.plan))
		d.tr("%s: %d calls", what, len(r.plan))
		if stage != "at-start" { // made at a quiescent point: the model defines the results
			d.judgeQueries(d.phase(), &r.qr)
		}
	case "get-running":
		d.tr("%s: GetRunningBackgroundWorkers() = %v (held by the worker function)", what, r.names)
		if stage != "at-start" {
			d.judgeQueries(d.phase(), &queryResult{running: [][]string{append([]string(nil), r.names...)}})
		}
		d.hold(r.names, "worker function")
	case "shutdown":
		d.tr("%s: Shutdown() returned", what)
		d.shutReq = true
		d.flags["shutdown-by-worker"] = true
		d.c.Count("disc_shutdown_requested_by_worker_function", 1)
	}
}

// ---------------------------------------------------------------- held results

func (d *disc) hold(names []string, from string) {
	d.held = append(d.held, &heldRes{orig: names, copy: append([]string(nil), names...), from: from})
	d.c.Count("disc_held_results", 1)
}

func sameStrings(a, b []string) bool {
	if len(a) != len(b) {
		return false
	}
	for i := range a {
		if a[i] != b[i] {
			return false
		}
	}
	return true
}

// recheckHeld: after every step the held results must still be what they were; a share of
// them is then scribbled by the caller.
func (d *disc) recheckHeld() {
	keep := d.held[:0]
	for _, h := range d.held {
		d.c.Count("disc_held_rechecks", 1)
		d.c.Count("evaluations", 1)
		if !sameStrings(h.orig, h.copy) {
			d.violation("held:get-running-result-changed", fmt.Sprintf("a slice returned by GetRunningBackgroundWorkers (held by the %s) changed after it was returned: was %v, is %v", h.from, h.copy, h.orig))
			continue
		}
		h.age++
		if !h.scribbled && d.rng.Intn(3) == 0 {
			h.scribbled = true
			d.c.Count("disc_held_scribbled", 1)
			switch d.rng.Intn(5) {
			case 0:
				for i := range h.orig {
					h.orig[i] = fmt.Sprintf("scribbled-%d", i)
				}
			case 1:
				for i, j := 0, len(h.orig)-1; i < j; i, j = i+1, j-1 {
					h.orig[i], h.orig[j] = h.orig[j], h.orig[i]
				}
			case 2: // re-slice and append within the capacity
				full := h.orig[:cap(h.orig)]
				h.orig = h.orig[:0]
				for i := range full {
					h.orig = append(h.orig, fmt.Sprintf("within-%d", i))
				}
			case 3: // append beyond the capacity, then overwrite the old backing array too
				old := h.orig[:cap(h.orig)]
				for i := 0; i <= cap(old); i++ {
					h.orig = append(h.orig, "beyond")
				}
				for i := range old {
					old[i] = "old-backing"
				}
			default: // names of other workers, duplicated
				full := h.orig[:cap(h.orig)]
				for i := range full {
					if len(d.ws) > 0 {
						full[i] = d.ws[d.rng.Intn(len(d.ws))].name
					}
				}
			}
			h.copy = append([]string(nil), h.orig...)
		}
		if h.age < 5 {
			keep = append(keep, h)
		}
	}
	d.held = keep
}

// ctlGetRunning: the controller calls GetRunningBackgroundWorkers and keeps the result.
func (d *disc) ctlGetRunning() {
	var names []string
	d.reg.Start(func() { names = d.d.GetRunningBackgroundWorkers() })
	d.settle()
	if d.reg.Busy() {
		d.c.Inconclusive(fmt.Sprintf("disc cfg %d: GetRunningBackgroundWorkers is blocked", d.seed))
		d.dirty = true
		return
	}
	if p := d.reg.TakePanic(); p != "" {
		d.violation("query:panic", "GetRunningBackgroundWorkers panicked: "+p)
		return
	}
	ph := d.phase()
	if !d.started {
		ph = "before-start"
	}
	d.judgeQueries(ph, &queryResult{running: [][]string{append([]string(nil), names...)}})
	d.hold(names, "caller")
}

// ---------------------------------------------------------------- scenario

// step: settle, evaluate the at-start calls of freshly started workers, the invariants of the
// stage, the held results.
func (d *disc) step() []gdump.G {
	gs := d.settle()
	d.evalPending()
	if d.dirty {
		return gs
	}
	if d.decoyRuns.Load() > 0 {
		d.violation("arg:handler-variable-followed", "the daemon ran the function the caller's handler variable was pointed to AFTER the BackgroundWorker call instead of the registered one")
	}
	if d.shutReq {
		gs = d.checkShutdown(gs)
	} else if d.started {
		d.checkPre()
	}
	d.recheckHeld()
	return gs
}

func (d *disc) pickLive(preferCancelled bool) *wk {
	live := d.liveWorkers()
	if len(live) == 0 {
		return nil
	}
	if preferCancelled && d.rng.Intn(3) != 0 {
		var c []*wk
		for _, w := range live {
			if w.cancelled() {
				c = append(c, w)
			}
		}
		if len(c) > 0 {
			return c[d.rng.Intn(len(c))]
		}
	}
	return live[d.rng.Intn(len(live))]
}

func (d *disc) run() bool {
	rng := d.rng
	d.mode = "disc"
	d.d = d.newDaemon()
	d.reg = d.actor("registrar")
	d.pool = genPool(rng, 2+rng.Intn(3))
	d.obuf = make([]int, 1, 4)
	d.nbuf = make([]byte, 16)
	d.sharedSeen = map[int]bool{}
	d.refused = map[*wk]bool{}
	switch r := rng.Intn(10); {
	case r < 6:
		d.bufMode = 0
	case r < 8:
		d.bufMode = 1
	default:
		d.bufMode = 2
	}
	d.useRun = rng.Intn(10) < 3
	shutByWorker := rng.Intn(20) < 7
	atStartShutdown := rng.Intn(12) == 0

	// --- registrations before Start: distinct orders through the caller's buffer(s)
	nPre := 2 + rng.Intn(4)
	for i := 0; i < nPre && !d.dirty; i++ {
		o, has := d.pickOrder(false)
		if i < 2 {
			o, has = d.pool[i], true
		}
		w := d.newD(d.newName(), o, has)
		w.preRun = true
		d.planAtStart(w, 0)
		if atStartShutdown && i == nPre-1 {
			r := d.mkOp("shutdown", "at-start", w, 0)
			w.atStart = append(w.atStart, r.f)
			d.pending = append(d.pending, r)
			w.retAtOnce = false
		}
		if w.retAtOnce {
			d.c.Count("disc_workers_returning_at_once", 1)
		}
		if err, ok := d.registerD(w, "before Start"); ok && err != nil {
			d.c.Note("disc: registration of a fresh name before Start refused: " + err.Error())
		}
	}
	if d.dirty {
		return d.cleanup()
	}
	if rng.Intn(2) == 0 {
		d.ctlGetRunning()
		d.recheckHeld()
	}
	d.scribbleBufs("before-start")

	// --- start
	d.started = true
	starter := d.actor("starter")
	if d.useRun {
		d.runner = starter
		starter.Start(func() { d.d.Run(); d.runTick.Store(tick()) })
		d.tr("Run() in its own goroutine")
		d.flags["run"] = true
	} else {
		starter.Start(func() { d.d.Start() })
		d.tr("Start() in its own goroutine")
	}
	d.settle()
	if p := starter.TakePanic(); p != "" {
		d.violation("disc:start-panic", "Start/Run panicked: "+p)
		d.dirty = true
		return d.cleanup()
	}
	if !d.useRun && starter.Busy() {
		d.c.Inconclusive(fmt.Sprintf("disc cfg %d: Start() is blocked", d.seed))
		d.dirty = true
		return d.cleanup()
	}
	d.step()
	d.scribbleBufs("after-start")
	d.step()

	// --- while running
	for i, n := 0, 2+rng.Intn(5); i < n && !d.dirty && !d.shutReq; i++ {
		switch op := rng.Intn(12); {
		case op < 2: // the controller adds a worker
			o, has := d.pickOrder(true)
			w := d.newD(d.newName(), o, has)
			d.planAtStart(w, 0)
			if err, ok := d.registerD(w, "daemon running"); ok && err == nil {
				d.flags["added-while-running"] = true
				if w.retAtOnce {
					d.c.Count("disc_workers_returning_at_once", 1)
				}
			}
		case op < 3: // a worker returns on its own
			if w := d.pickLive(false); w != nil {
				w.finishEarly()
				d.tr("worker %s (order %d) returns on its own before shutdown", w.name, w.order)
				d.flags["early-finish"] = true
			}
		case op < 5: // the controller re-registers a finished name (e.g. of a worker that returned at once)
			var fin []*wk
			for _, w := range d.byName {
				if w.returned.Load() {
					fin = append(fin, w)
				}
			}
			if len(fin) == 0 {
				continue
			}
			sort.Slice(fin, func(i, j int) bool { return fin[i].name < fin[j].name })
			old := fin[rng.Intn(len(fin))]
			o, _ := d.pickOrder(true)
			for o == old.order {
				o = neighbour(rng, o)
			}
			w := d.newD(old.name, o, true)
			d.planAtStart(w, 0)
			if err, ok := d.registerD(w, fmt.Sprintf("re-registration of a finished name (was order %d)", old.order)); ok && err == nil {
				d.flags["re-register"] = true
				d.c.Count("disc_reregistrations", 1)
				if old.retAtOnce {
					d.c.Count("disc_reregistered_after_return_at_once", 1)
				}
			}
		case op < 6: // the controller tries a running name: refused, no side effect
			cur := d.pickLive(false)
			if cur == nil {
				continue
			}
			o, has := d.pickOrder(true)
			w := d.newD(cur.name, o, has)
			err, ok := d.registerD(w, "running name")
			if ok {
				d.c.Count("evaluations", 1)
				d.c.Count("disc_running_name_refused", 1)
				if err == nil {
					d.violation("running-name:accepted", fmt.Sprintf("BackgroundWorker(%s) returned nil although the worker registered under that name has not returned", w.name))
				}
			}
		case op < 7:
			d.ctlGetRunning()
		case op < 8:
			d.scribbleBufs("while-running")
		default: // a worker function calls back into the daemon
			if w := d.pickLive(false); w != nil {
				d.doCmd(w, ropKinds[rng.Intn(len(ropKinds))], "running")
			}
		}
		if !d.dirty {
			d.step()
		}
	}
	if d.dirty {
		return d.cleanup()
	}

	// --- shutdown request: by the caller, or by a worker function
	d.scribbleBufs("before-shutdown")
	if !d.shutReq {
		d.queries("running", nil)
		if w := d.pickLive(false); shutByWorker && w != nil {
			d.doCmd(w, "shutdown", "running")
		} else {
			n := 1
			if rng.Intn(4) == 0 {
				n = 2
			}
			d.startShutdownCallers(n)
			d.shutReq = true
		}
	}
	if d.dirty {
		return d.cleanup()
	}
	gs := d.step()
	atShutdown := d.liveWorkers()
	var ms []string
	distinct := map[int]bool{}
	sharedDistinct := map[int]bool{}
	for _, w := range atShutdown {
		ms = append(ms, fmt.Sprint(w.order))
		distinct[w.order] = true
		if d.sharedSeen[w.order] {
			sharedDistinct[w.order] = true
		}
	}
	sort.Strings(ms)

	// --- winding down
	for !d.dirty {
		if rng.Intn(2) == 0 {
			if w := d.pickLive(true); w != nil {
				stage := "winding-down"
				if w.cancelled() {
					stage = "cancelled"
				}
				kinds := append([]string{"shutdown"}, ropKinds...)
				d.doCmd(w, kinds[rng.Intn(len(kinds))], stage)
				if d.dirty {
					break
				}
				gs = d.step()
			}
		}
		if rng.Intn(3) == 0 {
			d.scribbleBufs("during-shutdown")
		}
		if rng.Intn(4) == 0 {
			d.ctlGetRunning()
			gs = d.step()
		} else if rng.Intn(3) == 0 {
			gs = d.queries("shutdown-requested", gs)
			gs = d.step()
		}
		if d.dirty {
			break
		}
		var cand, unc []*wk
		for _, w := range d.liveWorkers() {
			if w.cancelled() {
				cand = append(cand, w)
			} else {
				unc = append(unc, w)
			}
		}
		if len(cand)+len(unc) == 0 {
			break
		}
		var w *wk
		if len(unc) > 0 && (len(cand) == 0 || rng.Intn(8) == 0) {
			if len(cand) == 0 {
				break // stalled shutdown (already reported): nothing will cancel these
			}
			w = unc[rng.Intn(len(unc))]
			w.finishEarly()
			d.tr("worker %s (order %d) returns on its own during shutdown, before being cancelled", w.name, w.order)
		} else {
			w = cand[rng.Intn(len(cand))]
			w.openGate()
			d.tr("cancelled worker %s (order %d) is allowed to return", w.name, w.order)
			d.c.Count("gate_releases", 1)
		}
		d.opened = append(d.opened, fmt.Sprint(w.order))
		gs = d.step()
		if !d.dirty && !w.returned.Load() {
			d.c.Inconclusive(fmt.Sprintf("disc cfg %d: released worker did not return", d.seed))
			d.dirty = true
		}
	}
	if d.dirty {
		return d.cleanup()
	}

	// --- end of the shutdown
	gs = d.settle()
	stalled := len(d.liveWorkers()) > 0
	if !stalled {
		if v := d.shutdownView(gs); v.blind != "" {
			d.c.Inconclusive(fmt.Sprintf("disc cfg %d: after all workers returned: %s", d.seed, v.blind))
			d.dirty = true
		} else if len(v.inside) > 0 {
			d.violation("hang:shutdown-parked-after-all-workers-returned", fmt.Sprintf("every worker has returned, the harness holds no gate and the process is quiescent, but %d goroutine(s) are still blocked inside Shutdown/ShutdownAndWait (state %q)", len(v.inside), v.inside[0].State))
			d.dirty = true
		}
	}
	if !d.dirty && !stalled {
		fin := &shutCaller{a: d.actor("final"), wait: true}
		d.shut = append(d.shut, fin)
		fin.a.Start(func() { d.d.ShutdownAndWait(); fin.retTick.Store(tick()) })
		d.settle()
		for _, sc := range d.shut {
			if sc.a.Busy() {
				d.violation("hang:shutdown-call-blocked-after-all-workers-returned", "every worker has returned and the process is quiescent, but a Shutdown/ShutdownAndWait call has not returned")
				d.dirty = true
				break
			}
			if sc.wait {
				for _, w := range d.ws {
					if !w.started.Load() {
						continue
					}
					d.c.Count("evaluations", 1)
					if rt := w.retTick.Load(); rt == 0 || rt > sc.retTick.Load() {
						d.violation("wait:shutdownandwait-returned-before-worker", fmt.Sprintf("ShutdownAndWait returned at tick %d, worker %s returned at tick %d", sc.retTick.Load(), w.name, rt))
					}
				}
			}
		}
		if d.useRun && d.runner.Busy() && !d.dirty {
			d.violation("hang:run-blocked-after-all-workers-returned", "every worker has returned and the process is quiescent, but Run has not returned")
			d.dirty = true
		}
	}
	if !d.dirty && !stalled {
		d.scribbleBufs("after-shutdown")
		d.ctlGetRunning()
		d.recheckHeld()
		d.queries("after-shutdown", nil)
		w := d.newD(d.newName(), d.pool[0], true)
		err, ok := d.registerD(w, "after shutdown")
		if ok {
			d.c.Count("evaluations", 1)
			d.c.Count("post_shutdown_calls", 1)
			if err == nil {
				d.violation("after:bgworker-accepted-after-shutdown", "BackgroundWorker called after ShutdownAndWait returned was accepted (returned nil)")
			}
		}
		if !d.dirty {
			startedBefore := map[*wk]bool{}
			for _, x := range d.ws {
				startedBefore[x] = x.started.Load()
			}
			d.d.Start()
			d.settle()
			for _, x := range d.ws {
				if x.started.Load() && !startedBefore[x] {
					d.violation("after:worker-started-after-shutdown", fmt.Sprintf("Start() after shutdown started worker %s", x.name))
				}
			}
			if w.started.Load() {
				d.violation("after:worker-started-after-shutdown", "a worker registered after shutdown was started")
			}
		}
		d.recheckHeld()
	}

	// --- evidence
	d.c.Count("disc_configurations", 1)
	d.countAPI("disc")
	if len(distinct) >= 2 && len(d.opened) >= 1 {
		d.c.Count("disc_configs_with_two_orders_at_shutdown", 1)
	}
	if len(sharedDistinct) >= 2 {
		d.c.Count("disc_configs_distinct_orders_through_one_buffer", 1) // >= 2 distinct orders of workers live at shutdown went through the ONE reused buffer
	}
	var fl []string
	for f := range d.flags {
		fl = append(fl, f)
	}
	sort.Strings(fl)
	d.c.Distinct("disc_shapes", strings.Join(d.shape, " ")+"|"+strings.Join(fl, "+"))
	d.c.Distinct("disc_release_orders", strings.Join(ms, ",")+"|"+strings.Join(d.opened, ","))
	if d.c.WantSample() && len(d.shape) >= 3 && len(distinct) >= 2 {
		d.c.Sample(map[string]any{"disc_cfg_seed": d.seed, "trace": d.trace})
	}
	return d.cleanup()
}

func runDisc(c *vf.Ctx, seed int64, idx int) bool { return runDiscOn(c, seed, idx, false, false) }

func runDiscOn(c *vf.Ctx, seed int64, idx int, pkg, logger bool) bool {
	s := &scen{pkgLevel: pkg, withLogger: logger, c: c, seed: seed, idx: idx, rng: rand.New(rand.NewSource(seed)), qrng: rand.New(rand.NewSource(seed ^ 0x5eed0c20)), byName: map[string]*wk{}, viols: map[string]bool{}, flags: map[string]bool{}}
	d := &disc{scen: s}
	return d.run()
}

// ---------------------------------------------------------------- panic probe

const panicMarker = "c20-panic-probe-marker"

// panicProbe (own child process): what does the daemon do with a worker function that panics?
// On the unchanged tree the panic is not recovered and ends the process. Nothing is demanded.
func panicProbe(c *vf.Ctx) {
	d := daemon.New()
	unwound := make(chan struct{})
	_ = d.BackgroundWorker("steady", func(ctx context.Context) { <-ctx.Done() }, 1)
	_ = d.BackgroundWorker("panicking", func(ctx context.Context) {
		defer close(unwound)
		panic(panicMarker)
	}, 2)
	d.Start()
	<-unwound
	// only reached (for more than an instant) when the daemon recovered the panic
	d.ShutdownAndWait()
	c.Emit("survived", 1)
}
