// Worker exit vs. re-registration of the same name (free-running, plain and
// -race): while a worker's handler returns, another goroutine spins on
// BackgroundWorker(sameName, ...) – retrying on
// ErrExistingBackgroundWorkerStillRunning, Gosched only – so that the call
// lands as early as the daemon allows, i.e. inside the exit path of the old
// worker (Done / cleanupWorker / running flag). Several names and orders at
// once, up to three generations per name, then shutdown (after or during the
// re-registrations). Oracles: every accepted worker is started, is cancelled at
// its turn, and has returned before ShutdownAndWait / Run return.
package main

import (
	"errors"
	"fmt"
	"math/rand"
	"runtime"
	"strings"
	"sync"
	"sync/atomic"

	"github.com/iotaledger/hive.go/app/daemon"
	"verif/harness/internal/gdump"
	"verif/harness/internal/vf"
)

func reregOne(c *vf.Ctx, seed int64, batch, iter int, race bool) {
	rng := rand.New(rand.NewSource(seed))
	rep := replayRec{Mode: "stress", Race: race, Batch: batch, From: iter, Iters: iter + 1}
	viol := func(fp, what string) { c.Violation(fp, what, rep) }
	it := &stressIter{}
	d := daemon.New()
	pool := genPool(rng, 1+rng.Intn(3))
	newW := func(name, kind string) *swk {
		return &swk{it: it, name: name, kind: kind, order: pool[rng.Intn(len(pool))], jit: rng.Intn(6), early: make(chan struct{})}
	}
	var all []*swk
	var mu sync.Mutex
	// lastWorker mode: one name, no bystanders, Run waiting: every exit drops the number of running
	// workers to zero (Run is woken) while the re-registration starts the next worker right away
	lastWorker := rng.Intn(4) == 0
	nNames := 2 + rng.Intn(4)
	if lastWorker {
		nNames = 1
	}
	first := make([]*swk, nNames)
	for i := range first {
		w := newW(fmt.Sprintf("n%d", i), "pre")
		call(d, w)
		it.add(w)
		first[i] = w
		all = append(all, w)
	}
	nBy := rng.Intn(3)
	if lastWorker {
		nBy = 0
	}
	for i, n := 0, nBy; i < n; i++ { // bystanders: only leave when cancelled
		w := newW(fmt.Sprintf("b%d", i), "pre")
		call(d, w)
		it.add(w)
		all = append(all, w)
	}
	runQueries(d, queryPlan(rng, false, true), nil) // before Start
	useRun := rng.Intn(4) == 0 || lastWorker
	var runRet, runGID atomic.Uint64
	var runPanic atomic.Pointer[string]
	var wg, spinWG sync.WaitGroup
	if useRun {
		wg.Add(1)
		go func() {
			defer wg.Done()
			defer func() {
				if r := recover(); r != nil {
					m := panicString(r)
					runPanic.Store(&m)
				}
			}()
			runGID.Store(gdump.GoID())
			d.Run()
			runRet.Store(tick())
		}()
		for !d.IsRunning() {
			runtime.Gosched()
		}
		c.Count("rereg_run_variant", 1)
	} else {
		d.Start()
	}
	curIter.Store(it)
	nQueries := 0
	for q, nq := 0, rng.Intn(3); q < nq; q++ { // queriers racing with worker exits and re-registrations
		qr := rand.New(rand.NewSource(rng.Int63()))
		plans := [][]int{queryPlan(qr, true, true), queryPlan(qr, true, true), queryPlan(qr, true, true), queryPlan(qr, true, true)}
		gaps := []int{qr.Intn(30), qr.Intn(30), qr.Intn(30), qr.Intn(30)}
		for _, p := range plans {
			nQueries += len(p)
		}
		spinWG.Add(1)
		go func() {
			defer spinWG.Done()
			for i, p := range plans {
				gosched(gaps[i])
				runQueries(d, p, nil)
			}
		}()
	}
	prePlan := queryPlan(rng, true, true)
	nQueries += len(prePlan)

	var attempts, whileExiting, acceptedEarly, accepted, runSeenWaiting atomic.Int64
	for i := range first {
		old := first[i]
		rr := rand.New(rand.NewSource(rng.Int63()))
		rounds := 1 + rr.Intn(3)
		if lastWorker {
			rounds = 3
		}
		var plan []*swk
		var leads []int
		for r := 0; r < rounds; r++ {
			w := newW(old.name, "exitrereg")
			if rr.Intn(2) == 0 {
				w.order = old.order // same wait group as the exiting worker
			}
			plan = append(plan, w)
			leads = append(leads, rr.Intn(24))
		}
		spinWG.Add(1)
		go func() {
			defer spinWG.Done()
			var mine []*swk
			for r, nw := range plan {
				nw.target = old
				it.add(nw)
				sawExitRefusal := false
				for n := 0; ; n++ {
					if n == leads[r] {
						old.release() // the old handler returns while we keep calling
					}
					exiting := old.returned.Load()
					call(d, nw)
					attempts.Add(1)
					if n > 1<<22 {
						c.Inconclusive(fmt.Sprintf("re-registration of %s is refused as still running for ever", nw.name))
						break
					}
					if nw.pan == "" && errors.Is(nw.err, daemon.ErrExistingBackgroundWorkerStillRunning) {
						if exiting {
							whileExiting.Add(1)
							sawExitRefusal = true
						}
						runtime.Gosched()
						continue
					}
					break
				}
				mine = append(mine, nw)
				if nw.pan != "" || nw.err != nil {
					break
				}
				accepted.Add(1)
				if id := runGID.Load(); id != 0 && runRet.Load() == 0 {
					// was Run still waiting after this acceptance? (the only sound way to say that Run's
					// decision to return came after the acceptance: ticks only bound Run's return from above)
					// "still waiting" = the goroutine is inside the exported Run frame and blocked (parked on a
					// channel / sync primitive, or sleeping): whatever it waits on, it has not made its way out
					// of Run yet. A goroutine that merely has not left Run's epilogue is not blocked.
					if g, ok := gdump.Find(gdump.Snapshot(), id); ok && g.Has("daemon.(*OrderedDaemon).Run") &&
						stillWaiting(g, "daemon.(*OrderedDaemon).Run") {
						nw.runWaiting = true
						runSeenWaiting.Add(1)
					}
				}
				if sawExitRefusal {
					acceptedEarly.Add(1)
				}
				old = nw
			}
			mu.Lock()
			all = append(all, mine...)
			mu.Unlock()
		}()
	}
	concurrentShutdown := rng.Intn(5) < 2
	var shutRet atomic.Uint64
	var shutPanic atomic.Pointer[string]
	shutdown := func(lead int) {
		defer func() {
			if r := recover(); r != nil {
				m := panicString(r)
				shutPanic.CompareAndSwap(nil, &m)
			}
		}()
		gosched(lead)
		runQueries(d, prePlan, nil) // right before the shutdown request
		it.shutReq.Store(true)
		d.ShutdownAndWait()
		shutRet.Store(tick())
	}
	if concurrentShutdown {
		lead := rng.Intn(80)
		wg.Add(1)
		go func() { defer wg.Done(); shutdown(lead) }()
		spinWG.Wait()
	} else {
		spinWG.Wait()
		shutdown(0)
	}
	wg.Wait()
	curIter.Store(nil)
	T := shutRet.Load()
	c.Count("stress_iterations", 1)
	c.Count("rereg_iterations", 1)
	c.Count("rereg_run_seen_waiting_after_acceptance", int(runSeenWaiting.Load()))
	if lastWorker {
		c.Count("rereg_last_worker_mode", 1)
	}
	c.Count("stress_query_calls", nQueries)
	c.Count("rereg_attempts", int(attempts.Load()))
	c.Count("rereg_attempts_while_old_worker_exiting", int(whileExiting.Load()))
	c.Count("rereg_accepted", int(accepted.Load()))
	c.Count("rereg_accepted_early", int(acceptedEarly.Load()))
	if concurrentShutdown {
		c.Count("rereg_concurrent_shutdown", 1)
	}

	if m := shutPanic.Load(); m != nil {
		viol("exit-rereg:shutdown-panic", "worker exit vs re-registration: ShutdownAndWait panicked: "+*m)
		if T == 0 {
			T = tick()
		}
	}
	if m := runPanic.Load(); m != nil {
		cls := "other"
		if strings.Contains(*m, "WaitGroup") {
			cls = "waitgroup"
		}
		viol("exit-rereg:run-panic-"+cls, "worker exit vs re-registration: Run panicked: "+*m)
	}
	if m := it.deadlock.Load(); m != nil {
		viol("exit-rereg:leaked-uncancelled-worker", "worker exit vs re-registration: "+*m)
	}
	if s := it.orderViol.Load(); s != nil {
		viol("order:cancelled-before-higher-returned", *s)
	}
	reportRestart(it, viol)
	RT := runRet.Load()
	for _, w := range all {
		c.Count("evaluations", 1)
		switch {
		case w.pan != "":
			viol("exit-rereg:bgworker-panic", fmt.Sprintf("BackgroundWorker(%s) called while the previous worker of that name was exiting panicked: %s", w.name, w.pan))
			continue
		case w.err != nil:
			continue
		}
		if w.kind == "exitrereg" && !w.targetReturnedAtRet {
			viol("running-name:accepted", fmt.Sprintf("BackgroundWorker(%s) returned nil although the handler registered under that name had not returned when the call returned", w.name))
		}
		rt := w.retTick.Load()
		// Run: workers registered before Run was called, and workers whose acceptance was followed by a
		// snapshot with Run still waiting, must have returned before Run did
		runBad := RT != 0 && (w.kind == "pre" || w.runWaiting) && (rt == 0 || rt > RT)
		if runBad {
			viol("wait:run-returned-before-worker", fmt.Sprintf("worker exit vs re-registration: Run returned at tick %d while worker %s (%s, accepted by the call %d..%d, Run seen still waiting afterwards: %v) returned at tick %d", RT, w.name, w.kind, w.callTick, w.callRet, w.runWaiting, rt))
		}
		if rt != 0 && rt < T {
			continue
		}
		started := false
		for i := 0; i < 1<<22; i++ { // accepted by a running daemon => the daemon spawned it
			if started = w.started.Load(); started {
				break
			}
			runtime.Gosched()
		}
		p := w.ctx.Load()
		cancelled := p != nil && (*p).Err() != nil
		switch {
		case !started:
			viol("exit-rereg:accepted-not-started", fmt.Sprintf("BackgroundWorker(%s, order %d) returned nil on a running daemon but the handler was never started", w.name, w.order))
		case !cancelled:
			viol("exit-rereg:leaked-uncancelled-worker", fmt.Sprintf("BackgroundWorker(%s, order %d, kind %s) was accepted (call started at tick %d, returned at tick %d) while the previous worker of that name was exiting; ShutdownAndWait returned at tick %d, the worker has not returned and its context is not cancelled [lastWorker=%v run=%v runReturned=%d concurrentShutdown=%v names=%d] chain: %s", w.name, w.order, w.kind, w.callTick, w.callRet, T, lastWorker, useRun, RT, concurrentShutdown, nNames, chainOf(all, w.name)))
		default:
			viol("wait:shutdownandwait-returned-before-worker", fmt.Sprintf("worker exit vs re-registration: ShutdownAndWait returned at tick %d, accepted worker %s returned at tick %d", T, w.name, rt))
		}
	}
	for _, w := range all {
		if !w.returned.Load() {
			w.release()
		}
	}
}

func chainOf(all []*swk, name string) string {
	var b strings.Builder
	for _, w := range all {
		if w.name != name {
			continue
		}
		e := "nil"
		if w.err != nil {
			e = w.err.Error()
		}
		fmt.Fprintf(&b, "{%s order=%d call=%d..%d err=%s pan=%q started=%v returned=%v ret=%d runs=%d} ", w.kind, w.order, w.callTick, w.callRet, e, w.pan, w.started.Load(), w.returned.Load(), w.retTick.Load(), w.runs.Load())
	}
	return b.String()
}

// stillWaiting reports whether goroutine g is blocked, or on its way into/out of a
// blocking standard-library wait, below the frame `outer`. It does not matter which
// primitive: parked on anything, sleeping, or (runnable, e.g. just woken) inside a
// sync acquire/wait function or a channel operation. A goroutine that is merely
// finishing `outer` (e.g. in a deferred Unlock) is not waiting.
func stillWaiting(g gdump.G, outer string) bool {
	if !g.Has(outer) {
		return false
	}
	if g.Parked() || g.State == "sleep" {
		return true
	}
	for _, f := range g.Frames { // innermost first
		if strings.Contains(f, outer) {
			break
		}
		switch {
		case strings.HasPrefix(f, "sync.") && !strings.Contains(f, "Unlock") &&
			(strings.Contains(f, "Wait") || strings.Contains(f, "Lock") || strings.Contains(f, ").Do")):
			return true
		case strings.HasPrefix(f, "runtime.chanrecv"), strings.HasPrefix(f, "runtime.chansend"), strings.HasPrefix(f, "runtime.selectgo"):
			return true
		}
	}
	return false
}
